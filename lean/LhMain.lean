import Pm.LsdHash
/-! Line-protocol driver of the bucket-level model of `liblsd/hash.c` (`Pm/LsdHash.lean`); the same protocol over the real
`hash.c` is `harness/u_hash.c`.  Keys are byte strings (hex on the wire, `hash_key_string` / `strcmp`), data are positive integers.

    N size del     hash_destroy of the current table (if any), then hash_create (size, hash_key_string, strcmp, del ? f : NULL)
                                                           -> N <items the deletion function was called on>
    I key data     hash_insert                             -> I v      (0 = NULL)
    F key | R key  hash_find / hash_remove                 -> F v | R v
    C              hash_count, hash_is_empty               -> C n e
    D m r | E m r  hash_delete_if / hash_for_each with the callback  data % m == r ? 1 : 0
                                                           -> D n <items deleted by del_f> | E n

each answer is followed by ` | count | size | free nodes | the non-empty slots in order as slot:key=data,key=data,...` -/
open Pm.LsdHash

def hexVal (c : Char) : Nat :=
  if c.toNat ≥ 97 then c.toNat - 87 else if c.toNat ≥ 65 then c.toNat - 55 else c.toNat - 48

def unhex (s : String) : List UInt8 :=
  if s == "-" then [] else
  let rec go : List Char → List UInt8 → List UInt8
    | a :: b :: rest, acc => go rest (UInt8.ofNat (hexVal a * 16 + hexVal b) :: acc)
    | _, acc => acc.reverse
  go s.toList []

def hexDigit (n : Nat) : Char := if n < 10 then Char.ofNat (48 + n) else Char.ofNat (87 + n)

def hexOf (bs : List UInt8) : String :=
  if bs.isEmpty then "-" else
  bs.foldl (fun s b => (s.push (hexDigit (b.toNat / 16))).push (hexDigit (b.toNat % 16))) ""

abbrev T := Table (List UInt8) Nat

def showItems (xs : List Nat) : String := if xs.isEmpty then "-" else " ".intercalate (xs.map toString)

def stateOf (t : T) : String :=
  let slots := (List.range t.size).filterMap (fun s =>
    let c := chain t s
    if c.isEmpty then none else some (s!"{s}:" ++ ",".intercalate (c.map (fun e => s!"{hexOf e.1}={e.2}"))))
  s!" | {t.count} | {t.size} | {t.nfree} | {if slots.isEmpty then "-" else " ".intercalate slots}"

partial def loop (h : IO.FS.Stream) (out : IO.FS.Stream) (nfree : Nat) (st : Option T) : IO Unit := do
  let line ← h.getLine
  if line.isEmpty then return ()
  let ln := if line.endsWith "\n" then (line.dropEnd 1).toString else line
  let say (ans : String) (t : T) : IO Unit := do
    out.putStrLn (ans ++ stateOf t); out.flush; loop h out t.nfree (some t)
  match ln.splitOn " ", st with
  | ["N", sz, dl], _ =>
    let (del, nf) : List Nat × Nat := match st with
      | none => ([], nfree)
      | some t => destroy t
    let t : T := create sz.toInt! (fun k => (keyString k).toNat) (dl == "1") nf
    say s!"N {showItems del}" t
  | _, none => out.putStrLn "no-table"; out.flush; loop h out nfree none
  | ["I", k, d], some t => let r := insert t (unhex k) d.toNat!; say s!"I {r.1.getD 0}" r.2
  | ["F", k], some t => say s!"F {(find t (unhex k)).getD 0}" t
  | ["R", k], some t => let r := remove t (unhex k); say s!"R {r.1.getD 0}" r.2
  | ["C"], some t => say s!"C {countOf t} {if isEmpty t then 1 else 0}" t
  | ["D", m, r], some t =>
    let x := deleteIf t (fun d => if d % m.toNat! == r.toNat! then 1 else 0); say s!"D {x.1} {showItems x.2.1}" x.2.2
  | ["E", m, r], some t => say s!"E {forEach t (fun d => if d % m.toNat! == r.toNat! then 1 else 0)}" t
  | _, some t => out.putStrLn "bad-op"; out.flush; loop h out nfree (some t)

def main : IO Unit := do loop (← IO.getStdin) (← IO.getStdout) 0 none
