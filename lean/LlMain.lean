import Pm.LsdList
/-! Line-protocol driver of the node-level model of `liblsd/list.c` (`Pm/LsdList.lean`); the same protocol over the real
`list.c` is `harness/u_list.c`.  Items are positive integers (cast to `void *` in C).  One op per line, one answer per line:

    N fdel         list_destroy of the current list (if any), then list_create (fdel = 1: with a deletion function)
                                                                   -> N <items the deletion function was called on>
    A x | P x | U x | E x     list_append / list_prepend / list_push / list_enqueue            -> A x ...
    O | Q | K      list_pop / list_dequeue / list_peek                                         -> O v      (0 = NULL)
    Y              list_is_empty, list_count                                                   -> Y e n
    F m r          list_find_first with the predicate  x % m == r                             -> F v
    D m r          list_delete_all with that predicate                                         -> D n <items deleted by fDel>
    H m r          list_for_each with f(x) = x % m == r ? -1 : 0                               -> H n
    S kind a b     list_sort with the comparison `cmp kind a b` (below)                        -> S
    I k | R k | X k     list_iterator_create (handle k) / _reset / _destroy                     -> I
    n k | i k x | f k m r | r k | d k     list_next / list_insert / list_find / list_remove / list_delete
                                                                   -> n v | i x | f v | r v | d n <items deleted by fDel>

each answer is followed by ` | count | items in order | tail ok | free nodes | iterators in chain order as k:j:g`
(`j`: `prev` is the `j`-th `next` field of the chain, 0 = `&head`; `g` = 1: `pos` is the node after the one that field holds,
0: the node that field holds; `k:?`: no such place); `-` = empty.  A call in which the C code would die answers `ASSERT`. -/
open Pm.LsdList

/-- the comparison functions of the `S` op (`x`, `y` > 0) -/
def cmpOf (kind a b : Nat) (x y : Nat) : Int :=
  match kind with
  | 0 => (x : Int) - y
  | 1 => (y : Int) - x
  | 2 => ((x % (a + 1) : Nat) : Int) - ((y % (a + 1) : Nat) : Int)
  | 3 => (((x * a + y * b + x * y) % 7 : Nat) : Int) - 3
  | 4 => (a : Int) - 1
  | _ => (((x / (a + 1)) % (b + 1) : Nat) : Int) - (((y / (a + 1)) % (b + 1) : Nat) : Int)

def showItems (xs : List Nat) : String := if xs.isEmpty then "-" else " ".intercalate (xs.map toString)

def showIter (ns : List Nat) (ki : Nat × Iter) : String :=
  match iterPlace ns ki.2 with
  | some (j, g) => s!"{ki.1}:{j}:{if g then 1 else 0}"
  | none => s!"{ki.1}:?"

def stateOf (l : LList Nat) : String :=
  match nodes l with
  | none => " | BROKEN"
  | some ns =>
    let items := ns.map (fun p => (dataOf l p).getD 0)
    let its := if l.iters.isEmpty then "-" else " ".intercalate (l.iters.map (showIter ns))
    s!" | {l.count} | {showItems items} | {if l.tail == (fieldsOf ns).getLast! then 1 else 0} | {l.free.length} | {its}"

def optItem (v : Option Nat) : Nat := v.getD 0

partial def loop (h : IO.FS.Stream) (out : IO.FS.Stream) (heap : Heap Nat) (st : Option (LList Nat)) : IO Unit := do
  let line ← h.getLine
  if line.isEmpty then return ()
  let ln := if line.endsWith "\n" then (line.dropEnd 1).toString else line
  let say (ans : String) (l : LList Nat) : IO Unit := do
    out.putStrLn (ans ++ stateOf l); out.flush; loop h out heap (some l)
  let die : IO Unit := do out.putStrLn "ASSERT"; out.flush; loop h out heap st
  let item (tag : String) (r : Option (Option Nat × LList Nat)) : IO Unit :=
    match r with
    | none => die
    | some (v, l') => say s!"{tag} {optItem v}" l'
  match ln.splitOn " ", st with
  | ["N", fd], _ =>
    let r : Option (List Nat × Heap Nat) := match st with
      | none => some ([], heap)
      | some l => destroy l
    match r with
    | none => die
    | some (del, hp) =>
      let l := create hp (fd == "1")
      out.putStrLn (s!"N {showItems del}" ++ stateOf l); out.flush; loop h out hp (some l)
  | _, none => out.putStrLn "no-list"; out.flush; loop h out heap none
  | [op, xs], some l =>
    let x := xs.toNat!
    match op with
    | "A" => match append l x with | none => die | some l' => say s!"A {x}" l'
    | "P" => match prepend l x with | none => die | some l' => say s!"P {x}" l'
    | "U" => match push l x with | none => die | some l' => say s!"U {x}" l'
    | "E" => match enqueue l x with | none => die | some l' => say s!"E {x}" l'
    | "I" => if (iterOf l x).isSome then die else say "I" (iteratorCreate l x)
    | "R" => match iteratorReset l x with | none => die | some l' => say "R" l'
    | "X" => match iteratorDestroy l x with | none => die | some l' => say "X" l'
    | "n" => item "n" (next l x)
    | "r" => item "r" (remove l x)
    | "d" => match delete l x with | none => die | some (n, del, l') => say s!"d {n} {showItems del}" l'
    | _ => out.putStrLn "bad-op"; out.flush; loop h out heap (some l)
  | ["O"], some l => item "O" (pop l)
  | ["Q"], some l => item "Q" (dequeue l)
  | ["K"], some l => match peek l with | none => die | some v => say s!"K {optItem v}" l
  | ["Y"], some l => say s!"Y {if isEmpty l then 1 else 0} {countOf l}" l
  | ["F", m, r], some l =>
    match findFirst l (fun x => x % m.toNat! == r.toNat!) with | none => die | some v => say s!"F {optItem v}" l
  | ["D", m, r], some l =>
    match deleteAll l (fun x => x % m.toNat! == r.toNat!) with
    | none => die
    | some (n, del, l') => say s!"D {n} {showItems del}" l'
  | ["H", m, r], some l =>
    match forEach l (fun x => if x % m.toNat! == r.toNat! then -1 else 0) with | none => die | some n => say s!"H {n}" l
  | ["S", k, a, b], some l =>
    match sort l (cmpOf k.toNat! a.toNat! b.toNat!) with | none => die | some l' => say "S" l'
  | ["i", k, x], some l => match insert l k.toNat! x.toNat! with | none => die | some l' => say s!"i {x}" l'
  | ["f", k, m, r], some l => item "f" (find (fun x => x % m.toNat! == r.toNat!) (l.cells.size + 2) l k.toNat!)
  | _, some l => out.putStrLn "bad-op"; out.flush; loop h out heap (some l)

def main : IO Unit := do loop (← IO.getStdin) (← IO.getStdout) { cells := #[], free := [] } none
