import Pm.ConfigModel
/-! line-protocol driver of the configuration model (C13), compared with `harness/u_confdump.c` by `lib/config.py`.

Input, one case after the other:
    SPEC :name hard :plug :plug ...     |  SPEC :name free
    DEVICE :name :spec
    NODE :nodestr :dev [:plugstr]
    ALIAS :name :hosts
    END
Every string field starts with `:`; inside, `%20` `%09` `%25` stand for blank, tab, percent (host strings may hold blanks).
Output per case: the dump of the accepted configuration in the format of `u_confdump`
    DEV name spec plug=node|- ...   /  NODES n ...  /  ALIAS name h ...  /  OK
or `REJECT <class> <line-index>`, then a line holding a single `.`. -/
open Pm Pm.ConfigModel

def hexVal (c : Char) : Nat :=
  if c.isDigit then c.toNat - '0'.toNat
  else if 'a'.toNat ≤ c.toNat && c.toNat ≤ 'f'.toNat then c.toNat - 'a'.toNat + 10
  else if 'A'.toNat ≤ c.toNat && c.toNat ≤ 'F'.toNat then c.toNat - 'A'.toNat + 10
  else 0

def unesc : List Char → List Char
  | '%' :: a :: b :: r => Char.ofNat (hexVal a * 16 + hexVal b) :: unesc r
  | c :: r => c :: unesc r
  | [] => []

def field (s : String) : List Char := unesc (s.toList.drop 1)

def str (n : List Char) : String := String.ofList n

def dump (c : Cfg) : List String :=
  c.devs.map (fun d => "DEV " ++ str d.name ++ " " ++ str d.spec ++
      String.join (d.plugs.map fun p => " " ++ str p.name ++ "=" ++ (match p.node with | some n => str n | none => "-")))
  ++ ["NODES" ++ String.join ((expand c.nodes).map fun n => " " ++ str n)]
  ++ c.aliases.map (fun a => "ALIAS " ++ str a.name ++ String.join ((expand a.hl).map fun n => " " ++ str n))
  ++ ["OK"]

partial def loop (h out : IO.FS.Stream) (specs : List Spec) (stmts : List Stmt) : IO Unit := do
  let line ← h.getLine
  if line.isEmpty then return ()
  let l := if line.endsWith "\n" then (line.dropEnd 1).toString else line
  match l.splitOn " " with
  | "SPEC" :: n :: "hard" :: ps => loop h out (specs ++ [⟨field n, some (ps.map field)⟩]) stmts
  | ["SPEC", n, "free"] => loop h out (specs ++ [⟨field n, none⟩]) stmts
  | ["DEVICE", n, s] => loop h out specs (stmts ++ [.device (field n) (field s)])
  | ["NODE", n, d] => loop h out specs (stmts ++ [.node (field n) (field d) none])
  | ["NODE", n, d, p] => loop h out specs (stmts ++ [.node (field n) (field d) (some (field p))])
  | ["ALIAS", n, hs] => loop h out specs (stmts ++ [.alias (field n) (field hs)])
  | ["END"] =>
    match build specs stmts with
    | .ok c => for s in dump c do out.putStrLn s
    | .error (cls, i) => out.putStrLn s!"REJECT {cls.text} {i}"
    out.putStrLn "."
    out.flush
    loop h out [] []
  | _ => out.putStrLn "bad-line"; out.putStrLn "."; out.flush; loop h out [] []

def main : IO Unit := do loop (← IO.getStdin) (← IO.getStdout) [] []
