import Pm.CbufRing
/-! Line-protocol driver of the index-level cbuf model (`Pm/CbufRing.lean`); the same protocol over the real `cbuf.c` is
`harness/u_cbuf.c`.  One op per line, one answer per line:

    N min max ovw          cbuf_create (min, max) then cbuf_opt_set (CBUF_OPT_OVERWRITE, ovw)     -> N ok <rc of opt_set> | N NULL
    O v                    cbuf_opt_set (CBUF_OPT_OVERWRITE, v)                                   -> O rc
    W hex                  cbuf_write (hex bytes)                                                 -> W n dropped
    F len eof hex caps..   cbuf_write_from_fd (fd, len): the descriptor holds the hex bytes, the k-th read hands out at most
                           caps[k] (none left: no limit), an empty descriptor answers 0 (eof=1) or -1 (eof=0)
                                                                                                  -> F n dropped consumed
    T len caps..           cbuf_read_to_fd (fd, len): the k-th write takes caps[k] bytes (<= 0: answers that value; none
                           left: takes all)                                                       -> T n writtenhex
    P n                    cbuf_peek (n)                                                          -> P rc hex
    D n                    cbuf_drop (n)                                                          -> D rc
    L len lines            cbuf_read_line (buf, len, lines)                                       -> L rc hex|~   (~ = buffer untouched)
    X                      cbuf_flush                                                             -> X
    U                      cbuf_used, cbuf_is_empty                                               -> U used empty

each answer is followed by ` | size alloc used i_in i_out i_rep got_wrap | <unread bytes in order, hex>`; an assertion that
would fire in C makes the answer `ASSERT`.  `-` is the empty byte string. -/
open Pm.CbufRing

def hexDigit (n : Nat) : Char := if n < 10 then Char.ofNat (48 + n) else Char.ofNat (87 + n)

def hexOf (bs : List UInt8) : String :=
  if bs.isEmpty then "-" else
  bs.foldl (fun s b => (s.push (hexDigit (b.toNat / 16))).push (hexDigit (b.toNat % 16))) ""

def hexVal (c : Char) : Nat :=
  if c.toNat ≥ 97 then c.toNat - 87 else if c.toNat ≥ 65 then c.toNat - 55 else c.toNat - 48

def unhex (s : String) : List UInt8 :=
  if s == "-" then [] else
  let rec go : List Char → List UInt8 → List UInt8
    | a :: b :: rest, acc => go rest (UInt8.ofNat (hexVal a * 16 + hexVal b) :: acc)
    | _, acc => acc.reverse
  go s.toList []

def stateOf (r : Ring) : String :=
  s!" | {r.size} {r.alloc} {r.used} {r.i_in} {r.i_out} {r.i_rep} {if r.got_wrap then 1 else 0} | {hexOf r.contents}"

def ints (l : List String) : List Int := l.map String.toInt!

partial def loop (h : IO.FS.Stream) (out : IO.FS.Stream) (st : Option Ring) : IO Unit := do
  let line ← h.getLine
  if line.isEmpty then return ()
  let l := if line.endsWith "\n" then (line.dropEnd 1).toString else line
  let say (ans : String) (ok : Bool) (r : Ring) : IO Unit := do
    out.putStrLn ((if ok then ans else "ASSERT") ++ stateOf r); out.flush; loop h out (some r)
  match l.splitOn " ", st with
  | ["N", a, b, c], _ =>
    match create a.toInt! b.toInt! with
    | none => out.putStrLn "N NULL"; out.flush; loop h out none
    | some r => let x := optSet r c.toInt!; say s!"N ok {x.1}" (r.valid && x.2.valid) x.2
  | _, none => out.putStrLn "no-cbuf"; out.flush; loop h out none
  | ["O", v], some r => let x := optSet r v.toInt!; say s!"O {x.1}" (r.valid && x.2.valid) x.2
  | ["W", hx], some r =>
    let w := write r (unhex hx); say s!"W {w.rc} {w.ndropped}" w.ok w.ring
  | "F" :: len :: eof :: hx :: caps, some r =>
    let bs := unhex hx
    let w := writeFromFd r len.toInt! { avail := bs, caps := caps.map String.toNat!, eof := eof == "1" }
    say s!"F {w.rc} {w.ndropped} {bs.length - w.g.pending.length}" w.ok w.ring
  | "T" :: len :: caps, some r =>
    let x := readToFd r len.toInt! { out := [], caps := ints caps }
    say s!"T {x.1} {hexOf x.2.2.1.out}" x.2.2.2 x.2.1
  | ["P", n], some r => let x := peek r n.toInt!; say s!"P {x.1} {hexOf x.2.1}" x.2.2 r
  | ["D", n], some r => let x := drop r n.toInt!; say s!"D {x.1}" x.2.2 x.2.1
  | ["L", len, lines], some r =>
    let x := readLine r len.toInt! lines.toInt!
    say s!"L {x.1} {match x.2.1 with | some b => hexOf b | none => "~"}" x.2.2.2 x.2.2.1
  | ["X"], some r => say "X" (r.valid && (flush r).valid) (flush r)
  | ["U"], some r => say s!"U {usedOf r} {if isEmpty r then 1 else 0}" r.valid r
  | _, some r => out.putStrLn "bad-op"; out.flush; loop h out (some r)

def main : IO Unit := do loop (← IO.getStdin) (← IO.getStdout) none
