import Pm.LexModel
open Pm.LexModel

/-! line-protocol driver of `Pm/LexModel.lean` for `lib/lexlayer.py` (one answer line per input line)

    S <hex>        bytes after the opening quote          → ok <hex of the C string> <bytes consumed> | reject <class>
    I <tree>       files `;`-separated: m | d | r:<items>, items `,`-separated t<id> | i<file>
                                                          → ok <tokens> | reject too-deep|missing|read-error <tokens>
    E <+-…>        include (+) / end-of-file (-) events   → cont <ptr> | too-deep | done | oob
    L <hex>        `_strtolong` on these bytes            → long <v> | reject parse | reject range
    D <hex>        `_strtodouble` + `_doubletotv`         → double defined | double undefined | reject range | reject time-range | reject class
    A <items>      `;`-separated s<name>:<kinds,> | d<name>:<spec> | n<name>:<dev>
                                                          → ok <ndevices> <nnodes> | reject <class> -/

def hexVal (c : Char) : Nat :=
  if '0' ≤ c ∧ c ≤ '9' then c.toNat - '0'.toNat
  else if 'a' ≤ c ∧ c ≤ 'f' then c.toNat - 'a'.toNat + 10
  else if 'A' ≤ c ∧ c ≤ 'F' then c.toNat - 'A'.toNat + 10 else 0

def unhex : List Char → List UInt8 → List UInt8
  | a :: b :: r, acc => unhex r (UInt8.ofNat (hexVal a * 16 + hexVal b) :: acc)
  | _, acc => acc.reverse

def hexDigit (n : Nat) : Char := if n < 10 then Char.ofNat (48 + n) else Char.ofNat (87 + n)

def hex (bs : List UInt8) : String :=
  if bs.isEmpty then "-" else String.ofList (bs.foldr (fun b acc => hexDigit (b.toNat / 16) :: hexDigit (b.toNat % 16) :: acc) [])

def splitOnChar (c : Char) (s : List Char) : List (List Char) :=
  let rec go : List Char → List Char → List (List Char) → List (List Char)
    | [], cur, acc => (cur.reverse :: acc).reverse
    | x :: xs, cur, acc => if x = c then go xs [] (cur.reverse :: acc) else go xs (x :: cur) acc
  go s [] []

def natOf (s : List Char) : Nat := s.foldl (fun a c => if c.isDigit then a * 10 + (c.toNat - 48) else a) 0

def showToks (ts : List Nat) : String := if ts.isEmpty then "-" else ",".intercalate (ts.map toString)

def parseItem (s : List Char) : Option Item :=
  match s with
  | 't' :: r => some (.tok (natOf r))
  | 'i' :: r => some (.incl (natOf r))
  | _ => none

def parseFile (s : List Char) : File :=
  match s with
  | 'r' :: ':' :: r => .reg ((splitOnChar ',' r).filterMap parseItem)
  | 'd' :: _ => .dir
  | _ => .missing

def parseCfgItem (s : List Char) : Option CfgItem :=
  match s with
  | k :: r =>
    match splitOnChar ':' r with
    | [a, b] =>
      if k = 's' then some (.spec (natOf a) ((splitOnChar ',' b).filter (!·.isEmpty) |>.map natOf))
      else if k = 'd' then some (.device (natOf a) (natOf b))
      else if k = 'n' then some (.node (natOf a) (natOf b))
      else none
    | _ => none
  | [] => none

def answer (l : List Char) : String :=
  match l with
  | 'S' :: ' ' :: r =>
    let s := if r = ['-'] then [] else unhex r []
    match lexString s with
    | .ok stored => s!"ok {hex stored} {consumed s}"
    | .errNewline => "reject newline"
    | .tooLong => "reject toolong"
    | .unterminated => "reject unterminated"
    | .overrun => "reject overrun"
  | 'I' :: ' ' :: r =>
    let files := (splitOnChar ';' r).map parseFile
    let fs := fun (i : Nat) => files.getD i .missing
    match scanConfig fs with
    | .ok t => s!"ok {showToks t}"
    | .tooDeep t => s!"reject too-deep {showToks t}"
    | .missing t => s!"reject missing {showToks t}"
    | .readError t => s!"reject read-error {showToks t}"
  | 'E' :: ' ' :: r =>
    match runInc 0 (r.filterMap fun c => if c = '+' then some IncEv.incl else if c = '-' then some IncEv.eof else none) with
    | .cont p => s!"cont {p}"
    | .tooDeep => "too-deep"
    | .done => "done"
    | .oob => "oob"
  | 'L' :: ' ' :: r =>
    match strtolong (if r = ['-'] then [] else unhex r []) with
    | .val v => s!"long {v}"
    | .errParse => "reject parse"
    | .errRange => "reject range"
  | 'D' :: ' ' :: r =>
    match strtodouble (if r = ['-'] then [] else unhex r []) with
    | .val true => "double defined"
    | .val false => "double undefined"
    | .errRange => "reject range"
    | .errTimeRange => "reject time-range"
    | .outsideClass => "reject class"
  | 'A' :: ' ' :: r =>
    match cfgAccept ((splitOnChar ';' r).filterMap parseCfgItem) with
    | .ok c => s!"ok {c.devs.length} {c.nodes.length}"
    | .error .dupScript => "reject dup-script"
    | .error .noLogin => "reject no-login"
    | .error .noSpec => "reject no-spec"
    | .error .noDevice => "reject no-device"
    | .error .dupNode => "reject dup-node"
    | .error .emptySpec => "reject empty-spec"
    | .error .noNodes => "reject no-nodes"
  | _ => "bad-op"

partial def loop (h : IO.FS.Stream) (out : IO.FS.Stream) : IO Unit := do
  let line ← h.getLine
  if line.isEmpty then return ()
  let l := line.toList
  let l := if l.getLast? = some '\n' then l.dropLast else l
  out.putStrLn (answer l)
  loop h out

def main : IO Unit := do loop (← IO.getStdin) (← IO.getStdout)
