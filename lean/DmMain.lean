import Pm.Daemon
import Pm.Signal
import Pm.StdioCli
open Pm Pm.Client Pm.Daemon
open Pm.Dev2 (Dev Action Stmt Plug Arg ExecCtx PState PResult ActErr RxCall Oracle Env CS getArgs connectDev)

/-- a string of decimal digits, one kernel answer per call -/
def digits (s : String) : List Nat := s.toList.map fun c => c.toNat - 48

/-- `io`: the descriptors of the `--stdio` client (`STDIO in out` in the dump), if the daemon runs in that mode -/
partial def loop (h out : IO.FS.Stream) (w : W) (io : Option (Nat × Nat) := none) : IO Unit := do
  let line ← h.getLine
  if line.isEmpty then return ()
  let toks := line.trimAscii.toString.splitOn " "
  match toks with
  | ["SPEC", nm, sp] => loop h out { w with specs := w.specs ++ [(parseHex nm, parseHex sp)] } io
  | ["DEV", nm, kind] =>
    let d : Dev := { plugs := [], scripts := fun _ => none, timeout := 0, acts := [], toBuf := [], fromBuf := [], xmStr := none,
                     xmOffs := [], xmResult := false, xmUsed := false, args := [], nextUid := 1, shortCircuitDelay := false, isPipe := kind == "1" }
    loop h out { w with devs := w.devs ++ [(parseHex nm, d)] } io
  | ["NA", n] => loop h out (updLastDev w fun d => { d with naddr := n.toNat! }) io
  | ["T", us] => loop h out (updLastDev w fun d => { d with timeout := us.toNat! }) io
  | ["PP", us] => loop h out (updLastDev w fun d => { d with pingPeriod := us.toNat! }) io
  | ["G", nm, nd] =>
    let w := { w with cfg := { w.cfg with nodes := if nd == "null" then w.cfg.nodes else pushHost w.cfg.nodes (toChars (parseHex nd)) } }
    loop h out (updLastDev w fun d => { d with plugs := d.plugs ++ [{ name := parseHex nm, node := if nd == "null" then none else some (parseHex nd) }] }) io
  | "S" :: idx :: cnt :: rest =>
    let (stmts, _) := parseStmts cnt.toNat! rest
    let i := idx.toNat!
    loop h out (updLastDev w fun d => let old := d.scripts; { d with scripts := fun k => if k == i then some stmts else old k }) io
  | "AL" :: nm :: hosts =>
    loop h out { w with cfg := { w.cfg with aliases := w.cfg.aliases ++ [(toChars (parseHex nm), hosts.map fun x => toChars (parseHex x))] } } io
  | ["V", hex] => loop h out { w with cfg := { w.cfg with version := parseHex hex } } io
  | ["X", pat, subj, ans] => loop h out { w with pendingX := w.pendingX ++ [{ pat := pat.toNat!, subject := parseHex subj, answer := parseOffs ans }] } io
  | ["STDIO", i, o] => loop h out w (some (i.toNat!, o.toNat!))
  | ["I", now, con, soe] =>
    let w := match io with | some (i, _) => Pm.Daemon.Stdio.createClient i w | none => w
    let (w, lines) := initialConnect w now.toNat! (digits con) (digits soe)
    for l in lines do out.putStrLn l
    for l in dumpLines w none do out.putStrLn l
    loop h out w io
  | "P" :: now :: acc :: con :: soe :: envs0 =>
    let hup := envs0.find? (·.startsWith "H")
    let envs := envs0.filter (fun x => !x.startsWith "H" && !x.startsWith "W")
    let p : PassIn := { now := now.toNat!, acc := acc.toNat!, con := digits con, soe := digits soe, envs := envs.map parseEnv }
    let (w, lines) := match io, hup with
      | some (_, o), _ => Pm.Daemon.Stdio.daemonPassIO o w p
      | none, some h => hupPass w (h.drop 1).toNat! p
      | none, none => daemonPass w p
    for l in lines do out.putStrLn l
    loop h out w io
  | "Q" :: rest =>
    -- a termination signal arrives while the daemon sleeps in `poll`, together with whatever the rest of the line makes ready
    let p : PassIn := match rest with
      | now :: acc :: con :: soe :: envs => { now := now.toNat!, acc := acc.toNat!, con := digits con, soe := digits soe, envs := (envs.filter (fun x => !x.startsWith "H" && !x.startsWith "W")).map parseEnv }
      | _ => { now := 0, acc := 0, con := [0], soe := [0], envs := [] }
    for l in (match io with | some (_, o) => Pm.Daemon.Stdio.signalPassIO o w | none => signalPass w p) do out.putStrLn l
    out.putStrLn "O teardown"
    out.putStrLn "."
    loop h out w io
  | _ => loop h out w io

def main : IO Unit := do
  loop (← IO.getStdin) (← IO.getStdout) { cfg := { plugs := [], has := [], nodes := [], version := [] }, clients := [] }
