import Pm.Redfish
open Pm.Redfish

def pn (p : Nat) : String := if p == 99 then "Zz" else s!"P{p}"
def cmdS : Cmd → String | .stat => "stat" | .on => "on" | .off => "off"
def statS : Stat → String | .on => "on" | .off => "off" | .error => "error"
def render (c : Cfg) : Line → String
  | .status p s => s!"{pn p}: {statS s}"
  | .ok p => s!"{pn p}: ok"
  | .unknown p => s!"unknown plug specified: {pn p}"
  | .dep p cmd s a => s!"{pn p}: cannot perform {cmdS cmd}, dependency {statS s} (host=h{((lookup c a).map (·.host)).getD 0} plug={pn a})"
  | .phased p => s!"{pn p}: cannot turn on parent and child"

def sortS (l : List String) : List String := l.mergeSort (fun a b => a ≤ b)

partial def loop (h out : IO.FS.Stream) (c : Cfg) (st : St) (stS : St) : IO Unit := do
  let line ← h.getLine
  if line.isEmpty then return ()
  match line.trimAscii.toString.splitOn " " with
  | ["reset"] => loop h out { plugs := [], failing := [] } [] []
  | ["plug", n, ho, pa] =>
    let par := if pa == "-1" then none else some pa.toNat!
    loop h out { c with plugs := c.plugs ++ [{ name := n.toNat!, host := ho.toNat!, parent := par }] } st stS
  | ["fail", ho] => loop h out { c with failing := ho.toNat! :: c.failing } st stS
  | ["cmd", cm, ts] =>
    let cmd := if cm == "stat" then Cmd.stat else if cm == "on" then Cmd.on else Cmd.off
    let targets := (ts.splitOn ",").map (·.toNat!)
    let (ml, st', done) := runCmd c st cmd targets
    let (sl, stS') := if cmd == .stat then (specStat c stS targets, stS) else specPower c stS cmd targets
    out.putStrLn ("M " ++ toString done ++ " " ++ "|".intercalate (sortS (ml.map (render c))))
    out.putStrLn ("S " ++ "|".intercalate (sortS (sl.map (render c))))
    loop h out c st' stS'
  | _ => out.putStrLn "bad-op"; loop h out c st stS

def main : IO Unit := do loop (← IO.getStdin) (← IO.getStdout) { plugs := [], failing := [] } [] []

