import Pm.GrammarSem
open Pm.Grammar

/-! line-protocol driver of `Pm/Grammar.lean` + `Pm/GrammarSem.lean` for `lib/gramlayer.py`

    O tcpw=<0|1>                 the build has tcp-wrapper support (environment)
    C                            forget the include files
    F <hexname> <hexcontent>     an include file
    P <hexname> <hexcontent>     `conf_init` on this file → the lines of `u_gramdump parse` (numbers as `num:<text>` instead of
                                 `tv:<sec>:<usec>`), then `ACCEPT` + `VALID`|`INVALID <class>`, or `ERR <message> [@ <hexfile>:<line>]`,
                                 then `# ntok=<n> syntax=<index|->`, then `.`
    L <hexname> <hexcontent>     the lexer alone → `T <TOK_NAME> <hexfile> <line> <hexvalue|~>` per token, then
                                 `EOF <hexfile> <line>` or `END <class> …`, then `.` -/

def hexVal (c : Char) : Nat :=
  if '0' ≤ c ∧ c ≤ '9' then c.toNat - '0'.toNat
  else if 'a' ≤ c ∧ c ≤ 'f' then c.toNat - 'a'.toNat + 10
  else if 'A' ≤ c ∧ c ≤ 'F' then c.toNat - 'A'.toNat + 10 else 0

def unhexGo : List Char → List UInt8 → List UInt8
  | a :: b :: r, acc => unhexGo r (UInt8.ofNat (hexVal a * 16 + hexVal b) :: acc)
  | _, acc => acc.reverse

def unhex (s : String) : List UInt8 := if s = "-" || s = "~" then [] else unhexGo s.toList []

def hexDigit (n : Nat) : Char := if n < 10 then Char.ofNat (48 + n) else Char.ofNat (87 + n)

def hex (bs : List UInt8) : String :=
  if bs.isEmpty then "-" else String.ofList (bs.foldr (fun b acc => hexDigit (b.toNat / 16) :: hexDigit (b.toNat % 16) :: acc) [])

def hexOpt : Option (List UInt8) → String
  | none => "~"
  | some b => hex b

def ascii (b : List UInt8) : String := String.ofList (b.map fun x => Char.ofNat x.toNat)

def numTxt : Option (List UInt8) → String
  | none => "tv:0:0"
  | some b => "num:" ++ ascii b

def mpTxt (o : Option (List UInt8)) : String :=
  match mpOpt o with
  | .ok v => toString v
  | .error _ => "?"

def bkTxt : BK → String
  | .foreachnode => "fn{" | .foreachplug => "fp{" | .ifoff => "ioff{" | .ifon => "ion{"

mutual
def stmtTxt : PStmt → String
  | .expect s => " expect:" ++ hex s
  | .send s => " send:" ++ hex s
  | .delay n _ => " delay:num:" ++ ascii n
  | .setplugstate plug mp1 mp2 l _ =>
    " sps:" ++ hexOpt plug ++ ":" ++ mpTxt mp1 ++ ":" ++ mpTxt (some mp2) ++ ":" ++
      (if l.isEmpty then "~" else ",".intercalate (l.map fun p => (if p.1 then "on=" else "off=") ++ hex p.2))
  | .setresult mp1 mp2 l _ =>
    " srs:" ++ mpTxt (some mp1) ++ ":" ++ mpTxt (some mp2) ++ ":" ++ (if l.isEmpty then "~" else ",".intercalate (l.map fun s => "success=" ++ hex s))
  | .block k body => " " ++ bkTxt k ++ stmtsTxt body ++ " }"
def stmtsTxt : List PStmt → String
  | [] => ""
  | s :: r => stmtTxt s ++ stmtsTxt r
end

def insertByKind (p : Nat × List PStmt) : List (Nat × List PStmt) → List (Nat × List PStmt)
  | [] => [p]
  | q :: r => if p.1 < q.1 then p :: q :: r else q :: insertByKind p r

def outTxt : Out → List String
  | .spec s =>
    ["SPEC " ++ hex s.name ++ " tmo=" ++ numTxt s.timeout ++ " ping=" ++ numTxt s.ping ++ " plugs=" ++
      (match s.plugs with | none => "~" | some l => ",".intercalate (l.map hex))]
    ++ ((s.scripts.foldr insertByKind []).map fun p => "S " ++ toString p.1 ++ stmtsTxt p.2)
    ++ ["ENDSPEC"]
  | .listen s => ["LISTEN " ++ hex s]
  | .tcpw v => ["TCPW " ++ (if v then "1" else "0")]
  | .loglevel s => ["LOGLEVEL " ++ hex s]
  | .device name spec t flags =>
    ["DEVICE " ++ hex name ++ " " ++ hex spec ++ " " ++
      (match t with
       | .pipe c => "pipe " ++ hex c ++ " ~"
       | .serial p => "serial " ++ hex p ++ " ~"
       | .tcp h p => "tcp " ++ hex h ++ " " ++ hex p) ++ " " ++ hexOpt flags]
  | .node nodes dev plugs => ["NODE " ++ hex nodes ++ " " ++ hex dev ++ " " ++ hexOpt plugs]
  | .alias name hosts => ["ALIAS " ++ hex name ++ " " ++ hex hosts]

def finalTxt : Final → List String
  | .valid => ["ACCEPT", "VALID"]
  | .invalid d => ["ACCEPT", "INVALID " ++ d.text]
  | .err (.openFailed n) _ => ["ERR open " ++ hex n]
  | .err d (some (f, l)) => ["ERR " ++ d.text ++ " @ " ++ hex f ++ ":" ++ toString l]
  | .err d none => ["ERR " ++ d.text]

def lexEndTxt : LexEnd → String
  | .eof f l => "EOF " ++ hex f ++ " " ++ toString l
  | .errNewline f l => "END newline " ++ hex f ++ " " ++ toString l
  | .tooLong f l => "END toolong " ++ hex f ++ " " ++ toString l
  | .tooDeep => "END toodeep"
  | .missing n => "END missing " ++ hex n
  | .unmodelled w => "END unmodelled " ++ w
  | .fuel => "END fuel"

structure DSt where
  env : Env := {}
  files : List (List UInt8 × List UInt8) := []

def DSt.fs (d : DSt) (name : List UInt8) : Option (List UInt8) := (d.files.find? (·.1 == name)).map (·.2)

partial def loop (h out : IO.FS.Stream) (d : DSt) : IO Unit := do
  let line ← h.getLine
  if line.isEmpty then return ()
  let l := if line.endsWith "\n" then (line.dropEnd 1).toString else line
  match l.splitOn " " with
  | ["O", o] => loop h out { d with env := { d.env with haveTcpWrappers := o == "tcpw=1" } }
  | ["C"] => loop h out { d with files := [] }
  | ["F", n, c] => loop h out { d with files := (unhex n, unhex c) :: d.files }
  | ["P", n, c] =>
    let o := runConfig d.env d.fs (unhex n) (unhex c)
    for x in o.out do
      for s in outTxt x do out.putStrLn s
    for s in finalTxt o.final do out.putStrLn s
    out.putStrLn s!"# ntok={o.ntok} syntax={match o.syntaxErr with | some i => toString i | none => "-"}"
    out.putStrLn "."
    out.flush
    loop h out d
  | ["L", n, c] =>
    let r := lexFile d.fs (unhex n) (unhex c)
    for t in r.1 do
      out.putStrLn s!"T {t.tok.name} {hex t.file} {t.line} {match t.tok with | .stringVal s => hex s | .numericVal s => hex s | _ => "~"}"
    out.putStrLn (lexEndTxt r.2)
    out.putStrLn "."
    out.flush
    loop h out d
  | _ => out.putStrLn "bad-line"; out.putStrLn "."; out.flush; loop h out d

def main : IO Unit := do loop (← IO.getStdin) (← IO.getStdout) {}
