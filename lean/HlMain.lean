import Pm.HLMore
open Pm

def showOpt : Option Nat → String
  | some i => toString i
  | none => "-1"

partial def loop (h : IO.FS.Stream) (out : IO.FS.Stream) (hl : Hostlist) : IO Unit := do
  let line ← h.getLine
  if line.isEmpty then return ()
  let l := if line.endsWith "\n" then (line.dropEnd 1).toString else line
  match l.splitOn " " with
  | ["C"] => out.putStrLn "C ok 0"; loop h out []
  | "C" :: rest =>
    match create (" ".intercalate rest).toList with
    | .ok hl' => out.putStrLn s!"C ok {(expand hl').length}"; loop h out hl'
    | .error _ => out.putStrLn "C NULL"; loop h out []
  | ["P", n] =>
    let hl' := pushHost hl n.toList
    out.putStrLn s!"P 1 {(expand hl').length}"; loop h out hl'
  | ["F", n] => out.putStrLn s!"F {showOpt (find hl n.toList)}"; loop h out hl
  | ["E"] => out.putStrLn ("E" ++ String.join ((expand hl).map fun n => " " ++ String.ofList n)); loop h out hl
  | ["S"] =>
    match sortHL hl with
    | .ok hl' => out.putStrLn s!"S {(expand hl').length}"; loop h out hl'
    | .abort => out.putStrLn "S ABORT"; loop h out []
    | .fuel => out.putStrLn "S FUEL"; loop h out []      -- iteration bound of the sort mirror exhausted: never matches the C side
  | ["R"] => out.putStrLn ("R " ++ String.ofList (rangedString hl)); loop h out hl
  | ["N", i] => out.putStrLn ("N " ++ (match nthC hl i.toNat! with | some n => String.ofList n | none => "(null)")); loop h out hl
  | ["D", n] =>
    let (hl', k) := deleteHost hl n.toList
    out.putStrLn s!"D {k} {(expand hl').length}"; loop h out hl'
  | ["K"] => out.putStrLn "K"; loop h out hl
  | ["T"] =>
    match create (rangedString hl) with
    | .ok hl' => out.putStrLn ("T" ++ String.join ((expand hl').map fun n => " " ++ String.ofList n)); loop h out hl
    | .error _ => out.putStrLn "T NULL"; loop h out hl
  | _ => out.putStrLn "bad-op"; loop h out hl

def main : IO Unit := do loop (← IO.getStdin) (← IO.getStdout) []

