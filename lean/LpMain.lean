import Pm.LibPmModel
open Pm.LibPmModel

def hexVal (c : Char) : UInt8 := if c.isDigit then (c.toNat - 48).toUInt8 else (c.toNat - 87).toUInt8
def parseHexL : List Char → Bytes
  | a :: b :: r => (hexVal a * 16 + hexVal b) :: parseHexL r
  | _ => []
def parseHex (s : String) : Bytes := if s == "-" then [] else parseHexL s.toList
def hexOf (bs : Bytes) : String :=
  if bs.isEmpty then "-" else
  String.ofList (bs.flatMap fun b => ["0123456789abcdef".toList[(b / 16).toNat]!, "0123456789abcdef".toList[(b % 16).toNat]!])

def parseChunk (t : String) : Chunk := if t == "EOF" then .eof else if t == "ERR" then .err else .data (parseHex t)
def hexList (l : List Bytes) : String := if l.isEmpty then "-" else ",".intercalate (l.map hexOf)

def cmdBytes (api : String) (arg : Bytes) : Bytes :=
  let a := cstr arg
  match api with
  | "status" => str "status " ++ a ++ crlf
  | "on" => str "on " ++ a ++ crlf
  | "off" => str "off " ++ a ++ crlf
  | "cycle" => str "cycle " ++ a ++ crlf
  | "nodes" => str "nodes" ++ crlf
  | _ => []

partial def loop (h out : IO.FS.Stream) (version : Bytes) : IO Unit := do
  let line ← h.getLine
  if line.isEmpty then return ()
  match line.trimAscii.toString.splitOn " " with
  | "L" :: api :: arg :: chunks =>
    let cs := chunks.filter (· != "") |>.map parseChunk
    let a := parseHex arg
    let res : String × Nat := match api with
      | "recv" => let (rc, lines, cs') := recvResponse cs; (s!"rc={rc} lines={if rc == 0 then hexList (lines.map cstr) else "-"}", cs'.length)
      | "status" => let (rc, st, cs') := nodeStatus a cs; (s!"rc={rc} state={match st with | some s => toString s | none => "-1"}", cs'.length)
      | "nodes" => let (rc, ns, cs') := nodeList cs; (s!"rc={rc} nodes={if rc == 0 then hexList ns ++ s!" after=0 second={ns.length}" else "-"}", cs'.length)
      | "connect" => let (rc, cl, cs') := connect cs; (s!"rc={rc} closes={cl}", cs'.length)
      | _ => let (rc, cs') := simpleCmd cs; (s!"rc={rc}", cs'.length)
    let sent := if api == "connect" then (if (recvResponse cs).1 == 0 then str "exprange" ++ crlf else []) else cmdBytes api a
    out.putStrLn s!"L {api} {res.1} sent={hexOf sent} unread={res.2}"
    loop h out version
  | "M" :: args :: chunks =>
    let cs := chunks.filter (· != "") |>.map parseChunk
    let av := args.splitOn ","
    let o : CliOpts := { telemetry := av.contains "-T", exprange := av.contains "-x", version := version }
    let (st, so, se) := cliRun o cs
    out.putStrLn s!"M exit={(st % 256).toNat} out={hexOf so} err={hexOf se}"
    loop h out version
  | ["V", v] => loop h out (parseHex v)
  | _ => out.putStrLn "bad-op"; loop h out version

def main : IO Unit := do loop (← IO.getStdin) (← IO.getStdout) []
