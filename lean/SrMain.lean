import Pm.Serial
open Pm.Serial Pm.Generated.Termios

def hexVal (c : Char) : Nat := if c.isDigit then c.toNat - 48 else (c.toNat ||| 32) - 87
def parseHexL : List Char → Bytes
  | a :: b :: r => (hexVal a * 16 + hexVal b).toUInt8 :: parseHexL r
  | _ => []
def parseHex (s : String) : Bytes := if s == "-" then [] else parseHexL s.toList
def hexDigit (n : Nat) : Char := "0123456789abcdef".toList[n]!
def hexOf (bs : Bytes) : String :=
  if bs.isEmpty then "-" else String.ofList (bs.flatMap fun b => [hexDigit (b / 16).toNat, hexDigit (b % 16).toNat])
def hexNat (s : String) : Nat := s.toList.foldl (fun n c => n * 16 + hexVal c) 0
def natHex (n : Nat) : String := String.ofList (Nat.toDigits 16 n)

/-- the state of the slave of a fresh pseudo-terminal (`tty_std_termios`) -/
def cooked : Termios := { iflag := 0x500, oflag := 5, cflag := 0xbf, lflag := 0x8a3b }

/-- flag words and control characters of an op (INTR QUIT ERASE KILL EOF TIME MIN START STOP SUSP EOL REPRINT WERASE LNEXT EOL2) -/
def mkTermios (i o c l cc : String) : Termios :=
  let t : Termios := { cooked with iflag := hexNat i, oflag := hexNat o, cflag := hexNat c, lflag := hexNat l }
  let b := parseHex cc
  if b.length < 15 then t else
  let g (k : Nat) : UInt8 := b[k]!
  { t with vintr := g 0, vquit := g 1, verase := g 2, vkill := g 3, veof := g 4, vtime := (g 5).toNat, vmin := (g 6).toNat, vstart := g 7, vstop := g 8,
           vsusp := g 9, veol := g 10, vreprint := g 11, vwerase := g 12, vlnext := g 13, veol2 := g 14 }

def showInit (t : Termios) : String := s!" init={natHex t.iflag}:{natHex t.oflag}:{natHex t.cflag}:{natHex t.lflag}:{t.vmin}:{t.vtime}"

def showTraffic (t : Termios) (out inp : Bytes) : String :=
  let (q, e) := ttyIn t inp
  s!" out={hexOf (ttyOut t out)} poll={if pollReadable t inp then 1 else 0} in={hexOf q} echo={hexOf e}"

def errName : SetupErr → String
  | .baud => "baud" | .databits => "databits" | .stopbits => "stopbits" | .parity => "parity"

def answerS (w : List String) : String :=
  match w with
  | mode :: i :: o :: c :: l :: cc :: via :: flags :: baud :: db :: par :: sb :: out :: inp :: _ =>
    -- `seen`: the previous settings as `_serial_setup` reads them (the harness restores the `c_cflag` bits a pty does not keep);
    -- `t0`: the state the kernel is in
    let seen := if mode == "0" then cooked else let t := mkTermios i o c l cc; { t with iflag := clr t.iflag IBAUD0 }
    let t0 := if mode == "0" then cooked else ptyKeeps seen
    let head := "S" ++ showInit t0
    let go (n : String) (p : Params) : String :=
      let ps := s!" n={n} p={p.baud},{p.databits},{p.parity.toNat},{p.stopbits}"
      match serialSetupE seen p with
      | .error e => head ++ ps ++ s!" res=0 err={errName e} asked=-"
      | .ok t1 =>
        let b := ptyKeeps t1
        let asked := s!" asked={natHex t1.iflag}:{natHex t1.oflag}:{natHex t1.cflag}:{natHex t1.lflag}:{t1.ispeed}:{t1.ospeed}:{cfgetispeed t1}:{cfgetospeed t1}:{t1.vmin}:{t1.vtime}:{TCSANOW}"
        if ptyRefuses t0 t1 then head ++ ps ++ " res=0 err=tcsetattr" ++ asked else
        head ++ ps ++ s!" res=1 err=- asked={natHex t1.iflag}:{natHex t1.oflag}:{natHex t1.cflag}:{natHex t1.lflag}:{t1.ispeed}:{t1.ospeed}:{cfgetispeed t1}:{cfgetospeed t1}:{t1.vmin}:{t1.vtime}:{TCSANOW}"
          ++ s!" back={natHex b.iflag}:{natHex b.oflag}:{natHex b.cflag}:{natHex b.lflag}:{cfgetispeed b}:{cfgetospeed b}:{b.vmin}:{b.vtime} nonblock=1"
          ++ showTraffic b (parseHex out) (parseHex inp)
    if via == "c" then
      let (n, _) := sscanfFlags (cstr (parseHex flags))
      -- `assert(n >= EOF && n <= 4)`: `none` would be the daemon aborting (never happens: `parseFlags_some`)
      match parseFlags (parseHex flags) with
      | none => head ++ s!" n={n} p=0,0,0,0 res=-6 err=n_>=_EOF_&&_n_<=_4 asked=-"
      | some p => go (toString n) p
    else go "-" { baud := baud.toInt!, databits := db.toInt!, parity := (par.toInt! % 256).toNat.toUInt8, stopbits := sb.toInt! }
  | _ => "bad-op"

def answerT (w : List String) : String :=
  match w with
  | i :: o :: c :: l :: cc :: out :: inp :: _ =>
    let t := ptyKeeps (mkTermios i o c l cc)
    "T" ++ showInit t ++ showTraffic t (parseHex out) (parseHex inp) ++ s!" backlog={echoBacklog t (parseHex inp)}"
  | _ => "bad-op"

partial def loop (h out : IO.FS.Stream) : IO Unit := do
  let line ← h.getLine
  if line.isEmpty then return ()
  let l := if line.endsWith "\n" then (line.dropEnd 1).toString else line
  match l.splitOn " " with
  | "S" :: w => out.putStrLn (answerS w)
  | "T" :: w => out.putStrLn (answerT w)
  | _ => out.putStrLn "bad-op"
  loop h out

def main : IO Unit := do loop (← IO.getStdin) (← IO.getStdout)
