import Pm.RfCmd
/-! Driver for the command layer of redfishpower (`Pm/RfCmd.lean`): fed the same bytes as the real
    `redfishpower --test-mode`, prints the same bytes on stdout.

    rfcmddriver [-h HOSTS]... [-E FAILHOSTS]... [-n NOW] < session-bytes

    stdout: the transcript (prompt before every piece `fgets` returns, the lines each piece prints, the last prompt at
    end of input) — for a piece that ends in abort / hang / outside nothing is printed after its prompt (the real
    helper's stdout is a pipe: what it printed since the last prompt is lost with the process).
    stderr: `CTL <cont|exit|abort|hang|outside> <pieces processed> <exit status or detail>`. -/
open Pm Pm.RfCmd

def toBytes (l : List Char) : ByteArray := ByteArray.mk (l.map fun c => c.toNat.toUInt8).toArray
def ofBytes (b : ByteArray) : List Char := b.toList.map fun x => Char.ofNat x.toNat

partial def readAll (h : IO.FS.Stream) (acc : ByteArray) : IO ByteArray := do
  let b ← h.read 65536
  if b.isEmpty then return acc else readAll h (acc ++ b)

def prompt : List Char := "redfishpower> ".toList

def parseArgs : List String → List Name × List Name × Nat → List Name × List Name × Nat
  | "-h" :: a :: r, (hs, fs, n) => parseArgs r (hs ++ [a.toList], fs, n)
  | "-E" :: a :: r, (hs, fs, n) => parseArgs r (hs, fs ++ [a.toList], n)
  | "-n" :: a :: r, (hs, fs, _) => parseArgs r (hs, fs, a.toNat!)
  | _, acc => acc

def main (args : List String) : IO UInt32 := do
  let (hs, fs, now) := parseArgs args ([], [], 1800000000)
  let out ← IO.getStdout
  let err ← IO.getStderr
  match init hs fs now with
  | none => err.putStrLn "CTL exit 0 1 init"; return 0
  | some s0 =>
    let input := ofBytes (← readAll (← IO.getStdin) ByteArray.empty)
    let pieces := fgetsSplit (input.length + 1) input
    let mut s := s0
    let mut k := 0
    let mut ctl := Ctl.cont
    for b in pieces do
      out.write (toBytes prompt)
      let r := step s b
      k := k + 1
      match r.ctl with
      | .cont | .exit _ =>
        for l in r.out do out.write (toBytes (l ++ ['\n']))
      | _ => pure ()
      s := r.st
      ctl := r.ctl
      if ctl != .cont then break
    if ctl == .cont then out.write (toBytes prompt)
    out.flush
    let d := match ctl with
      | .cont => s!"cont {k}"
      | .exit n => s!"exit {k} {n}"
      | .abort w => s!"abort {k} {w}"
      | .hang w => s!"hang {k} {w}"
      | .outside w => s!"outside {k} {w}"
    err.putStrLn ("CTL " ++ d)
    return 0
