import Pm.Num
namespace Pm

def parseNat (ds : List Char) : Nat := ds.foldl (fun a c => a * 10 + (c.toNat - 48)) 0

theorem parseNat_snoc (ds : List Char) (c : Char) :
    parseNat (ds ++ [c]) = parseNat ds * 10 + (c.toNat - 48) := by
  simp [parseNat, List.foldl_append]

theorem digit_bounds (c : Char) (h : c.isDigit = true) : 48 ≤ c.toNat ∧ c.toNat ≤ 57 := by
  unfold Char.isDigit at h
  simp only [Bool.and_eq_true, decide_eq_true_eq, ge_iff_le] at h
  obtain ⟨h1, h2⟩ := h
  exact ⟨UInt32.le_iff_toNat_le.mp h1, UInt32.le_iff_toNat_le.mp h2⟩

theorem digitChar_of_digit (c : Char) (h : c.isDigit = true) : Nat.digitChar (c.toNat - 48) = c := by
  obtain ⟨h48, h57⟩ := digit_bounds c h
  have hc : Char.ofNat c.toNat = c := Char.ofNat_toNat c
  generalize hk : c.toNat - 48 = k
  have hlt : k < 10 := by omega
  have hn : c.toNat = 48 + k := by omega
  rw [← hc, hn]
  match k, hlt with
  | 0, _ | 1, _ | 2, _ | 3, _ | 4, _ | 5, _ | 6, _ | 7, _ | 8, _ | 9, _ => rfl

theorem snoc_induction {α : Type} {P : List α → Prop} (hnil : P [])
    (hsnoc : ∀ l a, P l → P (l ++ [a])) : ∀ l, P l := by
  intro l
  have h : ∀ r : List α, P r.reverse := by
    intro r
    induction r with
    | nil => simpa using hnil
    | cons a r ih => simpa using hsnoc _ a ih
  simpa using h l.reverse

/-- left-pad with zeros to width `w` -/
def lpad (w : Nat) (l : List Char) : List Char := List.replicate (w - l.length) '0' ++ l

theorem fmtNum_eq_lpad (w n : Nat) : fmtNum w n = lpad w (Nat.toDigits 10 n) := by
  unfold fmtNum lpad zeroPadded ndig
  split
  · rfl
  · congr 2; omega

/-- printing the value of a digit string at the string's own width gives the string back -/
theorem lpad_parse : ∀ (ds : List Char), ds ≠ [] → (∀ c ∈ ds, c.isDigit = true) →
    lpad ds.length (Nat.toDigits 10 (parseNat ds)) = ds := by
  intro ds
  induction ds using snoc_induction with
  | hnil => intro h; exact absurd rfl h
  | hsnoc ds' c ih =>
    intro _ hall
    have hc : c.isDigit = true := hall c (by simp)
    have hall' : ∀ x ∈ ds', x.isDigit = true := fun x hx => hall x (by simp [hx])
    have hd : c.toNat - 48 < 10 := by have := digit_bounds c hc; omega
    rw [parseNat_snoc]
    by_cases hnil : ds' = []
    · subst hnil
      simp [parseNat, lpad, Nat.toDigits_of_lt_base hd, digitChar_of_digit c hc]
    · have ih' := ih hnil hall'
      by_cases hv : parseNat ds' = 0
      · -- all zeros so far
        rw [hv] at ih' ⊢
        simp only [Nat.zero_mul, Nat.zero_add]
        rw [Nat.toDigits_of_lt_base hd, digitChar_of_digit c hc]
        simp only [Nat.toDigits_zero, lpad, List.length_cons, List.length_nil, List.length_append] at ih' ⊢
        have hlen : 0 < ds'.length := List.length_pos_iff.mpr hnil
        have : ds'.length + 1 - (0 + 1) = (ds'.length - (0 + 1)) + 1 := by omega
        rw [this, List.replicate_succ']
        rw [List.append_assoc]
        show List.replicate (ds'.length - (0 + 1)) '0' ++ (['0'] ++ [c]) = ds' ++ [c]
        rw [← List.append_assoc, ih']
      · have hpos : 0 < parseNat ds' := Nat.pos_of_ne_zero hv
        have happ := Nat.toDigits_append_toDigits (b := 10) (n := parseNat ds') (d := c.toNat - 48) (by decide) hpos hd
        rw [Nat.toDigits_of_lt_base hd, digitChar_of_digit c hc] at happ
        have : parseNat ds' * 10 + (c.toNat - 48) = 10 * parseNat ds' + (c.toNat - 48) := by omega
        rw [this, ← happ]
        unfold lpad at ih' ⊢
        simp only [List.length_append, List.length_cons, List.length_nil]
        have : ds'.length + 1 - ((Nat.toDigits 10 (parseNat ds')).length + 1) = ds'.length - (Nat.toDigits 10 (parseNat ds')).length := by omega
        rw [this, ← List.append_assoc, ih']

theorem fmtNum_parse (ds : List Char) (h : ds ≠ []) (hall : ∀ c ∈ ds, c.isDigit = true) :
    fmtNum ds.length (parseNat ds) = ds := by
  rw [fmtNum_eq_lpad]; exact lpad_parse ds h hall

end Pm

