import Pm.Sort
/- hostlist_sort as coded — glibc merge sort order, the comparator's side effect on widths,
   hostlist_coalesce with its assert, hostlist_collapse.

   Every loop is structurally recursive on a fuel COMPUTED from its input and reports exhaustion explicitly
   (`RF.fuel` / `SortRes.fuel`) instead of stopping silently; there is no `partial` definition.  The definitions are cut
   into one small function per C branch so that they can be reasoned about (`Pm/SortFProof.lean`: the result is a
   permutation of the names).  The merge sort and `hostlist_collapse` provably never run out of fuel
   (`msort_ne_fuel`, `collapse_ne_fuel` in `SortFProof.lean`); for `hostlist_coalesce` the bound is generous but not
   proved sufficient, so `.fuel` stays a possible outcome in the logic (never observed in any run). -/
namespace Pm

instance : Inhabited HostRange := ⟨{ pfx := [], lo := 0, hi := 0, width := 0, single := true }⟩

abbrev Store := Array HostRange

/-- `_width_equiv` with its out-parameters: (result, wn', wm') -/
def widthEquivM (n wn m wm : Nat) : Bool × Nat × Nat :=
  match widthEquiv n wn m wm with
  | some (a, b) => (true, a, b)
  | none => (false, wn, wm)

/-- `hostrange_width_combine(h0, h1)` on two stored ranges: mutates both widths on success -/
def combineM (st : Store) (i j : Nat) : Bool × Store :=
  let a := st[i]!; let b := st[j]!
  if a.width == b.width then (true, st) else       -- the C test `wn == wm` compares pointers, but equal values fall through to the same result
  let (ok, wa, wb) := widthEquivM a.lo a.width b.lo b.width
  (ok, (st.set! i { a with width := wa }).set! j { b with width := wb })

def prefixCmp (a b : HostRange) : Int :=
  if a.pfx < b.pfx then -1 else if b.pfx < a.pfx then 1
  else (if b.single then 1 else 0) - (if a.single then 1 else 0)

/-- `hostrange_cmp` -/
def cmpM (st : Store) (i j : Nat) : Int × Store :=
  let a := st[i]!; let b := st[j]!
  let pc := prefixCmp a b
  if pc != 0 then (pc, st) else
  let (ok, st') := combineM st i j
  let a' := st'[i]!; let b' := st'[j]!
  (if ok then (a'.lo : Int) - b'.lo else (a'.width : Int) - b'.width, st')

/-- outcome of a fuel-bounded computation that may hit the `assert` of `hostrange_intersect` -/
inductive RF (α : Type) where
  | ok (a : α)
  | abort          -- assert(hostrange_cmp(h1, h2) <= 0) in hostrange_intersect
  | fuel           -- the computed fuel bound was not enough (never observed)
deriving Repr, DecidableEq

/-- result of `hostlist_sort` -/
inductive SortRes where
  | ok (hl : Hostlist)
  | abort                      -- assert(hostrange_cmp(h1, h2) <= 0) in hostrange_intersect
  | fuel                       -- modelling artefact: the computed iteration bound of `coalesce` was not enough (never observed)
deriving Repr, DecidableEq

/-- `hostlist_sort` did not return: the `assert` of `hostrange_intersect` fired (finding F19) — or, in the logic only,
    the computed iteration bound of this mirror ran out (`.fuel`: a modelling artefact, never observed in any run, which
    every consumer treats like the assert) -/
def SortRes.Died (r : SortRes) : Prop := r = .abort ∨ r = .fuel

instance (r : SortRes) : Decidable r.Died := by unfold SortRes.Died; exact inferInstance

/-! ## merge sort (glibc `msort_with_tmp`) -/

/-- the merge loop of `msort_with_tmp`; needs at most `l.length + r.length + 1` iterations -/
def mergeF : Nat → Store → List Nat → List Nat → List Nat → RF (List Nat × Store)
  | 0, _, _, _, _ => .fuel
  | f + 1, st, l, r, acc =>
    match l, r with
    | [], r => .ok (acc.reverse ++ r, st)
    | l, [] => .ok (acc.reverse ++ l, st)
    | a :: l', b :: r' =>
      if (cmpM st a b).1 ≤ 0 then mergeF f (cmpM st a b).2 l' (b :: r') (a :: acc)
      else mergeF f (cmpM st a b).2 (a :: l') r' (b :: acc)

/-- `msort` with the recursion depth as fuel (`ids.length + 1` is enough) -/
def msort : Nat → Store → List Nat → RF (List Nat × Store)
  | 0, _, _ => .fuel
  | f + 1, st, ids =>
    if ids.length ≤ 1 then .ok (ids, st) else
    match msort f st (ids.take (ids.length / 2)) with
    | .ok (l, st1) =>
      match msort f st1 (ids.drop (ids.length / 2)) with
      | .ok (r, st2) => mergeF (l.length + r.length + 1) st2 l r []
      | .abort => .abort
      | .fuel => .fuel
    | .abort => .abort
    | .fuel => .fuel

/-! ## `hostlist_coalesce` -/

/-- `hostlist_insert_range(hl, hr, j)` of a fresh copy: the copy gets the next free id -/
def insertAt (st : Store) (ids : List Nat) (j : Nat) (mk : HostRange) : List Nat × Store :=
  (ids.take j ++ [st.size] ++ ids.drop j, st.push mk)

/-- one iteration of the `while (new->lo <= new->hi)` loop body of `hostlist_coalesce` for `new->lo = x`:
    `a2hi` is `hprev->hi`, `b2lo` is `hnext->lo` -/
def insOne (pfx : Name) (w a2hi b2lo : Nat) (st : Store) (ids : List Nat) (x j : Nat) : List Nat × Store × Nat :=
  let mk : HostRange := { pfx := pfx, lo := x, hi := x, width := w, single := false }
  let r1 : List Nat × Store × Nat :=
    if x > a2hi then ((insertAt st ids j mk).1, (insertAt st ids j mk).2, j + 1) else (ids, st, j)
  if x < b2lo then ((insertAt r1.2.1 r1.1 r1.2.2 mk).1, (insertAt r1.2.1 r1.1 r1.2.2 mk).2, r1.2.2 + 1) else r1

/-- the `while (new->lo <= new->hi)` loop; same fuel (`newHi + 2 - newLo`) and same silent stop as `coalesce.loop.ins`
    (the bound is exact: `x` runs `newLo..newHi`) -/
def insF (pfx : Name) (w a2hi b2lo newHi : Nat) : Nat → Store → List Nat → Nat → Nat → List Nat × Store
  | 0, st, ids, _, _ => (ids, st)
  | f + 1, st, ids, x, j =>
    if x > newHi then (ids, st) else
    insF pfx w a2hi b2lo newHi f (insOne pfx w a2hi b2lo st ids x j).2.1 (insOne pfx w a2hi b2lo st ids x j).1
      (x + 1) (insOne pfx w a2hi b2lo st ids x j).2.2

/-- the body of `if (new) { … }` in `hostlist_coalesce`, after `hostrange_intersect` returned a range:
    `p`, `q` are the ids of `hl->hr[i-1]`, `hl->hr[i]` -/
def splitStep (st : Store) (ids : List Nat) (i p q : Nat) : List Nat × Store :=
  let a := st[p]!; let b := st[q]!
  let newLo := b.lo; let newHi := min b.hi a.hi; let newW := a.width
  let b1 : HostRange := if newHi < a.hi then { b with hi := a.hi } else b
  let a2 : HostRange := { a with hi := newLo }
  let b2 : HostRange := { b1 with lo := newHi }
  insF a.pfx newW newLo newHi newHi (newHi + 2 - newLo) ((st.set! p a2).set! q b2) ids newLo i

/-- outcome of one iteration of an outer loop -/
inductive StepRes where
  | cont (st : Store) (ids : List Nat) (i : Nat)
  | abort
  | done (st : Store) (ids : List Nat)

/-- the part of `hostrange_intersect` after its `assert`, and the `if (new)` body -/
def coalesceTail (st : Store) (ids : List Nat) (i p q : Nat) : StepRes :=
  if !(prefixCmp st[p]! st[q]! == 0 && (st[p]!).hi > (st[q]!).lo) then .cont st ids (i - 1) else
  if !(combineM st p q).1 then .cont (combineM st p q).2 ids (i - 1) else
  .cont (splitStep (combineM st p q).2 ids i p q).2 (splitStep (combineM st p q).2 ids i p q).1
    ((splitStep (combineM st p q).2 ids i p q).1.length - 1)

/-- one iteration of `for (i = hl->nranges - 1; i > 0; i--)` in `hostlist_coalesce` -/
def coalesceStep (st : Store) (ids : List Nat) (i : Nat) : StepRes :=
  if i == 0 then .done st ids else
  if (st[ids[i-1]!]!).single || (st[ids[i]!]!).single then .cont st ids (i - 1) else
  if (cmpM st ids[i-1]! ids[i]!).1 > 0 then .abort else
  coalesceTail (cmpM st ids[i-1]! ids[i]!).2 ids i ids[i-1]! ids[i]!

def coalesceLoopF : Nat → Store → List Nat → Nat → RF (List Nat × Store)
  | 0, _, _, _ => .fuel
  | f + 1, st, ids, i =>
    match coalesceStep st ids i with
    | .done st ids => .ok (ids, st)
    | .abort => .abort
    | .cont st ids i => coalesceLoopF f st ids i

/-- number of ranges plus number of hosts -/
def coalesceSize (st : Store) (ids : List Nat) : Nat :=
  ids.length + (ids.map fun i => (st[i]!).cnt).sum

/-- generous bound for the number of iterations of the outer loop of `hostlist_coalesce`.  Every split restarts the scan
    at the end of the list; with `N` hosts there are at most `N/2` splits that add ranges, between two of them at most
    `N²` splits that only exchange the ends of two ranges (each removes an inversion of the `hi` sequence), and a scan
    has at most `N` iterations — hence the fourth power.  (The square is NOT enough: 10 copies of `n[1-30]` need
    109364 iterations with `(size+2)² = 97344`.)  Sufficiency is not proved; `.fuel` reports exhaustion. -/
def coalesceFuel (st : Store) (ids : List Nat) : Nat := (coalesceSize st ids + 2) ^ 4

def coalesce (st : Store) (ids : List Nat) : RF (List Nat × Store) :=
  coalesceLoopF (coalesceFuel st ids) st ids (ids.length - 1)

/-! ## `hostlist_collapse` -/

/-- one iteration of `for (i = hl->nranges - 1; i > 0; i--)` in `hostlist_collapse` -/
def collapseStep (st : Store) (ids : List Nat) (i : Nat) : StepRes :=
  if i == 0 then .done st ids else
  if prefixCmp st[ids[i-1]!]! st[ids[i]!]! == 0 && (st[ids[i-1]!]!).hi + 1 == (st[ids[i]!]!).lo then
    if (combineM st ids[i-1]! ids[i]!).1 then
      .cont ((combineM st ids[i-1]! ids[i]!).2.set! ids[i-1]!
              { (combineM st ids[i-1]! ids[i]!).2[ids[i-1]!]! with hi := ((combineM st ids[i-1]! ids[i]!).2[ids[i]!]!).hi })
            (ids.eraseIdx i) (i - 1)
    else .cont (combineM st ids[i-1]! ids[i]!).2 ids (i - 1)
  else .cont st ids (i - 1)

def collapseLoopF : Nat → Store → List Nat → Nat → RF (List Nat × Store)
  | 0, _, _, _ => .fuel
  | f + 1, st, ids, i =>
    match collapseStep st ids i with
    | .done st ids => .ok (ids, st)
    | .abort => .abort
    | .cont st ids i => collapseLoopF f st ids i

/-- `i` goes down by one per iteration from `ids.length - 1`, so `ids.length + 1` iterations are enough -/
def collapse (st : Store) (ids : List Nat) : RF (List Nat × Store) :=
  collapseLoopF (ids.length + 1) st ids (ids.length - 1)

/-! ## `hostlist_sort` -/

def finishF (r : RF (List Nat × Store)) : SortRes :=
  match r with
  | .ok (ids, st) => .ok (ids.map fun i => st[i]!)
  | .abort => .abort
  | .fuel => .fuel

def afterCoalesceF (r : RF (List Nat × Store)) : SortRes :=
  match r with
  | .ok (ids, st) => finishF (collapse st ids)
  | .abort => .abort
  | .fuel => .fuel

def afterMsortF (r : RF (List Nat × Store)) : SortRes :=
  match r with
  | .ok (ids, st) => afterCoalesceF (coalesce st ids)
  | .abort => .abort
  | .fuel => .fuel

/-- `hostlist_sort`, total -/
def sortHL (hl : Hostlist) : SortRes :=
  if hl.length ≤ 1 then .ok hl else
  afterMsortF (msort (hl.length + 1) hl.toArray (List.range hl.length))

end Pm
