import Pm.Sort
/- pilot: hostlist_sort as coded — glibc merge sort order, the comparator's side effect on widths,
   hostlist_coalesce with its assert, hostlist_collapse -/
namespace Pm

instance : Inhabited HostRange := ⟨{ pfx := [], lo := 0, hi := 0, width := 0, single := true }⟩

abbrev Store := Array HostRange

/-- `_width_equiv` with its out-parameters: (result, wn', wm') -/
def widthEquivM (n wn m wm : Nat) : Bool × Nat × Nat :=
  match widthEquiv n wn m wm with
  | some (a, b) => (true, a, b)
  | none => (false, wn, wm)

/-- `hostrange_width_combine(h0, h1)` on two stored ranges: mutates both widths on success -/
def combineM (st : Store) (i j : Nat) : Bool × Store :=
  let a := st[i]!; let b := st[j]!
  if a.width == b.width then (true, st) else       -- the C test `wn == wm` compares pointers, but equal values fall through to the same result
  let (ok, wa, wb) := widthEquivM a.lo a.width b.lo b.width
  (ok, (st.set! i { a with width := wa }).set! j { b with width := wb })

def prefixCmp (a b : HostRange) : Int :=
  if a.pfx < b.pfx then -1 else if b.pfx < a.pfx then 1
  else (if b.single then 1 else 0) - (if a.single then 1 else 0)

/-- `hostrange_cmp` -/
def cmpM (st : Store) (i j : Nat) : Int × Store :=
  let a := st[i]!; let b := st[j]!
  let pc := prefixCmp a b
  if pc != 0 then (pc, st) else
  let (ok, st') := combineM st i j
  let a' := st'[i]!; let b' := st'[j]!
  (if ok then (a'.lo : Int) - b'.lo else (a'.width : Int) - b'.width, st')

/-- glibc `msort_with_tmp`: top-down, n1 = n/2, take from the left run when cmp ≤ 0 -/
partial def msort (st : Store) (ids : List Nat) : List Nat × Store :=
  if ids.length ≤ 1 then (ids, st) else
  let n1 := ids.length / 2
  let (l, st1) := msort st (ids.take n1)
  let (r, st2) := msort st1 (ids.drop n1)
  let rec merge (st : Store) (l r : List Nat) (acc : List Nat) : List Nat × Store :=
    match l, r with
    | [], r => (acc.reverse ++ r, st)
    | l, [] => (acc.reverse ++ l, st)
    | a :: l', b :: r' =>
      let (c, st') := cmpM st a b
      if c ≤ 0 then merge st' l' (b :: r') (a :: acc) else merge st' (a :: l') r' (b :: acc)
  merge st2 l r []

inductive SortRes where
  | ok (hl : Hostlist)
  | abort                      -- assert(hostrange_cmp(h1, h2) <= 0) in hostrange_intersect
deriving Repr

/-- `hostlist_coalesce` on a list of ids into the store (ranges are shared objects, inserts are fresh copies) -/
partial def coalesce (st : Store) (ids : List Nat) : Option (List Nat × Store) :=
  let rec loop (st : Store) (ids : List Nat) (i : Nat) (fuel : Nat) : Option (List Nat × Store) :=
    if fuel == 0 then some (ids, st) else
    if i == 0 then some (ids, st) else
    let p := ids[i-1]!; let q := ids[i]!
    let a := st[p]!; let b := st[q]!
    if a.single || b.single then loop st ids (i - 1) (fuel - 1) else
    let (c, st) := cmpM st p q
    if c > 0 then none else
    let a := st[p]!; let b := st[q]!
    if !(prefixCmp a b == 0 && a.hi > b.lo) then loop st ids (i - 1) (fuel - 1) else
    let (ok, st) := combineM st p q
    if !ok then loop st ids (i - 1) (fuel - 1) else
    let a := st[p]!; let b := st[q]!
    let newLo := b.lo; let newHi := min b.hi a.hi; let newW := a.width
    let b1 := if newHi < a.hi then { b with hi := a.hi } else b
    let a2 := { a with hi := newLo }
    let b2 := { b1 with lo := newHi }
    let st := (st.set! p a2).set! q b2
    -- insert the split-out singles before position j (starting at i)
    let rec ins (st : Store) (ids : List Nat) (x : Nat) (j : Nat) (fuel : Nat) : List Nat × Store :=
      if fuel == 0 || x > newHi then (ids, st) else
      let mk : HostRange := { pfx := a.pfx, lo := x, hi := x, width := newW, single := false }
      let (ids, st, j) := if x > a2.hi then
          let id := st.size; ((ids.take j) ++ [id] ++ (ids.drop j), st.push mk, j + 1) else (ids, st, j)
      let (ids, st, j) := if x < b2.lo then
          let id := st.size; ((ids.take j) ++ [id] ++ (ids.drop j), st.push mk, j + 1) else (ids, st, j)
      ins st ids (x + 1) j (fuel - 1)
    let (ids, st) := ins st ids newLo i (newHi + 2 - newLo)
    loop st ids (ids.length - 1) (fuel - 1)
  loop st ids (ids.length - 1) 100000

/-- `hostlist_collapse` -/
partial def collapse (st : Store) (ids : List Nat) : List Nat × Store :=
  let rec loop (st : Store) (ids : List Nat) (i : Nat) : List Nat × Store :=
    if i == 0 then (ids, st) else
    let p := ids[i-1]!; let q := ids[i]!
    let a := st[p]!; let b := st[q]!
    if prefixCmp a b == 0 && a.hi + 1 == b.lo then
      let (ok, st) := combineM st p q
      if ok then
        let a := st[p]!; let b := st[q]!
        loop (st.set! p { a with hi := b.hi }) (ids.eraseIdx i) (i - 1)
      else loop st ids (i - 1)
    else loop st ids (i - 1)
  loop st ids (ids.length - 1)

def sortHL (hl : Hostlist) : SortRes :=
  if hl.length ≤ 1 then .ok hl else
  let st : Store := hl.toArray
  let (ids, st) := msort st (List.range hl.length)
  match coalesce st ids with
  | none => .abort
  | some (ids, st) =>
    let (ids, st) := collapse st ids
    .ok (ids.map fun i => st[i]!)

end Pm

