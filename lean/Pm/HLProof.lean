import Pm.HL
import Pm.Digits
namespace Pm

theorem expand_append (a b : Hostlist) : expand (a ++ b) = expand a ++ expand b := by
  simp [expand, List.flatMap_append]

theorem expand_singleton (r : HostRange) : expand [r] = r.expand := by
  simp [expand]

/-- numeric part of a non-single range -/
def numExpand (pfx : Name) (w lo hi : Nat) : List Name :=
  (List.range (hi + 1 - lo)).map fun i => pfx ++ fmtNum w (lo + i)

theorem HostRange.expand_nonsingle (r : HostRange) (h : r.single = false) :
    r.expand = numExpand r.pfx r.width r.lo r.hi := by
  simp [HostRange.expand, h, numExpand]

theorem numExpand_append (pfx : Name) (w lo hi hi' : Nat) (h1 : lo ≤ hi) (h2 : hi + 1 ≤ hi' + 1) :
    numExpand pfx w lo hi ++ numExpand pfx w (hi + 1) hi' = numExpand pfx w lo hi' := by
  unfold numExpand
  have : hi' + 1 - lo = (hi + 1 - lo) + (hi' + 1 - (hi + 1)) := by omega
  rw [this, List.range_add, List.map_append, List.map_map]
  congr 1
  apply List.map_congr_left
  intro i _
  simp only [Function.comp]
  congr 2
  omega

theorem numExpand_width (pfx : Name) (w w' lo hi : Nat)
    (h : ∀ x, lo ≤ x → fmtNum w' x = fmtNum w x) : numExpand pfx w' lo hi = numExpand pfx w lo hi := by
  unfold numExpand
  apply List.map_congr_left
  intro i _
  rw [h _ (by omega)]

theorem expand_pushRange' (hl : Hostlist) (r : HostRange) (hwf : r.single = true ∨ r.lo ≤ r.hi)
    (hall : ∀ t ∈ hl, t.single = true ∨ t.lo ≤ t.hi) :
    expand (pushRange hl r) = expand hl ++ r.expand := by
  unfold pushRange
  cases hlast : hl.getLast? with
  | none =>
    have : hl = [] := by simpa using hlast
    subst this; simp [expand]
  | some t =>
    simp only
    split
    · rename_i hc
      obtain ⟨hp, hs, hts, hadj⟩ := hc
      have hts' : t.single = false := by simpa using hts
      have hrs : r.single = false := by rw [← hs]; exact hts'
      cases hwe : widthEquiv t.lo t.width r.lo r.width with
      | none => simp [expand_append, expand_singleton]
      | some p =>
        obtain ⟨wt, wr⟩ := p
        simp only
        obtain ⟨hEq, hT, hR⟩ := widthEquiv_sound hwe
        have hsplit : hl = hl.dropLast ++ [t] := by
          obtain ⟨ys, hys⟩ := List.getLast?_eq_some_iff.mp hlast
          rw [hys]; simp
        have htwf : t.lo ≤ t.hi := by
          have := hall t (by rw [hsplit]; simp)
          cases this with
          | inl h => rw [hts'] at h; cases h
          | inr h => exact h
        have hrwf : r.lo ≤ r.hi := by
          cases hwf with
          | inl h => rw [hrs] at h; cases h
          | inr h => exact h
        conv => rhs; rw [hsplit]
        rw [expand_append, expand_append, expand_singleton, expand_singleton, List.append_assoc]
        congr 1
        rw [HostRange.expand_nonsingle _ (by simpa using hts'), HostRange.expand_nonsingle t hts',
            HostRange.expand_nonsingle r hrs]
        simp only
        rw [← hp, ← hadj]
        rw [← numExpand_width t.pfx t.width wt t.lo t.hi hT]
        have hR' : ∀ y, t.hi + 1 ≤ y → fmtNum wt y = fmtNum r.width y := by
          intro y hy; rw [hEq]; exact hR y (by omega)
        rw [← numExpand_width t.pfx r.width wt (t.hi + 1) r.hi hR']
        exact (numExpand_append t.pfx wt t.lo t.hi r.hi htwf (by omega)).symm
    · simp [expand_append, expand_singleton]

end Pm

namespace Pm

theorem all_of_mem_takeWhile {α} (p : α → Bool) : ∀ (l : List α) (a : α), a ∈ l.takeWhile p → p a = true
  | [], a, h => by simp at h
  | x :: xs, a, h => by
    rw [List.takeWhile_cons] at h
    split at h
    · rename_i hx
      rcases List.mem_cons.mp h with rfl | h'
      · exact hx
      · exact all_of_mem_takeWhile p xs a h'
    · simp at h

theorem splitDigits_spec (n : Name) :
    (splitDigits n).1 ++ (splitDigits n).2 = n ∧ ∀ c ∈ (splitDigits n).2, c.isDigit = true := by
  unfold splitDigits
  simp only
  constructor
  · have h : n.reverse.takeWhile Char.isDigit ++ n.reverse.dropWhile Char.isDigit = n.reverse :=
      List.takeWhile_append_dropWhile
    rw [← List.reverse_append, h, List.reverse_reverse]
  · intro c hc
    have hc' : c ∈ n.reverse.takeWhile Char.isDigit := by simpa using hc
    exact all_of_mem_takeWhile _ _ _ hc'

theorem expand_pushHost' (hl : Hostlist) (n : Name)
    (hall : ∀ t ∈ hl, t.single = true ∨ t.lo ≤ t.hi) :
    expand (pushHost hl n) = expand hl ++ [n] := by
  obtain ⟨hcat, hdig⟩ := splitDigits_spec n
  unfold pushHost HostName.ofName
  generalize hsd : splitDigits n = sd at hcat hdig
  obtain ⟨p, ds⟩ := sd
  simp only at hcat hdig ⊢
  by_cases hemp : ds.isEmpty = true
  · simp only [hemp, if_true]
    rw [expand_pushRange' hl _ (Or.inl rfl) hall]
    simp [HostRange.expand]
  · simp only [hemp]
    by_cases hmax : parseNat ds ≤ MAX_HOST_SUFFIX
    · simp only [hmax, if_true, Bool.false_eq_true, if_false]
      rw [expand_pushRange' hl _ (Or.inr (Nat.le_refl _)) hall]
      have hne' : ds ≠ [] := by simpa using hemp
      simp [HostRange.expand, fmtNum_parse ds hne' hdig, hcat]
    · simp only [hmax, Bool.false_eq_true, if_false]
      rw [expand_pushRange' hl _ (Or.inl rfl) hall]
      simp [HostRange.expand]

end Pm

