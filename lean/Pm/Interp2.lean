/- pilot for C08: the ExecCtx stack machine simulates the loop-free reference, one micro-step at a time.
   Reduced statement set (send / expect / foreachplug / ifon) but the full control structure:
   context stack, per-context statement position, plug iterator, `processing` flag, stalls. -/
namespace Pm.I2

inductive Stmt where
  | send (s : String)
  | expect (p : String)
  | fplug (body : List Stmt)
  | ifon (body : List Stmt)

structure Plug where
  name : String
  on : Option Bool            -- this action's arglist state for the plug's node: some true = on, none = unknown
deriving DecidableEq

inductive Eff where
  | sent (s : String) (arg : Option String)
  | consumed (p : String)
deriving DecidableEq

structure Env where
  devPlugs : List Plug
  toBusy : Bool               -- dev->to not yet drained
  input : List String         -- what the device has sent; `expect p` matches iff the head is `p`

/-! ## mirror -/
structure Ctx where
  block : List Stmt
  pos : Nat
  plug : Option Plug
  itr : Option Nat
  processing : Bool

inductive Res (σ : Type) where
  | stalled
  | fin (err : Bool)
  | step (env : Env) (s : σ) (effs : List Eff)

def plugState (p : Option Plug) : Option Bool := p.bind (·.on)

/-- one trip round the loops of `_process_action` for the head action -/
def mstep (env : Env) : List Ctx → Res (List Ctx)
  | [] => .fin false
  | c :: rest =>
    match c.block[c.pos]? with
    | none => .step env rest []                                            -- block done: pop
    | some (.send s) =>
      if !c.processing then .step { env with toBusy := true } ({ c with processing := true } :: rest) [.sent s (c.plug.map (·.name))]
      else if env.toBusy then .stalled
      else .step env ({ c with processing := false, pos := c.pos + 1 } :: rest) []
    | some (.expect p) =>
      match env.input with
      | l :: ls => if l = p then .step { env with input := ls } ({ c with pos := c.pos + 1 } :: rest) [.consumed p] else .stalled
      | [] => .stalled
    | some (.fplug body) =>
      match env.devPlugs[c.itr.getD 0]? with
      | some pl => .step env ({ block := body, pos := 0, plug := some pl, itr := none, processing := false }
                              :: { c with itr := some (c.itr.getD 0 + 1) } :: rest) []
      | none => .step env ({ c with itr := none, pos := c.pos + 1 } :: rest) []
    | some (.ifon body) =>
      if c.processing then .step env ({ c with processing := false, pos := c.pos + 1 } :: rest) []
      else match plugState c.plug with
        | some true => .step env ({ block := body, pos := 0, plug := c.plug, itr := none, processing := false }
                                  :: { c with processing := true } :: rest) []
        | some false => .step env ({ c with pos := c.pos + 1 } :: rest) []
        | none => .fin true

/-! ## reference -/
inductive FOp where
  | send (s : String) (arg : Option String)
  | expect (p : String)
  | guard (st : Option Bool) (body : List FOp)

mutual
def unroll (devPlugs : List Plug) : List Stmt → Option Plug → List FOp
  | [], _ => []
  | s :: r, plug => unrollStmt devPlugs s plug ++ unroll devPlugs r plug
def unrollStmt (devPlugs : List Plug) : Stmt → Option Plug → List FOp
  | .send s, plug => [.send s (plug.map (·.name))]
  | .expect p, _ => [.expect p]
  | .fplug body, _ => devPlugs.flatMap fun p => unroll devPlugs body (some p)
  | .ifon body, plug => [.guard (plugState plug) (unroll devPlugs body plug)]
end

/-- the part of a `foreachplug` that is still to come when the iterator stands at `ps` -/
def unrollEach (devPlugs : List Plug) (ps : List Plug) (body : List Stmt) : List FOp :=
  ps.flatMap fun p => unroll devPlugs body (some p)

structure F where
  rem : List FOp
  inflight : Bool

def fstep (env : Env) (f : F) : Res F :=
  match f.rem with
  | [] => .fin false
  | .send s a :: r =>
    if !f.inflight then .step { env with toBusy := true } { f with inflight := true } [.sent s a]
    else if env.toBusy then .stalled
    else .step env { rem := r, inflight := false } []
  | .expect p :: r =>
    match env.input with
    | l :: ls => if l = p then .step { env with input := ls } { f with rem := r } [.consumed p] else .stalled
    | [] => .stalled
  | .guard st body :: r =>
    match st with
    | some true => .step env { f with rem := body ++ r } []
    | some false => .step env { f with rem := r } []
    | none => .fin true

/-! ## abstraction: the continuation a stack stands for -/
def contCtx (devPlugs : List Plug) (c : Ctx) : List FOp :=
  match c.block[c.pos]? with
  | none => []
  | some (.fplug body) => unrollEach devPlugs (devPlugs.drop (c.itr.getD 0)) body ++ unroll devPlugs (c.block.drop (c.pos + 1)) c.plug
  | some (.ifon body) =>
    (if c.processing then [] else [.guard (plugState c.plug) (unroll devPlugs body c.plug)])
      ++ unroll devPlugs (c.block.drop (c.pos + 1)) c.plug
  | some _ => unroll devPlugs (c.block.drop c.pos) c.plug

def cont (devPlugs : List Plug) (stack : List Ctx) : List FOp := stack.flatMap (contCtx devPlugs)

def ctxInflight (c : Ctx) : Bool :=
  match c.block[c.pos]? with
  | some (.send _) => c.processing
  | _ => false

def topInflight : List Ctx → Bool
  | c :: _ => ctxInflight c
  | [] => false

/-- flags that must be clear for the abstraction to mean anything; `_rewind_action` violates exactly this (F5) -/
def CtxOK (c : Ctx) : Prop :=
  match c.block[c.pos]? with
  | some (.send _) => c.itr = none
  | some (.expect _) => c.processing = false ∧ c.itr = none
  | some (.fplug _) => c.processing = false
  | some (.ifon _) => c.itr = none
  | none => True

def abs (devPlugs : List Plug) (stack : List Ctx) : F := { rem := cont devPlugs stack, inflight := topInflight stack }

theorem drop_pos {block : List Stmt} {pos : Nat} {s : Stmt} (h : block[pos]? = some s) :
    block.drop pos = s :: block.drop (pos + 1) := by
  have hlt : pos < block.length := by
    rcases Nat.lt_or_ge pos block.length with h' | h'
    · exact h'
    · rw [List.getElem?_eq_none h'] at h; cases h
  rw [List.drop_eq_getElem_cons hlt]
  congr 1
  have := List.getElem?_eq_getElem hlt
  rw [this] at h; exact Option.some.inj h

theorem unrollEach_drop (devPlugs : List Plug) (k : Nat) (pl : Plug) (body : List Stmt)
    (h : devPlugs[k]? = some pl) :
    unrollEach devPlugs (devPlugs.drop k) body =
      unroll devPlugs body (some pl) ++ unrollEach devPlugs (devPlugs.drop (k + 1)) body := by
  have hlt : k < devPlugs.length := by
    rcases Nat.lt_or_ge k devPlugs.length with h' | h'
    · exact h'
    · rw [List.getElem?_eq_none h'] at h; cases h
  rw [List.drop_eq_getElem_cons hlt]
  have := List.getElem?_eq_getElem hlt
  rw [this] at h
  rw [Option.some.inj h]
  simp [unrollEach]

theorem unrollEach_drop_none (devPlugs : List Plug) (k : Nat) (body : List Stmt) (h : devPlugs[k]? = none) :
    unrollEach devPlugs (devPlugs.drop k) body = [] := by
  have : devPlugs.length ≤ k := by
    rcases Nat.lt_or_ge k devPlugs.length with h' | h'
    · rw [List.getElem?_eq_getElem h'] at h; cases h
    · exact h'
  rw [List.drop_eq_nil_of_le this]; simp [unrollEach]

/-- outcome of one machine micro-step seen through the abstraction -/
inductive Sim (env : Env) (stack : List Ctx) : Res (List Ctx) → Prop where
  | stalled : fstep env (abs env.devPlugs stack) = .stalled → Sim env stack .stalled
  | fin (e : Bool) : fstep env (abs env.devPlugs stack) = .fin e → Sim env stack (.fin e)
  | stutter (stack' : List Ctx) : abs env.devPlugs stack' = abs env.devPlugs stack →
      Sim env stack (.step env stack' [])
  | step (env' : Env) (stack' : List Ctx) (effs : List Eff) :
      fstep env (abs env.devPlugs stack) = .step env' (abs env.devPlugs stack') effs → env'.devPlugs = env.devPlugs →
      Sim env stack (.step env' stack' effs)

/-- a context below the top is always parked on the block statement that pushed its child -/
def ParentOK (c : Ctx) : Prop :=
  match c.block[c.pos]? with
  | some (.fplug _) => True
  | some (.ifon _) => c.processing = true
  | _ => False

def StackOK (stack : List Ctx) : Prop := (∀ c ∈ stack, CtxOK c) ∧ (∀ c ∈ stack.tail, ParentOK c)

theorem ctxInflight_parent (c : Ctx) (h : ParentOK c) : ctxInflight c = false := by
  unfold ParentOK at h
  unfold ctxInflight
  cases hcur : c.block[c.pos]? with
  | none => rfl
  | some s => cases s <;> simp_all

theorem topInflight_parent (rest : List Ctx) (h : ∀ c ∈ rest, ParentOK c) : topInflight rest = false := by
  cases rest with
  | nil => rfl
  | cons p ps => exact ctxInflight_parent p (h p (by simp))

theorem cont_cons (dp : List Plug) (c : Ctx) (rest : List Ctx) : cont dp (c :: rest) = contCtx dp c ++ cont dp rest := by
  simp [cont]

theorem drop_none {block : List Stmt} {pos : Nat} (h : block[pos]? = none) : block.drop pos = [] := by
  have : block.length ≤ pos := by
    rcases Nat.lt_or_ge pos block.length with h' | h'
    · rw [List.getElem?_eq_getElem h'] at h; cases h
    · exact h'
  exact List.drop_eq_nil_of_le this

/-- a context with clear flags denotes exactly the unrolling of what is left of its block -/
theorem contCtx_fresh (dp : List Plug) (c : Ctx) (hi : c.itr = none) (hp : c.processing = false) :
    contCtx dp c = unroll dp (c.block.drop c.pos) c.plug := by
  unfold contCtx
  cases hcur : c.block[c.pos]? with
  | none => simp [drop_none hcur, unroll]
  | some s =>
    rw [drop_pos hcur]
    cases s with
    | send _ => simp
    | expect _ => simp
    | fplug body => simp [hi, unroll, unrollStmt, unrollEach]
    | ifon body => simp [hp, unroll, unrollStmt]

theorem ctxInflight_noproc (c : Ctx) (hp : c.processing = false) : ctxInflight c = false := by
  unfold ctxInflight; split <;> simp_all

theorem abs_fresh (dp : List Plug) (c : Ctx) (rest : List Ctx) (hi : c.itr = none) (hp : c.processing = false) :
    abs dp (c :: rest) = ⟨unroll dp (c.block.drop c.pos) c.plug ++ cont dp rest, false⟩ := by
  simp only [abs, cont_cons, contCtx_fresh dp c hi hp, topInflight, ctxInflight_noproc c hp]

theorem abs_send (dp : List Plug) (c : Ctx) (rest : List Ctx) (str : String) (hcur : c.block[c.pos]? = some (.send str)) :
    abs dp (c :: rest) =
      ⟨.send str (c.plug.map (·.name)) :: (unroll dp (c.block.drop (c.pos + 1)) c.plug ++ cont dp rest), c.processing⟩ := by
  simp [abs, cont_cons, contCtx, hcur, drop_pos hcur, unroll, unrollStmt, topInflight, ctxInflight]

theorem abs_expect (dp : List Plug) (c : Ctx) (rest : List Ctx) (p : String) (hcur : c.block[c.pos]? = some (.expect p)) :
    abs dp (c :: rest) = ⟨.expect p :: (unroll dp (c.block.drop (c.pos + 1)) c.plug ++ cont dp rest), false⟩ := by
  simp [abs, cont_cons, contCtx, hcur, drop_pos hcur, unroll, unrollStmt, topInflight, ctxInflight]

theorem abs_fplug (dp : List Plug) (c : Ctx) (rest : List Ctx) (body : List Stmt) (hcur : c.block[c.pos]? = some (.fplug body)) :
    abs dp (c :: rest) =
      ⟨unrollEach dp (dp.drop (c.itr.getD 0)) body ++ (unroll dp (c.block.drop (c.pos + 1)) c.plug ++ cont dp rest), false⟩ := by
  simp [abs, cont_cons, contCtx, hcur, topInflight, ctxInflight]

theorem abs_ifon (dp : List Plug) (c : Ctx) (rest : List Ctx) (body : List Stmt) (hcur : c.block[c.pos]? = some (.ifon body)) :
    abs dp (c :: rest) =
      ⟨(if c.processing then [] else [.guard (plugState c.plug) (unroll dp body c.plug)])
          ++ (unroll dp (c.block.drop (c.pos + 1)) c.plug ++ cont dp rest), false⟩ := by
  simp [abs, cont_cons, contCtx, hcur, topInflight, ctxInflight]

/-- C08 core: every micro-step of the stack machine is either invisible (push / pop / iterator
    bookkeeping leave the denoted continuation unchanged) or is exactly one step of the reference,
    with the same effects, the same stall and the same failure. -/
theorem mstep_sim (env : Env) (stack : List Ctx) (hok : StackOK stack) :
    Sim env stack (mstep env stack) := by
  obtain ⟨hctx, hpar⟩ := hok
  cases stack with
  | nil => exact Sim.fin false (by simp [mstep, fstep, abs, cont])
  | cons c rest =>
    have hc := hctx c (by simp)
    have hpar' : ∀ p ∈ rest, ParentOK p := by simpa using hpar
    have hti := topInflight_parent rest hpar'
    simp only [mstep]
    split
    next hcur =>
      refine Sim.stutter rest ?_
      have h1 : contCtx env.devPlugs c = [] := by simp [contCtx, hcur]
      have h2 : topInflight (c :: rest) = false := by simp [topInflight, ctxInflight, hcur]
      simp only [abs, cont_cons, h1, List.nil_append, hti, h2]
    next str hcur =>
      unfold CtxOK at hc; rw [hcur] at hc
      rw [show (c :: rest) = (c :: rest) from rfl]
      by_cases hp : c.processing = true
      · simp only [hp, Bool.not_true, Bool.false_eq_true, if_false]
        by_cases hb : env.toBusy = true
        · simp only [hb, if_true]
          refine Sim.stalled ?_
          rw [abs_send _ _ _ _ hcur]
          simp [fstep, hp, hb]
        · simp only [hb, if_false]
          refine Sim.step env _ [] ?_ rfl
          have hb' : env.toBusy = false := by simpa using hb
          rw [abs_send _ _ _ _ hcur, abs_fresh _ { c with processing := false, pos := c.pos + 1 } rest hc rfl]
          simp [fstep, hp, hb']
      · have hp' : c.processing = false := by simpa using hp
        simp only [hp', Bool.not_false, if_true]
        refine Sim.step _ _ _ ?_ rfl
        rw [abs_send _ _ _ _ hcur, abs_send _ { c with processing := true } rest str hcur]
        simp [fstep, hp']
    next p hcur =>
      unfold CtxOK at hc; rw [hcur] at hc
      obtain ⟨hproc, hitr⟩ := hc
      split
      next l ls hin =>
        split
        next heq =>
          refine Sim.step _ _ _ ?_ rfl
          rw [abs_expect _ _ _ _ hcur, abs_fresh _ { c with pos := c.pos + 1 } rest hitr hproc]
          simp [fstep, hin, heq]
        next hne =>
          refine Sim.stalled ?_
          rw [abs_expect _ _ _ _ hcur]
          simp [fstep, hin, hne]
      next hin =>
        refine Sim.stalled ?_
        rw [abs_expect _ _ _ _ hcur]
        simp [fstep, hin]
    next body hcur =>
      unfold CtxOK at hc; rw [hcur] at hc
      split
      next pl hpl =>
        refine Sim.stutter _ ?_
        rw [abs_fplug _ _ _ _ hcur,
            abs_fresh _ { block := body, pos := 0, plug := some pl, itr := none, processing := false } _ rfl rfl]
        simp [cont_cons, contCtx, hcur, unrollEach_drop _ _ _ _ hpl]
      next hpl =>
        refine Sim.stutter _ ?_
        rw [abs_fplug _ _ _ _ hcur, abs_fresh _ { c with itr := none, pos := c.pos + 1 } rest rfl hc]
        simp [unrollEach_drop_none _ _ _ hpl]
    next body hcur =>
      unfold CtxOK at hc; rw [hcur] at hc
      by_cases hp : c.processing = true
      · simp only [hp, if_true]
        refine Sim.stutter _ ?_
        rw [abs_ifon _ _ _ _ hcur, abs_fresh _ { c with processing := false, pos := c.pos + 1 } rest hc rfl]
        simp [hp]
      · have hp' : c.processing = false := by simpa using hp
        simp only [hp', Bool.false_eq_true, if_false]
        split
        next hst =>
          refine Sim.step env _ [] ?_ rfl
          rw [abs_ifon _ _ _ _ hcur,
              abs_fresh _ { block := body, pos := 0, plug := c.plug, itr := none, processing := false } _ rfl rfl]
          simp [fstep, hp', hst, cont_cons, contCtx, hcur]
        next hst =>
          refine Sim.step env _ [] ?_ rfl
          rw [abs_ifon _ _ _ _ hcur, abs_fresh _ { c with processing := false, pos := c.pos + 1 } rest hc rfl]
          simp [fstep, hp', hst]
        next hst =>
          refine Sim.fin true ?_
          rw [abs_ifon _ _ _ _ hcur]
          simp [fstep, hp', hst]

/-! ## the invariant is kept, and single steps lift to whole passes -/

theorem ctxOK_fresh (block : List Stmt) (pos : Nat) (plug : Option Plug) :
    CtxOK { block, pos, plug, itr := none, processing := false } := by
  unfold CtxOK; split <;> simp

theorem mstep_preserves (env : Env) (stack : List Ctx) (hok : StackOK stack) (env' : Env) (stack' : List Ctx)
    (effs : List Eff) (h : mstep env stack = .step env' stack' effs) : StackOK stack' := by
  obtain ⟨hctx, hpar⟩ := hok
  cases stack with
  | nil => simp [mstep] at h
  | cons c rest =>
    have hc := hctx c (by simp)
    have hrest : ∀ x ∈ rest, CtxOK x := fun x hx => hctx x (by simp [hx])
    have hpar' : ∀ p ∈ rest, ParentOK p := by simpa using hpar
    have tailPar : ∀ p ∈ rest.tail, ParentOK p := fun p hp => hpar' p (List.mem_of_mem_tail hp)
    -- helper: replacing the top by a context with clear flags keeps the stack well-formed
    have keep : ∀ c' : Ctx, CtxOK c' → StackOK (c' :: rest) := fun c' hc' =>
      ⟨fun x hx => by rcases List.mem_cons.mp hx with rfl | hx; exact hc'; exact hrest x hx, by simpa using hpar'⟩
    simp only [mstep] at h
    split at h
    next hcur =>
      simp only [Res.step.injEq] at h; obtain ⟨_, rfl, _⟩ := h
      exact ⟨hrest, tailPar⟩
    next str hcur =>
      unfold CtxOK at hc; rw [hcur] at hc
      split at h
      · simp only [Res.step.injEq] at h; obtain ⟨_, rfl, _⟩ := h
        exact keep _ (by unfold CtxOK; simp [hcur, hc])
      · split at h
        · cases h
        · simp only [Res.step.injEq] at h; obtain ⟨_, rfl, _⟩ := h
          exact keep _ (by have := ctxOK_fresh c.block (c.pos + 1) c.plug; simpa [hc] using this)
    next p hcur =>
      unfold CtxOK at hc; rw [hcur] at hc
      split at h
      · split at h
        · simp only [Res.step.injEq] at h; obtain ⟨_, rfl, _⟩ := h
          exact keep _ (by have := ctxOK_fresh c.block (c.pos + 1) c.plug; simpa [hc.1, hc.2] using this)
        · cases h
      · cases h
    next body hcur =>
      unfold CtxOK at hc; rw [hcur] at hc
      split at h
      · simp only [Res.step.injEq] at h; obtain ⟨_, rfl, _⟩ := h
        refine ⟨?_, ?_⟩
        · intro x hx
          rcases List.mem_cons.mp hx with rfl | hx
          · exact ctxOK_fresh _ _ _
          · rcases List.mem_cons.mp hx with rfl | hx
            · unfold CtxOK; simp [hcur, hc]
            · exact hrest x hx
        · intro x hx
          simp only [List.tail_cons] at hx
          rcases List.mem_cons.mp hx with rfl | hx
          · unfold ParentOK; simp [hcur]
          · exact hpar' x hx
      · simp only [Res.step.injEq] at h; obtain ⟨_, rfl, _⟩ := h
        exact keep _ (by have := ctxOK_fresh c.block (c.pos + 1) c.plug; simpa [hc] using this)
    next body hcur =>
      unfold CtxOK at hc; rw [hcur] at hc
      by_cases hproc : c.processing = true
      · simp only [hproc, if_true, Res.step.injEq] at h; obtain ⟨_, rfl, _⟩ := h
        exact keep _ (by have := ctxOK_fresh c.block (c.pos + 1) c.plug; simpa [hc] using this)
      · have hp' : c.processing = false := by simpa using hproc
        simp only [hp', Bool.false_eq_true, if_false] at h
        split at h
        · simp only [Res.step.injEq] at h; obtain ⟨_, rfl, _⟩ := h
          refine ⟨?_, ?_⟩
          · intro x hx
            rcases List.mem_cons.mp hx with rfl | hx
            · exact ctxOK_fresh _ _ _
            · rcases List.mem_cons.mp hx with rfl | hx
              · unfold CtxOK; simp [hcur, hc]
              · exact hrest x hx
          · intro x hx
            simp only [List.tail_cons] at hx
            rcases List.mem_cons.mp hx with rfl | hx
            · unfold ParentOK; simp [hcur]
            · exact hpar' x hx
        · simp only [Res.step.injEq] at h; obtain ⟨_, rfl, _⟩ := h
          exact keep _ (by have := ctxOK_fresh c.block (c.pos + 1) c.plug; simpa [hc, hp'] using this)
        · cases h

inductive Status where
  | stalled | fin (e : Bool) | outOfFuel
deriving DecidableEq

/-- one pass of `_process_action` for the head action: micro-steps until it stalls or ends -/
def mrun : Nat → Env → List Ctx → List Eff → Env × List Ctx × List Eff × Status
  | 0, env, st, acc => (env, st, acc, .outOfFuel)
  | n + 1, env, st, acc =>
    match mstep env st with
    | .stalled => (env, st, acc, .stalled)
    | .fin e => (env, st, acc, .fin e)
    | .step env' st' effs => mrun n env' st' (acc ++ effs)

def frun : Nat → Env → F → List Eff → Env × F × List Eff × Status
  | 0, env, f, acc => (env, f, acc, .outOfFuel)
  | n + 1, env, f, acc =>
    match fstep env f with
    | .stalled => (env, f, acc, .stalled)
    | .fin e => (env, f, acc, .fin e)
    | .step env' f' effs => frun n env' f' (acc ++ effs)

/-- C08: a whole pass of the stack machine — any script, any plug list, any device input, any
    point at which it was left by earlier passes — is a pass of the loop-free reference on the
    continuation the stack denotes: same effects in the same order, same stall, same outcome. -/
theorem C08_refines_pass : ∀ (n : Nat) (env : Env) (st : List Ctx) (acc : List Eff)
    (env' : Env) (st' : List Ctx) (effs : List Eff) (s : Status),
    StackOK st → mrun n env st acc = (env', st', effs, s) → s ≠ .outOfFuel →
    ∃ k, frun k env (abs env.devPlugs st) acc = (env', abs env.devPlugs st', effs, s) ∧ StackOK st'
         ∧ env'.devPlugs = env.devPlugs := by
  intro n
  induction n with
  | zero =>
    intro env st acc env' st' effs s _ h hs
    simp only [mrun, Prod.mk.injEq] at h
    exact absurd h.2.2.2.symm hs
  | succ n ih =>
    intro env st acc env' st' effs s hok h hs
    have hsim := mstep_sim env st hok
    have hpres := mstep_preserves env st hok
    simp only [mrun] at h
    generalize hm : mstep env st = r at hsim h hpres
    cases hsim with
    | stalled hf =>
      simp only [Prod.mk.injEq] at h
      obtain ⟨rfl, rfl, rfl, rfl⟩ := h
      exact ⟨1, by simp [frun, hf], hok, rfl⟩
    | fin e hf =>
      simp only [Prod.mk.injEq] at h
      obtain ⟨rfl, rfl, rfl, rfl⟩ := h
      exact ⟨1, by simp [frun, hf], hok, rfl⟩
    | stutter st2 habs =>
      simp only [List.append_nil] at h
      obtain ⟨k, hk, hok', hdp⟩ := ih env st2 acc env' st' effs s (hpres env st2 [] rfl) h hs
      exact ⟨k, by rw [← habs]; exact hk, hok', hdp⟩
    | step env2 st2 effs2 hf hdp2 =>
      simp only at h
      obtain ⟨k, hk, hok', hdp⟩ := ih env2 st2 (acc ++ effs2) env' st' effs s (hpres env2 st2 effs2 rfl) h hs
      refine ⟨k + 1, ?_, hok', by rw [hdp, hdp2]⟩
      simp only [frun, hf]
      rw [hdp2] at hk
      exact hk

/-- a fresh action is well-formed, and denotes the unrolling of its whole script -/
theorem C08_initial (dp : List Plug) (script : List Stmt) (plug : Option Plug) :
    StackOK [{ block := script, pos := 0, plug, itr := none, processing := false }] ∧
    abs dp [{ block := script, pos := 0, plug, itr := none, processing := false }] = ⟨unroll dp script plug, false⟩ := by
  refine ⟨⟨?_, by simp⟩, ?_⟩
  · intro c hc; simp only [List.mem_singleton] at hc; subst hc; exact ctxOK_fresh _ _ _
  · rw [abs_fresh _ _ _ rfl rfl]; simp [cont]

end Pm.I2

