import Pm.Dev2Login2
/-! The capacity of the device output buffer through `_handle_ready_device`, `_process_action` and `dev_post_poll`:
    the invariant `toBuf.length ≤ 65536`, and the statements of `Pm/Dev2Login2.lean` about the buffer in the form they
    had before the capacity was modelled (plain appends), under the explicit hypothesis that everything fits. -/
namespace Pm.Dev2.Login2

/-! ### the invariant -/

theorem handleReady_cap (c : CS) (hcap : c.dev.toBuf.length ≤ 65536) : (handleReady c).1.dev.toBuf.length ≤ 65536 := by
  obtain ⟨kept, reply, h, _⟩ := handleReady_buf c hcap
  rw [h]; exact clipTo_length_le _

theorem processActionF_cap (fuel : Nat) (c : CS) (o : Oracle) (out : List Out) (tmo : Option Time)
    (hcap : c.dev.toBuf.length ≤ 65536) : (processActionF fuel c o out tmo).1.dev.toBuf.length ≤ 65536 := by
  rcases processActionF_buf fuel c o out tmo hcap with h | h
  · rw [h.1]; exact clipTo_length_le _
  · rw [h.1]; exact Nat.zero_le _

theorem processAction_cap (c : CS) (o : Oracle) (out : List Out) (tmo : Option Time)
    (hcap : c.dev.toBuf.length ≤ 65536) : (processAction c o out tmo).1.dev.toBuf.length ≤ 65536 := by
  unfold processAction; exact processActionF_cap _ c o out tmo hcap

theorem postPoll_cap (d : Dev) (env : Env) (o : Oracle) (hcap : d.toBuf.length ≤ 65536) :
    (postPoll d env o).1.dev.toBuf.length ≤ 65536 := by
  obtain ⟨kept, reply, _, _, h | h | h⟩ := postPoll_buf d env o hcap
  · rw [h]; exact clipTo_length_le _
  · rw [h.1]; exact clipTo_length_le _
  · rw [h.1]; exact Nat.zero_le _

theorem innerLoop_cap (now : Time) (fuel : Nat) (d : Dev) (a : Action) (o : Oracle) (acc : List Out)
    (hcap : d.toBuf.length ≤ 65536) : (innerLoop now fuel d a o acc).dev.toBuf.length ≤ 65536 := by
  obtain ⟨new, _, h, _⟩ := innerLoop_buf now fuel d a o acc hcap
  rw [h]; exact clipTo_length_le _

theorem processStmt_cap (d : Dev) (a : Action) (o : Oracle) (now : Time) (hcap : d.toBuf.length ≤ 65536) :
    (processStmt d a o now).dev.toBuf.length ≤ 65536 := by
  rw [(processStmt_buf d a o now).toBuf hcap]; exact clipTo_length_le _

theorem telnetFilter_cap (d : Dev) (bs : Bytes) : (telnetFilter d bs).toBuf.length ≤ 65536 := by
  rw [telnetFilter_toBuf]; exact clipTo_length_le _

/-- whatever was queued before (within the capacity or not), a `send` that writes leaves the buffer within the capacity -/
theorem stmtSend_cap (d : Dev) (a : Action) (o : Oracle) (e : ExecCtx) (fmt : Bytes) (hcap : d.toBuf.length ≤ 65536) :
    (stmtSend d a o e fmt).dev.toBuf.length ≤ 65536 := by
  rw [(stmtSend_buf d a o e fmt).toBuf hcap]; exact clipTo_length_le _

/-! ### below the limit: the statements as they read before -/

/-- the telnet option replies `_handle_ready_device` can queue in state `c`: those to the bytes the `read` hands over on a
    tcp device (none on a coprocess, none without data) -/
def readyReplies (c : CS) : Bytes :=
  match c.env.read with
  | some (some bs) => if c.dev.isPipe then [] else telnetReplies c.dev.tstate c.dev.tcmd (readOf c.dev bs)
  | _ => []

theorem reply_le_readyReplies {c : CS} {reply : Bytes}
    (h : reply = [] ∨ ∃ bs, c.env.read = some (some bs) ∧ c.dev.isPipe = false ∧
      reply = telnetReplies c.dev.tstate c.dev.tcmd (readOf c.dev bs)) :
    reply.length ≤ (readyReplies c).length := by
  rcases h with h | ⟨bs, h1, h2, h3⟩
  · rw [h]; exact Nat.zero_le _
  · unfold readyReplies; rw [h1]; simp only [h2, Bool.false_eq_true, ↓reduceIte]; rw [h3]; exact Nat.le_refl _

theorem kept_le {old kept : Bytes} {P : Bytes → Prop} (h : kept = old ∨ ∃ wr, wr ≠ [] ∧ wr ++ kept = old ∧ P wr) :
    kept.length ≤ old.length := by
  rcases h with h | ⟨wr, _, h, _⟩
  · rw [h]; exact Nat.le_refl _
  · rw [← h, List.length_append]; exact Nat.le_add_left _ _

/-- `_handle_ready_device` and the buffer, below the limit: `kept ++ reply`, a plain append -/
theorem handleReady_buf_below (c : CS) (hfit : c.dev.toBuf.length + (readyReplies c).length ≤ 65536) :
    ∃ kept reply, (handleReady c).1.dev.toBuf = kept ++ reply ∧
      (kept = c.dev.toBuf ∨ (∃ wr, wr ≠ [] ∧ wr ++ kept = c.dev.toBuf ∧ Sys.write wr true ∈ (handleReady c).1.sys)) ∧
      (reply = [] ∨ ∃ bs, c.env.read = some (some bs) ∧ c.dev.isPipe = false ∧
          reply = telnetReplies c.dev.tstate c.dev.tcmd (readOf c.dev bs)) := by
  obtain ⟨kept, reply, h1, h2, h3⟩ := handleReady_buf c (Nat.le_trans (Nat.le_add_right _ _) hfit)
  refine ⟨kept, reply, ?_, h2, h3⟩
  rw [h1]; apply clipTo_of_le
  have a1 := kept_le h2
  have a2 := reply_le_readyReplies h3
  rw [List.length_append]
  exact Nat.le_trans (Nat.add_le_add a1 a2) hfit

/-- `_process_action` and the buffer, below the limit: the payloads of the run's `send`s are appended -/
theorem processActionF_buf_below (fuel : Nat) (c : CS) (o : Oracle) (out : List Out) (tmo : Option Time)
    (hfit : c.dev.toBuf.length + (passSents fuel c o out tmo).flatten.length ≤ 65536) :
    ((processActionF fuel c o out tmo).1.dev.toBuf = c.dev.toBuf ++ (passSents fuel c o out tmo).flatten ∧
       (processActionF fuel c o out tmo).1.dev.conn = c.dev.conn ∧
       (processActionF fuel c o out tmo).1.dev.retryCount = c.dev.retryCount) ∨
    ((processActionF fuel c o out tmo).1.dev.toBuf = [] ∧ c.dev.conn = 2 ∧
       ((processActionF fuel c o out tmo).1.dev.conn ≠ 2 ∨
        (processActionF fuel c o out tmo).1.dev.retryCount = c.dev.retryCount + 1)) := by
  rcases processActionF_buf fuel c o out tmo (Nat.le_trans (Nat.le_add_right _ _) hfit) with h | h
  · left
    refine ⟨?_, h.2⟩
    rw [h.1]; apply clipTo_of_le; rw [List.length_append]; exact hfit
  · right; exact h

/-- a whole `dev_post_poll` pass and the buffer, below the limit -/
theorem postPoll_buf_below (d : Dev) (env : Env) (o : Oracle)
    (hfit : d.toBuf.length + (readyReplies { dev := d, env := env, sys := [] }).length +
      (sentBytes (postPoll d env o).2.2.1).length ≤ 65536) :
    ∃ kept reply,
      (kept = d.toBuf ∨ (∃ wr, wr ≠ [] ∧ wr ++ kept = d.toBuf ∧ Sys.write wr true ∈ (postPollReady d env).1.sys)) ∧
      (reply = [] ∨ ∃ bs, env.read = some (some bs) ∧ d.isPipe = false ∧
        reply = telnetReplies d.tstate d.tcmd (readOf d bs)) ∧
      ((postPoll d env o).1.dev.toBuf = kept ++ reply ++ sentBytes (postPoll d env o).2.2.1 ∨
       ((postPoll d env o).1.dev.toBuf = sentBytes (postPoll d env o).2.2.1 ∧
          (postPollReady d env).2 = true ∧ (postPollReady d env).1.dev.conn ≠ 0) ∨
       ((postPoll d env o).1.dev.toBuf = [] ∧ (postPollPre d env).1.dev.conn = 2 ∧
          ((postPoll d env o).1.dev.conn ≠ 2 ∨
           (postPoll d env o).1.dev.retryCount = (postPollPre d env).1.dev.retryCount + 1))) := by
  have hcap : d.toBuf.length ≤ 65536 :=
    Nat.le_trans (Nat.le_trans (Nat.le_add_right _ _) (Nat.le_add_right _ _)) hfit
  obtain ⟨kept, reply, h1, h2, h3⟩ := postPoll_buf d env o hcap
  refine ⟨kept, reply, h1, h2, ?_⟩
  have a1 := kept_le h1
  have a2 := reply_le_readyReplies (c := { dev := d, env := env, sys := [] }) h2
  rcases h3 with h | h | h
  · left; rw [h]; apply clipTo_of_le
    rw [List.length_append, List.length_append]
    exact Nat.le_trans (Nat.add_le_add_right (Nat.add_le_add a1 a2) _) hfit
  · right; left; refine ⟨?_, h.2⟩
    rw [h.1]; apply clipTo_of_le
    exact Nat.le_trans (Nat.le_add_left _ _) hfit
  · right; right; exact h

end Pm.Dev2.Login2

section audit
open Pm.Dev2.Login2
#print axioms handleReady_cap
#print axioms processActionF_cap
#print axioms postPoll_cap
#print axioms handleReady_buf_below
#print axioms processActionF_buf_below
#print axioms postPoll_buf_below
end audit
