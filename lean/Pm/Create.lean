import Pm.Find
/- pilot: hostlist_create (bracket parser) as coded, quirks included -/
namespace Pm

def isSep (c : Char) : Bool := c == '\t' || c == ',' || c == ' '
def isCSpace (c : Char) : Bool := c == ' ' || (9 ≤ c.toNat && c.toNat ≤ 13)

/-- `_next_tok`: tokens end at a separator only at bracket level 0 (level may go negative) -/
def tokens (s : List Char) : List (List Char) :=
  let rec go (rest : List Char) (cur : List Char) (level : Int) (acc : List (List Char)) : List (List Char) :=
    match rest with
    | [] => if cur.isEmpty then acc.reverse else (cur.reverse :: acc).reverse
    | c :: r =>
      if level == 0 && isSep c then
        if cur.isEmpty then go r [] 0 acc else go r [] 0 (cur.reverse :: acc)
      else
        let level' := if c == '[' then level + 1 else if c == ']' then level - 1 else level
        go r (c :: cur) level' acc
  go s [] 0 []

/-- `strtoul(s, &q, 10)`: (value, number of characters consumed); consumed = 0 means no conversion -/
def strtoul (s : List Char) : Nat × Nat :=
  let ws := s.takeWhile isCSpace
  let r1 := s.drop ws.length
  let (sign, r2) := match r1 with
    | '+' :: r => (1, r)
    | '-' :: r => (1, r)
    | r => (0, r)
  let ds := r2.takeWhile Char.isDigit
  if ds.isEmpty then (0, 0) else (parseNat ds, ws.length + sign + ds.length)

structure RangeSpec where
  lo : Nat
  hi : Nat
  width : Nat
deriving Repr

inductive PErr where | einval | erange deriving Repr, DecidableEq

def MAX_RANGE : Nat := 16384

def splitOnFirst (c : Char) (s : List Char) : List Char × Option (List Char) :=
  let a := s.takeWhile (· != c)
  if a.length < s.length then (a, some (s.drop (a.length + 1))) else (a, none)

/-- `_parse_single_range` -/
def parseSingleRange (s : List Char) : Except PErr RangeSpec :=
  let (los, rest) := splitOnFirst '-' s
  match rest with
  | some ('-' :: _) => .error .einval                       -- do NOT allow negative numbers
  | _ =>
    let (lo, nlo) := strtoul los
    if nlo == 0 then .error .einval else
    let his := rest.getD []
    -- hi = (p && *p) ? strtoul(p, &q) : lo ;  then  if (q == p || *q != 0) error
    let r : Except PErr Nat :=
      if his.isEmpty then (if nlo == los.length then .ok lo else .error .einval)
      else
        let (hi, nhi) := strtoul his
        if nhi == 0 || nhi != his.length then .error .einval else .ok hi
    match r with
    | .error e => .error e
    | .ok hi =>
      if lo > hi then .error .einval
      else if hi - lo + 1 > MAX_RANGE then .error .erange
      else .ok { lo, hi, width := los.length }

def splitAll (c : Char) (s : List Char) : List (List Char) :=
  let rec go (rest cur : List Char) (acc : List (List Char)) : List (List Char) :=
    match rest with
    | [] => (cur.reverse :: acc).reverse
    | x :: r => if x == c then go r [] (cur.reverse :: acc) else go r (x :: cur) acc
  go s [] []

def parseRangeList (s : List Char) : Except PErr (List RangeSpec) :=
  (splitAll ',' s).mapM parseSingleRange

def pushSpec (hl : Hostlist) (pfx : Name) (r : RangeSpec) : Hostlist :=
  pushRange hl { pfx, lo := r.lo, hi := r.hi, width := r.width, single := false }

def pushSpecSuffix (hl : Hostlist) (pfx sfx : Name) (r : RangeSpec) : Hostlist :=
  (List.range (r.hi + 1 - r.lo)).foldl (fun h i =>
    pushRange h { pfx := pfx ++ fmtNum r.width (r.lo + i) ++ sfx, lo := 0, hi := 0, width := 0, single := true }) hl

/-- `_hostlist_create_bracketed` (tokens shorter than the 1023-byte `cur_tok`) -/
def create (s : List Char) : Except PErr Hostlist :=
  (tokens s).foldlM (fun hl tok =>
    match splitOnFirst '[' tok with
    | (pfx, some rest) =>
      match splitOnFirst ']' rest with
      | (body, some sfx) =>
        match parseRangeList body with
        | .error e => .error e
        | .ok rs => if sfx.isEmpty then .ok (rs.foldl (fun h r => pushSpec h pfx r) hl)
                    else .ok (rs.foldl (fun h r => pushSpecSuffix h pfx sfx r) hl)
      | (_, none) => .error .einval                          -- brackets must be balanced
    | (_, none) => if tok.contains ']' then .error .einval else .ok (pushHost hl tok)) []

end Pm

