import Pm.LsdListLoop
/-! # `list_sort` on a represented list

The in-place insertion sort of `list.c` (`pp` / `ppPrev` / `ppPos`, three pointer assignments per move) computes `sortList`, the
insertion sort on a plain list, for *every* pure comparison function — consistent or not: the inner loop always stops at the
last item of the sorted part at the latest, so no `NULL` is dereferenced; the chain stays a chain of the same nodes; `tail`
is the address of the final `NULL` again; every iterator is reset (when the list has at least two items). -/
namespace Pm.LsdList
variable {α : Type}

theorem Chain.ptr {l : LList α} {ns : List Nat} {items : List α} (h : Chain l ns items) (k n : Nat) (hn : ns[k]? = some n) :
    ptr l (fieldAt ns k) = some n := by
  have hk : k < ns.length := by
    rcases Nat.lt_or_ge k ns.length with h1 | h1
    · exact h1
    · simp [List.getElem?_eq_none h1] at hn
  simp [LsdList.ptr, h.load k (by omega), hn]

/-- the three pointer assignments of `list_sort` that move node `m` in front of node `t` (`t < m`) -/
theorem sortMove_spec {l : LList α} {ns : List Nat} {items : List α} (h : Chain l ns items) (m t q : Nat) (x : α)
    (hm : 1 ≤ m) (ht : t < m) (hq : ns[m]? = some q) (hx : items[m]? = some x) :
    ∃ l', sortMove l (fieldAt ns m) (fieldAt ns t) = some l' ∧
      Chain l' ((ns.eraseIdx m).insertIdx t q) ((items.eraseIdx m).insertIdx t x) ∧
      l'.tail = l.tail ∧ l'.count = l.count ∧ l'.free = l.free ∧ l'.iters = l.iters ∧ l'.fdel = l.fdel ∧
      l'.cells.size = l.cells.size := by
  have hmlt : m < ns.length := by
    rcases Nat.lt_or_ge m ns.length with h1 | h1
    · exact h1
    · simp [List.getElem?_eq_none h1] at hq
  obtain ⟨r, hr⟩ : ∃ r, ns[m - 1]? = some r := ⟨ns[m - 1]'(by omega), by simp⟩
  obtain ⟨s, hs⟩ : ∃ s, ns[t]? = some s := ⟨ns[t]'(by omega), by simp⟩
  have hm1 : m - 1 + 1 = m := by omega
  have hcr := h.cell (m - 1) r hr
  rw [hm1, hq] at hcr
  have hcq := h.cell m q hq
  rw [hx] at hcq
  have hrq : r ≠ q := fun e => by have := h.inj (m - 1) m r hr (e ▸ hq); omega
  have hqs : q < l.cells.size := h.lt_size m q hq
  have hrs : r < l.cells.size := h.lt_size (m - 1) r hr
  have hppm : fieldAt ns m = .next r := by rw [← hm1]; exact fieldAt_succ ns (m - 1) r hr
  -- the intermediate (imaginary) state: node m unlinked
  have hmid : Chain ({ l with cells := l.cells.setIfInBounds r ⟨items[m - 1]?, ns[m + 1]?⟩ } : LList α)
      (ns.eraseIdx m) (items.eraseIdx m) := by
    refine h.erase m hmlt ?_ ?_ ?_
    · have : m ≠ 0 := by omega
      simp [this]
    · intro n _ hn
      rw [hr] at hn
      have : n = r := by simpa using hn.symm
      subst this; simp [hrs]
    · intro k n hk hk1 _
      have : r ≠ n := fun e => hk1 (by have := h.inj (m - 1) k r hr (e ▸ hk); omega)
      simp [this]
  have hqe : ∀ (k : Nat), (ns.eraseIdx m)[k]? ≠ some q := h.inj.eraseIdx_ne hq
  have hlen : (ns.eraseIdx m).length = ns.length - 1 := by simp [List.length_eraseIdx, hmlt]
  have hte : (ns.eraseIdx m)[t]? = some s := by simp [List.getElem?_eraseIdx, ht, hs]
  unfold sortMove
  rw [h.ptr m q hq]
  have hl1 : load l (.next q) = some ns[m + 1]? := by
    have := h.load (m + 1) (by omega); rwa [fieldAt_succ ns m q hq] at this
  have hl2 : load l (fieldAt ns t) = some (some s) := by rw [h.load t (by omega), hs]
  simp only [hl1, hl2, hppm]
  have hst1 : store l (.next q) (some s) = some { l with cells := l.cells.setIfInBounds q ⟨some x, some s⟩ } := by
    simp [store, hcq]
  simp only [hst1]
  cases t with
  | zero =>
    have hc3 : (l.cells.setIfInBounds q { data := some x, next := some s })[r]? = some ⟨items[m - 1]?, some q⟩ := by
      simp [Ne.symm hrq, hcr]
    simp only [fieldAt, store, hc3]
    refine ⟨_, rfl, ?_, rfl, rfl, rfl, rfl, rfl, by simp⟩
    refine hmid.insert 0 q x (by omega) hqe ?_ ?_ ?_ ?_
    · simp [hte, hrq, hqs]
    · simp
    · intro n h0; exact absurd rfl h0
    · intro k n hk _
      have hnq : q ≠ n := fun e => hqe k (e ▸ hk)
      by_cases e : r = n
      · subst e; simp [hrs]
      · simp [hnq, e]
  | succ t' =>
    obtain ⟨u, hu⟩ : ∃ u, ns[t']? = some u := ⟨ns[t']'(by omega), by simp⟩
    have hcu := h.cell t' u hu
    rw [hs] at hcu
    have huq : u ≠ q := fun e => by have := h.inj t' m u hu (e ▸ hq); omega
    have hur : u ≠ r := fun e => by have := h.inj t' (m - 1) u hu (e ▸ hr); omega
    have hus : u < l.cells.size := h.lt_size t' u hu
    have hc2 : (l.cells.setIfInBounds q { data := some x, next := some s })[u]? = some ⟨items[t']?, some s⟩ := by
      simp [Ne.symm huq, hcu]
    have hc3 : ((l.cells.setIfInBounds q { data := some x, next := some s }).setIfInBounds u
        { data := items[t']?, next := some q })[r]? = some ⟨items[m - 1]?, some q⟩ := by
      simp [Ne.symm hrq, hur, hcr]
    simp only [fieldAt_succ ns t' u hu, store, hc2, hc3]
    refine ⟨_, rfl, ?_, rfl, rfl, rfl, rfl, rfl, by simp⟩
    have hue : (ns.eraseIdx m)[t']? = some u := by
      have : t' < m := by omega
      simp [List.getElem?_eraseIdx, this, hu]
    refine hmid.insert (t' + 1) q x (by omega) hqe ?_ ?_ ?_ ?_
    · simp [hte, hrq, huq, hqs]
    · simp
    · intro n _ hn
      simp at hn; rw [hue] at hn
      have : n = u := by simpa using hn.symm
      subst this
      have h1 : t' < m := by omega
      simp [List.getElem?_eraseIdx, h1, Ne.symm hur, hus]
    · intro k n hk hk1
      have hnq : q ≠ n := fun e => hqe k (e ▸ hk)
      have hnu : u ≠ n := fun e => hk1 (by have := (h.inj.eraseIdx m) t' k u hue (e ▸ hk); omega)
      by_cases e : r = n
      · subst e; simp [hrs]
      · simp [hnq, hnu, e]

/-! ## the insertion sort of `list_sort` on a plain list -/

/-- index of the first item `y` with `f x y < 0` (the inner `while` of `list_sort`) -/
def sortPos (f : α → α → Int) (x : α) : List α → Nat
  | [] => 0
  | y :: ys => if f x y ≥ 0 then sortPos f x ys + 1 else 0

/-- `x` put in front of the first item `y` with `f x y < 0` -/
def insBefore (f : α → α → Int) (x : α) : List α → List α
  | [] => [x]
  | y :: ys => if f x y ≥ 0 then y :: insBefore f x ys else x :: y :: ys

/-- one round of the outer loop: `x` against the last item of the part done so far -/
def insLast (f : α → α → Int) (x : α) (done : List α) : List α :=
  match done.getLast? with
  | some y => if f x y < 0 then insBefore f x done else done ++ [x]
  | none => done ++ [x]

def sortAux (f : α → α → Int) : List α → List α → List α
  | done, [] => done
  | done, x :: rest => sortAux f (insLast f x done) rest

/-- `list_sort` on a plain list -/
def sortList (f : α → α → Int) : List α → List α
  | [] => []
  | x :: rest => sortAux f [x] rest

theorem insertIdx_append_le (x : α) (rest : List α) : ∀ (done : List α) (t : Nat), t ≤ done.length →
    (done ++ rest).insertIdx t x = done.insertIdx t x ++ rest := by
  intro done
  induction done with
  | nil => intro t ht; have : t = 0 := by simpa using ht
           subst this; simp
  | cons d ds ih =>
    intro t ht
    cases t with
    | zero => simp
    | succ t' => simp [List.insertIdx_succ_cons, ih t' (by simpa using ht)]

theorem insertIdx_sortPos (f : α → α → Int) (x : α) : ∀ (done : List α), done.insertIdx (sortPos f x done) x = insBefore f x done := by
  intro done
  induction done with
  | nil => simp [sortPos, insBefore]
  | cons d ds ih =>
    simp only [sortPos, insBefore]
    split
    · simp [List.insertIdx_succ_cons, ih]
    · simp

theorem sortPos_le (f : α → α → Int) (x : α) : ∀ (done : List α), sortPos f x done ≤ done.length := by
  intro done
  induction done with
  | nil => simp [sortPos]
  | cons d ds ih => simp only [sortPos]; split <;> simp <;> omega

theorem sortPos_hit (f : α → α → Int) (x : α) : ∀ (done : List α) (i : Nat) (y : α), done[i]? = some y → f x y < 0 →
    sortPos f x done ≤ i := by
  intro done
  induction done with
  | nil => intro i y h; simp at h
  | cons d ds ih =>
    intro i y h hf
    simp only [sortPos]
    cases i with
    | zero =>
      simp at h; subst h
      have : ¬ f x d ≥ 0 := by omega
      simp [this]
    | succ i' =>
      simp at h
      have := ih i' y h hf
      split <;> omega

theorem sortPos_append (f : α → α → Int) (x : α) (rest : List α) : ∀ (done : List α), sortPos f x done < done.length →
    sortPos f x (done ++ rest) = sortPos f x done := by
  intro done
  induction done with
  | nil => intro h; simp at h
  | cons d ds ih =>
    intro h
    simp only [sortPos, List.cons_append] at h ⊢
    split
    · rename_i hf; simp only [hf, if_true] at h
      rw [ih (by simpa using h)]
    · rfl

theorem perm_eraseIdx : ∀ (ns : List Nat) (m q : Nat), ns[m]? = some q → ns.Perm (q :: ns.eraseIdx m) := by
  intro ns
  induction ns with
  | nil => intro m q h; simp at h
  | cons a as ih =>
    intro m q h
    cases m with
    | zero => simp at h; subst h; simp
    | succ m' =>
      simp at h
      simp only [List.eraseIdx_cons_succ]
      exact (List.Perm.cons a (ih m' q h)).trans (List.Perm.swap q a _)

theorem sortFindPos_spec {l : LList α} {ns : List Nat} {items : List α} (h : Chain l ns items) (f : α → α → Int) (x : α) :
    ∀ (fuel k : Nat), sortPos f x (items.drop k) < (items.drop k).length → sortPos f x (items.drop k) < fuel →
      sortFindPos l f x fuel (fieldAt ns k) = some (fieldAt ns (k + sortPos f x (items.drop k))) := by
  intro fuel
  induction fuel with
  | zero => intro k _ h2; omega
  | succ fuel ih =>
    intro k hhit hfuel
    have hk : k < items.length := by
      rcases Nat.lt_or_ge k items.length with h1 | h1
      · exact h1
      · simp [List.drop_eq_nil_of_le h1] at hhit
    have hkn : k < ns.length := by rw [← h.len]; exact hk
    obtain ⟨q, hq⟩ : ∃ q, ns[k]? = some q := ⟨ns[k]'hkn, by simp⟩
    have hd : items[k]? = some items[k] := by simp [List.getElem?_eq_getElem hk]
    have hdo : dataOf l q = some items[k] := by rw [h.dataOf k q hq, hd]
    rw [List.drop_eq_getElem_cons hk] at hhit hfuel ⊢
    simp only [sortFindPos, h.ptr k q hq, hdo, sortPos] at hhit hfuel ⊢
    split
    · rename_i hf
      simp only [hf, if_true, List.length_cons] at hhit hfuel
      have := ih (k + 1) (by omega) (by omega)
      rw [fieldAt_succ ns k q hq] at this
      rw [this]; congr 2; omega
    · simp

theorem fieldAt_move (ns : List Nat) (m t q : Nat) (ht : t < m) (hm : m < ns.length) :
    fieldAt ((ns.eraseIdx m).insertIdx t q) (m + 1) = fieldAt ns m ∧
    (t + 1 < m → fieldAt ((ns.eraseIdx m).insertIdx t q) m = fieldAt ns (m - 1)) ∧
    fieldAt ((ns.eraseIdx m).insertIdx t q) (t + 1) = .next q ∧
    fieldAt ((ns.eraseIdx m).insertIdx t q) t = fieldAt ns t := by
  have hlen : (ns.eraseIdx m).length = ns.length - 1 := by simp [List.length_eraseIdx, hm]
  have hle : t ≤ (ns.eraseIdx m).length := by omega
  refine ⟨?_, ?_, ?_, ?_⟩
  · rw [fieldAt_insertIdx _ t q _ hle]
    have h1 : ¬ m + 1 ≤ t := by omega
    have h2 : ¬ m = t := by omega
    simp [h1, h2, fieldAt_eraseIdx]
  · intro h3
    rw [fieldAt_insertIdx _ t q _ hle]
    have h1 : ¬ m ≤ t := by omega
    have h2 : ¬ m = t + 1 := by omega
    have h4 : m - 1 ≤ m := by omega
    simp [h1, h2, h4, fieldAt_eraseIdx]
  · rw [fieldAt_insertIdx _ t q _ hle]
    have h1 : ¬ t + 1 ≤ t := by omega
    simp [h1]
  · rw [fieldAt_insertIdx _ t q _ hle, fieldAt_eraseIdx]
    have h1 : t ≤ m := by omega
    simp [h1]

theorem sortLoop_spec (f : α → α → Int) :
    ∀ (fuel : Nat) (l : LList α) (ns : List Nat) (done rest : List α), Chain l ns (done ++ rest) → 1 ≤ done.length →
      rest.length < fuel →
      ∃ l' ns', sortLoop f fuel l (fieldAt ns (done.length - 1)) (fieldAt ns done.length) = some (l', fieldAt ns' ns'.length) ∧
        Chain l' ns' (sortAux f done rest) ∧ ns'.Perm ns ∧ l'.tail = l.tail ∧ l'.count = l.count ∧ l'.free = l.free ∧
        l'.iters = l.iters ∧ l'.fdel = l.fdel ∧ l'.cells.size = l.cells.size := by
  intro fuel
  induction fuel with
  | zero => intro l ns done rest _ _ h; omega
  | succ fuel ih =>
    intro l ns done rest h hdone hfuel
    have hlen : ns.length = done.length + rest.length := by rw [← h.len]; simp
    have hload := h.load done.length (by omega)
    cases rest with
    | nil =>
      have hn : ns[done.length]? = none := List.getElem?_eq_none (by simp at hlen; omega)
      have e : done.length = ns.length := by simpa using hlen.symm
      refine ⟨l, ns, ?_, by simpa [sortAux] using h, List.Perm.refl _, rfl, rfl, rfl, rfl, rfl, rfl⟩
      simp only [sortLoop, hload, hn]
      rw [e]
    | cons x rest' =>
      have hmlt : done.length < ns.length := by simp at hlen; omega
      obtain ⟨q, hq⟩ : ∃ q, ns[done.length]? = some q := ⟨ns[done.length]'hmlt, by simp⟩
      obtain ⟨r, hr⟩ : ∃ r, ns[done.length - 1]? = some r := ⟨ns[done.length - 1]'(by omega), by simp⟩
      have hx : (done ++ x :: rest')[done.length]? = some x := by simp
      obtain ⟨y, hy⟩ : ∃ y, done[done.length - 1]? = some y := ⟨done[done.length - 1]'(by omega), by simp⟩
      have hy' : (done ++ x :: rest')[done.length - 1]? = some y := by
        rw [List.getElem?_append_left (by omega)]; exact hy
      have hlast : done.getLast? = some y := by rw [List.getLast?_eq_getElem?]; exact hy
      have hdx : dataOf l q = some x := by rw [h.dataOf _ q hq, hx]
      have hdy : dataAt l (fieldAt ns (done.length - 1)) = some y := by
        simp [dataAt, h.ptr _ r hr, h.dataOf _ r hr, hy']
      simp only [sortLoop, hload, hq, hdx, hdy]
      by_cases hf : f x y < 0
      · simp only [hf, if_true]
        -- the inner loop
        have htle : sortPos f x done ≤ done.length - 1 := sortPos_hit f x done _ y hy hf
        have htlt : sortPos f x done < done.length := by omega
        have hpos : sortPos f x (done ++ x :: rest') = sortPos f x done := sortPos_append f x _ done htlt
        have hfind := sortFindPos_spec h f x (l.cells.size + 1) 0 (by simp [hpos]; omega)
          (by simp only [List.drop_zero, hpos]; have := h.length_le; omega)
        simp only [List.drop_zero, hpos, Nat.zero_add] at hfind
        have h0 : fieldAt ns 0 = Ref.head := rfl
        rw [h0] at hfind
        simp only [hfind]
        -- the move
        obtain ⟨l1, e1, hc1, ht1, hcnt1, hfr1, hit1, hfd1, hsz1⟩ :=
          sortMove_spec h done.length (sortPos f x done) q x hdone htlt hq hx
        simp only [e1]
        have hitems : ((done ++ x :: rest').eraseIdx done.length).insertIdx (sortPos f x done) x = insLast f x done ++ rest' := by
          rw [List.eraseIdx_append_of_length_le (Nat.le_refl _)]
          simp only [Nat.sub_self, List.eraseIdx_cons_zero]
          rw [insertIdx_append_le x rest' done _ (by omega), insertIdx_sortPos]
          simp [insLast, hlast, hf]
        rw [hitems] at hc1
        have hl1len : (insLast f x done).length = done.length + 1 := by
          simp [insLast, hlast, hf, ← insertIdx_sortPos, List.length_insertIdx, sortPos_le]
        obtain ⟨fm1, fm2, fm3, fm4⟩ := fieldAt_move ns done.length (sortPos f x done) q htlt hmlt
        have hperm : ((ns.eraseIdx done.length).insertIdx (sortPos f x done) q).Perm ns := by
          have hle : sortPos f x done ≤ (ns.eraseIdx done.length).length := by
            simp [List.length_eraseIdx, hmlt]; omega
          exact (List.perm_insertIdx q _ hle).trans (perm_eraseIdx ns _ q hq).symm
        have hrec := ih l1 _ (insLast f x done) rest' hc1 (by omega) (by simp at hfuel; omega)
        rw [hl1len, Nat.add_sub_cancel, fm1] at hrec
        obtain ⟨l', ns', e', hc', hp', ht', hcnt', hfr', hit', hfd', hsz'⟩ := hrec
        have hres : ∀ pv, pv = fieldAt ((ns.eraseIdx done.length).insertIdx (sortPos f x done) q) done.length →
            ∃ l' ns', sortLoop f fuel l1 pv (fieldAt ns done.length) = some (l', fieldAt ns' ns'.length) ∧
              Chain l' ns' (sortAux f done (x :: rest')) ∧ ns'.Perm ns ∧ l'.tail = l.tail ∧ l'.count = l.count ∧
              l'.free = l.free ∧ l'.iters = l.iters ∧ l'.fdel = l.fdel ∧ l'.cells.size = l.cells.size := by
          intro pv hpv
          subst hpv
          exact ⟨l', ns', e', by simpa [sortAux] using hc', hp'.trans hperm, by rw [ht', ht1], by rw [hcnt', hcnt1],
            by rw [hfr', hfr1], by rw [hit', hit1], by rw [hfd', hfd1], by rw [hsz', hsz1]⟩
        by_cases hpp : fieldAt ns (done.length - 1) = fieldAt ns (sortPos f x done)
        · have heq : done.length - 1 = sortPos f x done := fieldAt_inj ns h.inj _ _ (by omega) (by omega) hpp
          simp only [hpp, if_true]
          -- ppPrev = &(*ppPrev)->next: *ppPrev is now the moved node
          have hq1 : ((ns.eraseIdx done.length).insertIdx (sortPos f x done) q)[sortPos f x done]? = some q := by
            simp [List.getElem?_insertIdx, List.length_eraseIdx, hmlt]; omega
          have hptr := hc1.ptr (sortPos f x done) q hq1
          rw [fm4] at hptr
          simp only [hptr]
          apply hres
          rw [← fm3]; congr 1; omega
        · simp only [hpp, if_false]
          apply hres
          have hne : done.length - 1 ≠ sortPos f x done := fun e => hpp (by rw [e])
          exact (fm2 (by omega)).symm
      · simp only [hf, if_false]
        have hins : insLast f x done = done ++ [x] := by simp [insLast, hlast, hf]
        have hc2 : Chain l ns ((done ++ [x]) ++ rest') := by simpa using h
        have hrec := ih l ns (done ++ [x]) rest' hc2 (by simp) (by simp at hfuel; omega)
        simp only [List.length_append, List.length_cons, List.length_nil, Nat.zero_add, Nat.add_sub_cancel] at hrec
        rw [fieldAt_succ ns done.length q hq] at hrec
        obtain ⟨l', ns', e', hc', hrest⟩ := hrec
        exact ⟨l', ns', e', by simpa [sortAux, hins] using hc', hrest⟩

/-- `list_sort` on the list with cursors: every iterator is reset — unless the list has fewer than two items, when nothing happens -/
def Abs.sort (a : Abs α) (f : α → α → Int) : Abs α :=
  if a.items.length > 1 then
    { a with items := sortList f a.items, curs := a.curs.map (fun kc => (kc.1, (0, false))) }
  else a

theorem sort_abs {l : LList α} {ns : List Nat} {a : Abs α} (h : RepA l ns a) (f : α → α → Int) :
    ∃ l' ns', sort l f = some l' ∧ RepA l' ns' (a.sort f) := by
  unfold sort Abs.sort
  rw [h.rep.count, h.len]
  by_cases hgt : ns.length > 1
  · simp only [hgt, if_true]
    obtain ⟨h0, hh0⟩ : ∃ h0, ns[0]? = some h0 := ⟨ns[0]'(by omega), by simp⟩
    have hptr := h.rep.toChain.ptr 0 h0 hh0
    have hf0 : fieldAt ns 0 = Ref.head := rfl
    rw [hf0] at hptr
    simp only [hptr]
    have hil := h.len
    cases hitems : a.items with
    | nil => rw [hitems] at hil; simp at hil; omega
    | cons x0 rest =>
      have hch : Chain l ns ([x0] ++ rest) := by simpa [hitems] using h.rep.toChain
      have hrl : rest.length < l.cells.size + 1 := by
        have := h.rep.toChain.length_le; rw [hitems] at hil; simp at hil; omega
      obtain ⟨l', ns', e, hc, hp, ht, hcnt, hfr, hit, hfd, hsz⟩ := sortLoop_spec f (l.cells.size + 1) l ns [x0] rest hch (by simp) hrl
      simp only [List.length_singleton, Nat.sub_self, hf0, fieldAt_succ ns 0 h0 hh0] at e
      simp only [e]
      have pl : Place ns' { pos := l'.head, prev := .head } 0 false := ⟨by simp, rfl, by simp [hc.head]⟩
      have hr : Rep (⟨l'.cells, l'.free, l'.head, fieldAt ns' ns'.length, l'.count,
          l'.iters.map (fun ki => (ki.1, ({ pos := l'.head, prev := .head } : Iter))), l'.fdel⟩ : LList α) ns' (sortList f (x0 :: rest)) := by
        refine ⟨hc.congr rfl rfl, ?_, rfl, ?_, ?_, ?_, ?_⟩
        · simp only [hcnt, h.rep.count]; exact hp.length_eq.symm
        · simp only [hfr]; exact h.rep.freeNodup
        · simp only [hfr, hsz]
          intro p hpf
          refine ⟨(h.rep.freeOk p hpf).1, ?_⟩
          intro k hk
          have hm : p ∈ ns' := List.mem_iff_getElem?.mpr ⟨k, hk⟩
          obtain ⟨k', hk'⟩ := List.mem_iff_getElem?.mp (hp.mem_iff.mp hm)
          exact (h.rep.freeOk p hpf).2 k' hk'
        · simp only [List.map_map, hit]; exact h.rep.keys
        · intro ki hki
          simp only [List.mem_map] at hki
          obtain ⟨ki0, _, rfl⟩ := hki
          exact ⟨0, false, pl⟩
      refine ⟨_, ns', rfl, ?_, ?_⟩
      · simpa [hitems] using hr
      · rw [hr.absOf_eq]
        simp [hit, hfd, h.curs, h.fdel, pl.cur hc.inj, Function.comp_def]
  · simp only [hgt, if_false]
    exact ⟨l, ns, rfl, h⟩
end Pm.LsdList
