import Pm.Grammar
/-! # The grammar model: totality, error index, shape of what is accepted (C18, C17)

Helper module of `Pm/Props/C18.lean`.  About `Pm/Grammar.lean` only (the LL parser on token lists); nothing here is about the
flex or bison automata: the tie to them is the correspondence layer `lib/gramlayer.py`. -/
namespace Pm.Grammar.Proof
open Pm.Grammar

/-! ## 1. every parsing function consumes tokens and never runs out of fuel -/

/-- `r` is a decent result of a function started at `c`: not `fuel`; on success at least `k` tokens were consumed and the index
    moved with them; an error index lies inside what was left -/
def Good0 {α : Type} (c : Cur) (k : Nat) : R0 α → Prop
  | .ok _ c' => c'.toks.length + k ≤ c.toks.length ∧ c'.i + c'.toks.length = c.i + c.toks.length
  | .err idx => c.i ≤ idx ∧ idx ≤ c.i + c.toks.length
  | .fuel => False

def Good {α : Type} (c : Cur) (k : Nat) : R α → Prop
  | .ok _ c' _ => c'.toks.length + k ≤ c.toks.length ∧ c'.i + c'.toks.length = c.i + c.toks.length
  | .err idx _ => c.i ≤ idx ∧ idx ≤ c.i + c.toks.length
  | .fuel => False

theorem pStr_good (c : Cur) : Good0 c 1 (pStr c) := by
  unfold pStr
  split
  · rename_i h; simp [Good0, h]; omega
  · simp [Good0]

theorem pNum_good (c : Cur) : Good0 c 1 (pNum c) := by
  unfold pNum
  split
  · rename_i h; simp [Good0, h]; omega
  · simp [Good0]

theorem pTok_good (t : Token) (c : Cur) : Good0 c 1 (pTok t c) := by
  unfold pTok
  split
  · rename_i h
    split
    · simp [Good0, h]; omega
    · simp [Good0]
  · simp [Good0]

theorem Good0.trans {α : Type} {c c1 : Cur} {k1 k2 : Nat} {r : R0 α}
    (h1 : c1.toks.length + k1 ≤ c.toks.length ∧ c1.i + c1.toks.length = c.i + c.toks.length) (h2 : Good0 c1 k2 r) : Good0 c (k1 + k2) r := by
  cases r <;> simp [Good0] at * <;> omega

theorem Good.trans {α : Type} {c c1 : Cur} {k1 k2 : Nat} {r : R α}
    (h1 : c1.toks.length + k1 ≤ c.toks.length ∧ c1.i + c1.toks.length = c.i + c.toks.length) (h2 : Good c1 k2 r) : Good c (k1 + k2) r := by
  cases r <;> simp [Good] at * <;> omega

theorem Good0.weaken {α : Type} {c : Cur} {k k' : Nat} {r : R0 α} (h : Good0 c k r) (hk : k' ≤ k) : Good0 c k' r := by
  cases r <;> simp [Good0] at * <;> omega

theorem Good.weaken {α : Type} {c : Cur} {k k' : Nat} {r : R α} (h : Good c k r) (hk : k' ≤ k) : Good c k' r := by
  cases r <;> simp [Good] at * <;> omega

/-- a cursor one token further -/
theorem adv1 {c : Cur} {t : Token} {r : List Token} (h : c.toks = t :: r) :
    (⟨r, c.i + 1⟩ : Cur).toks.length + 1 ≤ c.toks.length ∧ (⟨r, c.i + 1⟩ : Cur).i + (⟨r, c.i + 1⟩ : Cur).toks.length = c.i + c.toks.length := by
  simp [h]; omega

theorem pRegmatch_good (c : Cur) : Good0 c 2 (pRegmatch c) := by
  unfold pRegmatch
  have h1 := pTok_good .matchpos c
  split
  · rename_i c1 he; rw [he] at h1; exact Good0.trans h1 (pNum_good c1)
  · rename_i i he; rw [he] at h1; exact h1
  · rename_i he; rw [he] at h1; exact h1.elim

theorem pEqStr_good (c : Cur) : Good0 c 2 (pEqStr c) := by
  unfold pEqStr
  have h1 := pTok_good .equals c
  split
  · rename_i c1 he; rw [he] at h1; exact Good0.trans h1 (pStr_good c1)
  · rename_i i he; rw [he] at h1; exact h1
  · rename_i he; rw [he] at h1; exact h1.elim

theorem pStr2_good (c : Cur) : Good0 c 2 (pStr2 c) := by
  unfold pStr2
  have h1 := pStr_good c
  split
  · rename_i a c1 he; rw [he] at h1
    have h2 := pStr_good c1
    split
    · rename_i b c2 he2; rw [he2] at h2; exact Good0.trans (k2 := 1) h1 h2
    · rename_i i he2; rw [he2] at h2; exact Good0.trans (k2 := 1) h1 h2
    · rename_i he2; rw [he2] at h2; exact h2.elim
  · rename_i i he; rw [he] at h1; exact h1
  · rename_i he; rw [he] at h1; exact h1.elim

theorem pInterps_good : ∀ (f : Nat) (c : Cur) (acc : List (Bool × Bytes)), c.toks.length < f → Good0 c 0 (pInterps f c acc) := by
  intro f
  induction f with
  | zero => intro c acc h; omega
  | succ f ih =>
    intro c acc h
    unfold pInterps
    split
    · rename_i r hc
      have h1 := pEqStr_good ⟨r, c.i + 1⟩
      have ha := adv1 hc
      split
      · rename_i s c' he; rw [he] at h1
        have h2 : c'.toks.length + 3 ≤ c.toks.length ∧ c'.i + c'.toks.length = c.i + c.toks.length := by
          simp [Good0] at h1; simp at ha; omega
        exact Good0.weaken (k := 3 + 0) (k' := 0) (Good0.trans (k1 := 3) (k2 := 0) h2 (ih c' _ (by omega))) (by omega)
      · rename_i i he; rw [he] at h1; exact Good0.weaken (k := 1 + 2) (k' := 0) (Good0.trans (k1 := 1) (k2 := 2) ha h1) (by omega)
      · rename_i he; rw [he] at h1; exact h1.elim
    · rename_i r hc
      have h1 := pEqStr_good ⟨r, c.i + 1⟩
      have ha := adv1 hc
      split
      · rename_i s c' he; rw [he] at h1
        have h2 : c'.toks.length + 3 ≤ c.toks.length ∧ c'.i + c'.toks.length = c.i + c.toks.length := by
          simp [Good0] at h1; simp at ha; omega
        exact Good0.weaken (k := 3 + 0) (k' := 0) (Good0.trans (k1 := 3) (k2 := 0) h2 (ih c' _ (by omega))) (by omega)
      · rename_i i he; rw [he] at h1; exact Good0.weaken (k := 1 + 2) (k' := 0) (Good0.trans (k1 := 1) (k2 := 2) ha h1) (by omega)
      · rename_i he; rw [he] at h1; exact h1.elim
    · simp [Good0]

theorem Good0.lift {α : Type} {c c1 : Cur} {k : Nat} {r : R0 α} (hl : c1.toks.length ≤ c.toks.length)
    (hi : c1.i + c1.toks.length = c.i + c.toks.length) (h : Good0 c1 k r) : Good0 c k r := by
  cases r <;> simp [Good0] at * <;> omega

theorem Good.lift {α : Type} {c c1 : Cur} {k : Nat} {r : R α} (hl : c1.toks.length ≤ c.toks.length)
    (hi : c1.i + c1.toks.length = c.i + c.toks.length) (h : Good c1 k r) : Good c k r := by
  cases r <;> simp [Good] at * <;> omega

theorem pRInterps_good : ∀ (f : Nat) (c : Cur) (acc : List Bytes), c.toks.length < f → Good0 c 0 (pRInterps f c acc) := by
  intro f
  induction f with
  | zero => intro c acc h; omega
  | succ f ih =>
    intro c acc h
    unfold pRInterps
    split
    · rename_i r hc
      have h1 := pEqStr_good ⟨r, c.i + 1⟩
      have ha := adv1 hc
      split
      · rename_i s c' he; rw [he] at h1
        simp [Good0] at h1; simp at ha
        exact Good0.lift (by omega) (by omega) (ih c' _ (by omega))
      · rename_i i he; rw [he] at h1
        exact Good0.weaken (k := 2) (Good0.lift (by simp at ha ⊢; omega) (by simp at ha ⊢; omega) h1) (by omega)
      · rename_i he; rw [he] at h1; exact h1.elim
    · simp [Good0]

theorem pStrings_good : ∀ (f : Nat) (c : Cur) (acc : List Bytes), c.toks.length < f → Good0 c 0 (pStrings f c acc) := by
  intro f
  induction f with
  | zero => intro c acc h; omega
  | succ f ih =>
    intro c acc h
    unfold pStrings
    split
    · rename_i s r hc
      have ha := adv1 hc
      simp at ha
      exact Good0.lift (by simp; omega) (by simp; omega) (ih ⟨r, c.i + 1⟩ _ (by simp; omega))
    · simp [Good0]

theorem pSpsTail_good (f : Nat) (plug mp1 : Option Bytes) (mp2 : Bytes) (c : Cur) (h : c.toks.length < f) :
    Good0 c 0 (pSpsTail f plug mp1 mp2 c) := by
  unfold pSpsTail
  have h1 := pInterps_good f c [] h
  split
  · rename_i l c' he; rw [he] at h1; exact h1
  · rename_i i he; rw [he] at h1; exact h1
  · rename_i he; rw [he] at h1; exact h1.elim

theorem pSetplugstate_good (f : Nat) (c : Cur) (h : c.toks.length < f) : Good0 c 0 (pSetplugstate f c) := by
  unfold pSetplugstate
  split
  · rename_i s r hc
    have ha := adv1 hc
    simp at ha
    have h1 := pRegmatch_good ⟨r, c.i + 1⟩
    split
    · rename_i m c1 he; rw [he] at h1; simp [Good0] at h1
      exact Good0.lift (by omega) (by omega) (pSpsTail_good f _ _ m c1 (by omega))
    · rename_i i he; rw [he] at h1
      exact Good0.weaken (k := 2) (Good0.lift (by simp; omega) (by simp; omega) h1) (by omega)
    · rename_i he; rw [he] at h1; exact h1.elim
  · have h1 := pRegmatch_good c
    split
    · rename_i m1 c1 he; rw [he] at h1; simp [Good0] at h1
      split
      · have h2 := pRegmatch_good c1
        split
        · rename_i m2 c2 he2; rw [he2] at h2; simp [Good0] at h2
          exact Good0.lift (by omega) (by omega) (pSpsTail_good f _ _ m2 c2 (by omega))
        · rename_i i he2; rw [he2] at h2
          exact Good0.weaken (k := 2) (Good0.lift (by omega) (by omega) h2) (by omega)
        · rename_i he2; rw [he2] at h2; exact h2.elim
      · exact Good0.lift (by omega) (by omega) (pSpsTail_good f _ _ m1 c1 (by omega))
    · rename_i i he; rw [he] at h1; simp [Good0] at h1 ⊢; omega
    · rename_i he; rw [he] at h1; exact h1.elim

theorem pSetresult_good (f : Nat) (c : Cur) (h : c.toks.length < f) : Good0 c 0 (pSetresult f c) := by
  unfold pSetresult
  have h1 := pRegmatch_good c
  split
  · rename_i m1 c1 he; rw [he] at h1; simp [Good0] at h1
    have h2 := pRegmatch_good c1
    split
    · rename_i m2 c2 he2; rw [he2] at h2; simp [Good0] at h2
      have h3 := pRInterps_good f c2 [] (by omega)
      split
      · rename_i l c3 he3; rw [he3] at h3; simp [Good0] at h3
        split
        · simp [Good0]; omega
        · simp [Good0]; omega
      · rename_i i he3; rw [he3] at h3; simp [Good0] at h3 ⊢; omega
      · rename_i he3; rw [he3] at h3; exact h3.elim
    · rename_i i he2; rw [he2] at h2; simp [Good0] at h2 ⊢; omega
    · rename_i he2; rw [he2] at h2; exact h2.elim
  · rename_i i he; rw [he] at h1; simp [Good0] at h1 ⊢; omega
  · rename_i he; rw [he] at h1; exact h1.elim

theorem pSimple_good (f : Nat) (c : Cur) (h : c.toks.length ≤ f) (r : R0 PStmt) (hr : pSimple f c = some r) : Good0 c 1 r := by
  unfold pSimple at hr
  split at hr
  · rename_i r' hc
    have ha := adv1 hc; simp at ha
    have h1 := pStr_good ⟨r', c.i + 1⟩
    cases hr
    split
    · rename_i s c' he; rw [he] at h1; simp [Good0] at h1 ⊢; omega
    · rename_i i he; rw [he] at h1; simp [Good0] at h1 ⊢; omega
    · rename_i he; rw [he] at h1; exact h1.elim
  · rename_i r' hc
    have ha := adv1 hc; simp at ha
    have h1 := pStr_good ⟨r', c.i + 1⟩
    cases hr
    split
    · rename_i s c' he; rw [he] at h1; simp [Good0] at h1 ⊢; omega
    · rename_i i he; rw [he] at h1; simp [Good0] at h1 ⊢; omega
    · rename_i he; rw [he] at h1; exact h1.elim
  · rename_i r' hc
    have ha := adv1 hc; simp at ha
    have h1 := pNum_good ⟨r', c.i + 1⟩
    cases hr
    split
    · rename_i s c' he; rw [he] at h1; simp [Good0] at h1 ⊢; omega
    · rename_i i he; rw [he] at h1; simp [Good0] at h1 ⊢; omega
    · rename_i he; rw [he] at h1; exact h1.elim
  · rename_i r' hc
    have ha := adv1 hc; simp at ha
    cases hr
    exact Good0.trans (k1 := 1) (k2 := 0) (by simp; omega) (pSetplugstate_good f ⟨r', c.i + 1⟩ (by simp; omega))
  · rename_i r' hc
    have ha := adv1 hc; simp at ha
    cases hr
    exact Good0.trans (k1 := 1) (k2 := 0) (by simp; omega) (pSetresult_good f ⟨r', c.i + 1⟩ (by simp; omega))
  · cases hr

theorem pBody_good : ∀ (f : Nat) (c : Cur) (frames : List Frame) (cur : List PStmt) (log : List Ev), c.toks.length < f →
    Good c 1 (pBody f c frames cur log) := by
  intro f
  induction f with
  | zero => intro c frames cur log h; omega
  | succ f ih =>
    intro c frames cur log h
    unfold pBody
    split
    · rename_i hc; simp [Good, hc]
    · rename_i r hc
      have ha := adv1 hc; simp at ha
      split
      · simp [Good] <;> omega
      · split
        · simp [Good] <;> omega
        · exact Good.lift (by simp; omega) (by simp; omega) (ih ⟨r, c.i + 1⟩ _ _ _ (by simp; omega))
    · rename_i t r hne hc
      have ha := adv1 hc; simp at ha
      split
      · split
        · rename_i r'
          simp at ha
          exact Good.lift (by simp; omega) (by simp; omega) (ih ⟨r', c.i + 2⟩ _ _ _ (by simp; omega))
        · simp [Good] <;> omega
      · split
        · simp [Good] <;> omega
        · rename_i s c' hs
          have h1 := pSimple_good f c (by omega) _ hs
          simp [Good0] at h1
          exact Good.lift (by omega) (by omega) (ih c' _ _ _ (by omega))
        · rename_i i hs
          have h1 := pSimple_good f c (by omega) _ hs
          simp [Good0] at h1; simp [Good]; omega
        · rename_i hs
          have h1 := pSimple_good f c (by omega) _ hs
          exact h1.elim

theorem pSpecItem_good (f : Nat) (c : Cur) (log : List Ev) (h : c.toks.length ≤ f) (r : R SpecItem) (hr : pSpecItem f c log = some r) :
    Good c 1 r := by
  unfold pSpecItem at hr
  split at hr
  · rename_i r' hc
    have ha := adv1 hc; simp at ha
    have h1 := pNum_good ⟨r', c.i + 1⟩
    cases hr
    split
    · rename_i s c' he; rw [he] at h1; simp [Good0] at h1; simp [Good]; omega
    · rename_i i he; rw [he] at h1; simp [Good0] at h1; simp [Good]; omega
    · rename_i he; rw [he] at h1; exact h1.elim
  · rename_i r' hc
    have ha := adv1 hc; simp at ha
    have h1 := pNum_good ⟨r', c.i + 1⟩
    cases hr
    split
    · rename_i s c' he; rw [he] at h1; simp [Good0] at h1; simp [Good]; omega
    · rename_i i he; rw [he] at h1; simp [Good0] at h1; simp [Good]; omega
    · rename_i he; rw [he] at h1; exact h1.elim
  · rename_i r' hc
    have ha := adv1 hc; simp at ha
    have h1 := pTok_good .begin_ ⟨r', c.i + 1⟩
    cases hr
    split
    · rename_i c1 he; rw [he] at h1; simp [Good0] at h1
      have h2 := pStrings_good f c1 [] (by omega)
      split
      · rename_i l c2 he2; rw [he2] at h2; simp [Good0] at h2
        split
        · simp [Good]; omega
        · have h3 := pTok_good .end_ c2
          split
          · rename_i c3 he3; rw [he3] at h3; simp [Good0] at h3; simp [Good]; omega
          · rename_i i he3; rw [he3] at h3; simp [Good0] at h3; simp [Good]; omega
          · rename_i he3; rw [he3] at h3; exact h3.elim
      · rename_i i he2; rw [he2] at h2; simp [Good0] at h2; simp [Good]; omega
      · rename_i he2; rw [he2] at h2; exact h2.elim
    · rename_i i he; rw [he] at h1; simp [Good0] at h1; simp [Good]; omega
    · rename_i he; rw [he] at h1; exact h1.elim
  · rename_i r' hc
    have ha := adv1 hc; simp at ha
    cases hr
    split
    · rename_i k r1
      simp at ha
      split
      · have h1 := pTok_good .begin_ ⟨r1, c.i + 2⟩
        split
        · rename_i c1 he; rw [he] at h1; simp [Good0] at h1
          have h2 := pBody_good f c1 [] [] log (by omega)
          split
          · rename_i body c2 log' he2; rw [he2] at h2; simp [Good] at h2 ⊢; omega
          · rename_i i log' he2; rw [he2] at h2; simp [Good] at h2 ⊢; omega
          · rename_i he2; rw [he2] at h2; exact h2.elim
        · rename_i i he; rw [he] at h1; simp [Good0] at h1; simp [Good]; omega
        · rename_i he; rw [he] at h1; exact h1.elim
      · simp [Good]; omega
    · simp [Good]; omega
  · cases hr

theorem pSpecItems_good : ∀ (f : Nat) (c : Cur) (acc : List SpecItem) (log : List Ev), c.toks.length < f →
    Good c 0 (pSpecItems f c acc log) := by
  intro f
  induction f with
  | zero => intro c acc log h; omega
  | succ f ih =>
    intro c acc log h
    unfold pSpecItems
    split
    · simp [Good]
    · rename_i s c' log' hs
      have h1 := pSpecItem_good f c log (by omega) _ hs
      simp [Good] at h1
      exact Good.lift (by omega) (by omega) (ih c' _ _ (by omega))
    · rename_i i log' hs
      have h1 := pSpecItem_good f c log (by omega) _ hs
      simp [Good] at h1 ⊢; omega
    · rename_i hs
      exact (pSpecItem_good f c log (by omega) _ hs).elim

theorem pSpec_good (f : Nat) (c : Cur) (log : List Ev) (h : c.toks.length < f) : Good c 0 (pSpec f c log) := by
  unfold pSpec
  have h1 := pStr_good c
  split
  · rename_i name c1 he; rw [he] at h1; simp [Good0] at h1
    have h2 := pTok_good .begin_ c1
    split
    · rename_i c2 he2; rw [he2] at h2; simp [Good0] at h2
      have h3 := pSpecItems_good f c2 [] log (by omega)
      split
      · rename_i items c3 log' he3; rw [he3] at h3; simp [Good] at h3
        split
        · simp [Good]; omega
        · have h4 := pTok_good .end_ c3
          split
          · rename_i c4 he4; rw [he4] at h4; simp [Good0] at h4; simp [Good]; omega
          · rename_i i he4; rw [he4] at h4; simp [Good0] at h4; simp [Good]; omega
          · rename_i he4; rw [he4] at h4; exact h4.elim
      · rename_i i log' he3; rw [he3] at h3; simp [Good] at h3 ⊢; omega
      · rename_i he3; rw [he3] at h3; exact h3.elim
    · rename_i i he2; rw [he2] at h2; simp [Good0] at h2; simp [Good]; omega
    · rename_i he2; rw [he2] at h2; exact h2.elim
  · rename_i i he; rw [he] at h1; simp [Good0] at h1; simp [Good]; omega
  · rename_i he; rw [he] at h1; exact h1.elim

theorem pOptStr_good (c : Cur) : (pOptStr c).2.1.toks.length ≤ c.toks.length ∧ (pOptStr c).2.1.i + (pOptStr c).2.1.toks.length = c.i + c.toks.length := by
  unfold pOptStr
  split
  · rename_i s r hc; simp [hc]; omega
  · simp

theorem pItem_good (f : Nat) (c : Cur) (log : List Ev) (h : c.toks.length ≤ f) (r : R Item) (hr : pItem f c log = some r) :
    Good c 1 r := by
  unfold pItem at hr
  split at hr
  · rename_i r' hc
    have ha := adv1 hc; simp at ha
    have h1 := pStr_good ⟨r', c.i + 1⟩
    cases hr
    split
    · rename_i s c' he; rw [he] at h1; simp [Good0] at h1; simp [Good, R.ofItem]; omega
    · rename_i i he; rw [he] at h1; simp [Good0] at h1; simp [Good]; omega
    · rename_i he; rw [he] at h1; exact h1.elim
  · rename_i r' hc
    have ha := adv1 hc; simp at ha
    have h1 := pStr_good ⟨r', c.i + 1⟩
    cases hr
    split
    · rename_i s c' he; rw [he] at h1; simp [Good0] at h1; simp [Good, R.ofItem]; omega
    · rename_i i he; rw [he] at h1; simp [Good0] at h1; simp [Good]; omega
    · rename_i he; rw [he] at h1; exact h1.elim
  · rename_i r' hc
    have ha := adv1 hc; simp at ha
    cases hr
    split
    · simp [Good, R.ofItem]; simp at ha; omega
    · simp [Good, R.ofItem]; simp at ha; omega
    · simp [Good, R.ofItem]; omega
  · rename_i r' hc
    have ha := adv1 hc; simp at ha
    have h1 := pStr2_good ⟨r', c.i + 1⟩
    cases hr
    split
    · rename_i s c' he; rw [he] at h1; simp [Good0] at h1; simp [Good, R.ofItem]; omega
    · rename_i i he; rw [he] at h1; simp [Good0] at h1; simp [Good]; omega
    · rename_i he; rw [he] at h1; exact h1.elim
  · rename_i r' hc
    have ha := adv1 hc; simp at ha
    have h1 := pStr2_good ⟨r', c.i + 1⟩
    cases hr
    split
    · rename_i s c' he; rw [he] at h1; simp [Good0] at h1
      have h2 := pOptStr_good c'
      split
      · rename_i o c'' rd ho; rw [ho] at h2; simp at h2; simp [Good, R.ofItem]; omega
    · rename_i i he; rw [he] at h1; simp [Good0] at h1; simp [Good]; omega
    · rename_i he; rw [he] at h1; exact h1.elim
  · rename_i r' hc
    have ha := adv1 hc; simp at ha
    have h1 := pStr2_good ⟨r', c.i + 1⟩
    cases hr
    split
    · rename_i s c1 he; rw [he] at h1; simp [Good0] at h1
      have h2 := pStr_good c1
      split
      · rename_i hh c2 he2; rw [he2] at h2; simp [Good0] at h2
        have h3 := pOptStr_good c2
        split
        · rename_i o c3 rd ho; rw [ho] at h3; simp at h3; simp [Good, R.ofItem]; omega
      · rename_i i he2; rw [he2] at h2; simp [Good0] at h2; simp [Good]; omega
      · rename_i he2; rw [he2] at h2; exact h2.elim
    · rename_i i he; rw [he] at h1; simp [Good0] at h1; simp [Good]; omega
    · rename_i he; rw [he] at h1; exact h1.elim
  · rename_i r' hc
    have ha := adv1 hc; simp at ha
    cases hr
    exact Good.trans (k1 := 1) (k2 := 0) (by simp; omega) (pSpec_good f ⟨r', c.i + 1⟩ log (by simp; omega))
  · cases hr

theorem pItems_good : ∀ (f : Nat) (c : Cur) (acc : List Item) (log : List Ev), c.toks.length < f →
    Good c 0 (pItems f c acc log) := by
  intro f
  induction f with
  | zero => intro c acc log h; omega
  | succ f ih =>
    intro c acc log h
    unfold pItems
    split
    · simp [Good]
    · split
      · simp [Good]
      · rename_i it c' log' hs
        have h1 := pItem_good f c log (by omega) _ hs
        simp [Good] at h1
        exact Good.lift (by omega) (by omega) (ih c' _ _ (by omega))
      · rename_i i log' hs
        have h1 := pItem_good f c log (by omega) _ hs
        simp [Good] at h1 ⊢; omega
      · rename_i hs
        exact (pItem_good f c log (by omega) _ hs).elim

/-- **Totality with the stated fuel.**  With fuel = number of tokens + 1 (or more) the parser never answers `fuel`; a syntax
    error names an index between 0 and the number of tokens (the latter: unexpected end of input). -/
theorem parseF_good (toks : List Token) (f : Nat) (h : toks.length < f) : Good ⟨toks, 0⟩ 0 (parseF f toks) :=
  pItems_good f ⟨toks, 0⟩ [] [] h

theorem parse_total (toks : List Token) :
    parseConfig toks ≠ .error .fuel ∧ ∀ i, parseConfig toks = .error (.syntax i) → i ≤ toks.length := by
  have h := parseF_good toks (toks.length + 1) (by omega)
  unfold parseConfig
  split
  · exact ⟨nofun, nofun⟩
  · rename_i i log he
    rw [he] at h; simp [Good] at h
    refine ⟨nofun, ?_⟩
    intro j hj; cases hj; exact h
  · rename_i he; rw [he] at h; exact h.elim

/-! ## 2. the shape of what is accepted -/

mutual
/-- what the grammar guarantees about one statement, whatever the tokens were: a sub-block is never empty (`stmt_list` has no
    empty production); `setresult` has at least one `success=` interpretation; `setplugstate` has a literal plug name or a plug
    match position or neither, never both -/
def stmtWF : PStmt → Bool
  | .setplugstate plug mp1 _ _ _ => !(plug.isSome && mp1.isSome)
  | .setresult _ _ l _ => !l.isEmpty
  | .block _ body => !body.isEmpty && stmtsWF body
  | _ => true
def stmtsWF : List PStmt → Bool
  | [] => true
  | s :: r => stmtWF s && stmtsWF r
end

theorem stmtsWF_all : ∀ l : List PStmt, stmtsWF l = l.all stmtWF
  | [] => by simp [stmtsWF]
  | s :: r => by simp [stmtsWF, stmtsWF_all r]

/-- the script indices that have a name in the grammar (`PM_RESOLVE` has none) -/
def namedKinds : List Nat :=
  [.login, .logout, .status, .statusAll, .statusTemp, .statusTempAll, .statusBeacon, .statusBeaconAll, .beaconOn, .beaconOnRanged,
   .beaconOff, .beaconOffRanged, .on, .onRanged, .onAll, .off, .offRanged, .offAll, .cycle, .cycleRanged, .cycleAll, .reset,
   .resetRanged, .resetAll, .ping].filterMap scriptKind

def specItemWF : SpecItem → Bool
  | .plugs l _ => !l.isEmpty
  | .script kind body _ => namedKinds.contains kind && !body.isEmpty && stmtsWF body
  | _ => true

def itemWF : Item → Bool
  | .spec _ items _ => !items.isEmpty && items.all specItemWF
  | _ => true

def astWF (a : Ast) : Bool := a.all itemWF

theorem pSpsTail_wf (f : Nat) (plug mp1 : Option Bytes) (mp2 : Bytes) (c : Cur) (h : !(plug.isSome && mp1.isSome) = true)
    (s : PStmt) (c' : Cur) (hr : pSpsTail f plug mp1 mp2 c = .ok s c') : stmtWF s = true := by
  unfold pSpsTail at hr
  split at hr
  · cases hr; simpa [stmtWF] using h
  · cases hr
  · cases hr

theorem pSimple_wf (f : Nat) (c : Cur) (s : PStmt) (c' : Cur) (hr : pSimple f c = some (.ok s c')) : stmtWF s = true := by
  unfold pSimple at hr
  split at hr
  · simp only [Option.some.injEq] at hr; split at hr <;> cases hr; simp [stmtWF]
  · simp only [Option.some.injEq] at hr; split at hr <;> cases hr; simp [stmtWF]
  · simp only [Option.some.injEq] at hr; split at hr <;> cases hr; simp [stmtWF]
  · simp only [Option.some.injEq] at hr
    unfold pSetplugstate at hr
    split at hr
    · split at hr
      · exact pSpsTail_wf f _ _ _ _ (by simp) s c' hr
      · cases hr
      · cases hr
    · split at hr
      · split at hr
        · split at hr
          · exact pSpsTail_wf f _ _ _ _ (by simp) s c' hr
          · cases hr
          · cases hr
        · exact pSpsTail_wf f _ _ _ _ (by simp) s c' hr
      · cases hr
      · cases hr
  · simp only [Option.some.injEq] at hr
    unfold pSetresult at hr
    split at hr
    · split at hr
      · split at hr
        · split at hr
          · cases hr
          · rename_i hl; cases hr; simpa [stmtWF] using hl
        · cases hr
        · cases hr
      · cases hr
      · cases hr
    · cases hr
    · cases hr
  · cases hr

/-- the frames hold only well-formed statements -/
def framesWF : List Frame → Bool
  | [] => true
  | fr :: frs => stmtsWF fr.acc && framesWF frs

theorem pBody_wf : ∀ (f : Nat) (c : Cur) (frames : List Frame) (cur : List PStmt) (log : List Ev),
    stmtsWF cur = true → framesWF frames = true →
    ∀ body c' log', pBody f c frames cur log = .ok body c' log' → body ≠ [] ∧ stmtsWF body = true := by
  intro f
  induction f with
  | zero => intro c frames cur log _ _ body c' log' h; simp [pBody] at h
  | succ f ih =>
    intro c frames cur log hcur hfr body c' log' h
    unfold pBody at h
    split at h
    · cases h
    · split at h
      · cases h
      · rename_i x xs
        split at h
        · cases h
          refine ⟨by simp, ?_⟩
          rw [stmtsWF_all] at hcur ⊢
          rw [List.all_reverse]; exact hcur
        · rename_i fr frs
          simp only [framesWF, Bool.and_eq_true] at hfr
          refine ih _ _ _ _ ?_ hfr.2 body c' log' h
          simp only [stmtsWF, stmtWF, Bool.and_eq_true, hfr.1, and_true]
          refine ⟨by simp, ?_⟩
          rw [stmtsWF_all] at hcur ⊢
          rw [List.all_reverse]; exact hcur
    · split at h
      · split at h
        · exact ih _ _ _ _ (by simp [stmtsWF]) (by simp [framesWF, hcur, hfr]) body c' log' h
        · cases h
      · split at h
        · cases h
        · rename_i s c1 hs
          exact ih _ _ _ _ (by simp [stmtsWF, hcur, pSimple_wf f c s c1 hs]) hfr body c' log' h
        · cases h
        · cases h

theorem scriptKind_named (t : Token) (k : Nat) (h : scriptKind t = some k) : namedKinds.contains k = true := by
  cases t <;> simp [scriptKind] at h <;> subst h <;> decide

theorem pSpecItem_wf (f : Nat) (c : Cur) (log : List Ev) (s : SpecItem) (c' : Cur) (log' : List Ev)
    (hr : pSpecItem f c log = some (.ok s c' log')) : specItemWF s = true := by
  unfold pSpecItem at hr
  split at hr
  · simp only [Option.some.injEq] at hr; split at hr <;> cases hr; simp [specItemWF]
  · simp only [Option.some.injEq] at hr; split at hr <;> cases hr; simp [specItemWF]
  · simp only [Option.some.injEq] at hr
    split at hr
    · split at hr
      · split at hr
        · cases hr
        · rename_i hl
          split at hr
          · cases hr; simpa [specItemWF] using hl
          · cases hr
          · cases hr
      · cases hr
      · cases hr
    · cases hr
    · cases hr
  · simp only [Option.some.injEq] at hr
    split at hr
    · split at hr
      · rename_i kind hk
        split at hr
        · split at hr
          · rename_i body c2 log2 hb
            have := pBody_wf f _ [] [] log (by simp [stmtsWF]) (by simp [framesWF]) body c2 log2 hb
            cases hr
            simp only [specItemWF, Bool.and_eq_true, scriptKind_named _ _ hk, this.2, and_true, true_and]
            cases body with
            | nil => exact absurd rfl this.1
            | cons _ _ => simp
          · cases hr
          · cases hr
        · cases hr
        · cases hr
      · cases hr
    · cases hr
  · cases hr

theorem pSpecItems_wf : ∀ (f : Nat) (c : Cur) (acc : List SpecItem) (log : List Ev), acc.all specItemWF = true →
    ∀ items c' log', pSpecItems f c acc log = .ok items c' log' → items.all specItemWF = true ∧ (acc ≠ [] → items ≠ []) := by
  intro f
  induction f with
  | zero => intro c acc log _ items c' log' h; simp [pSpecItems] at h
  | succ f ih =>
    intro c acc log hacc items c' log' h
    unfold pSpecItems at h
    split at h
    · cases h
      refine ⟨by rw [List.all_reverse]; exact hacc, ?_⟩
      intro hne; simpa using hne
    · rename_i s c1 log1 hs
      have := ih c1 (s :: acc) log1 (by simp [hacc, pSpecItem_wf f c log s c1 log1 hs]) items c' log' h
      exact ⟨this.1, fun _ => this.2 (by simp)⟩
    · cases h
    · cases h

theorem pSpec_wf (f : Nat) (c : Cur) (log : List Ev) (it : Item) (c' : Cur) (log' : List Ev) (hr : pSpec f c log = .ok it c' log') :
    itemWF it = true := by
  unfold pSpec at hr
  split at hr
  · split at hr
    · split at hr
      · rename_i items c3 log3 hi
        split at hr
        · cases hr
        · rename_i hne
          split at hr
          · cases hr
            have := pSpecItems_wf f _ [] log (by simp) items c3 log3 hi
            simp only [itemWF, Bool.and_eq_true, this.1, and_true]
            simpa using hne
          · cases hr
          · cases hr
      · cases hr
      · cases hr
    · cases hr
    · cases hr
  · cases hr
  · cases hr

theorem pItem_wf (f : Nat) (c : Cur) (log : List Ev) (it : Item) (c' : Cur) (log' : List Ev)
    (hr : pItem f c log = some (.ok it c' log')) : itemWF it = true := by
  unfold pItem at hr
  split at hr
  · simp only [Option.some.injEq] at hr; split at hr <;> simp [R.ofItem] at hr; obtain ⟨rfl, _⟩ := hr; simp [itemWF]
  · simp only [Option.some.injEq] at hr; split at hr <;> simp [R.ofItem] at hr; obtain ⟨rfl, _⟩ := hr; simp [itemWF]
  · simp only [Option.some.injEq] at hr; split at hr <;> simp [R.ofItem] at hr <;> obtain ⟨rfl, _⟩ := hr <;> simp [itemWF]
  · simp only [Option.some.injEq] at hr; split at hr <;> simp [R.ofItem] at hr; obtain ⟨rfl, _⟩ := hr; simp [itemWF]
  · simp only [Option.some.injEq] at hr
    split at hr
    · simp [R.ofItem] at hr; obtain ⟨rfl, _⟩ := hr; simp [itemWF]
    · cases hr
    · cases hr
  · simp only [Option.some.injEq] at hr
    split at hr
    · split at hr
      · simp [R.ofItem] at hr; obtain ⟨rfl, _⟩ := hr; simp [itemWF]
      · cases hr
      · cases hr
    · cases hr
    · cases hr
  · simp only [Option.some.injEq] at hr; exact pSpec_wf f _ log it c' log' hr
  · cases hr

theorem pItems_wf : ∀ (f : Nat) (c : Cur) (acc : List Item) (log : List Ev), acc.all itemWF = true →
    ∀ ast c' log', pItems f c acc log = .ok ast c' log' → astWF ast = true := by
  intro f
  induction f with
  | zero => intro c acc log _ ast c' log' h; simp [pItems] at h
  | succ f ih =>
    intro c acc log hacc ast c' log' h
    unfold pItems at h
    split at h
    · cases h; unfold astWF; rw [List.all_reverse]; exact hacc
    · split at h
      · cases h
      · rename_i it c1 log1 hs
        exact ih c1 (it :: acc) log1 (by simp [hacc, pItem_wf f c log it c1 log1 hs]) ast c' log' h
      · cases h
      · cases h

/-- **Shape.**  Whatever the tokens: an accepted file is a list of items in which every specification has at least one item,
    every plug list at least one name, every script one of the 25 named kinds and a non-empty body, every sub-block (at any
    depth) at least one statement, every `setresult` at least one interpretation, and no `setplugstate` both a literal plug
    and a plug match position. -/
theorem parse_shape (toks : List Token) (ast : Ast) (h : parseConfig toks = .ok ast) : astWF ast = true := by
  unfold parseConfig at h
  split at h
  · rename_i a c log he
    cases h
    exact pItems_wf _ _ [] [] (by simp) ast c log he
  · cases h
  · cases h

/-! ## 3. the log of action calls is the post-order walk of the tree -/

mutual
/-- the calls of `makePreStmt` for one statement: for a sub-block first those of its body (bison reduces inner rules first) -/
def evStmt : PStmt → List Ev
  | .block k body => evStmts body ++ [.stmt (.block k body)]
  | .expect s => [.stmt (.expect s)]
  | .send s => [.stmt (.send s)]
  | .delay n rd => [.stmt (.delay n rd)]
  | .setplugstate a b c d e => [.stmt (.setplugstate a b c d e)]
  | .setresult a b c d => [.stmt (.setresult a b c d)]
def evStmts : List PStmt → List Ev
  | [] => []
  | s :: r => evStmt s ++ evStmts r
end

def evSpecItem : SpecItem → List Ev
  | .script k body rd => evStmts body ++ [.specItem (.script k body rd)]
  | .timeout n rd => [.specItem (.timeout n rd)]
  | .pingPeriod n rd => [.specItem (.pingPeriod n rd)]
  | .plugs l rd => [.specItem (.plugs l rd)]

def evSpecItems : List SpecItem → List Ev
  | [] => []
  | s :: r => evSpecItem s ++ evSpecItems r

def evItem : Item → List Ev
  | .spec n items rd => evSpecItems items ++ [.item (.spec n items rd)]
  | .listen s rd => [.item (.listen s rd)]
  | .tcpWrappers v rd => [.item (.tcpWrappers v rd)]
  | .plugLogLevel s rd => [.item (.plugLogLevel s rd)]
  | .device a b c d rd => [.item (.device a b c d rd)]
  | .node a b c rd => [.item (.node a b c rd)]
  | .alias a b rd => [.item (.alias a b rd)]

def evAst : Ast → List Ev
  | [] => []
  | i :: r => evItem i ++ evAst r

theorem evStmts_append : ∀ a b : List PStmt, evStmts (a ++ b) = evStmts a ++ evStmts b
  | [], b => by simp [evStmts]
  | s :: r, b => by simp [evStmts, evStmts_append r b]

theorem evSpecItems_append : ∀ a b : List SpecItem, evSpecItems (a ++ b) = evSpecItems a ++ evSpecItems b
  | [], b => by simp [evSpecItems]
  | s :: r, b => by simp [evSpecItems, evSpecItems_append r b]

theorem evAst_append : ∀ a b : Ast, evAst (a ++ b) = evAst a ++ evAst b
  | [], b => by simp [evAst]
  | s :: r, b => by simp [evAst, evAst_append r b]

/-- the calls made so far inside a script body: the completed statements of the open blocks, outermost block first -/
def stateEv : List Frame → List PStmt → List Ev
  | [], cur => evStmts cur.reverse
  | fr :: frs, cur => stateEv frs fr.acc ++ evStmts cur.reverse

theorem pSpsTail_ev (f : Nat) (plug mp1 : Option Bytes) (mp2 : Bytes) (c : Cur) (s : PStmt) (c' : Cur)
    (hr : pSpsTail f plug mp1 mp2 c = .ok s c') : evStmt s = [.stmt s] := by
  unfold pSpsTail at hr
  split at hr
  · cases hr; simp [evStmt]
  · cases hr
  · cases hr

theorem pSimple_ev (f : Nat) (c : Cur) (s : PStmt) (c' : Cur) (hr : pSimple f c = some (.ok s c')) : evStmt s = [.stmt s] := by
  unfold pSimple at hr
  split at hr
  · simp only [Option.some.injEq] at hr; split at hr <;> cases hr; simp [evStmt]
  · simp only [Option.some.injEq] at hr; split at hr <;> cases hr; simp [evStmt]
  · simp only [Option.some.injEq] at hr; split at hr <;> cases hr; simp [evStmt]
  · simp only [Option.some.injEq] at hr
    unfold pSetplugstate at hr
    split at hr
    · split at hr
      · exact pSpsTail_ev f _ _ _ _ s c' hr
      · cases hr
      · cases hr
    · split at hr
      · split at hr
        · split at hr
          · exact pSpsTail_ev f _ _ _ _ s c' hr
          · cases hr
          · cases hr
        · exact pSpsTail_ev f _ _ _ _ s c' hr
      · cases hr
      · cases hr
  · simp only [Option.some.injEq] at hr
    unfold pSetresult at hr
    split at hr
    · split at hr
      · split at hr
        · split at hr
          · cases hr
          · cases hr; simp [evStmt]
        · cases hr
        · cases hr
      · cases hr
      · cases hr
    · cases hr
    · cases hr
  · cases hr

theorem stateEv_cons (frs : List Frame) (s : PStmt) (acc : List PStmt) : stateEv frs (s :: acc) = stateEv frs acc ++ evStmt s := by
  cases frs <;> simp [stateEv, evStmts_append, evStmts]

theorem pBody_ev : ∀ (f : Nat) (c : Cur) (frames : List Frame) (cur : List PStmt) (log base : List Ev),
    log = (stateEv frames cur).reverse ++ base →
    ∀ body c' log', pBody f c frames cur log = .ok body c' log' → log' = (evStmts body).reverse ++ base := by
  intro f
  induction f with
  | zero => intro c frames cur log base _ body c' log' h; simp [pBody] at h
  | succ f ih =>
    intro c frames cur log base hl body c' log' h
    unfold pBody at h
    split at h
    · cases h
    · split at h
      · cases h
      · rename_i x xs
        split at h
        · cases h; simpa [stateEv] using hl
        · rename_i fr frs
          refine ih _ _ _ _ base ?_ body c' log' h
          rw [stateEv_cons, hl]
          simp [stateEv, evStmt]
    · split at h
      · split at h
        · exact ih _ _ _ _ base (by simpa [stateEv, evStmts] using hl) body c' log' h
        · cases h
      · split at h
        · cases h
        · rename_i s c1 hs
          refine ih _ _ _ _ base ?_ body c' log' h
          have he := pSimple_ev f c s c1 hs
          rw [stateEv_cons, he, hl]; simp
        · cases h
        · cases h

theorem pSpecItem_ev (f : Nat) (c : Cur) (log : List Ev) (s : SpecItem) (c' : Cur) (log' : List Ev)
    (hr : pSpecItem f c log = some (.ok s c' log')) : log' = (evSpecItem s).reverse ++ log := by
  unfold pSpecItem at hr
  split at hr
  · simp only [Option.some.injEq] at hr; split at hr <;> cases hr; simp [evSpecItem]
  · simp only [Option.some.injEq] at hr; split at hr <;> cases hr; simp [evSpecItem]
  · simp only [Option.some.injEq] at hr
    split at hr
    · split at hr
      · split at hr
        · cases hr
        · split at hr
          · cases hr; simp [evSpecItem]
          · cases hr
          · cases hr
      · cases hr
      · cases hr
    · cases hr
    · cases hr
  · simp only [Option.some.injEq] at hr
    split at hr
    · split at hr
      · split at hr
        · split at hr
          · rename_i body c2 log2 hb
            have := pBody_ev f _ [] [] log log (by simp [stateEv, evStmts]) body c2 log2 hb
            cases hr
            simp [evSpecItem, this]
          · cases hr
          · cases hr
        · cases hr
        · cases hr
      · cases hr
    · cases hr
  · cases hr

theorem pSpecItems_ev : ∀ (f : Nat) (c : Cur) (acc : List SpecItem) (log base : List Ev),
    log = (evSpecItems acc.reverse).reverse ++ base →
    ∀ items c' log', pSpecItems f c acc log = .ok items c' log' → log' = (evSpecItems items).reverse ++ base := by
  intro f
  induction f with
  | zero => intro c acc log base _ items c' log' h; simp [pSpecItems] at h
  | succ f ih =>
    intro c acc log base hl items c' log' h
    unfold pSpecItems at h
    split at h
    · cases h; exact hl
    · rename_i s c1 log1 hs
      refine ih c1 (s :: acc) log1 base ?_ items c' log' h
      rw [pSpecItem_ev f c log s c1 log1 hs, hl]
      simp [evSpecItems_append, evSpecItems]
    · cases h
    · cases h

theorem pSpec_ev (f : Nat) (c : Cur) (log : List Ev) (it : Item) (c' : Cur) (log' : List Ev) (hr : pSpec f c log = .ok it c' log') :
    log' = (evItem it).reverse ++ log := by
  unfold pSpec at hr
  split at hr
  · split at hr
    · split at hr
      · rename_i items c3 log3 hi
        have := pSpecItems_ev f _ [] log log (by simp [evSpecItems]) items c3 log3 hi
        split at hr
        · cases hr
        · split at hr
          · cases hr; simp [evItem, this]
          · cases hr
          · cases hr
      · cases hr
      · cases hr
    · cases hr
    · cases hr
  · cases hr
  · cases hr

theorem pItem_ev (f : Nat) (c : Cur) (log : List Ev) (it : Item) (c' : Cur) (log' : List Ev)
    (hr : pItem f c log = some (.ok it c' log')) : log' = (evItem it).reverse ++ log := by
  unfold pItem at hr
  split at hr
  · simp only [Option.some.injEq] at hr; split at hr <;> simp [R.ofItem] at hr; obtain ⟨rfl, _, rfl⟩ := hr; simp [evItem]
  · simp only [Option.some.injEq] at hr; split at hr <;> simp [R.ofItem] at hr; obtain ⟨rfl, _, rfl⟩ := hr; simp [evItem]
  · simp only [Option.some.injEq] at hr; split at hr <;> simp [R.ofItem] at hr <;> obtain ⟨rfl, _, rfl⟩ := hr <;> simp [evItem]
  · simp only [Option.some.injEq] at hr; split at hr <;> simp [R.ofItem] at hr; obtain ⟨rfl, _, rfl⟩ := hr; simp [evItem]
  · simp only [Option.some.injEq] at hr
    split at hr
    · simp [R.ofItem] at hr; obtain ⟨rfl, _, rfl⟩ := hr; simp [evItem]
    · cases hr
    · cases hr
  · simp only [Option.some.injEq] at hr
    split at hr
    · split at hr
      · simp [R.ofItem] at hr; obtain ⟨rfl, _, rfl⟩ := hr; simp [evItem]
      · cases hr
      · cases hr
    · cases hr
    · cases hr
  · simp only [Option.some.injEq] at hr; exact pSpec_ev f _ log it c' log' hr
  · cases hr

theorem pItems_ev : ∀ (f : Nat) (c : Cur) (acc : List Item) (log : List Ev),
    log = (evAst acc.reverse).reverse →
    ∀ ast c' log', pItems f c acc log = .ok ast c' log' → log' = (evAst ast).reverse := by
  intro f
  induction f with
  | zero => intro c acc log _ ast c' log' h; simp [pItems] at h
  | succ f ih =>
    intro c acc log hl ast c' log' h
    unfold pItems at h
    split at h
    · cases h; exact hl
    · split at h
      · cases h
      · rename_i it c1 log1 hs
        refine ih c1 (it :: acc) log1 ?_ ast c' log' h
        rw [pItem_ev f c log it c1 log1 hs, hl]
        simp [evAst_append, evAst]
      · cases h
      · cases h

/-- **The actions see the tree.**  On an accepted file the log of semantic-action calls is the post-order walk of the `Ast`:
    for every item its action, for a specification first the actions of its items in order, for a script first `makePreStmt`
    for every statement (sub-blocks: body first) — the order in which bison's reductions run them. -/
theorem parseLog_ok (toks : List Token) (ast : Ast) (h : parseConfig toks = .ok ast) : parseLog toks = (evAst ast, none) := by
  unfold parseConfig at h
  unfold parseLog
  split at h
  · rename_i a c log he
    cases h
    have := pItems_ev _ _ [] [] (by simp [evAst]) ast c log he
    simp [this]
  · cases h
  · cases h

/-! ## 4. the result does not depend on the fuel, once there is enough of it -/

theorem pInterps_fuel : ∀ (f g : Nat) (c : Cur) (acc : List (Bool × Bytes)), c.toks.length < f → c.toks.length < g →
    pInterps f c acc = pInterps g c acc := by
  intro f
  induction f with
  | zero => intro g c acc h; omega
  | succ f ih =>
    intro g c acc hf hg
    cases g with
    | zero => omega
    | succ g =>
      unfold pInterps
      split
      · rename_i r hc
        have h1 := pEqStr_good ⟨r, c.i + 1⟩
        have ha := adv1 hc
        split
        · rename_i s c' he; rw [he] at h1; simp [Good0] at h1; simp at ha
          exact ih g c' _ (by omega) (by omega)
        · rfl
        · rfl
      · rename_i r hc
        have h1 := pEqStr_good ⟨r, c.i + 1⟩
        have ha := adv1 hc
        split
        · rename_i s c' he; rw [he] at h1; simp [Good0] at h1; simp at ha
          exact ih g c' _ (by omega) (by omega)
        · rfl
        · rfl
      · rfl

theorem pRInterps_fuel : ∀ (f g : Nat) (c : Cur) (acc : List Bytes), c.toks.length < f → c.toks.length < g →
    pRInterps f c acc = pRInterps g c acc := by
  intro f
  induction f with
  | zero => intro g c acc h; omega
  | succ f ih =>
    intro g c acc hf hg
    cases g with
    | zero => omega
    | succ g =>
      unfold pRInterps
      split
      · rename_i r hc
        have h1 := pEqStr_good ⟨r, c.i + 1⟩
        have ha := adv1 hc
        split
        · rename_i s c' he; rw [he] at h1; simp [Good0] at h1; simp at ha
          exact ih g c' _ (by omega) (by omega)
        · rfl
        · rfl
      · rfl

theorem pStrings_fuel : ∀ (f g : Nat) (c : Cur) (acc : List Bytes), c.toks.length < f → c.toks.length < g →
    pStrings f c acc = pStrings g c acc := by
  intro f
  induction f with
  | zero => intro g c acc h; omega
  | succ f ih =>
    intro g c acc hf hg
    cases g with
    | zero => omega
    | succ g =>
      unfold pStrings
      split
      · rename_i s r hc
        have ha := adv1 hc; simp at ha
        exact ih g ⟨r, c.i + 1⟩ _ (by simp; omega) (by simp; omega)
      · rfl

theorem pSpsTail_fuel (f g : Nat) (plug mp1 : Option Bytes) (mp2 : Bytes) (c : Cur) (hf : c.toks.length < f) (hg : c.toks.length < g) :
    pSpsTail f plug mp1 mp2 c = pSpsTail g plug mp1 mp2 c := by
  unfold pSpsTail; rw [pInterps_fuel f g c [] hf hg]

theorem pSetplugstate_fuel (f g : Nat) (c : Cur) (hf : c.toks.length < f) (hg : c.toks.length < g) :
    pSetplugstate f c = pSetplugstate g c := by
  unfold pSetplugstate
  split
  · rename_i s r hc
    have ha := adv1 hc; simp at ha
    have h1 := pRegmatch_good ⟨r, c.i + 1⟩
    split
    · rename_i m c1 he; rw [he] at h1; simp [Good0] at h1
      exact pSpsTail_fuel f g _ _ m c1 (by omega) (by omega)
    · rfl
    · rfl
  · have h1 := pRegmatch_good c
    split
    · rename_i m1 c1 he; rw [he] at h1; simp [Good0] at h1
      split
      · have h2 := pRegmatch_good c1
        split
        · rename_i m2 c2 he2; rw [he2] at h2; simp [Good0] at h2
          exact pSpsTail_fuel f g _ _ m2 c2 (by omega) (by omega)
        · rfl
        · rfl
      · exact pSpsTail_fuel f g _ _ m1 c1 (by omega) (by omega)
    · rfl
    · rfl

theorem pSetresult_fuel (f g : Nat) (c : Cur) (hf : c.toks.length < f) (hg : c.toks.length < g) :
    pSetresult f c = pSetresult g c := by
  unfold pSetresult
  have h1 := pRegmatch_good c
  split
  · rename_i m1 c1 he; rw [he] at h1; simp [Good0] at h1
    have h2 := pRegmatch_good c1
    split
    · rename_i m2 c2 he2; rw [he2] at h2; simp [Good0] at h2
      rw [pRInterps_fuel f g c2 [] (by omega) (by omega)]
    · rfl
    · rfl
  · rfl
  · rfl

theorem pSimple_fuel (f g : Nat) (c : Cur) (hf : c.toks.length ≤ f) (hg : c.toks.length ≤ g) : pSimple f c = pSimple g c := by
  unfold pSimple
  split
  · rfl
  · rfl
  · rfl
  · rename_i r hc
    have ha := adv1 hc; simp at ha
    rw [pSetplugstate_fuel f g ⟨r, c.i + 1⟩ (by simp; omega) (by simp; omega)]
  · rename_i r hc
    have ha := adv1 hc; simp at ha
    rw [pSetresult_fuel f g ⟨r, c.i + 1⟩ (by simp; omega) (by simp; omega)]
  · rfl

theorem pBody_fuel : ∀ (f g : Nat) (c : Cur) (frames : List Frame) (cur : List PStmt) (log : List Ev),
    c.toks.length < f → c.toks.length < g → pBody f c frames cur log = pBody g c frames cur log := by
  intro f
  induction f with
  | zero => intro g c frames cur log h; omega
  | succ f ih =>
    intro g c frames cur log hf hg
    cases g with
    | zero => omega
    | succ g =>
      unfold pBody
      split
      · rfl
      · rename_i r hc
        have ha := adv1 hc; simp at ha
        split
        · rfl
        · split
          · rfl
          · exact ih g ⟨r, c.i + 1⟩ _ _ _ (by simp; omega) (by simp; omega)
      · rename_i t r hne hc
        have ha := adv1 hc; simp at ha
        split
        · split
          · rename_i r'
            simp at ha
            exact ih g ⟨r', c.i + 2⟩ _ _ _ (by simp; omega) (by simp; omega)
          · rfl
        · rw [pSimple_fuel f g c (by omega) (by omega)]
          split
          · rfl
          · rename_i s c' hs
            have h1 := pSimple_good g c (by omega) _ hs
            simp [Good0] at h1
            exact ih g c' _ _ _ (by omega) (by omega)
          · rfl
          · rfl

theorem pSpecItem_fuel (f g : Nat) (c : Cur) (log : List Ev) (hf : c.toks.length ≤ f) (hg : c.toks.length ≤ g) :
    pSpecItem f c log = pSpecItem g c log := by
  unfold pSpecItem
  split
  · rfl
  · rfl
  · rename_i r hc
    have ha := adv1 hc; simp at ha
    have h1 := pTok_good .begin_ ⟨r, c.i + 1⟩
    congr 1
    split
    · rename_i c1 he; rw [he] at h1; simp [Good0] at h1
      rw [pStrings_fuel f g c1 [] (by omega) (by omega)]
    · rfl
    · rfl
  · rename_i r hc
    have ha := adv1 hc; simp at ha
    congr 1
    split
    · rename_i k r1
      simp at ha
      split
      · have h1 := pTok_good .begin_ ⟨r1, c.i + 2⟩
        split
        · rename_i c1 he; rw [he] at h1; simp [Good0] at h1
          rw [pBody_fuel f g c1 [] [] log (by omega) (by omega)]
        · rfl
        · rfl
      · rfl
    · rfl
  · rfl

theorem pSpecItems_fuel : ∀ (f g : Nat) (c : Cur) (acc : List SpecItem) (log : List Ev),
    c.toks.length < f → c.toks.length < g → pSpecItems f c acc log = pSpecItems g c acc log := by
  intro f
  induction f with
  | zero => intro g c acc log h; omega
  | succ f ih =>
    intro g c acc log hf hg
    cases g with
    | zero => omega
    | succ g =>
      unfold pSpecItems
      rw [pSpecItem_fuel f g c log (by omega) (by omega)]
      split
      · rfl
      · rename_i s c' log' hs
        have h1 := pSpecItem_good g c log (by omega) _ hs
        simp [Good] at h1
        exact ih g c' _ _ (by omega) (by omega)
      · rfl
      · rfl

theorem pSpec_fuel (f g : Nat) (c : Cur) (log : List Ev) (hf : c.toks.length < f) (hg : c.toks.length < g) :
    pSpec f c log = pSpec g c log := by
  unfold pSpec
  have h1 := pStr_good c
  split
  · rename_i name c1 he; rw [he] at h1; simp [Good0] at h1
    have h2 := pTok_good .begin_ c1
    split
    · rename_i c2 he2; rw [he2] at h2; simp [Good0] at h2
      rw [pSpecItems_fuel f g c2 [] log (by omega) (by omega)]
    · rfl
    · rfl
  · rfl
  · rfl

theorem pItem_fuel (f g : Nat) (c : Cur) (log : List Ev) (hf : c.toks.length ≤ f) (hg : c.toks.length ≤ g) :
    pItem f c log = pItem g c log := by
  unfold pItem
  split
  · rfl
  · rfl
  · rfl
  · rfl
  · rfl
  · rfl
  · rename_i r hc
    have ha := adv1 hc; simp at ha
    rw [pSpec_fuel f g ⟨r, c.i + 1⟩ log (by simp; omega) (by simp; omega)]
  · rfl

theorem pItems_fuel : ∀ (f g : Nat) (c : Cur) (acc : List Item) (log : List Ev),
    c.toks.length < f → c.toks.length < g → pItems f c acc log = pItems g c acc log := by
  intro f
  induction f with
  | zero => intro g c acc log h; omega
  | succ f ih =>
    intro g c acc log hf hg
    cases g with
    | zero => omega
    | succ g =>
      unfold pItems
      split
      · rfl
      · rw [pItem_fuel f g c log (by omega) (by omega)]
        split
        · rfl
        · rename_i it c' log' hs
          have h1 := pItem_good g c log (by omega) _ hs
          simp [Good] at h1
          exact ih g c' _ _ (by omega) (by omega)
        · rfl
        · rfl

/-- **More fuel changes nothing.**  Any amount of fuel above the number of tokens gives the same answer. -/
theorem parseF_fuel (toks : List Token) (f g : Nat) (hf : toks.length < f) (hg : toks.length < g) : parseF f toks = parseF g toks :=
  pItems_fuel f g ⟨toks, 0⟩ [] [] hf hg

end Pm.Grammar.Proof
