import Pm.RedfishLines
/-! helper lemmas for C19, part 7: exactly one output line per target -/
namespace Pm.Redfish

/-- the plug a line is about -/
def linePlug : Line → Nat
  | .status p _ => p
  | .ok p => p
  | .unknown p => p
  | .dep p _ _ _ => p
  | .phased p => p

/-- is this the `unknown plug specified` line? -/
def isUnk : Line → Bool
  | .unknown _ => true
  | _ => false

/-- the plug a line is about, and whether it is the "unknown plug" line -/
def lineKey (l : Line) : Nat := 2 * linePlug l + (if isUnk l then 1 else 0)

/-- "a parent and its child were both asked to be turned on" as `runCmd` evaluates it -/
def phasedT (c : Cfg) (st : St) (cmd : Cmd) (ts : List Nat) : Bool :=
  !(enq c st cmd ts).waiting.isEmpty && phasedB c cmd (enq c st cmd ts)

theorem setup_phased {c : Cfg} {st : St} {cmd : Cmd} {ts : List Nat} (h : phasedT c st cmd ts = true) :
    setup c cmd (enq c st cmd ts) =
      { enq c st cmd ts with
        out := (enq c st cmd ts).out ++ ((enq c st cmd ts).active ++ (enq c st cmd ts).waiting).map (fun pm => Line.phased pm.plug),
        active := [], waiting := [] } := by
  unfold phasedT at h
  simp only [Bool.and_eq_true, Bool.not_eq_true'] at h
  unfold setup afterPhased
  simp [h.1, h.2]

theorem setup_plain {c : Cfg} {st : St} {cmd : Cmd} {ts : List Nat} (h : phasedT c st cmd ts = false) :
    ∃ qs, setup c cmd (enq c st cmd ts) = { enq c st cmd ts with active := (enq c st cmd ts).active ++ qs } ∧
      ∀ q ∈ qs, ∃ w ∈ (enq c st cmd ts).waiting, q = query (rootOf c w.plug) := by
  unfold phasedT at h
  unfold setup afterPhased
  by_cases he : (enq c st cmd ts).waiting.isEmpty = true
  · exact ⟨[], by simp [he], by simp⟩
  · simp only [he, Bool.not_true, Bool.not_false, Bool.true_and] at h
    simp only [he, h, Bool.false_eq_true, if_false]
    obtain ⟨qs, e, h1, _⟩ := root_fold c (enq c st cmd ts).waiting (enq c st cmd ts)
    exact ⟨qs, e, h1⟩


/-- as `setup_plain`, recording that a root is only queried when it was not "active" -/
theorem setup_plain' {c : Cfg} {st : St} {cmd : Cmd} {ts : List Nat} (h : phasedT c st cmd ts = false) :
    ∃ qs, setup c cmd (enq c st cmd ts) = { enq c st cmd ts with active := (enq c st cmd ts).active ++ qs } ∧
      ∀ q ∈ qs, ∃ w ∈ (enq c st cmd ts).waiting, q = query (rootOf c w.plug) ∧
        plugActive (enq c st cmd ts) (rootOf c w.plug) w.cmd = false := by
  unfold phasedT at h
  unfold setup afterPhased
  by_cases he : (enq c st cmd ts).waiting.isEmpty = true
  · exact ⟨[], by simp [he], by simp⟩
  · simp only [he, Bool.not_true, Bool.not_false, Bool.true_and] at h
    simp only [he, h, Bool.false_eq_true, if_false]
    obtain ⟨qs, e, h1⟩ := root_fold' c (enq c st cmd ts).waiting (enq c st cmd ts)
    exact ⟨qs, e, h1⟩

/-- every target is exactly one of: unknown, root, child -/
theorem classes (c : Cfg) (t : Nat) :
    (known c t = false ∧ isRootT c t = false ∧ isChildT c t = false) ∨
    (known c t = true ∧ isRootT c t = true ∧ isChildT c t = false) ∨
    (known c t = true ∧ isRootT c t = false ∧ isChildT c t = true) := by
  unfold isRootT isChildT known parentOf
  cases hl : lookup c t with
  | none => simp
  | some pc => cases hp : pc.parent <;> simp [hp]

theorem count_classes (c : Cfg) (f : Nat → Bool) (ts : List Nat) :
    ts.countP f = (ts.filter (fun t => !known c t)).countP f + (ts.filter (isRootT c)).countP f
      + (ts.filter (isChildT c)).countP f := by
  induction ts with
  | nil => rfl
  | cons t ts ih =>
    rcases classes c t with ⟨h1, h2, h3⟩ | ⟨h1, h2, h3⟩ | ⟨h1, h2, h3⟩ <;>
      simp [List.filter_cons, List.countP_cons, h1, h2, h3, ih] <;> omega

section
variable {α : Type} [DecidableEq α] (lab : Nat → α) (ll : Line → α)

theorem oc_mk (x : α) (cmd : Cmd) (l : List Nat) :
    oc lab x (l.map (mk cmd)) = l.countP (fun t => lab t == x) := by
  unfold oc; rw [List.countP_map]; congr 1

/-- the books when the loop starts (not the refused `on` case): unknown-plug lines printed, one line owed per known target -/
theorem setup_TT_plain {c : Cfg} {st : St} {cmd : Cmd} {ts : List Nat} (h : phasedT c st cmd ts = false) (x : α) :
    TT lab ll x (setup c cmd (enq c st cmd ts)).active (setup c cmd (enq c st cmd ts)) =
      lc ll x ((ts.filter (fun t => !known c t)).map Line.unknown) +
      (ts.filter (isRootT c)).countP (fun t => lab t == x) + (ts.filter (isChildT c)).countP (fun t => lab t == x) := by
  obtain ⟨qs, e, hq⟩ := setup_plain h
  rw [e, enq_eq]
  have hqs : oc lab x qs = 0 := by
    unfold oc; rw [List.countP_eq_zero]
    intro q hq'; obtain ⟨w, _, rfl⟩ := hq q hq'; simp [query]
  simp only [TT, oc_append, hqs, oc_mk]
  simp [oc]

end

/-- the invariant needed for counting by plug name: power messages always print -/
def OutInv (_d : Nat) (P rest new : List PM) (m : M) : Prop :=
  m.active = P ++ rest ++ new ∧ ∀ i ∈ m.active ++ m.delayed ++ m.waiting, i.cmd ≠ .stat → i.output = true

theorem processOne_lists (c : Cfg) (m : M) (i : PM) (ho : i.cmd ≠ .stat → i.output = true) :
    ∃ added, (processOne c m i).active = m.active ++ added ∧
      (∀ j ∈ added, j ∈ m.waiting ∨ j.cmd = .stat) ∧
      (∀ w ∈ (processOne c m i).waiting, w ∈ m.waiting) ∧
      (∀ j ∈ (processOne c m i).delayed, j ∈ m.delayed ∨ j = i ∨ j = { i with output := true, waitState := true }) := by
  rw [processOne_shape c m i ho]
  by_cases hfr : isFresh c i = true
  · simp only [hfr, if_true]
    refine ⟨[], by simp, by simp, fun w h => h, ?_⟩
    intro j hj; simp at hj; rcases hj with hj | hj <;> simp [hj]
  · by_cases hag : isAgain c m i = true
    · simp only [hfr, hag, if_true, Bool.false_eq_true, if_false]
      refine ⟨[], by simp, by simp, fun w h => h, ?_⟩
      intro j hj; simp at hj; rcases hj with hj | hj <;> simp [hj]
    · simp only [hfr, hag, Bool.false_eq_true, if_false]
      obtain ⟨added, e1, e2, _, e4, e5, _⟩ := pw_books (fun t => t) linePlug (c := c) 0
        (outIf m i.output (ownLine c m i)) i.plug (resStat c m i) (by
          intro _ w _ _ _; unfold wline1; repeat' split
          all_goals rfl)
      have hm1 : (outIf m i.output (ownLine c m i)).waiting = m.waiting := by cases i.output <;> rfl
      have hm2 : (outIf m i.output (ownLine c m i)).active = m.active := by cases i.output <;> rfl
      have hm3 : (outIf m i.output (ownLine c m i)).delayed = m.delayed := by cases i.output <;> rfl
      rw [hm1] at e4 e5; rw [hm2] at e1; rw [hm3] at e2
      exact ⟨added, e1, e4, e5, by rw [e2]; intro j hj; exact Or.inl hj⟩

theorem OutInv_justifies (c : Cfg) : Justifies (fun t => 2 * t) lineKey c OutInv where
  act := fun _ _ _ _ _ h => h.1
  outp := by
    intro d P i rest new m h
    exact h.2 i (by rw [h.1]; simp)
  own := by
    intro d P i rest new m _ _ _ _
    unfold ownLine; repeat' split
    all_goals rfl
  waiters := by
    intro d P i rest new m _ _ _ _ w _ _ _
    unfold wline1; repeat' split
    all_goals rfl
  step := by
    intro d P i rest new m h
    have ho := h.2 i (by rw [h.1]; simp)
    obtain ⟨added, e1, e2, e3, e4⟩ := processOne_lists c m i ho
    refine ⟨new ++ added, by rw [e1, h.1]; simp, ?_⟩
    intro j hj
    simp only [List.mem_append] at hj
    rcases hj with (hj | hj) | hj
    · rw [e1] at hj
      rcases List.mem_append.1 hj with hj | hj
      · exact h.2 j (by simp [hj])
      · rcases e2 j hj with hj | hj
        · exact h.2 j (by simp [hj])
        · intro hh; exact absurd hj hh
    · rcases e4 j hj with hj | rfl | rfl
      · exact h.2 j (by simp [hj])
      · exact ho
      · intro _; rfl
    · exact h.2 j (by simp [e3 j hj])
  turn := by
    intro d P new m h
    refine ⟨by simp, ?_⟩
    intro j hj
    simp only [List.mem_append, List.append_nil, List.not_mem_nil, or_false] at hj
    apply h.2 j
    rw [h.1]; simp only [List.mem_append, List.append_nil]
    rcases hj with (hj | hj) | hj
    · exact Or.inl (Or.inl (Or.inr hj))
    · exact Or.inl (Or.inr hj)
    · exact Or.inr hj

theorem done_TT {α : Type} [DecidableEq α] (lab : Nat → α) (ll : Line → α) (x : α) (m : M) (h : isDone m = true) :
    TT lab ll x m.active m = lc ll x m.out := by
  unfold isDone at h
  simp only [Bool.and_eq_true, List.isEmpty_iff] at h
  simp [TT, oc, h.1.1, h.1.2, h.2]

theorem runLoop_idle (c : Cfg) (f : Nat) (m : M) (h : isDone m = true) : runLoop c f m = m := by
  cases f with
  | zero => rfl
  | succ f => rw [runLoop_succ]; simp [h]

/-- each target is named by exactly one output line: an `unknown plug` line if it is unknown, another line if not
    (keys: twice the plug number, plus one for an `unknown plug` line / an unknown target) -/
theorem runCmd_keys {c : Cfg} (hw : WF c = true) (st : St) (cmd : Cmd) (ts : List Nat) :
    ((runCmd c st cmd ts).1.map lineKey).Perm (ts.map fun t => 2 * t + (if known c t then 0 else 1)) := by
  have hdone := runCmd_done hw st cmd ts
  rw [runCmd_eq] at hdone ⊢
  simp only at hdone ⊢
  rw [List.perm_iff_count]
  intro x
  rw [List.count_eq_countP, List.count_eq_countP, List.countP_map, List.countP_map]
  have hcc := count_classes c ((fun y => y == x) ∘ fun t => 2 * t + (if known c t then 0 else 1)) ts
  have h1 : (ts.filter (fun t => !known c t)).countP ((fun y => y == x) ∘ fun t => 2 * t + (if known c t then 0 else 1))
      = (ts.filter (fun t => !known c t)).countP (fun t => 2 * t + 1 == x) := by
    apply List.countP_congr; intro t ht; simp at ht; simp [ht.2]
  have h2 : (ts.filter (isRootT c)).countP ((fun y => y == x) ∘ fun t => 2 * t + (if known c t then 0 else 1))
      = (ts.filter (isRootT c)).countP (fun t => 2 * t == x) := by
    apply List.countP_congr; intro t ht; simp [isRootT] at ht; simp [ht.2.1]
  have h3 : (ts.filter (isChildT c)).countP ((fun y => y == x) ∘ fun t => 2 * t + (if known c t then 0 else 1))
      = (ts.filter (isChildT c)).countP (fun t => 2 * t == x) := by
    apply List.countP_congr; intro t ht; simp at ht
    rcases classes c t with ⟨_, _, h⟩ | ⟨_, _, h⟩ | ⟨h, _, _⟩
    · rw [h] at ht; simp at ht
    · rw [h] at ht; simp at ht
    · simp [h]
  rw [h1, h2, h3] at hcc
  clear h1 h2 h3
  by_cases hph : phasedT c st cmd ts = true
  · -- refused: the loop has nothing to do
    rw [setup_phased hph]
    rw [runLoop_idle _ _ _ (by simp [isDone, (enq_props c st cmd ts).2.1])]
    rw [enq_eq]
    simp [List.countP_append, List.countP_map, Function.comp_def, lineKey, linePlug, isUnk, mk] at hcc ⊢
    omega
  · have hph : phasedT c st cmd ts = false := by simpa using hph
    have h0 : OutInv 0 [] ((setup c cmd (enq c st cmd ts)).active ++ (setup c cmd (enq c st cmd ts)).delayed) []
        { setup c cmd (enq c st cmd ts) with
          active := (setup c cmd (enq c st cmd ts)).active ++ (setup c cmd (enq c st cmd ts)).delayed, delayed := [] } := by
      refine ⟨by simp, ?_⟩
      obtain ⟨qs, e, hq⟩ := setup_plain hph
      rw [e, enq_eq]
      intro j hj
      simp at hj
      rcases hj with ⟨t, _, rfl⟩ | hj | ⟨t, _, rfl⟩
      · intro _; rfl
      · obtain ⟨w, _, rfl⟩ := hq j hj; intro hh; exact absurd rfl hh
      · intro _; rfl
    have hb := loop_books (fun t => 2 * t) lineKey (OutInv_justifies c) x (fuelOf c ts) 0 _ h0
    rw [done_TT _ _ _ _ hdone, setup_TT_plain _ _ hph] at hb
    simp only [lc] at hb
    simp [List.countP_map, Function.comp_def, lineKey, linePlug, isUnk] at hb hcc ⊢
    omega

theorem runCmd_plugs {c : Cfg} (hw : WF c = true) (st : St) (cmd : Cmd) (ts : List Nat) :
    ((runCmd c st cmd ts).1.map linePlug).Perm ts := by
  have := (runCmd_keys hw st cmd ts).map (· / 2)
  simp only [List.map_map] at this
  have e1 : ((· / 2) ∘ lineKey) = linePlug := by
    funext l; simp only [Function.comp, lineKey]; split <;> omega
  have e2 : ((· / 2) ∘ fun t => 2 * t + (if known c t then 0 else 1)) = fun t => t := by
    funext t; simp only [Function.comp]; split <;> omega
  rw [e1, e2] at this
  simpa using this

/-- the `unknown plug` lines are exactly those of the unknown targets -/
theorem runCmd_unknowns {c : Cfg} (hw : WF c = true) (st : St) (cmd : Cmd) (ts : List Nat) :
    ((runCmd c st cmd ts).1.map fun l => (linePlug l, isUnk l)).Perm (ts.map fun t => (t, !known c t)) := by
  have := (runCmd_keys hw st cmd ts).map (fun n => (n / 2, n % 2 == 1))
  simp only [List.map_map] at this
  have e1 : ((fun n => (n / 2, n % 2 == 1)) ∘ lineKey) = fun l => (linePlug l, isUnk l) := by
    funext l; simp only [Function.comp, lineKey]
    cases isUnk l <;> simp <;> omega
  have e2 : ((fun n => (n / 2, n % 2 == 1)) ∘ fun t => 2 * t + (if known c t then 0 else 1)) = fun t => (t, !known c t) := by
    funext t; simp only [Function.comp]
    cases known c t <;> simp <;> omega
  rw [e1, e2] at this
  exact this

end Pm.Redfish
