import Pm.RedfishSeq
/-! helper lemmas for C19 (redfishpower `--test-mode`): the pieces live in
    `RedfishTree` (forests), `RedfishPW` (`process_waiters` by filters), `RedfishSt` (plug states, `processOne` by case),
    `RedfishTerm` + `RedfishSetup` (termination), `RedfishLines` + `RedfishOne` (one line per target),
    `RedfishSpec` (the documented rules), `RedfishClosed` (`specPower` in closed form), `RedfishStat` (stat refinement),
    `RedfishPower` + `RedfishRefine` (on/off refinement), `RedfishSeq` (all commands, sequences). -/
namespace Pm.Redfish

/-- no plug is its own ancestor in a well-formed configuration -/
theorem WF_acyclic {c : Cfg} (hw : WF c = true) (p : Nat) : isDesc c p p = false := by
  cases h : isDesc c p p
  · rfl
  · exact absurd (isDesc_iff.1 h) (anc_irrefl hw p)

/-- the final machine of `runCmd` -/
def finalM (c : Cfg) (st : St) (cmd : Cmd) (ts : List Nat) : M :=
  runLoop c (fuelOf c ts) (setup c cmd (enq c st cmd ts))

theorem runCmd_final (c : Cfg) (st : St) (cmd : Cmd) (ts : List Nat) :
    runCmd c st cmd ts = ((finalM c st cmd ts).out, (finalM c st cmd ts).st, isDone (finalM c st cmd ts)) :=
  runCmd_eq c st cmd ts

theorem finalM_empty {c : Cfg} (hw : WF c = true) (st : St) (cmd : Cmd) (ts : List Nat) :
    (finalM c st cmd ts).active = [] ∧ (finalM c st cmd ts).delayed = [] ∧ (finalM c st cmd ts).waiting = [] := by
  have := runCmd_done hw st cmd ts
  rw [runCmd_final] at this
  simp only [isDone, Bool.and_eq_true, List.isEmpty_iff] at this
  exact ⟨this.1.1, this.1.2, this.2⟩

end Pm.Redfish

