/- pilot for C12 (back-off) and C09 (write side) -/
namespace Pm.Backoff

/-- regenerated from device.c:_time_to_reconnect -/
def rtab : List Nat := [1, 2, 4, 8, 15, 30, 60]

theorem rtab_ge_one : ∀ x ∈ rtab, 1 ≤ x := by decide

abbrev Time := Nat
def sec : Time := 1000000

structure Dev where
  retryCount : Nat
  lastRetry : Time

/-- `_time_to_reconnect`: true = attempt now -/
def timeToReconnect (d : Dev) (now : Time) : Bool :=
  if d.retryCount > 0 then
    decide (d.lastRetry + (rtab.getD (min (d.retryCount - 1) 6) 60) * sec ≤ now)
  else true

/-- `_connect` bookkeeping -/
def connect (d : Dev) (now : Time) : Dev := { retryCount := d.retryCount + 1, lastRetry := now }

theorem rtab_getD_ge_one (i : Nat) : 1 ≤ rtab.getD (min i 6) 60 := by
  have : min i 6 ≤ 6 := Nat.min_le_right _ _
  match h : min i 6, this with
  | 0, _ | 1, _ | 2, _ | 3, _ | 4, _ | 5, _ | 6, _ => decide

/-- two consecutive attempts with no client enqueue in between (which is the only thing that resets
    `retry_count`) are at least one second apart -/
theorem C12_backoff_step (d : Dev) (t1 t2 : Time)
    (h2 : timeToReconnect (connect d t1) t2 = true) : t1 + sec ≤ t2 := by
  unfold timeToReconnect connect at h2
  simp only [Nat.add_one_sub_one, gt_iff_lt, Nat.zero_lt_succ, if_true, decide_eq_true_eq] at h2
  have := rtab_getD_ge_one d.retryCount
  have hs : sec = 1000000 := rfl
  calc t1 + sec ≤ t1 + rtab.getD (min d.retryCount 6) 60 * sec := by
        apply Nat.add_le_add_left
        exact Nat.le_mul_of_pos_left sec this
    _ ≤ t2 := h2

/-! write side of a cbuf: whatever the sequence of short-write counts, the descriptor receives the
    queued bytes once and in order -/
def drain (q : List UInt8) : List Nat → List UInt8 × List UInt8     -- (delivered, still queued)
  | [] => ([], q)
  | k :: ks =>
    let r := drain (q.drop k) ks
    (q.take k ++ r.1, r.2)

theorem C09_write_side (q : List UInt8) (ks : List Nat) : (drain q ks).1 ++ (drain q ks).2 = q := by
  induction ks generalizing q with
  | nil => simp [drain]
  | cons k ks ih =>
    simp only [drain, List.append_assoc]
    rw [ih (q.drop k), List.take_append_drop]

end Pm.Backoff

