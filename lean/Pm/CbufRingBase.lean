import Pm.CbufRing
/-! Ground work for the refinement proof of the index-level cbuf model (`Pm/CbufRing.lean`): arithmetic modulo the
array length, ring slices (`rslice`), `blit`, the invariant as a proposition (`ValidP`), and `contents` as a slice. -/
namespace Pm.CbufRing

/-! ### arithmetic modulo a variable `N`: every index expression of `cbuf.c` is below `2 * N` -/

theorem mod2 (a N : Nat) (h : a < 2 * N) : (a < N ∧ a % N = a) ∨ (N ≤ a ∧ a % N = a - N) := by
  by_cases h1 : a < N
  · left; exact ⟨h1, Nat.mod_eq_of_lt h1⟩
  · right
    refine ⟨by omega, ?_⟩
    rw [Nat.mod_eq_sub_mod (by omega)]
    exact Nat.mod_eq_of_lt (by omega)

theorem mod_succ_mod (a N : Nat) : (a % N + 1) % N = (a + 1) % N := by
  rw [Nat.add_mod, Nat.mod_mod, ← Nat.add_mod]

theorem mod_add_mod' (a b N : Nat) : (a % N + b) % N = (a + b) % N := by
  rw [Nat.add_mod, Nat.mod_mod, ← Nat.add_mod]

/-! ### ring slices -/

/-- `n` bytes read off `data` from slot `i` on, modulo `N` -/
def rslice (data : List UInt8) (N i n : Nat) : List UInt8 :=
  (List.range n).map fun k => data.getD ((i + k) % N) 0

@[simp] theorem rslice_length (data : List UInt8) (N i n : Nat) : (rslice data N i n).length = n := by
  simp [rslice]

@[simp] theorem rslice_zero (data : List UInt8) (N i : Nat) : rslice data N i 0 = [] := by
  simp [rslice]

theorem getElem?_rslice (data : List UInt8) (N i n k : Nat) :
    (rslice data N i n)[k]? = if k < n then some (data.getD ((i + k) % N) 0) else none := by
  unfold rslice
  rw [List.getElem?_map]
  by_cases h : k < n
  · simp [h]
  · simp [h]

theorem rslice_succ (data : List UInt8) (N i n : Nat) :
    rslice data N i (n + 1) = rslice data N i n ++ [data.getD ((i + n) % N) 0] := by
  simp [rslice, List.range_succ]

theorem rslice_add (data : List UInt8) (N i a b : Nat) :
    rslice data N i (a + b) = rslice data N i a ++ rslice data N ((i + a) % N) b := by
  unfold rslice
  rw [List.range_add, List.map_append, List.map_map]
  congr 1
  apply List.map_congr_left
  intro k _
  simp only [Function.comp]
  rw [mod_add_mod', Nat.add_assoc]

theorem rslice_take (data : List UInt8) (N i n m : Nat) :
    (rslice data N i n).take m = rslice data N i (min m n) := by
  unfold rslice
  rw [← List.map_take, List.take_range]

theorem rslice_drop (data : List UInt8) (N i n m : Nat) :
    (rslice data N i n).drop m = rslice data N ((i + m) % N) (n - m) := by
  by_cases h : m ≤ n
  · have : n = m + (n - m) := by omega
    conv => lhs; rw [this, rslice_add]
    exact List.drop_left' (by simp)
  · have h1 : n - m = 0 := by omega
    rw [h1, rslice_zero]
    apply List.drop_eq_nil_of_le
    simp; omega

theorem rslice_congr (data data' : List UInt8) (N N' i i' n : Nat)
    (h : ∀ k, k < n → data.getD ((i + k) % N) 0 = data'.getD ((i' + k) % N') 0) :
    rslice data N i n = rslice data' N' i' n := by
  unfold rslice
  apply List.map_congr_left
  intro k hk
  exact h k (by simpa using hk)

/-- a slice that does not reach the end of the array is a plain sub-list -/
theorem rslice_contig (data : List UInt8) (N i n : Nat) (h : i + n ≤ N) (hl : N ≤ data.length) :
    rslice data N i n = (data.drop i).take n := by
  apply List.ext_getElem?
  intro k
  rw [getElem?_rslice, List.getElem?_take, List.getElem?_drop]
  by_cases hk : k < n
  · simp only [hk, ↓reduceIte]
    rw [Nat.mod_eq_of_lt (by omega), List.getD_eq_getElem?_getD, List.getElem?_eq_getElem (by omega)]
    simp
  · simp [hk]

/-- the rotated array, cut to `n` bytes, is the slice from `i` -/
theorem rot_take_eq_rslice (data : List UInt8) (N i n : Nat) (hl : data.length = N) (hi : i < N) (hn : n ≤ N) :
    (data.drop i ++ data.take i).take n = rslice data N i n := by
  apply List.ext_getElem?
  intro k
  rw [getElem?_rslice, List.getElem?_take]
  by_cases hk : k < n
  · simp only [hk, ↓reduceIte]
    rw [List.getElem?_append, List.length_drop, List.getElem?_drop, List.getElem?_take]
    have h2 := mod2 (i + k) N (by omega)
    by_cases hw : k < data.length - i
    · simp only [hw, ↓reduceIte]
      rw [List.getD_eq_getElem?_getD]
      have : (i + k) % N = i + k := by omega
      rw [this, List.getElem?_eq_getElem (by omega)]; simp
    · simp only [hw, ↓reduceIte]
      have h3 : k - (data.length - i) < i := by omega
      simp only [h3, ↓reduceIte]
      rw [List.getD_eq_getElem?_getD]
      have : (i + k) % N = k - (data.length - i) := by omega
      rw [this, List.getElem?_eq_getElem (by omega)]; simp
  · simp [hk]

/-! ### `blit` -/

@[simp] theorem blit_length (data : List UInt8) (i : Nat) (bs : List UInt8) (h : i + bs.length ≤ data.length) :
    (blit data i bs).length = data.length := by
  simp [blit]; omega

theorem blit_nil (data : List UInt8) (i : Nat) : blit data i [] = data := by
  simp [blit]

theorem getElem?_blit (data : List UInt8) (i : Nat) (bs : List UInt8) (h : i + bs.length ≤ data.length) (j : Nat) :
    (blit data i bs)[j]? = if i ≤ j ∧ j < i + bs.length then bs[j - i]? else data[j]? := by
  unfold blit
  rw [List.append_assoc, List.getElem?_append, List.length_take, List.getElem?_take, List.getElem?_append,
    List.getElem?_drop]
  have hm : min i data.length = i := by omega
  rw [hm]
  by_cases h1 : j < i
  · have : ¬ (i ≤ j ∧ j < i + bs.length) := by omega
    simp [h1, this]
  · by_cases h2 : j < i + bs.length
    · have h3 : j - i < bs.length := by omega
      have : i ≤ j ∧ j < i + bs.length := by omega
      simp [h1, h3, this]
    · have h3 : ¬ (j - i < bs.length) := by omega
      have : ¬ (i ≤ j ∧ j < i + bs.length) := by omega
      simp only [h1, h3, this, ↓reduceIte]
      congr 1; omega

theorem getD_blit (data : List UInt8) (i : Nat) (bs : List UInt8) (h : i + bs.length ≤ data.length) (j : Nat) :
    (blit data i bs).getD j 0 = if i ≤ j ∧ j < i + bs.length then bs.getD (j - i) 0 else data.getD j 0 := by
  simp only [List.getD_eq_getElem?_getD, getElem?_blit data i bs h j]
  split <;> rfl

/-- byte-wise writes from slot `i` on, modulo `N` -/
def pokes (data : List UInt8) (N i : Nat) : List UInt8 → List UInt8
  | [] => data
  | b :: bs => pokes (data.set i b) N ((i + 1) % N) bs

@[simp] theorem pokes_length (data : List UInt8) (N i : Nat) (bs : List UInt8) : (pokes data N i bs).length = data.length := by
  induction bs generalizing data i with
  | nil => rfl
  | cons b bs ih => simp [pokes, ih]

theorem pokes_append (data : List UInt8) (N i : Nat) (a b : List UInt8) (hi : i < N) :
    pokes data N i (a ++ b) = pokes (pokes data N i a) N ((i + a.length) % N) b := by
  induction a generalizing data i with
  | nil => simp [pokes, Nat.mod_eq_of_lt hi]
  | cons x a ih =>
    simp only [List.cons_append, pokes, List.length_cons]
    rw [ih _ _ (Nat.mod_lt _ (by omega)), mod_add_mod']
    congr 2; omega

/-- a copy that stays inside the array is the byte-wise write -/
theorem blit_eq_pokes (data : List UInt8) (N i : Nat) (bs : List UInt8) (h : i + bs.length ≤ N) (hl : data.length = N) :
    blit data i bs = pokes data N i bs := by
  induction bs generalizing data i with
  | nil => simp [pokes, blit_nil]
  | cons b bs ih =>
    simp only [pokes, List.length_cons] at h ⊢
    by_cases hb : bs = []
    · subst hb
      simp only [pokes, blit, List.length_cons, List.length_nil]
      rw [List.set_eq_take_append_cons_drop]
      have : i < data.length := by omega
      simp [this]
    · have hbl : 0 < bs.length := List.length_pos_iff.mpr hb
      have hm : (i + 1) % N = i + 1 := Nat.mod_eq_of_lt (by omega)
      rw [hm, ← ih (data.set i b) (i + 1) (by omega) (by simp [hl])]
      apply List.ext_getElem?
      intro j
      rw [getElem?_blit _ _ _ (by simp; omega), getElem?_blit _ _ _ (by simp; omega), List.getElem?_set]
      simp only [List.length_cons]
      by_cases h1 : j = i
      · subst h1
        have : j < data.length := by omega
        have h5 : ¬ (j + 1 ≤ j) := by omega
        simp [this, h5]
      · by_cases h2 : i + 1 ≤ j ∧ j < i + 1 + bs.length
        · have h3 : i ≤ j ∧ j < i + (bs.length + 1) := by omega
          simp only [h2, h3, and_self, ↓reduceIte]
          have : j - i = (j - (i + 1)) + 1 := by omega
          rw [this, List.getElem?_cons_succ]
        · have h3 : ¬ (i ≤ j ∧ j < i + (bs.length + 1)) := by omega
          have h4 : ¬ (i = j) := by omega
          simp [h2, h3, h4]

/-! ### the invariant -/

/-- `cbuf_is_valid` as a proposition -/
structure ValidP (r : Ring) : Prop where
  len : r.data.length = r.size + 1
  alloc : r.alloc = r.size + 1 + 2 * magicLen
  size_pos : 0 < r.size
  min_le : r.minsize ≤ r.size
  le_max : r.size ≤ r.maxsize
  min_pos : 0 < r.minsize
  used_le : r.used ≤ r.size
  wrap : r.got_wrap = true ∨ r.i_rep = 0
  in_le : r.i_in ≤ r.size
  out_le : r.i_out ≤ r.size
  rep_le : r.i_rep ≤ r.size
  rep1 : r.i_out ≤ r.i_in → (r.i_rep > r.i_in ∨ r.i_rep ≤ r.i_out)
  rep2 : r.i_in < r.i_out → (r.i_rep > r.i_in ∧ r.i_rep ≤ r.i_out)
  nfree : r.size - r.used = (r.i_out + (r.size + 1) - r.i_in - 1) % (r.size + 1)

theorem valid_iff (r : Ring) : r.valid = true ↔ ValidP r := by
  unfold Ring.valid
  constructor
  · intro h
    simp only [Bool.and_eq_true, beq_iff_eq, decide_eq_true_eq, Bool.or_eq_true] at h
    obtain ⟨⟨⟨⟨⟨⟨⟨⟨⟨⟨⟨⟨⟨⟨⟨h1, h2⟩, _⟩, _⟩, h5⟩, h6⟩, h7⟩, h8⟩, _⟩, h10⟩, h11⟩, h12⟩, h13⟩, h14⟩, h15⟩, h16⟩ := h
    refine ⟨h1, h2, h5, h6, h7, h8, h10, h11, h12, h13, h14, ?_, ?_, h16⟩
    · intro hh
      have : r.i_in ≥ r.i_out := hh
      simpa [this] using h15
    · intro hh
      have : ¬ (r.i_in ≥ r.i_out) := by omega
      simpa [this] using h15
  · intro h
    have ⟨h1, h2, h5, h6, h7, h8, h10, h11, h12, h13, h14, h15a, h15b, h16⟩ := h
    simp only [Bool.and_eq_true, beq_iff_eq, decide_eq_true_eq, Bool.or_eq_true]
    have hm : magicLen = 8 := rfl
    refine ⟨⟨⟨⟨⟨⟨⟨⟨⟨⟨⟨⟨⟨⟨⟨h1, h2⟩, by omega⟩, by omega⟩, h5⟩, h6⟩, h7⟩, h8⟩, by omega⟩, h10⟩, h11⟩, h12⟩, h13⟩, h14⟩, ?_⟩, h16⟩
    by_cases hh : r.i_in ≥ r.i_out
    · simpa [hh] using h15a hh
    · simpa [hh] using h15b (by omega)

/-- the assertion on `nfree` in linear form: `used` is the distance from `i_out` to `i_in` -/
theorem ValidP.used_cases {r : Ring} (h : ValidP r) :
    (r.i_out ≤ r.i_in ∧ r.used + r.i_out = r.i_in) ∨ (r.i_in < r.i_out ∧ r.used + r.i_out = r.i_in + (r.size + 1)) := by
  have h1 := h.nfree
  have h2 := mod2 (r.i_out + (r.size + 1) - r.i_in - 1) (r.size + 1) (by have := h.in_le; have := h.out_le; omega)
  have := h.in_le; have := h.out_le; have := h.used_le
  omega

theorem ValidP.in_eq {r : Ring} (h : ValidP r) : r.i_in = (r.i_out + r.used) % (r.size + 1) := by
  have h1 := h.used_cases
  have h2 := mod2 (r.i_out + r.used) (r.size + 1) (by have := h.out_le; have := h.used_le; omega)
  have := h.in_le
  omega

/-- the unread bytes are the slice of `used` bytes from `i_out` -/
theorem ValidP.contents_eq {r : Ring} (h : ValidP r) : r.contents = rslice r.data (r.size + 1) r.i_out r.used := by
  unfold Ring.contents
  have h1 := h.used_cases
  have h2 := mod2 (r.i_in + (r.size + 1) - r.i_out) (r.size + 1) (by have := h.in_le; have := h.out_le; omega)
  have := h.in_le; have := h.out_le; have := h.used_le
  have h3 : (r.i_in + (r.size + 1) - r.i_out) % (r.size + 1) = r.used := by omega
  rw [h3]
  exact rot_take_eq_rslice r.data (r.size + 1) r.i_out r.used h.len (by omega) (by omega)

theorem ValidP.contents_length {r : Ring} (h : ValidP r) : r.contents.length = r.used := by
  rw [h.contents_eq]; simp

end Pm.CbufRing
