import Pm.FrameProof
/-! Helper lemmas for C05: a pass that brings nothing for a connected device stalled in an `expect` leaves it alone. -/
namespace Pm.Dev2

/-- connected, head action stamped and within its deadline, waiting in an `expect` with an empty input buffer and a
    recycled match record (the state an earlier stalled pass left), no scripted delay pending, no ping due -/
structure Stalled (d : Dev) (now : Time) : Prop where
  conn : d.conn = 2
  acts : ∃ a rest pat t0, d.acts = a :: rest ∧ a.timeStamp = some t0 ∧ now < t0 + d.timeout ∧
    (topCtx a).block[(topCtx a).pos]? = some (.expect pat)
  buf : d.fromBuf = []
  xm : d.xmStr = none ∧ d.xmResult = false ∧ d.xmUsed = false
  wake : d.wake = none
  ping : (d.conn == 2 && (d.scripts 6).isSome && d.pingPeriod > 0) = false ∨ ∃ t, d.lastPing = some t ∧ now < t + d.pingPeriod

theorem passFuel_pos (d : Dev) : ∃ n, passFuel d = n + 1 := by
  have : ∀ (l : List Action) (k : Nat), 1 ≤ k →
      1 ≤ l.foldl (fun n a => n + 2 * (weights d.plugs.length ((d.scripts a.com).getD []) + 2)) k := by
    intro l
    induction l with
    | nil => intro k hk; exact hk
    | cons a r ih => intro k hk; exact ih _ (Nat.le_trans hk (Nat.le_add_right _ _))
  have h := this d.acts 2 (by omega)
  exact ⟨passFuel d - 1, by unfold passFuel; omega⟩

theorem ppReady_quiet (d : Dev) (env : Env) (hev : d.fd.isSome = true → env.revents = 0) :
    ppReady d env = ({ dev := d, env := env, sys := [] }, false) := by
  unfold ppReady
  dsimp only
  have : (if d.fd.isSome = true then env.revents else 0) = 0 := by
    split
    · rename_i h; exact hev h
    · rfl
  rw [this]
  rfl

theorem ppReconnect_quiet (c : CS) (h : c.dev.conn = 2) : ppReconnect c false = (c, none) := by
  unfold ppReconnect
  simp [h]

theorem ppPing_quiet (c : CS) (now : Time) (h : (c.dev.conn == 2 && (c.dev.scripts 6).isSome && c.dev.pingPeriod > 0) = false ∨
    ∃ t, c.dev.lastPing = some t ∧ now < t + c.dev.pingPeriod) : ∃ tmo, ppPing c now none = (c, tmo) := by
  unfold ppPing
  rcases h with h | ⟨t, h1, h2⟩
  · rw [h]; exact ⟨none, rfl⟩
  · split
    · rw [h1]
      dsimp only
      have : ¬ now ≥ t + c.dev.pingPeriod := by unfold Time at *; omega
      simp only [this, ↓reduceIte]
      exact ⟨_, rfl⟩
    · exact ⟨none, rfl⟩

theorem stmtExpect_stalled (d : Dev) (a : Action) (o : Oracle) (pat : Nat) (hb : d.fromBuf = [])
    (hx : d.xmStr = none ∧ d.xmResult = false ∧ d.xmUsed = false) :
    stmtExpect d a o pat = ⟨d, a, o, [], false⟩ := by
  unfold stmtExpect
  simp only [hb, List.isEmpty_nil, ↓reduceIte]
  obtain ⟨h1, h2, h3⟩ := hx
  obtain ⟨f1, f2, f3, f4, f5, f6, f7, f8, f9, f10, f11, f12, f13, f14, f15, f16, f17, f18, f19, f20, f21, f22, f23, f24, f25, f26, f27, f28, f29⟩ := d
  simp only at hb h1 h2 h3
  subst hb h1 h2 h3
  rfl

theorem innerLoop_stalled (now : Time) (n : Nat) (d : Dev) (a : Action) (o : Oracle) (pat : Nat)
    (hs : (topCtx a).block[(topCtx a).pos]? = some (.expect pat)) (hb : d.fromBuf = [])
    (hx : d.xmStr = none ∧ d.xmResult = false ∧ d.xmUsed = false) :
    innerLoop now (n + 1) d a o [] = ⟨d, a, o, [], false⟩ := by
  have hp : processStmt d a o now = ⟨d, a, o, [], false⟩ := by
    unfold processStmt
    simp only [hs]
    exact stmtExpect_stalled d a o pat hb hx
  rw [innerLoop_succ, hp]
  unfold innerStep
  simp

theorem processAction_stutter (c : CS) (o : Oracle) (tmo : Option Time) (hab : c.aborted = false)
    (h : Stalled c.dev c.env.now) : ∃ t, processAction c o [] tmo = (c, o, [], some t) := by
  obtain ⟨n, hn⟩ := passFuel_pos c.dev
  obtain ⟨a, rest, pat, t0, hacts, hts, hdl, hst⟩ := h.acts
  unfold processAction
  rw [hn]
  unfold processActionF processActionBody
  simp only [hab, Bool.false_eq_true, ↓reduceIte]
  rw [hacts]
  dsimp only
  have hstamp : stamp c.env.now a = a := by unfold stamp; simp [hts]
  rw [hstamp, hts]
  have hnd : ¬ c.env.now ≥ (some t0).getD c.env.now + c.dev.timeout := by
    simp only [Option.getD_some]; unfold Time at *; omega
  simp only [hnd, ↓reduceIte, h.conn, bne_self_eq_false, Bool.false_eq_true]
  rw [onRun_eq]
  have hil := innerLoop_stalled c.env.now (depthB (topCtx a).block) { c.dev with wake := none } a o pat hst h.buf h.xm
  rw [show loopBound a = depthB (topCtx a).block + 1 from rfl, hil]
  unfold onRunTail
  simp only [hasAbort, List.any_nil, Bool.false_eq_true, ↓reduceIte, Bool.not_false, List.append_nil]
  have hu : ∀ (x : Option Time) (l : Time), ∃ t, upd x l = some t := by
    intro x l; cases x <;> exact ⟨_, rfl⟩
  obtain ⟨t, ht⟩ := hu tmo (t0 + c.dev.timeout - c.env.now)
  refine ⟨t, ?_⟩
  rw [← ht]
  obtain ⟨dev, env, sys, ab⟩ := c
  obtain ⟨f1, f2, f3, f4, f5, f6, f7, f8, f9, f10, f11, f12, f13, f14, f15, f16, f17, f18, f19, f20, f21, f22, f23, f24, f25, f26, f27, f28, f29⟩ := dev
  have hw := h.wake
  simp only at hacts hw
  subst hacts hw
  rfl

/-- **stutter**: no event on the device's descriptor, and the device connected and stalled in an `expect` inside its
    deadline: `dev_post_poll` leaves the device exactly as it is, makes no system call, asks the oracle nothing, fires no
    callback — and registers a wake-up time -/
theorem postPoll_stutter (d : Dev) (env : Env) (o : Oracle) (h : Stalled d env.now) (hev : d.fd.isSome = true → env.revents = 0) :
    ∃ t, postPoll d env o = ({ dev := d, env := env, sys := [] }, o, [], some t) := by
  rw [postPoll_eq]
  unfold postPoll'
  rw [ppReady_quiet d env hev]
  dsimp only
  rw [ppReconnect_quiet _ h.conn]
  obtain ⟨tmo, hp⟩ := ppPing_quiet { dev := d, env := env, sys := [] } env.now h.ping
  simp only [Bool.false_eq_true, ↓reduceIte]
  rw [hp]
  exact processAction_stutter { dev := d, env := env, sys := [] } o tmo rfl h


end Pm.Dev2

namespace Pm.Daemon
open Pm Pm.Client
open Pm.Dev2 (Oracle CS Env Dev Action Stalled)

/-- no event for the device's descriptor in this pass -/
def NoEvent (p : PassIn) (d : Dev) : Prop :=
  ∀ fd, d.fd = some fd → ∀ e, p.envs.find? (fun x => x.fd == fd) = some e → e.rev = 0

theorem devEnv_noEvent (p : PassIn) (w : W) (nd : Bytes × Dev) (h : NoEvent p nd.2) :
    (devEnv p w nd).now = p.now ∧ (devEnv p w nd).revents = 0 := by
  unfold devEnv
  dsimp only
  have hz : (mkDevEnv w { nd.2 with args := w.store } p.now p.con p.soe p.envs).revents = 0 := by
    unfold mkDevEnv
    dsimp only
    cases hfd : nd.2.fd with
    | none => rfl
    | some fd =>
      dsimp only
      cases he : p.envs.find? (fun x => x.fd == fd) with
      | none => rfl
      | some e => exact h fd hfd e he
  split
  · exact ⟨rfl, by dsimp only; rw [hz]; simp⟩
  · exact ⟨rfl, rfl⟩

theorem showSys_nil (dfd : Nat) : showSys [] [] dfd = [] := by
  simp [showSys]

/-- **stutter at pass level**: device `nd` gets no event and is stalled in an `expect` inside its deadline: its share of
    the pass changes nothing at all — the world, the messages, the oracle are as before, and the entry it leaves is
    itself (with the current store plugged in) -/
theorem devPass_stutter (p : PassIn) (a : DevAcc) (nd : Bytes × Dev) (hd : a.dead = false)
    (h : Stalled nd.2 p.now) (hev : NoEvent p nd.2) :
    ∃ t, devPass p a nd = { a with devs := a.devs ++ [(nd.1, { nd.2 with args := a.w.store })], tmo := minOpt a.tmo (some t) } := by
  obtain ⟨hnow, hrev⟩ := devEnv_noEvent p a.w nd hev
  have hs : Stalled { nd.2 with args := a.w.store } (devEnv p a.w nd).now := by
    rw [hnow]
    exact ⟨h.conn, h.acts, h.buf, h.xm, h.wake, h.ping⟩
  obtain ⟨t, ht⟩ := Pm.Dev2.postPoll_stutter { nd.2 with args := a.w.store } (devEnv p a.w nd) a.oracle hs (fun _ => hrev)
  refine ⟨t, ?_⟩
  rw [devPass_eq]
  unfold devPass'
  simp only [hd, Bool.false_eq_true, ↓reduceIte]
  unfold devStep
  rw [ht]
  dsimp only
  obtain ⟨w, yl, ms, tm, orc, dv, dd⟩ := a
  simp only [applyOuts, List.foldl_nil, afterStep, countSock, countPair, countFork, List.filter_nil, List.length_nil,
    Nat.add_zero, showSys_nil, List.append_nil, isAbortMsg, List.any_nil, Bool.or_false]


end Pm.Daemon
