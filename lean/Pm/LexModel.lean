/-! # Model of the configuration reader's hand-written logic (C18)

Mirror of the parts of `src/powerman/parse_lex.l` and `src/powerman/parse_tab.y` that are *logic written by hand*:

* §1 the `<lex_str>` rules (string literals) with the guarded `_string_buf_add` and the 8192-byte `string_buf`;
* §2 the include stack (`include_stack_ptr`, `MAX_INCLUDE_DEPTH`, the `<<EOF>>` rule) and a scanner over a tree of files;
* §3 `_strtolong`, `_strtodouble`, `_doubletotv` (acceptance and definedness; glibc `strtol(…, 0)` on arbitrary bytes, `strtod`
     on the three numeric token classes the lexer can produce);
* §4 the acceptance conditions of the grammar actions on mandatory elements (`makeSpec`: login script; `makeScript`: no
     duplicate; `makeDevice`: specification exists; `makeNode`: device exists).

It is compared with the real code (flex/bison output regenerated from the working tree, `harness/u_lexdump.c`) by
`lib/lexlayer.py` through the driver `LxMain.lean` on every run.

NOT modelled, and therefore not proved anywhere (observed only, under ASan/UBSan, by the same layer): the flex automaton and
its buffer management (`yy_get_next_buffer`, `yyrealloc`), the bison automaton and its stacks, `malloc`/`xstrdup`, `regcomp`,
`getaddrinfo`, the hostlist library (its own layer), and the *lifetime* of the pointer `yylval = yytext` the lexer hands to the
grammar for numeric tokens (§3 takes the token text as a NUL-terminated string, which is what flex guarantees at the moment the
rule's action runs, not later). -/
namespace Pm.LexModel

/-! ## 1. string literals -/

/-- `sizeof(string_buf)` -/
def STRING_BUF : Nat := 8192

/-- outcome of `_string_buf_add(c)` on a buffer holding `buf.size` bytes (`string_buf_ptr - string_buf = buf.size`) -/
inductive Add where
  | cont (buf : Array UInt8)     -- `*string_buf_ptr++ = c`
  | exitTooLong                  -- `err_exit(false, "string too long: …")`
  | overrun                      -- a store outside `string_buf` (undefined behaviour) — what the guard is there to exclude

/-- `_string_buf_add`: the guard, then the store.  The store is modelled with its own bounds check so that an overrun would
    be a visible outcome rather than an impossibility by construction. -/
def stringBufAdd (buf : Array UInt8) (c : UInt8) : Add :=
  if buf.size ≥ STRING_BUF - 1 then .exitTooLong
  else if buf.size < STRING_BUF then .cont (buf.push c)
  else .overrun

/-- result of scanning in start condition `lex_str` -/
inductive Raw where
  | tok (buf : Array UInt8) (rest : List UInt8)   -- closing quote: the buffer as filled, and the input after the quote
  | errNewline                                    -- rule `"\n" { yyerror(); }`  → `parse error: file::line`, exit 1
  | tooLong                                       -- `_string_buf_add` refused    → `string too long: file::line`, exit 1
  | eof                                           -- end of input inside the literal → yyterminate → `parse error`, exit 1
  | overrun                                       -- a store outside `string_buf`
deriving Inhabited

def isDigit (c : UInt8) : Bool := 0x30 ≤ c && c ≤ 0x39
def isOct (c : UInt8) : Bool := 0x30 ≤ c && c ≤ 0x37

/-- `strtol(p, NULL, 8)` on a run of decimal digits: the value of the longest prefix made of octal digits -/
def strtol8 : List UInt8 → Nat → Nat
  | [], acc => acc
  | d :: ds, acc => if isOct d then strtol8 ds (acc * 8 + (d.toNat - 0x30)) else acc

/-- rule `\\[0-9][0-9][0-9]`: `_string_buf_add(strtol(&yytext[1], NULL, 8))`; the `char` parameter keeps the low 8 bits -/
def octByte (d1 d2 d3 : UInt8) : UInt8 := UInt8.ofNat (strtol8 [d1, d2, d3] 0)

/-- rules `"\\a"` … `"\\v"` and, for every other byte, rule `\\(.|\n)`: `_string_buf_add(yytext[1])` -/
def escValue (c : UInt8) : UInt8 :=
  if c = 0x61 then 0x07        -- \a
  else if c = 0x62 then 0x08   -- \b
  else if c = 0x65 then 0x1b   -- \e
  else if c = 0x66 then 0x0c   -- \f
  else if c = 0x6e then 0x0a   -- \n
  else if c = 0x72 then 0x0d   -- \r
  else if c = 0x74 then 0x09   -- \t
  else if c = 0x76 then 0x0b   -- \v
  else c

/-- the token flex matches at a backslash, given the input after it (longest match, then first rule): the byte it stores and
    the number of input bytes after the backslash that belong to the token; `none`: the backslash is the last byte of the
    input (no rule of `lex_str` matches; flex's default rule echoes it and the scanner reaches end of input) -/
def escTok : List UInt8 → Option (UInt8 × Nat)
  | [] => none
  | d1 :: d2 :: d3 :: _ => if isDigit d1 && isDigit d2 && isDigit d3 then some (octByte d1 d2 d3, 3) else some (escValue d1, 1)
  | d1 :: _ => some (escValue d1, 1)

/-- closing quote: `*string_buf_ptr = '\0'` (a store at index `buf.size`), `xstrdup`, `return TOK_STRING_VAL` -/
def closeQuote (buf : Array UInt8) (rest : List UInt8) : Raw :=
  if buf.size < STRING_BUF then .tok buf rest else .overrun

/-- The scanner in start condition `lex_str`, one input byte per step.
    `pend`  = bytes of the current escape token still to be passed over (flex matched them together with the backslash);
    `skip`  = inside a run `[^\\\n\"]+` after a NUL byte: the action's loop `while (*yptr) _string_buf_add(*yptr++)` stopped at
              the NUL, so the remaining bytes of *this* run are dropped. -/
def go : List UInt8 → Nat → Bool → Array UInt8 → Raw
  | [], _, _, _ => .eof
  | _ :: rest, pend + 1, skip, buf => go rest pend skip buf
  | c :: rest, 0, skip, buf =>
    if c = 0x22 then closeQuote buf rest
    else if c = 0x0a then .errNewline
    else if c = 0x5c then
      match escTok rest with
      | none => .eof
      | some (v, n) =>
        match stringBufAdd buf v with
        | .cont b => go rest n false b
        | .exitTooLong => .tooLong
        | .overrun => .overrun
    else if skip then go rest 0 true buf
    else if c = 0 then go rest 0 true buf
    else
      match stringBufAdd buf c with
      | .cont b => go rest 0 false b
      | .exitTooLong => .tooLong
      | .overrun => .overrun

/-- the input after the opening quote → the raw outcome -/
def lexRaw (s : List UInt8) : Raw := go s 0 false #[]

/-- what `xstrdup(string_buf)` keeps: the bytes before the first NUL -/
def cstr (buf : Array UInt8) : List UInt8 := buf.toList.takeWhile (· != 0)

inductive Res where
  | ok (stored : List UInt8)
  | errNewline
  | tooLong
  | unterminated
  | overrun
deriving DecidableEq, Repr

def Res.ofRaw : Raw → Res
  | .tok buf _ => .ok (cstr buf)
  | .errNewline => .errNewline
  | .tooLong => .tooLong
  | .eof => .unterminated
  | .overrun => .overrun

/-- the bytes after the opening quote → the value of the `TOK_STRING_VAL` token, or the way the process ends -/
def lexString (s : List UInt8) : Res := Res.ofRaw (lexRaw s)

/-- number of input bytes up to and including the closing quote (0 when there is none) -/
def consumed (s : List UInt8) : Nat :=
  match lexRaw s with
  | .tok _ rest => s.length - rest.length
  | _ => 0

/-- what the process does in each case, as the outside world sees it -/
inductive Outcome where
  | token                    -- the lexer returns TOK_STRING_VAL to the grammar
  | exitDiag (msg : String)  -- a line on stderr, then exit(1)
  | undefined                -- memory-safety error
deriving DecidableEq, Repr

def Res.outcome : Res → Outcome
  | .ok _ => .token
  | .errNewline => .exitDiag "parse error"
  | .tooLong => .exitDiag "string too long"
  | .unterminated => .exitDiag "parse error"
  | .overrun => .undefined

/-! ## 2. include stack -/

def MAX_INCLUDE_DEPTH : Nat := 10

inductive IncEv where
  | incl    -- rule `<lex_incl>[^ \t\n]+`
  | eof     -- rule `<<EOF>>`
deriving DecidableEq, Repr

inductive IncRes where
  | cont (ptr : Nat)   -- new `include_stack_ptr`
  | tooDeep            -- `err_exit(false, "Includes nested too deeply")`
  | done               -- `yyterminate()`
  | oob                -- an index outside `include_stack[]` / `linenum[]` / `filename[]`
deriving DecidableEq, Repr

/-- one event at `include_stack_ptr = ptr`.  An include stores at `include_stack[ptr]`, `linenum[ptr+1]`, `filename[ptr+1]`;
    an end of file reads `include_stack[ptr-1]`.  All three arrays have `MAX_INCLUDE_DEPTH` elements. -/
def includeStep (ptr : Nat) : IncEv → IncRes
  | .incl =>
    if ptr ≥ MAX_INCLUDE_DEPTH - 1 then .tooDeep
    else if ptr < MAX_INCLUDE_DEPTH ∧ ptr + 1 < MAX_INCLUDE_DEPTH then .cont (ptr + 1)
    else .oob
  | .eof =>
    if ptr = 0 then .done
    else if ptr - 1 < MAX_INCLUDE_DEPTH then .cont (ptr - 1)
    else .oob

/-- a sequence of events; stops at the first that ends the scan -/
def runInc : Nat → List IncEv → IncRes
  | ptr, [] => .cont ptr
  | ptr, e :: es =>
    match includeStep ptr e with
    | .cont p => runInc p es
    | r => r

/-- content of a configuration file as far as the include mechanism is concerned -/
inductive Item where
  | tok (id : Nat)       -- any token other than an include directive
  | incl (file : Nat)    -- `include "file"`
deriving DecidableEq, Repr

inductive File where
  | missing                   -- `fopen` fails → `err_exit(true, "%s", name)`
  | dir                       -- `fopen` succeeds, `fread` fails → flex: "input in flex scanner failed", exit 2
  | reg (items : List Item)
deriving Repr

inductive ScanRes where
  | ok (toks : List Nat)           -- end of the outermost file
  | tooDeep (toks : List Nat)
  | missing (toks : List Nat)
  | readError (toks : List Nat)
deriving DecidableEq, Repr

/-- scan the items of one file; `sub f acc` scans included file `f` one level deeper -/
def scanItems (sub : Nat → List Nat → ScanRes) : List Item → List Nat → ScanRes
  | [], acc => .ok acc
  | .tok t :: r, acc => scanItems sub r (acc ++ [t])
  | .incl f :: r, acc =>
    match sub f acc with
    | .ok acc' => scanItems sub r acc'
    | e => e

/-- scan with `k` more include levels available (`k = MAX_INCLUDE_DEPTH - 1 - include_stack_ptr`); the depth test precedes
    the `fopen`, as in the lexer -/
def scanAt (fs : Nat → File) : Nat → List Item → List Nat → ScanRes
  | 0 => scanItems (fun _ acc => .tooDeep acc)
  | k + 1 => scanItems (fun f acc =>
      match fs f with
      | .missing => .missing acc
      | .dir => .readError acc
      | .reg items => scanAt fs k items acc)

/-- the whole configuration: file 0 at `include_stack_ptr = 0` -/
def scanConfig (fs : Nat → File) : ScanRes :=
  match fs 0 with
  | .reg items => scanAt fs (MAX_INCLUDE_DEPTH - 1) items []
  | .missing => .missing []
  | .dir => .readError []

/-! ## 3. numeric conversions -/

def isSpace (c : UInt8) : Bool := c = 0x20 || (0x09 ≤ c && c ≤ 0x0d)

/-- value of a byte as a digit (bases up to 16) -/
def digitVal (c : UInt8) : Option Nat :=
  if 0x30 ≤ c && c ≤ 0x39 then some (c.toNat - 0x30)
  else if 0x61 ≤ c && c ≤ 0x66 then some (c.toNat - 0x61 + 10)
  else if 0x41 ≤ c && c ≤ 0x46 then some (c.toNat - 0x41 + 10)
  else none

/-- the longest prefix of digits of `base`: (value, number of digits) -/
def digitsRun (base : Nat) : List UInt8 → Nat → Nat → Nat × Nat
  | [], acc, n => (acc, n)
  | c :: cs, acc, n =>
    match digitVal c with
    | some d => if d < base then digitsRun base cs (acc * base + d) (n + 1) else (acc, n)
    | none => (acc, n)

structure Strtol where
  value : Int        -- the exact value of the digits converted (before clamping to `long`)
  consumed : Nat     -- `endptr - str`; 0 = no conversion performed
deriving DecidableEq, Repr

def isHexPrefix : List UInt8 → Bool
  | 0x30 :: x :: h :: _ => (x = 0x78 || x = 0x58) && (digitVal h).isSome
  | _ => false

/-- glibc 2.36 `strtol(str, &endptr, 0)` on the bytes at `str` (the list stands for memory; parsing stops at the first byte
    that cannot continue the number, in particular at a NUL) -/
def strtol0 (mem : List UInt8) : Strtol :=
  let ws := (mem.takeWhile isSpace).length
  let m1 := mem.drop ws
  let neg := m1.head? = some 0x2d
  let sg := if m1.head? = some 0x2d || m1.head? = some 0x2b then 1 else 0
  let m2 := m1.drop sg
  let (v, n, pre) :=
    if isHexPrefix m2 then
      let r := digitsRun 16 (m2.drop 2) 0 0; (r.1, r.2, 2)
    else if m2.head? = some 0x30 then
      let r := digitsRun 8 m2 0 0; (r.1, r.2, 0)
    else
      let r := digitsRun 10 m2 0 0; (r.1, r.2, 0)
  if n = 0 then { value := 0, consumed := 0 }
  else { value := if neg then - (v : Int) else v, consumed := ws + sg + pre + n }

def LONG_MAX : Int := 9223372036854775807
def LONG_MIN : Int := -9223372036854775808

inductive LongRes where
  | val (v : Int)
  | errParse      -- `_errormsg("error parsing long integer value")`
  | errRange      -- `_errormsg("long integer value would cause under/overflow")`
deriving DecidableEq, Repr

/-- `_strtolong`.  (The C code tests `errno == ERANGE` without clearing `errno` first; the model assumes no stale `ERANGE`,
    which matters only for the two exact values `LONG_MAX`/`LONG_MIN`.) -/
def strtolong (mem : List UInt8) : LongRes :=
  let r := strtol0 mem
  if r.consumed = 0 then .errParse
  else if r.value > LONG_MAX || r.value < LONG_MIN then .errRange
  else .val r.value

/-- the lexer's rule `([0-9]+)|([0-9]+"."[0-9]*)|("."[0-9]+)` -/
def isNumTok (t : List UInt8) : Bool :=
  let a := t.takeWhile isDigit
  let r := t.drop a.length
  match r with
  | [] => !a.isEmpty
  | 0x2e :: f => f.all isDigit && (!a.isEmpty || !f.isEmpty)
  | _ => false

/-- value of a numeric token as `num / 10 ^ scale` -/
structure Dec where
  num : Nat
  scale : Nat
deriving DecidableEq, Repr

def decOfTok (t : List UInt8) : Dec :=
  let a := t.takeWhile isDigit
  let f := (t.drop (a.length + 1)).takeWhile isDigit
  { num := (digitsRun 10 (a ++ f) 0 0).1, scale := f.length }

inductive DoubleRes where
  | val (tvDefined : Bool)   -- accepted; `tvDefined`: the conversions of `_doubletotv` to `time_t` are defined (the double is < 2^63)
  | errRange                 -- `_strtodouble`: `_errormsg("double value would cause overflow")`
  | errTimeRange             -- `_doubletotv`:  `_errormsg("time value out of range")`
  | outsideClass             -- not a token the lexer can produce (not modelled)
deriving DecidableEq, Repr

/-- `_strtodouble` followed by `_doubletotv`, on a numeric token of decimal value `v = num / 10^scale`.  `strtod` is correctly
    rounded (round to nearest, ties to even):
    * the result is `HUGE_VAL` exactly when `v ≥ 2^1024 - 2^970` (half an ulp above `DBL_MAX`);
    * `val > (double)INT_MAX` exactly when `v > 2147483647 + 2^-23` (the spacing of doubles below `2^31` is `2^-22`, and the
      tie goes to `2147483647`, whose significand is even);
    * the nearest double is `≥ 2^63` exactly when `v ≥ 2^63 - 512`, and `(val * 10.0) / 10` does not cross `2^63` from below. -/
def strtodouble (t : List UInt8) : DoubleRes :=
  if !isNumTok t then .outsideClass
  else
    let d := decOfTok t
    if d.num ≥ (2 ^ 1024 - 2 ^ 970) * 10 ^ d.scale then .errRange
    else if d.num * 2 ^ 23 > (2147483647 * 2 ^ 23 + 1) * 10 ^ d.scale then .errTimeRange
    else .val (d.num < (2 ^ 63 - 512) * 10 ^ d.scale)

/-! ## 4. mandatory elements -/

def PM_LOG_IN : Nat := 0

inductive CfgItem where
  | spec (name : Nat) (scripts : List Nat)     -- `specification "name" { script … }` with these script kinds, in order
  | device (name : Nat) (spec : Nat)           -- `device "name" "spec" "cmd |&"`
  | node (name : Nat) (dev : Nat)              -- `node "name" "dev"`
deriving DecidableEq, Repr

inductive CfgErr where
  | dupScript         -- makeScript: "duplicate script"
  | noLogin           -- makeSpec:   "specification has no login script"
  | noSpec            -- makeDevice: "device specification not found"
  | noDevice          -- makeNode:   "unknown device"
  | dupNode           -- makeNode:   "duplicate node" (same device) / "duplicate node name" (another device)
  | emptySpec         -- grammar: `spec_item_list` is not empty → "parse error"
  | noNodes           -- parse_util.c:_validate_config: "no nodes are defined"
deriving DecidableEq, Repr

structure Cfg where
  specs : List (Nat × List Nat) := []      -- device_specs, in order of definition
  devs : List (Nat × List Nat) := []       -- devices: name and the script kinds instantiated from the first matching spec
  nodes : List Nat := []
deriving DecidableEq, Repr

def hasDup : List Nat → Bool
  | [] => false
  | x :: xs => xs.contains x || hasDup xs

def cfgStep (c : Cfg) : CfgItem → Except CfgErr Cfg
  | .spec name scripts =>
    if scripts.isEmpty then .error .emptySpec
    else if hasDup scripts then .error .dupScript
    else if !scripts.contains PM_LOG_IN then .error .noLogin
    else .ok { c with specs := c.specs ++ [(name, scripts)] }
  | .device name spec =>
    match c.specs.find? (·.1 == spec) with               -- findSpec: list_find_first
    | none => .error .noSpec
    | some s => .ok { c with devs := c.devs ++ [(name, s.2)] }
  | .node name dev =>
    match c.devs.find? (·.1 == dev) with                 -- dev_findbyname
    | none => .error .noDevice
    | some _ => if c.nodes.contains name then .error .dupNode else .ok { c with nodes := c.nodes ++ [name] }

def cfgRun (c : Cfg) : List CfgItem → Except CfgErr Cfg
  | [] => .ok c
  | i :: is =>
    match cfgStep c i with
    | .ok c' => cfgRun c' is
    | .error e => .error e

/-- the whole file: the items in order, then `_validate_config` (at least one node must be defined; the alias check is the
    hostlist layer's business) -/
def cfgAccept (items : List CfgItem) : Except CfgErr Cfg :=
  match cfgRun {} items with
  | .ok c => if c.nodes.isEmpty then .error .noNodes else .ok c
  | .error e => .error e

end Pm.LexModel
