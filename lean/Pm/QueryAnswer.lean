import Pm.QueryRun
/-! # From the accepted request to the reply: what a query's reply shows is what this command's own actions wrote

Composition of `Pm/QueryRun.lean` (the writes of a run; fresh arglist at acceptance; tracking), `Pm/QueryCell.lean` (the last
write decides) and `Pm/EndToEnd.lean` (the invariant; the pass that answers).  Used by `Props/C03`. -/
namespace Pm.Daemon.QRun
open Pm Pm.Client Pm.Daemon
open Pm.Daemon.Reply (cliOf withStore entriesOf freshArgs distinctOf ByteName)
open Pm.Daemon.Isolation (Iso IdsFresh ArgScope worldAt ids Keys)
open Pm.Daemon.E2E
open Pm.Dev2 (Dev Action ActErr Oracle cell RxCall Plug)
open Pm.Dev2.QEv

/-- **the history of an arglist**: the writes of the run to arglist `A`, oldest first -/
def hist (w : W) (qs : List PassX) (A : Nat) : List WEv := (runEvX w qs).filter fun ev => ev.al == A

/-- the command as the reply functions see it: `k`'s targets, the error flag `err`, and the arglist a fresh one for `k`'s
    targets becomes under the writes `H` -/
def replyCmd (k : CmdC) (err : Bool) (H : List WEv) : CmdC :=
  { k with error := err, args := (H.foldl applyEv (freshArgs (k.names.map ofChars))).map argC }

/-- the write belongs to client `g`'s command with arglist id `A` and was made in the turn of a device of `cfg` -/
def Mine (cfg : List (Bytes × List Plug)) (g A : Nat) (ev : WEv) : Prop :=
  ev.cid = g ∧ ev.al = A ∧ EvAt cfg (fun cid al => al = A → cid = g) ev

theorem evAt_cid {cfg : List (Bytes × List Plug)} {g A : Nat} {ev : WEv} (h : EvAt cfg (fun cid al => al = A → cid = g) ev)
    (hal : ev.al = A) : ev.cid = g := by
  obtain ⟨x, _, _, d, a, o, _, hs, hm⟩ := h
  obtain ⟨h1, h2, _⟩ := mem_stmtEv hm
  have h1' : ev.cid = a.clientId := h1
  have h2' : ev.al = a.arglist := h2
  rw [h1']; exact hs (by rw [← h2', hal])

theorem devPhase_alNext (w : W) (p : PassIn) : (daemonPass w p).1.alNext = (cliPostPoll w p.acc p.envs).alNext := by
  rw [daemonPass_fst]
  dsimp only
  split
  · rfl
  · have : ∀ (l : List (Bytes × Dev)) (a : DevAcc), (l.foldl (devPass p) a).w.alNext = a.w.alNext := by
      intro l; induction l with
      | nil => intro a; rfl
      | cons nd r ih => intro a; rw [List.foldl_cons, ih, (Isolation.devPass_ids_eq p a nd).2.2]
    exact this _ _

/-- what holds when the client phase of the accepting pass is over -/
theorem accept_facts (w : W) (p : PassIn) (g : Nat) (c1 : Cli) (k : CmdC) (hI : Inv w)
    (hidle0 : ∀ c k, cliRec w g = some c → c.cmd = some k → False)
    (hc1 : cliRec (cliPostPoll w p.acc p.envs) g = some c1) (hk : c1.cmd = some k) :
    storeArgs (cliPostPoll w p.acc p.envs) k.al = freshArgs (k.names.map ofChars) ∧ w.alNext ≤ k.al ∧ k.error = false ∧
    k.al ≠ 0 ∧ OwnQ g k.al (cliPostPoll w p.acc p.envs).devs ∧ k.al < (daemonPass w p).1.alNext := by
  obtain ⟨h1, h2⟩ := cliPostPoll_fresh_cells w p.acc p.envs g hI hidle0 c1 k hc1 hk
  have hI1 := cliPostPoll_inv w p.acc p.envs hI
  refine ⟨h1, h2, cliPostPoll_fresh w p.acc p.envs g hI hidle0 c1 k hc1 hk, Nat.ne_of_gt (hI1.2.alpos g c1 k hc1 hk),
    ownQ_of_cmd _ g c1 k hI1 hc1 hk, ?_⟩
  rw [devPhase_alNext]
  exact hI1.1.2.cmds g c1 k hc1 hk

/-- the writes of the accepting pass and of the passes behind it to arglist `A` all belong to `g`'s command -/
theorem hist_mine (w0 : W) (q0 : PassX) (qs : List PassX) (g A : Nat) (hA : A ≠ 0) (hinv : Inv w0) (ha : AliveX w0 (q0 :: qs))
    (hown : OwnQ g A (cliPostPoll (feed w0 q0.rx) q0.p.acc q0.p.envs).devs) (hlt : A < (stepX w0 q0).alNext) :
    ∀ ev ∈ hist w0 (q0 :: qs) A, Mine (plugsOf w0.devs) g A ev := by
  intro ev hev
  obtain ⟨hm, hal⟩ := List.mem_filter.mp hev
  have hal : ev.al = A := by simpa using hal
  have hI0 := feed_inv q0.rx hinv
  have key : EvAt (plugsOf w0.devs) (fun cid al => al = A → cid = g) ev := by
    rw [runEvX] at hm
    rcases List.mem_append.mp hm with h | h
    · have := passEv_at (fun cid al => al = A → cid = g) (fun e => absurd e.symm hA) (feed w0 q0.rx) q0.p hown ev h
      rw [cliPostPoll_plugsOf _ _ _ hI0] at this
      exact this
    · have := runEvX_at g A hA qs (stepX w0 q0) (stepX_inv w0 q0 hinv ha.1) ha.2 hlt
        (devPhase_ownQ g A hA (feed w0 q0.rx) q0.p hown) ev h
      rw [show plugsOf (stepX w0 q0).devs = plugsOf w0.devs from daemonPass_plugsOf (feed w0 q0.rx) q0.p hI0] at this
      exact this
  exact ⟨evAt_cid key hal, hal, key⟩

/-- **from the accepted request to the reply.**  Client `g` has no command in `w0`; in the client phase of pass `q0` a
    request of `g` is accepted: `k` is its command (`c1` its record) when that phase is over.  Passes `qs` follow, then
    pass `q`; no pass ends in an assertion; before `q` the command is still in progress, after it the client is there and
    idle.  With `H` the writes of the whole run to the arglist of `k` and `F` the completions the run reported for `g`:
    `F` has `k.pending` elements; in pass `q` the client was sent the lines of that pass, the reply `r`, the prompt; `r` is
    `finalReply` of `replyCmd k (some completion failed) H` — `k`'s targets, and a *fresh* arglist with the writes `H`
    applied; its entries are `entryOf H n` for the targets `n` in order; and every write of `H` belongs to this command. -/
theorem query_answer (w0 : W) (q0 : PassX) (qs : List PassX) (q : PassX) (g : Nat) (c1 : Cli) (k : CmdC) (c' : Cli)
    (hinv : Inv w0) (ha : AliveX w0 (q0 :: (qs ++ [q])))
    (hidle0 : ∀ c k, cliRec w0 g = some c → c.cmd = some k → False)
    (hc1 : cliRec (cliPostPoll (feed w0 q0.rx) q0.p.acc q0.p.envs) g = some c1) (hk : c1.cmd = some k)
    (hb : ∀ n ∈ k.names, ByteName n)
    (hbusy : ∃ c k', cliRec (runX w0 (q0 :: qs)) g = some c ∧ c.cmd = some k' ∧ k'.al = k.al)
    (hidle : cliRec (runX w0 (q0 :: (qs ++ [q]))) g = some c') (hnone : c'.cmd = none) :
    (runFinsX w0 (q0 :: (qs ++ [q])) g).length = k.pending ∧
    (∃ c2 r, cliRec (cliPostPoll (feed (runX w0 (q0 :: qs)) q.rx) q.p.acc q.p.envs) g = some c2 ∧
      finalReply c2.exprange (replyCmd k ((runFinsX w0 (q0 :: (qs ++ [q])) g).any failed) (hist w0 (q0 :: (qs ++ [q])) k.al)) = some r ∧
      c'.toBuf = c2.toBuf ++ passText (feed (runX w0 (q0 :: qs)) q.rx) q.p g ++ r ++ prompt) ∧
    entriesOf (replyCmd k ((runFinsX w0 (q0 :: (qs ++ [q])) g).any failed) (hist w0 (q0 :: (qs ++ [q])) k.al)) =
      k.names.map (entryOf (hist w0 (q0 :: (qs ++ [q])) k.al)) ∧
    (∀ ev ∈ hist w0 (q0 :: (qs ++ [q])) k.al, Mine (plugsOf w0.devs) g k.al ev) := by
  have hI0 := feed_inv q0.rx hinv
  obtain ⟨ha0, harest⟩ := ha
  obtain ⟨hfresh, _, herr, hal0, hown1, hlt1⟩ := accept_facts (feed w0 q0.rx) q0.p g c1 k hI0 hidle0 hc1 hk
  obtain ⟨_, hview⟩ := devPhase_view (feed w0 q0.rx) q0.p g c1 k hI0 ha0 hc1 hk
  have hI' := stepX_inv w0 q0 hinv ha0
  refine ⟨?_, ?_, entriesOf_hist k _ _ hb, hist_mine w0 q0 (qs ++ [q]) g k.al hal0 hinv ⟨ha0, harest⟩ hown1 hlt1⟩
  all_goals
    rcases hview with ⟨hlt, hrec⟩ | ⟨_, r0, _, hrec⟩
    case inr =>
      exfalso
      have ho : Over g k.al (stepX w0 q0) := by
        refine ⟨hlt1, ?_⟩
        intro c2 k2 h1 h2
        have hrec' : cliRec (stepX w0 q0) g = _ := hrec
        rw [hrec'] at h1; cases h1; cases h2
      obtain ⟨c, k', h1, h2, h3⟩ := hbusy
      exact (runX_over g k.al _ qs hI' harest.append.1 ho).2 c k' h1 h2 h3
  all_goals
    have hrec' : cliRec (stepX w0 q0) g = _ := hrec
    obtain ⟨hlen, c2, r, h2, hr, hbuf⟩ := run_answerX (stepX w0 q0) qs q g _ _ c' hI' harest hrec' rfl hbusy hidle hnone
    have hF : runFinsX w0 (q0 :: (qs ++ [q])) g = passFins (feed w0 q0.rx) q0.p g ++ runFinsX (stepX w0 q0) (qs ++ [q]) g := rfl
  · rw [hF, List.length_append, hlen]
    simp only
    omega
  · refine ⟨c2, r, h2, ?_, hbuf⟩
    rw [← hr]
    have hcell : storeArgs (runX (stepX w0 q0) (qs ++ [q])) k.al =
        (hist w0 (q0 :: (qs ++ [q])) k.al).foldl applyEv (freshArgs (k.names.map ofChars)) := by
      rw [runX_cell (stepX w0 q0) (qs ++ [q]) k.al hI' harest hlt1,
        show storeArgs (stepX w0 q0) k.al = _ from devPhase_cell (feed w0 q0.rx) q0.p k.al, hfresh, ← List.foldl_append,
        ← List.filter_append]
      rfl
    apply Reply.finalReply_congr
    · rfl
    · rfl
    · simp only [replyCmd, hF, List.any_append, herr, Bool.false_or]
    · simp only [replyCmd]
      rw [← hcell]

/-- the same when the pass that accepts the request also answers it -/
theorem query_answer_one_pass (w0 : W) (q0 : PassX) (g : Nat) (c1 : Cli) (k : CmdC) (c' : Cli)
    (hinv : Inv w0) (ha : AliveX w0 [q0])
    (hidle0 : ∀ c k, cliRec w0 g = some c → c.cmd = some k → False)
    (hc1 : cliRec (cliPostPoll (feed w0 q0.rx) q0.p.acc q0.p.envs) g = some c1) (hk : c1.cmd = some k)
    (hb : ∀ n ∈ k.names, ByteName n)
    (hidle : cliRec (runX w0 [q0]) g = some c') (hnone : c'.cmd = none) :
    (runFinsX w0 [q0] g).length = k.pending ∧
    (∃ r, finalReply c1.exprange (replyCmd k ((runFinsX w0 [q0] g).any failed) (hist w0 [q0] k.al)) = some r ∧
      c'.toBuf = c1.toBuf ++ passText (feed w0 q0.rx) q0.p g ++ r ++ prompt) ∧
    entriesOf (replyCmd k ((runFinsX w0 [q0] g).any failed) (hist w0 [q0] k.al)) = k.names.map (entryOf (hist w0 [q0] k.al)) ∧
    (∀ ev ∈ hist w0 [q0] k.al, Mine (plugsOf w0.devs) g k.al ev) := by
  have hI0 := feed_inv q0.rx hinv
  obtain ⟨ha0, _⟩ := ha
  obtain ⟨hfresh, _, herr, hal0, hown1, hlt1⟩ := accept_facts (feed w0 q0.rx) q0.p g c1 k hI0 hidle0 hc1 hk
  obtain ⟨_, hview⟩ := devPhase_view (feed w0 q0.rx) q0.p g c1 k hI0 ha0 hc1 hk
  have hF : runFinsX w0 [q0] g = passFins (feed w0 q0.rx) q0.p g := by simp [runFinsX]
  have hidle' : cliRec (daemonPass (feed w0 q0.rx) q0.p).1 g = some c' := hidle
  refine ⟨?_, ?_, entriesOf_hist k _ _ hb, hist_mine w0 q0 [] g k.al hal0 hinv ⟨ha0, trivial⟩ hown1 hlt1⟩
  all_goals
    rcases hview with ⟨_, hrec⟩ | ⟨hn, r, hr, hrec⟩
    case inl => rw [hrec] at hidle'; cases hidle'; cases hnone
  · rw [hF]; exact hn
  · rw [hrec] at hidle'
    simp only [Option.some.injEq] at hidle'
    subst hidle'
    refine ⟨r, ?_, rfl⟩
    rw [← hr]
    have hcell : storeArgs (daemonPass (feed w0 q0.rx) q0.p).1 k.al = (hist w0 [q0] k.al).foldl applyEv (freshArgs (k.names.map ofChars)) := by
      rw [devPhase_cell (feed w0 q0.rx) q0.p k.al, hfresh]
      simp [hist, runEvX]
    apply Reply.finalReply_congr
    · rfl
    · rfl
    · simp only [replyCmd, hF, herr, Bool.false_or]
    · simp only [replyCmd]
      rw [← hcell]

/-! ## reading the reply off the history -/

section Reading
open Pm.Daemon.Reply (onNodes offNodes unkNodes Covered qTerm isQueryCom tempValued tempMissing)

theorem entryOf_node (H : List WEv) (n : Name) (hn : ByteName n) : (entryOf H n).node = n :=
  Pm.Daemon.Reply.toChars_ofChars n hn

theorem entryOf_state_on {H : List WEv} {n : Name} : (entryOf H n).state = 2 ↔ lastState H (ofChars n) = some .on := by
  show psNum ((lastState H (ofChars n)).getD .unknown) = 2 ↔ _
  cases lastState H (ofChars n) with
  | none => simp [psNum]
  | some s => cases s <;> simp [psNum]

theorem entryOf_state_off {H : List WEv} {n : Name} : (entryOf H n).state = 1 ↔ lastState H (ofChars n) = some .off := by
  show psNum ((lastState H (ofChars n)).getD .unknown) = 1 ↔ _
  cases lastState H (ofChars n) with
  | none => simp [psNum]
  | some s => cases s <;> simp [psNum]

theorem entryOf_state_unk {H : List WEv} {n : Name} :
    (entryOf H n).state = 0 ↔ (lastState H (ofChars n) = none ∨ lastState H (ofChars n) = some .unknown) := by
  show psNum ((lastState H (ofChars n)).getD .unknown) = 0 ↔ _
  cases lastState H (ofChars n) with
  | none => simp [psNum]
  | some s => cases s <;> simp [psNum]

theorem replyCmd_entries (k : CmdC) (e : Bool) (H : List WEv) (hb : ∀ n ∈ k.names, ByteName n) :
    entriesOf (replyCmd k e H) = k.names.map (entryOf H) := entriesOf_hist k H e hb

theorem replyCmd_covered (k : CmdC) (e : Bool) (H : List WEv) (hb : ∀ n ∈ k.names, ByteName n) : Covered (replyCmd k e H) := by
  unfold replyCmd
  apply Pm.Daemon.Reply.covered_of_nodes k _ hb
  intro n hn
  rw [foldl_applyEv_fresh]
  exact ⟨cellOf H (ofChars n), List.mem_map.mpr ⟨ofChars n,
    (Pm.Daemon.Reply.mem_distinctOf _ _).mpr (List.mem_map.mpr ⟨n, hn, rfl⟩), rfl⟩, rfl⟩

theorem replyCmd_states (k : CmdC) (e : Bool) (H : List WEv) : ∀ a ∈ (replyCmd k e H).args, a.state ≤ 2 := by
  intro a ha
  simp only [replyCmd, List.mem_map] at ha
  obtain ⟨x, _, rfl⟩ := ha
  exact Pm.Daemon.Reply.argC_state_le x

theorem filter_map_entry (H : List WEv) (names : List Name) (hb : ∀ n ∈ names, ByteName n) (p : ArgC → Bool) :
    ((names.map (entryOf H)).filter p).map (·.node) = names.filter fun n => p (entryOf H n) := by
  induction names with
  | nil => rfl
  | cons n r ih =>
    have ih' := ih (fun x hx => hb x (by simp [hx]))
    rw [List.map_cons, List.filter_cons, List.filter_cons]
    cases hp : p (entryOf H n)
    · simpa using ih'
    · simp only [if_true, List.map_cons, ih', entryOf_node H n (hb n (by simp))]

/-- the three lists of the range-compressed reply, read off the history: the targets whose last state write says `on`, `off`,
    and the others -/
theorem replyCmd_lists (k : CmdC) (e : Bool) (H : List WEv) (hb : ∀ n ∈ k.names, ByteName n) :
    onNodes (replyCmd k e H) = k.names.filter (fun n => lastState H (ofChars n) == some .on) ∧
    offNodes (replyCmd k e H) = k.names.filter (fun n => lastState H (ofChars n) == some .off) ∧
    unkNodes (replyCmd k e H) = k.names.filter (fun n => (lastState H (ofChars n)).getD .unknown == .unknown) ∧
    tempValued (replyCmd k e H) = k.names.filter (fun n => (lastText H (ofChars n)).isSome) ∧
    tempMissing (replyCmd k e H) = k.names.filter (fun n => (lastText H (ofChars n)).isNone) := by
  unfold onNodes offNodes unkNodes tempValued tempMissing
  rw [replyCmd_entries k e H hb]
  refine ⟨?_, ?_, ?_, ?_, ?_⟩
  · rw [filter_map_entry H _ hb]
    apply List.filter_congr
    intro n _
    show (psNum ((lastState H (ofChars n)).getD .unknown) == 2) = (lastState H (ofChars n) == some .on)
    cases lastState H (ofChars n) with
    | none => decide
    | some s => cases s <;> decide
  · rw [filter_map_entry H _ hb]
    apply List.filter_congr
    intro n _
    show (psNum ((lastState H (ofChars n)).getD .unknown) == 1) = (lastState H (ofChars n) == some .off)
    cases lastState H (ofChars n) with
    | none => decide
    | some s => cases s <;> decide
  · rw [filter_map_entry H _ hb]
    apply List.filter_congr
    intro n _
    show (psNum ((lastState H (ofChars n)).getD .unknown) == 0) = ((lastState H (ofChars n)).getD .unknown == .unknown)
    cases lastState H (ofChars n) with
    | none => decide
    | some s => cases s <;> decide
  · rw [filter_map_entry H _ hb]; rfl
  · rw [filter_map_entry H _ hb]; rfl

theorem any_failed_true {F : List (Bytes × ActErr)} : F.any failed = true ↔ ∃ x ∈ F, x.2 ≠ .success := by
  rw [List.any_eq_true]
  constructor
  · rintro ⟨x, hx, h⟩; exact ⟨x, hx, by simpa [failed] using h⟩
  · rintro ⟨x, hx, h⟩; exact ⟨x, hx, by simpa [failed] using h⟩

/-- the terminal line of a query's reply, from the completions of the run -/
theorem replyCmd_terminal (ex : Bool) (k : CmdC) (F : List (Bytes × ActErr)) (H : List WEv) (r : Bytes)
    (hq : k.com ∈ [Com.status, .beacon, .temp]) (hr : finalReply ex (replyCmd k (F.any failed) H) = some r) :
    ((bstr "211 Query completed with errors" ++ crlf) <:+ r ↔ ∃ x ∈ F, x.2 ≠ .success) ∧
    ((bstr "103 Query complete" ++ crlf) <:+ r ↔ ∀ x ∈ F, x.2 = .success) := by
  have h := Pm.Daemon.Reply.qTerm_suffix_iff r (replyCmd k (F.any failed) H).error
    (Pm.Daemon.Reply.finalReply_query_suffix ex (replyCmd k (F.any failed) H) ((Pm.Daemon.Reply.isQueryCom_iff k.com).mpr hq) r hr)
  have e : (replyCmd k (F.any failed) H).error = F.any failed := rfl
  rw [e] at h
  exact ⟨h.1.trans any_failed_true, h.2.trans any_failed_false⟩

open Pm.Dev2.Interp (chosenName ctxName) in
open Pm.Dev2 (topCtx subOf findPlug pickState pickResult askRx Stmt) in
/-- **what `Mine` says, spelled out.**  The write `ev` was made in the turn of a device of the table (it carries the device's
    name), in a state `d` of that device (same plug list), for an action `a` of client `g` carrying the arglist id `A`; the
    statement `a` stood at is a `setplugstate` (or `setresult`) whose plug name resolves to a plug of the device wired to the
    node `ev.node`; `ev.text` is the status capture of the device's last regex match (`subOf`) — a piece of that match's
    subject, `ev.subject` — and what is written is the state (result) of the first interpretation that matches the text. -/
theorem mine_spelled {cfg : List (Bytes × List Plug)} {g A : Nat} {ev : WEv} (h : Mine cfg g A ev) :
    ev.cid = g ∧ ev.al = A ∧
    ∃ x ∈ cfg, ev.dev = x.1 ∧ ∃ (d : Dev) (a : Action) (o : Oracle) (plug : Plug),
      d.plugs = x.2 ∧ a.clientId = g ∧ a.arglist = A ∧ ev.com = a.com ∧
      plug ∈ x.2 ∧ plug.name = ev.plug ∧ plug.node = some ev.node ∧ ev.subject = d.xmStr ∧
      (∃ subj, d.xmStr = some subj ∧ ev.text <:+: subj) ∧
      ((∃ lit pm sm is pn, (topCtx a).block[(topCtx a).pos]? = some (Stmt.setplugstate lit pm sm is) ∧
          chosenName d lit pm (ctxName (topCtx a).plugs) = some pn ∧ findPlug d pn = some plug ∧
          subOf d sm = some ev.text ∧ ev.kind = .state (pickState askRx ev.text is o []).2.1) ∨
       (∃ pm sm is pn, (topCtx a).block[(topCtx a).pos]? = some (Stmt.setresult pm sm is) ∧
          subOf d pm = some pn ∧ findPlug d pn = some plug ∧
          subOf d sm = some ev.text ∧ ev.kind = .result (pickResult askRx ev.text is o []).2.1)) := by
  obtain ⟨hcid, hal, x, hx, hdev, d, a, o, hp, hs, hm⟩ := h
  obtain ⟨h1, h2, h3, h4, _, plug, hpm, hpn, hnode, halt⟩ := mem_stmtEv hm
  have h1' : ev.cid = a.clientId := h1
  have h2' : ev.al = a.arglist := h2
  refine ⟨hcid, hal, x, hx, hdev, d, a, o, plug, hp, by rw [← h1', hcid], by rw [← h2', hal], h3, hp ▸ hpm, hpn, hnode, h4, ?_, halt⟩
  rcases halt with ⟨_, _, sm, _, _, _, _, _, hs', _⟩ | ⟨_, sm, _, _, _, _, _, hs', _⟩
  · exact (subOf_infix hs').2.2
  · exact (subOf_infix hs').2.2

end Reading

end Pm.Daemon.QRun

section AxiomChecks
open Pm.Daemon.QRun
/-- info: 'Pm.Daemon.QRun.query_answer' depends on axioms: [propext, Classical.choice, Quot.sound] -/
#guard_msgs in #print axioms query_answer
/-- info: 'Pm.Daemon.QRun.query_answer_one_pass' depends on axioms: [propext, Classical.choice, Quot.sound] -/
#guard_msgs in #print axioms query_answer_one_pass
/-- info: 'Pm.Daemon.QRun.mine_spelled' depends on axioms: [propext, Quot.sound] -/
#guard_msgs in #print axioms mine_spelled
/-- info: 'Pm.Daemon.QRun.replyCmd_lists' depends on axioms: [propext, Classical.choice, Quot.sound] -/
#guard_msgs in #print axioms replyCmd_lists
/-- info: 'Pm.Daemon.QRun.replyCmd_terminal' depends on axioms: [propext, Quot.sound] -/
#guard_msgs in #print axioms replyCmd_terminal
end AxiomChecks
