import Pm.Daemon
import Pm.HLFind
import Pm.RedfishTree
/-! # The command layer of `redfishpower` (test mode) on strings

Executable mirror of `/repo/src/redfishpower/redfishpower.c` `shell()` / `process_cmd()` and the configuration commands
(`auth setheader setstatpath setonpath setoffpath setplugs setpath settimeout stat on off help quit`), of `plugs.c` (the
plug table: ordered hostlist + `zhashx` map) and of `libcommon/argv.c:argv_create`.  Hostlist expressions go through the
existing hostlist mirror (`createR`, `expand`, `find`, `pushRange`, `deleteHost`).  The hierarchy machine is **not**
re-modelled: `stat` / `on` / `off` resolve their targets here and hand plug *indices* to `Pm.Redfish.runCmd`
(`runMachine`).  One definition per C function / branch.

A line is a `List Char` whose characters stand for bytes (`Char.ofNat b`, `b < 256`); `step` takes what one call of
`fgets(buf, 256, stdin)` returns (`fgetsSplit` cuts a byte stream into such pieces).

Outcomes other than "back at the prompt" are part of the model (`Ctl`): `exit` (`quit`, `err_exit`), `abort`
(`assert`), `hang` (the helper never prints its prompt again), and `outside`
(the C behaviour is known — see the comment at each site — but not described by this model or by the hostlist mirror). -/
namespace Pm.RfCmd
open Pm
open Pm.Daemon (createR CR)

/-! ## 0. small C library pieces -/

def lit (s : String) : Name := s.toList

/-- the C string in a buffer: everything before the first NUL -/
def cstr (buf : List Char) : List Char := buf.takeWhile (· != '\x00')

/-- `argv_create(cmdline, "")`: the words between runs of `isspace()` characters -/
def argvGo : List Char → List Char → List (List Char) → List (List Char)
  | [], cur, acc => (if cur.isEmpty then acc else cur.reverse :: acc).reverse
  | c :: r, cur, acc =>
    if isCSpace c then argvGo r [] (if cur.isEmpty then acc else cur.reverse :: acc)
    else argvGo r (c :: cur) acc
def argvCreate (s : List Char) : List (List Char) := argvGo s [] []

def LONG_MAX : Int := 9223372036854775807
def LONG_MIN : Int := -9223372036854775808

/-- `strtol(s, &end, 10)`: (value, characters consumed, `errno == ERANGE`); consumed = 0 means no conversion -/
def strtol (s : Name) : Int × Nat × Bool :=
  let ws := s.takeWhile isCSpace
  let r1 := s.drop ws.length
  let (neg, sl, r2) := match r1 with
    | '+' :: r => (false, 1, r)
    | '-' :: r => (true, 1, r)
    | r => (false, 0, r)
  let ds := r2.takeWhile Char.isDigit
  if ds.isEmpty then (0, 0, false) else
  let v : Int := if neg then - (parseNat ds : Int) else (parseNat ds : Int)
  let n := ws.length + sl + ds.length
  if v > LONG_MAX then (LONG_MAX, n, true) else if v < LONG_MIN then (LONG_MIN, n, true) else (v, n, false)

/-- conversion `long → int` as gcc does it (modulo 2^32) -/
def toInt32 (v : Int) : Int := (v + 2147483648) % 4294967296 - 2147483648

/-! ## 1. hostlist pieces (the mirrors `nthC` = `hostlist_nth` and `expand` = the names `hostlist_next` yields are used as they are) -/

/-- `hostlist_count` -/
def hlCount (hl : Hostlist) : Nat := (hl.map HostRange.count).sum

/-- is there a run of at least `k` decimal digits? -/
def digitRun (k : Nat) : List Char → Nat → Bool
  | [], n => decide (k ≤ n)
  | c :: r, n => if c.isDigit then digitRun k r (n + 1) else (decide (k ≤ n) || digitRun k r 0)

/-- the hostlist mirror reads numbers as naturals; `strtoul` saturates at 2^64 - 1.  Bracket expressions with a run
    of 20 digits or more are outside the mirror. -/
def hlArgOK (a : Name) : Bool := !(a.contains '[' && digitRun 20 a 0)

/-- `hostlist_create` -/
def hlCreate (a : Name) : Option Hostlist :=
  match createR a with
  | .ok hl => some hl
  | _ => none

/-- `hostlist_push(hl, expr)`: (new list, number of hosts pushed; 0 also when `expr` does not parse) -/
def hlPush (hl : Hostlist) (expr : Name) : Hostlist × Nat :=
  match hlCreate expr with
  | some new => (new.foldl pushRange hl, hlCount new)
  | none => (hl, 0)

/-- `hostlist_delete(hl, expr)`: pop the hosts of `expr` from the end, delete each -/
def hlDelete (hl : Hostlist) (expr : Name) : Hostlist :=
  match hlCreate expr with
  | some new => (expand new).reverse.foldl (fun h n => (deleteHost h n).1) hl
  | none => hl

/-! ## 2. state -/

inductive Ctl where
  | cont
  | exit (status : Nat)
  | abort (site : String)
  | hang (why : String)
  | outside (why : String)
deriving Repr, DecidableEq

/-- `struct plug_data` (+ `hostIdx`: the index into `hosts` the host name was taken from) -/
structure PlugData where
  plugname : Name
  hostname : Name
  hostIdx : Nat
  parent : Option Name
  stat : Option Name := none
  on : Option Name := none
  onpost : Option Name := none
  off : Option Name := none
  offpost : Option Name := none
deriving Repr, DecidableEq

abbrev PlugMap := List (Name × PlugData)

structure State where
  hosts : Hostlist                 -- `hosts`
  failHosts : Hostlist             -- `test_fail_power_cmd_hosts`
  plugs : Hostlist                 -- `plugs->plugs`
  plugMap : PlugMap                -- `plugs->plug_map`, in order of first insertion
  initial : Bool                   -- `initial_plugs_setup`
  header : Option Name
  userpwd : Option Name
  userpwdCmdline : Bool
  statpath : Option Name
  onpath : Option Name
  onpost : Option Name
  offpath : Option Name
  offpost : Option Name
  cmdTimeout : Int                 -- `cmd_timeout`
  now : Nat                        -- seconds since the epoch (read by `gettimeofday` in `powermsg_create`)
  status : List (Name × Bool)      -- `test_power_status`: on?
deriving Repr

/-- what one input line does -/
structure Res where
  st : State
  out : List Name                  -- lines printed on stdout (without the newline)
  ctl : Ctl
deriving Repr

/-! ## 3. plugs.c -/

/-- `zhashx_update` -/
def mapUpdate (m : PlugMap) (n : Name) (pd : PlugData) : PlugMap :=
  if (m.lookup n).isSome then m.map (fun e => if e.1 = n then (n, pd) else e) else m ++ [(n, pd)]
/-- `zhashx_delete` -/
def mapDelete (m : PlugMap) (n : Name) : PlugMap := m.filter (fun e => e.1 ≠ n)

/-- `plugs_get_data` -/
def plugsGetData (s : State) (n : Name) : Option PlugData := s.plugMap.lookup n
/-- `plugs_name_valid` -/
def plugsNameValid (s : State) (n : Name) : Bool := (find s.plugs n).isSome

/-- `plugs_add`; `none` = `err_exit("hostlist_push failed")`: the plug NAME is parsed again as a hostlist expression -/
def plugsAdd (s : State) (plugname hostname : Name) (hostIdx : Nat) (parent : Option Name) : Option State :=
  let pd : PlugData := { plugname, hostname, hostIdx, parent }
  if (find s.plugs plugname).isNone then
    let (hl', k) := hlPush s.plugs plugname
    if k = 0 then none else some { s with plugs := hl', plugMap := mapUpdate s.plugMap plugname pd }
  else some { s with plugMap := mapUpdate s.plugMap plugname pd }

/-- `plugs_remove` -/
def plugsRemove (s : State) (n : Name) : State :=
  { s with plugMap := mapDelete s.plugMap n, plugs := hlDelete s.plugs n }

/-- `plugs_update_path` on one entry (`cmd` already checked to be stat / on / off) -/
def updPath (pd : PlugData) (cmd : Name) (path : Name) (postdata : Option Name) : PlugData :=
  if cmd = lit "stat" then { pd with stat := some path }
  else if cmd = lit "on" then { pd with on := some path, onpost := postdata }
  else { pd with off := some path, offpost := postdata }

/-- `plugs_update_path`; `none` = it returned -1 (no such entry) -/
def plugsUpdatePath (s : State) (n cmd path : Name) (postdata : Option Name) : Option State :=
  match plugsGetData s n with
  | none => none
  | some pd => some { s with plugMap := mapUpdate s.plugMap n (updPath pd cmd path postdata) }

inductive ChainEnd where | root (n : Name) | undef | loops
deriving Repr, DecidableEq

/-- `plugs_find_root_parent`: `undef` = it returns NULL (a name on the way up is not in the map); `loops` = it never
    returns (a chain of defined plugs longer than the map repeats a plug) -/
def findRoot (m : PlugMap) : Nat → Name → ChainEnd
  | 0, _ => .loops
  | fuel + 1, n =>
    match m.lookup n with
    | none => .undef
    | some pd =>
      match pd.parent with
      | none => .root n
      | some p => findRoot m fuel p
def chainEnd (s : State) (n : Name) : ChainEnd := findRoot s.plugMap (s.plugMap.length + 1) n
def chainLoops (s : State) (n : Name) : Bool := chainEnd s n == .loops
def tableCyclic (s : State) : Bool := s.plugMap.any fun e => chainLoops s e.1

/-! ## 4. configuration commands -/

def helpLines : List Name :=
  [lit "Valid commands are:", lit "  auth user:passwd", lit "  setheader string", lit "  setstatpath path",
   lit "  setonpath path [postdata]", lit "  setoffpath path [postdata]",
   lit "  setplugs plugnames hostindices [<parentplug]]", lit "  setpath plugnames cmd path [postdata]",
   lit "  settimeout seconds", lit "  stat [plugs]", lit "  on [plugs]", lit "  off [plugs]"]

def ok (s : State) (out : List Name := []) : Res := { st := s, out, ctl := .cont }

/-- `auth` -/
def auth (s : State) (av : List Name) : Res :=
  match av with
  | [] => ok s [lit "Usage: auth user:passwd"]
  | a :: _ => if s.userpwdCmdline then ok s else ok { s with userpwd := some a }

/-- `setheader` -/
def setheader (s : State) (av : List Name) : Res := ok { s with header := av.head? }

/-- `setstatpath` -/
def setstatpath (s : State) (av : List Name) : Res := ok { s with statpath := av.head? }

/-- `setpowerpath(av, &onpath, &onpostdata)` -/
def setonpath (s : State) (av : List Name) : Res :=
  match av with
  | [] => ok { s with onpath := none, onpost := none }
  | p :: r => ok { s with onpath := some p, onpost := r.head? }

/-- `setpowerpath(av, &offpath, &offpostdata)` -/
def setoffpath (s : State) (av : List Name) : Res :=
  match av with
  | [] => ok { s with offpath := none, offpost := none }
  | p :: r => ok { s with offpath := some p, offpost := r.head? }

def INT_MAX : Int := 2147483647

/-- `settimeout` (after repair 7f04ec7): the value is stored only when it is valid — no overflow of `long`, nothing after
    the digits, positive, at most `INT_MAX`; otherwise the message, and the old value stays -/
def settimeout (s : State) (av : List Name) : Res :=
  match av with
  | [] => ok s
  | a :: _ =>
    let (v, n, erange) := strtol a
    let bad := erange || n != a.length || decide (v ≤ 0) || decide (v > INT_MAX)
    if bad then ok s [lit "invalid timeout specified"] else ok { s with cmdTimeout := v }

/-- `remove_initial_plugs` -/
def removeInitialPlugs (s : State) : State :=
  if !s.initial then s else { (expand s.hosts).foldl plugsRemove s with initial := false }

/-- `zhashx_insert(test_power_status, plugname, STATUS_OFF)`: does not replace an existing entry -/
def statusInsert (st : List (Name × Bool)) (n : Name) : List (Name × Bool) :=
  if (st.lookup n).isSome then st else st ++ [(n, false)]

inductive SP where
  | ok (s : State)
  | bad (line : Name)                      -- a diagnostic was printed, `setup_plug` returned -1
  | fatal (ctl : Ctl)
deriving Repr

/-- `setup_plug` -/
def setupPlug (s : State) (plugname hostindexstr : Name) (parent : Option Name) : SP :=
  let (v, n, erange) := strtol hostindexstr
  let hostindex := toInt32 v
  if erange || n != hostindexstr.length || hostindex < 0 then
    .bad (lit "setplugs: invalid hostindex " ++ hostindexstr ++ lit " specified")
  else
    match nthC s.hosts hostindex.toNat with
    | none => .bad (lit "setplugs: hostindex " ++ (toString hostindex).toList ++ lit " out of range")
    | some host =>
      match plugsAdd s plugname host hostindex.toNat parent with
      | none => .fatal (.exit 1)               -- err_exit(false, "hostlist_push failed")
      | some s' => .ok { s' with status := statusInsert s'.status plugname }

/-- the loop `for (i = 0; i < plugcount; i++)` of `setplugs`, `i`-th plug with `i`-th index (or with the one index):
    `idx i` gives the index string for position `i` -/
def setplugsLoop (lplugs : Hostlist) (idx : Nat → Option Name) (parent : Option Name) : Nat → Nat → State → Res
  | 0, _, s => ok s
  | k + 1, i, s =>
    match nthC lplugs i with
    | none => { st := s, out := [], ctl := .exit 1 }        -- err_exit("setplugs: hostlist_nth plugs")
    | some plug =>
      match idx i with
      | none => { st := s, out := [], ctl := .exit 1 }      -- err_exit("setplugs: hostlist_nth indices")
      | some his =>
        match setupPlug s plug his parent with
        | .ok s' => setplugsLoop lplugs idx parent k (i + 1) s'
        | .bad line => ok s [line]
        | .fatal c => { st := s, out := [], ctl := c }

/-- `setplugs` -/
def setplugs (s : State) (av : List Name) : Res :=
  match av with
  | a0 :: a1 :: rest =>
    if !(hlArgOK a0 && hlArgOK a1) then { st := s, out := [], ctl := .outside "number of 20 digits or more in a range" } else
    match hlCreate a0 with
    | none => ok s [lit "setplugs: illegal plugnames input"]
    | some lplugs =>
      match hlCreate a1 with
      | none => ok s [lit "setplugs: illegal hostindices input"]
      | some hostindices =>
        let plugcount := hlCount lplugs
        let hostindexcount := hlCount hostindices
        let s1 := removeInitialPlugs s
        if plugcount != hostindexcount then
          if plugcount > 1 && hostindexcount == 1 then
            -- one index for all plugs; it is fetched once, before the loop
            match nthC hostindices 0 with
            | none => { st := s1, out := [], ctl := .exit 1 }
            | some his => setplugsLoop lplugs (fun _ => some his) rest.head? plugcount 0 s1
          else ok s1 [lit "setplugs: plugs count not equal to host index count"]
        else setplugsLoop lplugs (fun i => nthC hostindices i) rest.head? plugcount 0 s1
  | _ => ok s [lit "Usage: setplugs <plugnames> <hostindices> [<parentplug>]]"]

/-- the `while ((plugname = hostlist_next(itr)))` loop of `setpath`: stops at the first unknown plug -/
def setpathLoop (cmd path : Name) (postdata : Option Name) : List Name → State → Res
  | [], s => ok s
  | n :: rest, s =>
    if !plugsNameValid s n then ok s [lit "setpath: unknown plug specified: " ++ n]
    else
      match plugsUpdatePath s n cmd path postdata with
      | none => { st := s, out := [], ctl := .exit 1 }        -- err_exit("setpath: plugs_update_path failed")
      | some s' => setpathLoop cmd path postdata rest s'

/-- `setpath` -/
def setpath (s : State) (av : List Name) : Res :=
  match av with
  | a0 :: a1 :: a2 :: rest =>
    if a1 ≠ lit "stat" ∧ a1 ≠ lit "on" ∧ a1 ≠ lit "off" then ok s [lit "setpath: invalid command specified"]
    else if !hlArgOK a0 then { st := s, out := [], ctl := .outside "number of 20 digits or more in a range" }
    else
      match hlCreate a0 with
      | none => ok s [lit "setpath: illegal hosts input"]
      | some lplugs => setpathLoop a1 a2 rest.head? (expand lplugs) s
  | _ => ok s [lit "Usage: setpath <plugnames> <cmd> <path> [<postdata>]"]

/-! ## 5. stat / on / off: target resolution, then the machine -/

/-- `strstr(lpath, "{{plug}}")` replaced once by the plug name (`calc_path`) -/
def calcPath : Name → Name → Name
  | [], _ => []
  | c :: r, plug => if (lit "{{plug}}").isPrefixOf (c :: r) then plug ++ (c :: r).drop 8 else c :: calcPath r plug

def cmdName : Redfish.Cmd → Name
  | .stat => lit "stat"
  | .on => lit "on"
  | .off => lit "off"

/-- `get_path`: the path a request for `cmd` on this plug would use (`none` = "path not set") -/
def getPath (s : State) (cmd : Redfish.Cmd) (n : Name) : Option Name :=
  let pd := plugsGetData s n
  let lpath := match cmd with
    | .stat => (pd.bind (·.stat)).or s.statpath
    | .on => (pd.bind (·.on)).or s.onpath
    | .off => (pd.bind (·.off)).or s.offpath
  lpath.map fun p => calcPath p n

/-- position of a plug in the map = the name the machine knows it by -/
def mIndex (m : PlugMap) (n : Name) : Option Nat :=
  let i := m.findIdx (fun e => e.1 == n)
  if i < m.length then some i else none

inductive Tgt where
  | line (l : Name)
  | target (i : Nat)
deriving Repr, DecidableEq

/-- one turn of the `while ((plugname = hostlist_next(itr)))` loop of `stat_cmd` / `power_cmd` -/
def resolveOne (s : State) (cmd : Redfish.Cmd) (n : Name) : Tgt :=
  if !plugsNameValid s n then .line (lit "unknown plug specified: " ++ n)
  else match mIndex s.plugMap n with
    | none => .line (lit "plug not mapped: " ++ n)
    | some i =>
      match getPath s cmd n with
      | none => .line (n ++ lit ": " ++ cmdName cmd ++ lit " path not set")
      | some _ => .target i

/-- the loop: (lines printed, targets queued, stopped by `err_exit("cmd_timeout overflow")` in `powermsg_create`) -/
def resolveLoop (s : State) (cmd : Redfish.Cmd) (ovf : Bool) : List Name → List Name × List Nat × Bool
  | [] => ([], [], false)
  | n :: rest =>
    match resolveOne s cmd n with
    | .line l => let r := resolveLoop s cmd ovf rest; (l :: r.1, r.2.1, r.2.2)
    | .target i => if ovf then ([], [], true) else let r := resolveLoop s cmd ovf rest; (r.1, i :: r.2.1, r.2.2)

/-- `cmd_timeout > (LONG_MAX - pm->start.tv_sec)` -/
def timeoutOverflow (s : State) : Bool := decide (s.cmdTimeout > LONG_MAX - (s.now : Int))

/-- is the request for this host answered by "error" (`--test-fail-power-cmd-hosts`)? -/
def hostFailing (s : State) (hostname : Name) : Bool := (find s.failHosts hostname).isSome

/-- the configuration handed to the machine: plug `i` is the `i`-th entry of the map (its "host" is `i` too: only
    `failing` looks at it); a parent that is not in the map becomes the index `plugMap.length`, which is no plug (the
    C functions that walk up stop there too) -/
def mCfg (s : State) : Redfish.Cfg :=
  { plugs := s.plugMap.zipIdx.map fun e =>
      { name := e.2, host := e.2, parent := e.1.2.parent.map fun p => (mIndex s.plugMap p).getD s.plugMap.length },
    failing := (s.plugMap.zipIdx.filter fun e => hostFailing s e.1.2.hostname).map (·.2) }

def statusOf (s : State) (n : Name) : Bool := (s.status.lookup n).getD false

def mSt (s : State) : Redfish.St := s.plugMap.zipIdx.map fun e => (e.2, statusOf s e.1.1)

def setStatus (st : List (Name × Bool)) (n : Name) (v : Bool) : List (Name × Bool) :=
  if (st.lookup n).isSome then st.map (fun e => if e.1 = n then (n, v) else e) else st ++ [(n, v)]

/-- the plug states after a command: every plug of the map takes the state the machine left it in -/
def readBack (s : State) (st' : Redfish.St) : List (Name × Bool) :=
  s.plugMap.zipIdx.foldl (fun acc e => setStatus acc e.1.1 (Redfish.isOn st' e.2)) s.status

def plugNameOf (s : State) (i : Nat) : Name := (s.plugMap[i]?.map (·.1)).getD []
def hostNameOf (s : State) (i : Nat) : Name := (s.plugMap[i]?.map (·.2.hostname)).getD []

def statText : Redfish.Stat → Name
  | .on => lit "on"
  | .off => lit "off"
  | .error => lit "error"

/-- the text of a line of the machine -/
def render (s : State) : Redfish.Line → Name
  | .status p st => plugNameOf s p ++ lit ": " ++ statText st
  | .ok p => plugNameOf s p ++ lit ": ok"
  | .unknown p => lit "unknown plug specified: " ++ plugNameOf s p
  | .dep p cmd st a =>
    plugNameOf s p ++ lit ": cannot perform " ++ cmdName cmd ++ lit ", dependency " ++ statText st ++
      lit " (host=" ++ hostNameOf s a ++ lit " plug=" ++ plugNameOf s a ++ lit ")"
  | .phased p => plugNameOf s p ++ lit ": cannot turn on parent and child"

/-- the seam: the resolved targets go to `Pm.Redfish.runCmd` -/
def runMachine (s : State) (cmd : Redfish.Cmd) (pre : List Name) (targets : List Nat) : Res :=
  let r := Redfish.runCmd (mCfg s) (mSt s) cmd targets
  { st := { s with status := readBack s r.2.1 }, out := pre ++ r.1.map (render s),
    ctl := if r.2.2 then .cont else .hang "the three lists never empty" }

/-- does the chain above plug `i` end in a root?  (what `send_initial_parent_queries` needs of each waiting target) -/
def chainOfIdx (s : State) (i : Nat) : ChainEnd := chainEnd s (plugNameOf s i)

/-- the first waiting target whose chain does not end in a root decides: `assert(root_plugname)` fails, or
    `plugs_find_root_parent` never returns -/
def firstBadWaiter (s : State) : List Nat → Option Ctl
  | [] => none
  | i :: rest =>
    match chainOfIdx s i with
    | .root _ => firstBadWaiter s rest
    | .undef => some (.abort "send_initial_parent_queries: Assertion `root_plugname' failed")
    | .loops => some (.hang "plugs_find_root_parent walks a cycle")

/-- has plug `i` a parent (does its request go to `waitcmds`)? -/
def hasParent (s : State) (i : Nat) : Bool := ((s.plugMap[i]?).bind (·.2.parent)).isSome

/-- every plug has a status path (its own or the default one): needed by the parent queries and the status polls -/
def allStatPaths (s : State) : Bool := s.statpath.isSome || s.plugMap.all fun e => e.2.stat.isSome

/-- "a parent and its child were both asked to be turned on" as `phased_power_on_check` evaluates it -/
def phasedOn (s : State) (targets : List Nat) : Bool :=
  let c := mCfg s
  let act := targets.filter fun i => !hasParent s i
  let wai := targets.filter fun i => hasParent s i
  let all := act ++ wai
  decide (all.length > 1) && all.any fun a => all.any fun b => Redfish.isDesc c a b

/-- after the loop of `stat_cmd` / `power_cmd`: what happens to the queued targets -/
def dispatch (s : State) (cmd : Redfish.Cmd) (pre : List Name) (targets : List Nat) : Res :=
  if targets.isEmpty then ok s pre else
  let waiters := targets.filter fun i => hasParent s i
  if (cmd != .stat || !waiters.isEmpty) && !allStatPaths s then
    -- C: "<plug>: stat path not set" is printed and the request is dropped; requests waiting for it wait for ever
    { st := s, out := pre, ctl := .outside "a plug without status path is polled or queried" }
  else if Redfish.WF (mCfg s) then runMachine s cmd pre targets
  else if cmd == .off && tableCyclic s then
    -- C: the loop over `test_power_status` in `on_off_process` walks every chain: it may never return
    { st := s, out := pre, ctl := .outside "off with a cycle in the plug table" }
  else if waiters.isEmpty then runMachine s cmd pre targets
  else if cmd == .on && decide (targets.length > 1) && targets.any (fun i => chainLoops s (plugNameOf s i)) then
    -- C: `phased_power_on_check` walks the chains pairwise: it may never return
    { st := s, out := pre, ctl := .outside "on of several plugs, one on a cycle" }
  else if cmd == .on && phasedOn s targets then runMachine s cmd pre targets
  else match firstBadWaiter s waiters with
    | some c => { st := s, out := pre, ctl := c }
    | none => runMachine s cmd pre targets

/-- `stat_cmd` / `power_cmd` -/
def powerCmd (s : State) (cmd : Redfish.Cmd) (av : List Name) : Res :=
  match av with
  | a :: _ =>
    if !hlArgOK a then { st := s, out := [], ctl := .outside "number of 20 digits or more in a range" } else
    match hlCreate a with
    | none => ok s [lit "illegal hosts input"]
    | some lplugs =>
      let r := resolveLoop s cmd (timeoutOverflow s) (expand lplugs)
      if r.2.2 then { st := s, out := r.1, ctl := .exit 1 }      -- err_exit("cmd_timeout overflow")
      else dispatch s cmd r.1 r.2.1
  | [] =>
    let r := resolveLoop s cmd (timeoutOverflow s) (expand s.plugs)
    if r.2.2 then { st := s, out := r.1, ctl := .exit 1 }
    else dispatch s cmd r.1 r.2.1

/-! ## 6. `process_cmd` and the shell loop -/

/-- `process_cmd` -/
def processCmd (s : State) (av : List Name) : Res :=
  match av with
  | [] => ok s
  | c :: args =>
    if c = lit "help" then ok s helpLines
    else if c = lit "quit" then { st := s, out := [], ctl := .exit 0 }
    else if c = lit "auth" then auth s args
    else if c = lit "setheader" then setheader s args
    else if c = lit "setstatpath" then setstatpath s args
    else if c = lit "setonpath" then setonpath s args
    else if c = lit "setoffpath" then setoffpath s args
    else if c = lit "setplugs" then setplugs s args
    else if c = lit "setpath" then setpath s args
    else if c = lit "settimeout" then settimeout s args
    else if c = lit "stat" then powerCmd s .stat args
    else if c = lit "on" then powerCmd s .on args
    else if c = lit "off" then powerCmd s .off args
    else ok s [lit "type \"help\" for a list of commands"]

/-- one piece of input as `fgets` returned it -/
def step (s : State) (buf : List Char) : Res := processCmd s (argvCreate (cstr buf))

/-- `fgets(buf, 256, stdin)` over a byte stream: up to 255 characters, stopping after a newline -/
def fgetsOne : Nat → List Char → List Char → List Char × List Char
  | 0, acc, rest => (acc.reverse, rest)
  | _ + 1, acc, [] => (acc.reverse, [])
  | k + 1, acc, c :: r => if c = '\n' then ((c :: acc).reverse, r) else fgetsOne k (c :: acc) r

def fgetsSplit : Nat → List Char → List (List Char)
  | 0, _ => []
  | _ + 1, [] => []
  | fuel + 1, c :: r =>
    let p := fgetsOne 255 [] (c :: r)
    p.1 :: fgetsSplit fuel p.2

/-- `setup_hosts` + the test-mode initialisation of `main`: one plug per host, named like it, all off -/
def setupHosts (s : State) : Option State :=
  (expand s.hosts).zipIdx.foldl (fun acc e =>
    match acc with
    | none => none
    | some st => (plugsAdd st e.1 e.1 e.2 none)) (some s)

/-- `main` up to `shell()`: `-h` arguments, `--test-fail-power-cmd-hosts` arguments (`none` = `err_exit`) -/
def init (hostArgs failArgs : List Name) (now : Nat) : Option State :=
  if hostArgs.any (fun a => (hlPush [] a).2 == 0) || failArgs.any (fun a => (hlPush [] a).2 == 0) then none else
  let hosts := hostArgs.foldl (fun hl a => (hlPush hl a).1) []
  let fails := failArgs.foldl (fun hl a => (hlPush hl a).1) []
  if hlCount hosts == 0 then none else
  let s0 : State := {
    hosts, failHosts := fails, plugs := [], plugMap := [], initial := false, header := none,
    userpwd := none, userpwdCmdline := false, statpath := none, onpath := none, onpost := none, offpath := none,
    offpost := none, cmdTimeout := 60, now, status := [] }
  match setupHosts s0 with
  | none => none
  | some s1 => some { s1 with initial := true, status := (expand s1.plugs).foldl statusInsert s1.status }

/-- a whole session: the pieces one after the other, until one does not come back to the prompt -/
def session (s : State) : List (List Char) → State × List (List Name) × Ctl
  | [] => (s, [], .cont)
  | b :: rest =>
    let r := step s b
    match r.ctl with
    | .cont => let q := session r.st rest; (q.1, r.out :: q.2.1, q.2.2)
    | c => (r.st, [r.out], c)

end Pm.RfCmd
