import Pm.LsdListAbs
/-! # The calls of `list.c` without loops refine the list with cursors

`RepA l ns a`: the node-level state `l` is represented on the chain `ns` and stands for the list with cursors `a` (`absOf l = a`).
For every call: it does not die, its answer is the abstract answer, and the result stands for the abstract result. -/
namespace Pm.LsdList
variable {α : Type}

/-- `valid` as a proposition: the state represents some list -/
def Valid (l : LList α) : Prop := ∃ ns items, Rep l ns items

/-- `l` is represented on the chain `ns` and stands for the list with cursors `a` -/
structure RepA (l : LList α) (ns : List Nat) (a : Abs α) : Prop where
  rep : Rep l ns a.items
  abs : absOf l = a

theorem Rep.absOf_eq {l : LList α} {ns : List Nat} {items : List α} (h : Rep l ns items) :
    LsdList.absOf l = { items := items, curs := l.iters.map (fun ki => (ki.1, cur ns ki.2)), fdel := l.fdel } := by
  simp [LsdList.absOf, h.toChain.contents, h.toChain.nodes]

theorem Rep.repA {l : LList α} {ns : List Nat} {items : List α} (h : Rep l ns items) : RepA l ns (LsdList.absOf l) :=
  ⟨by rw [h.absOf_eq]; exact h, rfl⟩

theorem RepA.valid {l : LList α} {ns : List Nat} {a : Abs α} (h : RepA l ns a) : Valid l := ⟨ns, a.items, h.rep⟩

theorem RepA.curs {l : LList α} {ns : List Nat} {a : Abs α} (h : RepA l ns a) :
    a.curs = l.iters.map (fun ki => (ki.1, cur ns ki.2)) := by
  have := h.abs; rw [h.rep.absOf_eq] at this; rw [← this]

theorem RepA.fdel {l : LList α} {ns : List Nat} {a : Abs α} (h : RepA l ns a) : a.fdel = l.fdel := by
  have := h.abs; rw [h.rep.absOf_eq] at this; rw [← this]

/-- patched iterators, seen as cursors -/
theorem curs_map {l : LList α} {ns : List Nat} {items : List α} (h : Rep l ns items) {ns' : List Nat} (hi' : Inj ns')
    (fix : Iter → Iter) (cf : Nat × Bool → Nat × Bool)
    (hpl : ∀ i j g, Place ns i j g → Place ns' (fix i) (cf (j, g)).1 (cf (j, g)).2) :
    (l.iters.map (fun ki => (ki.1, fix ki.2))).map (fun ki => (ki.1, cur ns' ki.2)) =
      (l.iters.map (fun ki => (ki.1, cur ns ki.2))).map (fun kc => (kc.1, cf kc.2)) := by
  simp only [List.map_map]
  apply List.map_congr_left
  intro ki hki
  obtain ⟨j, g, pl⟩ := h.place ki hki
  simp only [Function.comp, pl.cur h.inj, (hpl _ j g pl).cur hi']

theorem nodeCreate_abs {l : LList α} {ns : List Nat} {a : Abs α} (h : RepA l ns a) (f : Nat) (x : α) (hf : f ≤ ns.length) :
    ∃ l' p, nodeCreate l (fieldAt ns f) x = some l' ∧ RepA l' (ns.insertIdx f p) (a.createAt f x) := by
  obtain ⟨l', p, e, hr, hits, hfd⟩ := nodeCreate_spec h.rep f x hf
  refine ⟨l', p, e, hr, ?_⟩
  rw [hr.absOf_eq, hits, curs_map h.rep hr.inj _ (curCreate f) (fun i j g pl => pl.create h.rep.inj f p hf)]
  simp [Abs.createAt, h.curs, hfd, h.fdel]

theorem nodeDestroy_abs {l : LList α} {ns : List Nat} {a : Abs α} (h : RepA l ns a) (f n : Nat) (hn : ns[f]? = some n) :
    ∃ l', nodeDestroy l (fieldAt ns f) = some (a.items[f]?, l') ∧ RepA l' (ns.eraseIdx f) (a.destroyAt f) := by
  obtain ⟨l', e, hr, hits, hfd⟩ := nodeDestroy_spec h.rep f n hn
  refine ⟨l', e, hr, ?_⟩
  rw [hr.absOf_eq, hits, curs_map h.rep hr.inj _ (curDestroy f) (fun i j g pl => pl.destroy h.rep.inj f n hn)]
  simp [Abs.destroyAt, h.curs, hfd, h.fdel]

/-! ## small facts about `lookup` -/

theorem lookup_mem {β : Type} : ∀ (l : List (Nat × β)) (k : Nat) (v : β), l.lookup k = some v → (k, v) ∈ l := by
  intro l k v
  induction l with
  | nil => simp
  | cons a rest ih =>
    obtain ⟨k', v'⟩ := a
    rw [List.lookup_cons]
    by_cases e : k = k'
    · subst e; simp; intro e; simp [e]
    · have : (k == k') = false := by simpa using e
      simp only [this]
      intro h; simp [ih h]

theorem lookup_map_snd {β γ : Type} (f : β → γ) : ∀ (l : List (Nat × β)) (k : Nat),
    (l.map (fun ki => (ki.1, f ki.2))).lookup k = (l.lookup k).map f := by
  intro l k
  induction l with
  | nil => simp
  | cons a rest ih =>
    obtain ⟨k', v'⟩ := a
    simp only [List.map_cons, List.lookup_cons]
    by_cases e : (k == k') = true
    · simp [e]
    · have : (k == k') = false := by simpa using e
      simp [this, ih]

theorem lookup_none_not_mem {β : Type} (l : List (Nat × β)) (k : Nat) (h : l.lookup k = none) : k ∉ l.map (·.1) := by
  rw [List.lookup_eq_none_iff] at h
  intro hm
  simp only [List.mem_map] at hm
  obtain ⟨p, hp, rfl⟩ := hm
  have := h p hp
  simp at this

theorem RepA.curOf {l : LList α} {ns : List Nat} {a : Abs α} (h : RepA l ns a) (k : Nat) :
    a.curOf k = (iterOf l k).map (cur ns) := by
  unfold Abs.curOf iterOf
  rw [h.curs, lookup_map_snd]

theorem RepA.len {l : LList α} {ns : List Nat} {a : Abs α} (h : RepA l ns a) : a.items.length = ns.length := h.rep.len

/-! ## the simple calls -/

theorem append_abs {l : LList α} {ns : List Nat} {a : Abs α} (h : RepA l ns a) (x : α) :
    ∃ l' ns', append l x = some l' ∧ RepA l' ns' (a.append x) := by
  obtain ⟨l', p, e, hr⟩ := nodeCreate_abs h ns.length x (Nat.le_refl _)
  refine ⟨l', ns.insertIdx ns.length p, ?_, ?_⟩
  · unfold append; rw [h.rep.tail]; exact e
  · unfold Abs.append; rw [h.len]; exact hr

theorem prepend_abs {l : LList α} {ns : List Nat} {a : Abs α} (h : RepA l ns a) (x : α) :
    ∃ l' ns', prepend l x = some l' ∧ RepA l' ns' (a.prepend x) := by
  obtain ⟨l', p, e, hr⟩ := nodeCreate_abs h 0 x (Nat.zero_le _)
  exact ⟨l', _, e, hr⟩

theorem pop_abs {l : LList α} {ns : List Nat} {a : Abs α} (h : RepA l ns a) :
    ∃ l' ns', pop l = some ((a.pop).1, l') ∧ RepA l' ns' (a.pop).2 := by
  unfold pop Abs.pop
  by_cases e : ns.length = 0
  · have h0 : a.items[0]? = none := List.getElem?_eq_none (by have := h.len; omega)
    have := nodeDestroy_end h.rep
    rw [e] at this
    simp only [h0]
    exact ⟨l, ns, this, h⟩
  · obtain ⟨n, hn⟩ : ∃ n, ns[0]? = some n := ⟨ns[0]'(by omega), by simp⟩
    obtain ⟨l', e', hr⟩ := nodeDestroy_abs h 0 n hn
    obtain ⟨v, hv⟩ : ∃ v, a.items[0]? = some v := ⟨a.items[0]'(by have := h.len; omega), by simp⟩
    simp only [hv]
    rw [hv] at e'
    exact ⟨l', _, e', hr⟩

theorem peek_abs {l : LList α} {ns : List Nat} {a : Abs α} (h : RepA l ns a) : peek l = some a.items[0]? := by
  unfold peek
  rw [h.rep.head]
  by_cases e : ns.length = 0
  · have h0 : a.items[0]? = none := List.getElem?_eq_none (by have := h.len; omega)
    have h1 : ns[0]? = none := List.getElem?_eq_none (by omega)
    simp [h0, h1]
  · obtain ⟨n, hn⟩ : ∃ n, ns[0]? = some n := ⟨ns[0]'(by omega), by simp⟩
    simp [hn, h.rep.cell 0 n hn]

theorem count_abs {l : LList α} {ns : List Nat} {a : Abs α} (h : RepA l ns a) : countOf l = a.items.length := by
  unfold countOf; rw [h.rep.count, h.len]

theorem isEmpty_abs {l : LList α} {ns : List Nat} {a : Abs α} (h : RepA l ns a) : isEmpty l = a.items.isEmpty := by
  unfold isEmpty; rw [h.rep.count, ← h.len]
  cases a.items <;> simp

/-! ## iterators -/

theorem Chain.next_at {l : LList α} {ns : List Nat} {items : List α} (h : Chain l ns items) (m : Nat) :
    (match ns[m]? with | none => some none | some p => (l.cells[p]?).map (·.next)) = some ns[m + 1]? := by
  by_cases hlt : m < ns.length
  · obtain ⟨n, hn⟩ : ∃ n, ns[m]? = some n := ⟨ns[m]'hlt, by simp⟩
    simp [hn, h.cell m n hn]
  · have h1 : ns[m]? = none := List.getElem?_eq_none (by omega)
    have h2 : ns[m + 1]? = none := List.getElem?_eq_none (by omega)
    simp [h1, h2]

theorem Chain.data_at {l : LList α} {ns : List Nat} {items : List α} (h : Chain l ns items) (m : Nat) :
    (match ns[m]? with | none => some none | some p => (l.cells[p]?).map (·.data)) = some items[m]? := by
  by_cases hlt : m < ns.length
  · obtain ⟨n, hn⟩ : ∃ n, ns[m]? = some n := ⟨ns[m]'hlt, by simp⟩
    simp [hn, h.cell m n hn]
  · have h1 : ns[m]? = none := List.getElem?_eq_none (by omega)
    have h2 : items[m]? = none := List.getElem?_eq_none (by rw [h.len]; omega)
    simp [h1, h2]

theorem setIter_keys (l : LList α) (k : Nat) (v : Iter) : (setIter l k v).iters.map (·.1) = l.iters.map (·.1) := by
  unfold setIter
  simp only [List.map_map]
  apply List.map_congr_left
  intro ki _
  simp only [Function.comp]
  split <;> simp_all

theorem RepA.setIter {l : LList α} {ns : List Nat} {a : Abs α} (h : RepA l ns a) (k : Nat) (v : Iter) (j : Nat) (g : Bool)
    (pl : Place ns v j g) : RepA (setIter l k v) ns (a.setCur k (j, g)) := by
  have hr : Rep (LsdList.setIter l k v) ns a.items := by
    refine ⟨h.rep.toChain.congr rfl rfl, h.rep.count, h.rep.tail, h.rep.freeNodup, h.rep.freeOk, ?_, ?_⟩
    · rw [setIter_keys]; exact h.rep.keys
    · intro ki hki
      simp only [LsdList.setIter, List.mem_map] at hki
      obtain ⟨ki0, hk0, rfl⟩ := hki
      split
      · exact ⟨j, g, pl⟩
      · exact h.rep.place ki0 hk0
  refine ⟨hr, ?_⟩
  rw [hr.absOf_eq]
  simp only [LsdList.setIter, Abs.setCur, h.curs, List.map_map, h.fdel]
  congr 1
  apply List.map_congr_left
  intro ki _
  simp only [Function.comp]
  split <;> simp_all [pl.cur h.rep.inj]

theorem iterOf_place {l : LList α} {ns : List Nat} {items : List α} (h : Rep l ns items) (k : Nat) (i : Iter)
    (hk : iterOf l k = some i) : Place ns i (cur ns i).1 (cur ns i).2 := by
  obtain ⟨j, g, pl⟩ := h.place (k, i) (lookup_mem _ _ _ hk)
  rw [pl.cur h.inj]; exact pl

theorem iteratorCreate_abs {l : LList α} {ns : List Nat} {a : Abs α} (h : RepA l ns a) (k : Nat) (hk : iterOf l k = none) :
    RepA (iteratorCreate l k) ns (a.itCreate k) := by
  have pl : Place ns { pos := l.head, prev := .head } 0 false := ⟨by simp, rfl, by simp [h.rep.head]⟩
  have hr : Rep (iteratorCreate l k) ns a.items := by
    refine ⟨h.rep.toChain.congr rfl rfl, h.rep.count, h.rep.tail, h.rep.freeNodup, h.rep.freeOk, ?_, ?_⟩
    · simp only [iteratorCreate, List.map_cons]
      exact List.nodup_cons.mpr ⟨lookup_none_not_mem _ _ hk, h.rep.keys⟩
    · intro ki hki
      simp only [iteratorCreate, List.mem_cons] at hki
      rcases hki with rfl | hki
      · exact ⟨0, false, pl⟩
      · exact h.rep.place ki hki
  refine ⟨hr, ?_⟩
  rw [hr.absOf_eq]
  simp [iteratorCreate, Abs.itCreate, h.curs, h.fdel, pl.cur h.rep.inj]

theorem iteratorReset_abs {l : LList α} {ns : List Nat} {a : Abs α} (h : RepA l ns a) (k : Nat) (i : Iter)
    (hk : iterOf l k = some i) :
    ∃ l', iteratorReset l k = some l' ∧ a.itReset k = some (a.setCur k (0, false)) ∧ RepA l' ns (a.setCur k (0, false)) := by
  have pl : Place ns { pos := l.head, prev := .head } 0 false := ⟨by simp, rfl, by simp [h.rep.head]⟩
  refine ⟨_, by simp [iteratorReset, hk], by simp [Abs.itReset, h.curOf, hk], h.setIter k _ 0 false pl⟩

theorem iteratorDestroy_abs {l : LList α} {ns : List Nat} {a : Abs α} (h : RepA l ns a) (k : Nat) (i : Iter)
    (hk : iterOf l k = some i) :
    ∃ l' a', iteratorDestroy l k = some l' ∧ a.itDestroy k = some a' ∧ RepA l' ns a' := by
  have hsub : (l.iters.eraseP (fun ki => ki.1 == k)).Sublist l.iters := List.eraseP_sublist
  have hr : Rep ({ l with iters := l.iters.eraseP (fun ki => ki.1 == k) } : LList α) ns a.items := by
    refine ⟨h.rep.toChain.congr rfl rfl, h.rep.count, h.rep.tail, h.rep.freeNodup, h.rep.freeOk, ?_, ?_⟩
    · exact List.Nodup.sublist (hsub.map _) h.rep.keys
    · intro ki hki; exact h.rep.place ki (hsub.subset hki)
  refine ⟨_, { a with curs := a.curs.eraseP (fun kc => kc.1 == k) }, by simp [iteratorDestroy, hk],
    by simp [Abs.itDestroy, h.curOf, hk], hr, ?_⟩
  rw [hr.absOf_eq]
  simp only [h.curs, h.fdel, List.eraseP_map]
  rfl

theorem next_abs {l : LList α} {ns : List Nat} {a : Abs α} (h : RepA l ns a) (k : Nat) (i : Iter) (hk : iterOf l k = some i) :
    ∃ l' r a', next l k = some (r, l') ∧ a.next k = some (r, a') ∧ RepA l' ns a' := by
  have pl := iterOf_place h.rep k i hk
  generalize (cur ns i).1 = j at pl
  generalize hg : (cur ns i).2 = g at pl
  have hle := pl.le
  have hj : j ≤ ns.length := by omega
  have hcur : a.curOf k = some (j, g) := by rw [h.curOf, hk]; simp [pl.cur h.rep.inj]
  have e1 := h.rep.toChain.next_at (j + g.toNat)
  have e2 := h.rep.toChain.data_at (j + g.toNat)
  rw [← pl.pos] at e1 e2
  have e3 := h.rep.toChain.load j hj
  rw [← pl.prev] at e3
  have pl' : Place ns { pos := ns[j + g.toNat + 1]?, prev := fieldAt ns (if g then j + 1 else j) } (if g then j + 1 else j)
      (decide (j + g.toNat < a.items.length)) := by
    rw [h.len]
    by_cases hlt : j + g.toNat < ns.length
    · have hd : decide (j + g.toNat < ns.length) = true := by simpa using hlt
      rw [hd]
      cases g with
      | false => exact ⟨by simp at hlt ⊢; omega, rfl, by simp⟩
      | true => exact ⟨by simp at hlt ⊢; omega, rfl, by simp⟩
    · have hd : decide (j + g.toNat < ns.length) = false := by simpa using hlt
      rw [hd]
      have hn1 : ns[j + g.toNat + 1]? = none := List.getElem?_eq_none (by omega)
      have hn2 : ns[j + g.toNat]? = none := List.getElem?_eq_none (by omega)
      cases g with
      | false => exact ⟨by simp; omega, rfl, by simp at hn1 hn2 ⊢; simp [List.getElem?_eq_none hn1, List.getElem?_eq_none hn2]⟩
      | true => exact ⟨by simp at hle hlt ⊢; omega, rfl, by simp at hn1 hn2 ⊢; simp [List.getElem?_eq_none hn1, List.getElem?_eq_none hn2]⟩
  refine ⟨_, a.items[j + g.toNat]?, _, ?_, by simp [Abs.next, hcur], h.setIter k _ _ _ pl'⟩
  unfold next
  simp only [hk, e3]
  have hprev : ∀ (pos1 : Option Nat) (v : Option α), (match (if ns[j]? ≠ i.pos then
        (match ns[j]? with | some n => some (Ref.next n) | none => none) else some i.prev) with
      | none => none
      | some prev1 => some (v, setIter l k { pos := pos1, prev := prev1 })) =
      some (v, setIter l k { pos := pos1, prev := fieldAt ns (if g then j + 1 else j) }) := by
    intro pos1 v
    cases g with
    | false =>
      have hq : ns[j]? = i.pos := by simp [pl.pos]
      simp [hq, pl.prev]
    | true =>
      simp at hle
      have hne : ns[j]? ≠ i.pos := by
        rw [pl.pos]; intro e
        have := h.rep.inj.idx_eq j (j + 1) hj hle (by simpa using e); omega
      obtain ⟨n, hn⟩ : ∃ n, ns[j]? = some n := ⟨ns[j]'(by omega), by simp⟩
      rw [if_pos hne]
      simp [hn, fieldAt_succ ns j n hn]
  cases hpos : i.pos with
  | none =>
    simp only [hpos] at e1 e2 hprev ⊢
    rw [← Option.some.inj e1, ← Option.some.inj e2]
    exact hprev _ _
  | some p =>
    simp only [hpos] at e1 e2 hprev ⊢
    simp only [e1, e2]
    exact hprev _ _

theorem insert_abs {l : LList α} {ns : List Nat} {a : Abs α} (h : RepA l ns a) (k : Nat) (i : Iter) (x : α)
    (hk : iterOf l k = some i) :
    ∃ l' ns' a', insert l k x = some l' ∧ a.insert k x = some a' ∧ RepA l' ns' a' := by
  have pl := iterOf_place h.rep k i hk
  have hle := pl.le
  obtain ⟨l', p, e, hr⟩ := nodeCreate_abs h (cur ns i).1 x (by omega)
  refine ⟨l', _, _, ?_, by simp [Abs.insert, h.curOf, hk], hr⟩
  unfold insert; simp only [hk]; rw [pl.prev]; exact e

theorem remove_abs {l : LList α} {ns : List Nat} {a : Abs α} (h : RepA l ns a) (k : Nat) (i : Iter)
    (hk : iterOf l k = some i) :
    ∃ l' ns' r a', remove l k = some (r, l') ∧ a.remove k = some (r, a') ∧ RepA l' ns' a' := by
  have pl := iterOf_place h.rep k i hk
  generalize (cur ns i).1 = j at pl
  generalize hg : (cur ns i).2 = g at pl
  have hle := pl.le
  have hj : j ≤ ns.length := by omega
  have hcur : a.curOf k = some (j, g) := by rw [h.curOf, hk]; simp [pl.cur h.rep.inj]
  have e3 := h.rep.toChain.load j hj
  rw [← pl.prev] at e3
  unfold remove
  simp only [hk, e3]
  cases g with
  | false =>
    have hq : ns[j]? = i.pos := by simp [pl.pos]
    exact ⟨l, ns, none, a, by simp [hq], by simp [Abs.remove, hcur], h⟩
  | true =>
    simp at hle
    have hne : ns[j]? ≠ i.pos := by
      rw [pl.pos]; intro e
      have := h.rep.inj.idx_eq j (j + 1) hj hle (by simpa using e); omega
    obtain ⟨n, hn⟩ : ∃ n, ns[j]? = some n := ⟨ns[j]'(by omega), by simp⟩
    obtain ⟨l', e, hr⟩ := nodeDestroy_abs h j n hn
    refine ⟨l', _, a.items[j]?, _, ?_, by simp [Abs.remove, hcur], hr⟩
    rw [if_pos hne, pl.prev]; exact e

/-- `list_delete` on the list with cursors -/
def Abs.delete (a : Abs α) (k : Nat) : Option (Nat × List α × Abs α) :=
  (a.remove k).map (fun r => match r.1 with
    | some v => (1, if a.fdel then [v] else [], r.2)
    | none => (0, [], r.2))

theorem Abs.remove_fdel (a : Abs α) (k : Nat) (r : Option α) (a' : Abs α) (h : a.remove k = some (r, a')) : a'.fdel = a.fdel := by
  unfold Abs.remove at h
  cases hc : a.curOf k with
  | none => simp [hc] at h
  | some c =>
    simp only [hc, Option.map_some, Option.some.injEq] at h
    split at h
    · have := (Prod.mk.inj h).2; rw [← this]; rfl
    · have := (Prod.mk.inj h).2; rw [← this]

theorem delete_abs {l : LList α} {ns : List Nat} {a : Abs α} (h : RepA l ns a) (k : Nat) (i : Iter)
    (hk : iterOf l k = some i) :
    ∃ (l' : LList α) (ns' : List Nat) (r : Nat × List α) (a' : Abs α), delete l k = some (r.1, r.2, l') ∧ a.delete k = some (r.1, r.2, a') ∧ RepA l' ns' a' := by
  obtain ⟨l', ns', r, a', e1, e2, hr⟩ := remove_abs h k i hk
  have hf : l'.fdel = a.fdel := by rw [← hr.fdel, Abs.remove_fdel a k r a' e2]
  unfold delete Abs.delete
  rw [e1, e2]
  cases r with
  | none => exact ⟨l', ns', (0, []), a', rfl, rfl, hr⟩
  | some v => exact ⟨l', ns', (1, if a.fdel then [v] else []), a', by simp [hf], rfl, hr⟩
end Pm.LsdList
