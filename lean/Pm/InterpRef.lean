import Pm.Dev2
import Pm.ToBuf
import Pm.ClientStream
/-! helper lemmas for C08, part A: what each `_process_*` of `device.c` does, one statement kind at a time -/
namespace Pm.Dev2.Interp

/-- payloads of the `Out.sent` records, in order -/
def sents : List Out → List Bytes
  | [] => []
  | .sent b :: r => b :: sents r
  | _ :: r => sents r

@[simp] theorem sents_nil : sents [] = [] := rfl
@[simp] theorem sents_append (a b : List Out) : sents (a ++ b) = sents a ++ sents b := by
  induction a with
  | nil => rfl
  | cons x r ih => cases x <;> simp [sents, ih]

theorem sents_teleMem (cid pre bs) : sents (teleMem cid pre bs) = [] := by
  unfold teleMem; split <;> rfl

/-- the text `_process_send` formats: `none` = the `hostlist_sort` assertion (F19) stops the daemon -/
def sendText (fmt : Bytes) : Option (List Plug) → Option Bytes
  | some (p :: q :: r) => (rangedNames ((p :: q :: r).map (·.name))).map fun n => hsprintf fmt (some n)
  | some [p] => some (hsprintf fmt (some p.name))
  | _ => some (hsprintf fmt none)

/-! ### A1 `_process_send` -/

/-- the telemetry line of a `send` of `s` with `d.toBuf` queued: produced unless the write overran `dev->to`
    (`_process_send`: `else if (dropped > 0) err(…) else { … vpf_fun(…) }`) -/
def sendTele (d : Dev) (tele : Bool) (cid : Nat) (s : Bytes) : List Out :=
  if toOverrun d.toBuf s then [] else if tele then teleMem cid "send(dev): '" s else []

theorem sendTele_below (d : Dev) (tele : Bool) (cid : Nat) (s : Bytes) (h : (d.toBuf ++ s).length ≤ 65536) :
    sendTele d tele cid s = if tele then teleMem cid "send(dev): '" s else [] := by
  unfold sendTele; rw [toOverrun_false_of_le _ _ h]; rfl

theorem sendTele_overrun (d : Dev) (tele : Bool) (cid : Nat) (s : Bytes) (h : toOverrun d.toBuf s = true) :
    sendTele d tele cid s = [] := by
  unfold sendTele; rw [h]; rfl

/-- `stmtSend` cut into pieces: the three-way choice of the `%s` argument is `sendText`; the text is queued behind what is
    queued (`clipTo`: `dev->to` holds 65536 bytes, the oldest give way) -/
def stmtSend' (d : Dev) (a : Action) (o : Oracle) (e : ExecCtx) (fmt : Bytes) : StepR :=
  if !e.processing then
    match sendText fmt e.plugs with
    | none => ⟨d, a, o, [.abortAssert "hostlist_sort assert in _process_send"], true⟩
    | some s =>
      if (d.toBuf ++ s).isEmpty then
        ⟨{ d with toBuf := clipTo (d.toBuf ++ s) }, setTop a { e with processing := false }, o,
          [.sent s] ++ sendTele d a.telemetry a.clientId s, true⟩
      else
        ⟨{ d with toBuf := clipTo (d.toBuf ++ s) }, setTop a { e with processing := true }, o,
          [.sent s] ++ sendTele d a.telemetry a.clientId s, false⟩
  else if d.toBuf.isEmpty then ⟨d, setTop a { e with processing := false }, o, [], true⟩
  else ⟨d, a, o, [], false⟩

theorem stmtSend_eq (d : Dev) (a : Action) (o : Oracle) (e : ExecCtx) (fmt : Bytes) :
    stmtSend d a o e fmt = stmtSend' d a o e fmt := by
  unfold stmtSend stmtSend' sendTele
  rcases hpl : e.plugs with _ | _ | ⟨p, _ | ⟨q, r⟩⟩
  all_goals simp only [sendText, clipTo_isEmpty]
  all_goals (split <;> try rfl)

/-- first visit of a `send` whose text is `s`: the text is queued behind what is queued (`clipTo`: beyond 65536 bytes the
    oldest queued bytes give way), reported as sent, and — unless the write overran the buffer — shown to a telemetry client -/
theorem stmtSend_fresh (d : Dev) (a : Action) (o : Oracle) (e : ExecCtx) (fmt : Bytes) (s : Bytes)
    (hp : e.processing = false) (hs : sendText fmt e.plugs = some s) :
    (stmtSend d a o e fmt).dev = { d with toBuf := clipTo (d.toBuf ++ s) } ∧ (stmtSend d a o e fmt).oracle = o ∧
    (stmtSend d a o e fmt).out = [Out.sent s] ++ sendTele d a.telemetry a.clientId s ∧
    (stmtSend d a o e fmt).finished = (d.toBuf ++ s).isEmpty ∧
    (stmtSend d a o e fmt).act = setTop a { e with processing := !(d.toBuf ++ s).isEmpty } := by
  rw [stmtSend_eq]; unfold stmtSend'
  simp only [hp, hs, Bool.not_false, ↓reduceIte]
  by_cases hb : (d.toBuf ++ s).isEmpty = true
  · simp [hb]
  · simp [hb]

/-- the statement as it read before the capacity of `dev->to` was modelled, under the explicit no-overflow hypothesis -/
theorem stmtSend_fresh_below (d : Dev) (a : Action) (o : Oracle) (e : ExecCtx) (fmt : Bytes) (s : Bytes)
    (hp : e.processing = false) (hs : sendText fmt e.plugs = some s) (hfit : (d.toBuf ++ s).length ≤ 65536) :
    (stmtSend d a o e fmt).dev = { d with toBuf := d.toBuf ++ s } ∧ (stmtSend d a o e fmt).oracle = o ∧
    (stmtSend d a o e fmt).out = [Out.sent s] ++ (if a.telemetry then teleMem a.clientId "send(dev): '" s else []) ∧
    (stmtSend d a o e fmt).finished = (d.toBuf ++ s).isEmpty ∧
    (stmtSend d a o e fmt).act = setTop a { e with processing := !(d.toBuf ++ s).isEmpty } := by
  obtain ⟨h1, h2, h3, h4, h5⟩ := stmtSend_fresh d a o e fmt s hp hs
  rw [clipTo_of_le _ hfit] at h1
  rw [sendTele_below _ _ _ _ hfit] at h3
  exact ⟨h1, h2, h3, h4, h5⟩

theorem stmtSend_fresh_abort (d : Dev) (a : Action) (o : Oracle) (e : ExecCtx) (fmt : Bytes)
    (hp : e.processing = false) (hs : sendText fmt e.plugs = none) :
    stmtSend d a o e fmt = ⟨d, a, o, [.abortAssert "hostlist_sort assert in _process_send"], true⟩ := by
  rw [stmtSend_eq]; unfold stmtSend'
  simp only [hp, hs, Bool.not_false, ↓reduceIte]

theorem stmtSend_reentry (d : Dev) (a : Action) (o : Oracle) (e : ExecCtx) (fmt : Bytes)
    (hp : e.processing = true) :
    (stmtSend d a o e fmt).dev = d ∧ (stmtSend d a o e fmt).oracle = o ∧ (stmtSend d a o e fmt).out = [] ∧
    (stmtSend d a o e fmt).finished = d.toBuf.isEmpty ∧
    (stmtSend d a o e fmt).act = (if d.toBuf.isEmpty then setTop a { e with processing := false } else a) := by
  rw [stmtSend_eq]; unfold stmtSend'
  simp only [hp, Bool.not_true, Bool.false_eq_true, ↓reduceIte]
  split <;> simp_all

theorem stmtSend_finished (d : Dev) (a : Action) (o : Oracle) (e : ExecCtx) (fmt : Bytes)
    (h : (stmtSend d a o e fmt).finished = true) :
    (stmtSend d a o e fmt).dev.toBuf = [] ∨ hasAbort (stmtSend d a o e fmt).out = true := by
  rw [stmtSend_eq] at *; unfold stmtSend' at *
  split
  · split
    · right; simp [hasAbort]
    · split
      · left; simp_all
      · simp_all
  · split
    · left; simp_all
    · simp_all

/-! ### A2 `_process_expect` -/

/-- what `_getregex_buf` hands to `regexec`: the buffer with NUL bytes turned into 0xff -/
def rxSubject (b : Bytes) : Bytes := b.map fun x => if x == 0 then 255 else x

theorem stmtExpect_act (d : Dev) (a : Action) (o : Oracle) (pat : Nat) : (stmtExpect d a o pat).act = a := by
  unfold stmtExpect; grind

theorem stmtExpect_empty (d : Dev) (a : Action) (o : Oracle) (pat : Nat) (h : d.fromBuf = []) :
    (stmtExpect d a o pat).finished = false ∧ (stmtExpect d a o pat).oracle = o ∧ (stmtExpect d a o pat).out = [] ∧
    (stmtExpect d a o pat).dev.fromBuf = [] := by
  unfold stmtExpect; simp [h]

theorem stmtExpect_nomatch (d : Dev) (a : Action) (o : Oracle) (pat : Nat) (h : d.fromBuf ≠ [])
    (hm : (askRx o pat (rxSubject d.fromBuf)).2.1 = none) :
    (stmtExpect d a o pat).finished = false ∧ (stmtExpect d a o pat).oracle = (askRx o pat (rxSubject d.fromBuf)).1 ∧
    (stmtExpect d a o pat).out = (askRx o pat (rxSubject d.fromBuf)).2.2 ∧
    (stmtExpect d a o pat).dev.fromBuf = d.fromBuf := by
  unfold stmtExpect
  unfold rxSubject at *
  have h' : d.fromBuf.isEmpty = false := by simpa using h
  simp only [h']
  generalize askRx o pat _ = q at *
  obtain ⟨o', ans, errs⟩ := q
  simp only at hm; subst hm
  simp

theorem stmtExpect_match (d : Dev) (a : Action) (o : Oracle) (pat : Nat) (offs : List (Int × Int)) (h : d.fromBuf ≠ [])
    (hm : (askRx o pat (rxSubject d.fromBuf)).2.1 = some offs) :
    (stmtExpect d a o pat).finished = true ∧ (stmtExpect d a o pat).oracle = (askRx o pat (rxSubject d.fromBuf)).1 ∧
    (stmtExpect d a o pat).dev.fromBuf = d.fromBuf.drop (offs.headD (0, 0)).2.toNat ∧
    (stmtExpect d a o pat).dev.xmStr = some (rxSubject d.fromBuf) ∧ (stmtExpect d a o pat).dev.xmOffs = offs ∧
    (stmtExpect d a o pat).dev.xmResult = true ∧ (stmtExpect d a o pat).dev.xmUsed = true ∧
    (stmtExpect d a o pat).out = (askRx o pat (rxSubject d.fromBuf)).2.2 ++
      (if a.telemetry then teleMem a.clientId "recv(dev): '" ((rxSubject d.fromBuf).take (offs.headD (0, 0)).2.toNat) else []) := by
  unfold stmtExpect
  unfold rxSubject at *
  have h' : d.fromBuf.isEmpty = false := by simpa using h
  simp only [h']
  generalize askRx o pat _ = q at *
  obtain ⟨o', ans, errs⟩ := q
  simp only at hm; subst hm
  simp

/-- finished ⇔ the buffer is not empty and the oracle answers a match for this pattern on this buffer -/
theorem stmtExpect_finished_iff (d : Dev) (a : Action) (o : Oracle) (pat : Nat) :
    (stmtExpect d a o pat).finished = true ↔
      d.fromBuf ≠ [] ∧ ((askRx o pat (rxSubject d.fromBuf)).2.1).isSome = true := by
  by_cases h : d.fromBuf = []
  · simp [(stmtExpect_empty d a o pat h).1, h]
  · cases hm : (askRx o pat (rxSubject d.fromBuf)).2.1 with
    | none => simp [(stmtExpect_nomatch d a o pat h hm).1]
    | some offs => simp [(stmtExpect_match d a o pat offs h hm).1, h]

/-- an answer that raised no `rxMismatch` is the recorded answer to exactly this question -/
theorem askRx_honest (o : Oracle) (pat : Nat) (s : Bytes) (h : (askRx o pat s).2.2 = []) :
    ∃ c rest, o.calls = c :: rest ∧ c.pat = pat ∧ c.subject = s ∧ (askRx o pat s).2.1 = c.answer ∧
      (askRx o pat s).1 = { calls := rest } := by
  unfold askRx at *
  cases hc : o.calls with
  | nil => simp [hc] at h
  | cons c rest =>
    simp only [hc] at h ⊢
    by_cases hq : (c.pat == pat && c.subject == s) = true
    · simp only [hq, ↓reduceIte]
      simp only [Bool.and_eq_true, beq_iff_eq] at hq
      exact ⟨c, rest, rfl, hq.1, hq.2, rfl, rfl⟩
    · simp [hq] at h

/-- a statement that did not finish ends the `do … while` at once -/
theorem innerLoop_stalled (now : Time) (fuel : Nat) (d : Dev) (a : Action) (o : Oracle) (acc : List Out)
    (h : (processStmt d a o now).finished = false) :
    innerLoop now fuel d a o acc = { processStmt d a o now with out := acc ++ (processStmt d a o now).out } := by
  cases fuel <;> simp [innerLoop, h]

theorem onRun_stalled_acts (k : CS → Oracle → List Out → Option Time → PA) (rest : List Action) (c : CS) (a : Action)
    (o : Oracle) (out : List Out) (tmo : Option Time) (left : Time)
    (h : (processStmt { c.dev with wake := none } a o c.env.now).finished = false) :
    (onRun k rest c a o out tmo left).1.dev.acts = (processStmt { c.dev with wake := none } a o c.env.now).act :: rest ∧
    (onRun k rest c a o out tmo left).2.1 = (processStmt { c.dev with wake := none } a o c.env.now).oracle ∧
    (onRun k rest c a o out tmo left).2.2.1 = out ++ (processStmt { c.dev with wake := none } a o c.env.now).out := by
  unfold onRun
  simp only [innerLoop_stalled _ _ _ _ _ _ h, List.nil_append]
  generalize processStmt { c.dev with wake := none } a o c.env.now = r at *
  split
  · simp
  · simp [h]

theorem processStmt_expect (d : Dev) (a : Action) (o : Oracle) (now : Time) (pat : Nat)
    (hcur : (topCtx a).block[(topCtx a).pos]? = some (.expect pat)) :
    processStmt d a o now = stmtExpect d a o pat := by
  unfold processStmt; simp only [hcur]

/-- while the expect at the head of the block has not matched, a whole trip of `_process_action` leaves the action
    exactly as it was: same stack, same position -/
theorem onRun_expect_waits (k : CS → Oracle → List Out → Option Time → PA) (rest : List Action) (c : CS) (a : Action)
    (o : Oracle) (out : List Out) (tmo : Option Time) (left : Time) (pat : Nat)
    (hcur : (topCtx a).block[(topCtx a).pos]? = some (.expect pat))
    (h : (stmtExpect { c.dev with wake := none } a o pat).finished = false) :
    (onRun k rest c a o out tmo left).1.dev.acts = a :: rest := by
  have hp := processStmt_expect { c.dev with wake := none } a o c.env.now pat hcur
  have := (onRun_stalled_acts k rest c a o out tmo left (by rw [hp]; exact h)).1
  rw [this, hp, stmtExpect_act]

/-! ### A3 `_process_delay` -/

/-- the telemetry line of a delay -/
def delayTele (a : Action) (us : Time) : List Out :=
  if a.telemetry then [Out.telemetry a.clientId (str s!"delay(dev): {us / 1000000}.{String.ofList (List.replicate (6 - (toString (us % 1000000)).length) '0')}{us % 1000000}")] else []

/-- the second half of `_process_delay`: has the time passed? -/
def stmtDelayTail (d : Dev) (a : Action) (o : Oracle) (tele : List Out) (now : Time) (us : Time) : StepR :=
  if d.shortCircuitDelay || now ≥ a.delayStart + us then ⟨d, setTop a { (topCtx a) with processing := false }, o, tele, true⟩
  else ⟨{ d with wake := some (a.delayStart + us - now) }, a, o, tele, false⟩

/-- `stmtDelay` cut into its two entries -/
def stmtDelay' (d : Dev) (a : Action) (o : Oracle) (e : ExecCtx) (now : Time) (us : Time) : StepR :=
  if !e.processing then
    stmtDelayTail d (setTop { a with delayStart := now } { e with processing := true }) o (delayTele a us) now us
  else stmtDelayTail d a o [] now us

@[simp] theorem topCtx_setTop (a : Action) (e : ExecCtx) : topCtx (setTop a e) = e := rfl
@[simp] theorem setTop_delayStart (a : Action) (e : ExecCtx) : (setTop a e).delayStart = a.delayStart := rfl
@[simp] theorem setTop_errnum (a : Action) (e : ExecCtx) : (setTop a e).errnum = a.errnum := rfl
@[simp] theorem setTop_com (a : Action) (e : ExecCtx) : (setTop a e).com = a.com := rfl
@[simp] theorem setTop_arglist (a : Action) (e : ExecCtx) : (setTop a e).arglist = a.arglist := rfl
@[simp] theorem setTop_telemetry (a : Action) (e : ExecCtx) : (setTop a e).telemetry = a.telemetry := rfl
@[simp] theorem setTop_timeStamp (a : Action) (e : ExecCtx) : (setTop a e).timeStamp = a.timeStamp := rfl
@[simp] theorem setTop_cid (a : Action) (e : ExecCtx) : (setTop a e).clientId = a.clientId := rfl
@[simp] theorem setTop_uid (a : Action) (e : ExecCtx) : (setTop a e).uid = a.uid := rfl
@[simp] theorem setTop_exec (a : Action) (e : ExecCtx) : (setTop a e).exec = e :: a.exec.drop 1 := rfl
@[simp] theorem setTop_setTop (a : Action) (e e' : ExecCtx) : setTop (setTop a e) e' = setTop a e' := rfl

theorem stmtDelay_eq (d : Dev) (a : Action) (o : Oracle) (e : ExecCtx) (now : Time) (us : Time) :
    stmtDelay d a o e now us = stmtDelay' d a o e now us := by
  unfold stmtDelay stmtDelay' delayTele
  cases e.processing <;> rfl

theorem stmtDelay_delayStart (d : Dev) (a : Action) (o : Oracle) (e : ExecCtx) (now us : Time) :
    (stmtDelay d a o e now us).act.delayStart = (if e.processing then a.delayStart else now) := by
  rw [stmtDelay_eq]; unfold stmtDelay' stmtDelayTail
  by_cases hp : e.processing = true
  · simp only [hp, Bool.not_true, Bool.false_eq_true, ↓reduceIte]; split <;> rfl
  · have hp' : e.processing = false := by simpa using hp
    simp only [hp', Bool.not_false, ↓reduceIte]; split <;> rfl

theorem stmtDelay_finished_iff (d : Dev) (a : Action) (o : Oracle) (e : ExecCtx) (now us : Time) :
    (stmtDelay d a o e now us).finished = true ↔
      (d.shortCircuitDelay = true ∨ now ≥ (stmtDelay d a o e now us).act.delayStart + us) := by
  rw [stmtDelay_delayStart]
  rw [stmtDelay_eq]; unfold stmtDelay' stmtDelayTail
  by_cases hp : e.processing = true
  · simp only [hp, Bool.not_true, Bool.false_eq_true, ↓reduceIte]; split <;> simp_all
  · have hp' : e.processing = false := by simpa using hp
    simp only [hp', Bool.not_false, ↓reduceIte]; split <;> simp_all

/-- the first entry of a delay that is really a delay (`us > 0`, no short circuit) never finishes it -/
theorem stmtDelay_first_entry_waits (d : Dev) (a : Action) (o : Oracle) (e : ExecCtx) (now us : Time)
    (hp : e.processing = false) (hs : d.shortCircuitDelay = false) (hus : 0 < us) :
    (stmtDelay d a o e now us).finished = false ∧
    (stmtDelay d a o e now us).act = setTop { a with delayStart := now } { e with processing := true } := by
  rw [stmtDelay_eq]; unfold stmtDelay' stmtDelayTail
  have : ¬ now ≥ now + us := by unfold Time at *; omega
  simp [hp, hs, this]

/-- a delay neither reads nor writes the device buffers and asks the oracle nothing -/
theorem stmtDelay_frame (d : Dev) (a : Action) (o : Oracle) (e : ExecCtx) (now us : Time) :
    (stmtDelay d a o e now us).oracle = o ∧ (stmtDelay d a o e now us).dev.toBuf = d.toBuf ∧
    (stmtDelay d a o e now us).dev.fromBuf = d.fromBuf ∧ (stmtDelay d a o e now us).dev.args = d.args ∧
    sents (stmtDelay d a o e now us).out = [] := by
  rw [stmtDelay_eq]; unfold stmtDelay' stmtDelayTail delayTele
  split <;> split <;> (try split) <;> simp [sents]

/-! ### A4 `_process_ifonoff` -/

/-- the node an `ifon`/`ifoff` looks at: that of the first plug of the context -/
def ctxNode : Option (List Plug) → Option Bytes
  | some (p :: _) => p.node
  | _ => none

/-- the state this action's arglist holds for a node (`arglist_find`; a NULL node finds nothing) -/
def nodeState (d : Dev) (al : Nat) : Option Bytes → PState
  | some n => match (getArgs d al).find? (fun (g : Arg) => g.node == n) with
    | some g => g.state
    | none => .unknown
  | none => .unknown

def condHolds (wantOn : Bool) (st : PState) : Bool := (wantOn && st == .on) || (!wantOn && st == .off)

def bodyCtx (body : List Stmt) (plugs : Option (List Plug)) : ExecCtx :=
  { block := body, pos := 0, plugs := plugs, plugItr := none, plugCopy := none, processing := false }

/-- `stmtIf` cut into pieces -/
def stmtIf' (d : Dev) (a : Action) (o : Oracle) (e : ExecCtx) (body : List Stmt) (wantOn : Bool) : StepR :=
  if e.processing then ⟨d, setTop a { e with processing := false }, o, [], true⟩ else
  if condHolds wantOn (nodeState d a.arglist (ctxNode e.plugs)) then
    ⟨d, { a with exec := bodyCtx body (some (e.plugs.getD [])) :: { e with processing := true } :: a.exec.drop 1 }, o, [], true⟩
  else if nodeState d a.arglist (ctxNode e.plugs) == .unknown then ⟨d, { a with errnum := .expfail }, o, [], true⟩
  else ⟨d, a, o, [], true⟩

theorem stmtIf_eq (d : Dev) (a : Action) (o : Oracle) (e : ExecCtx) (body : List Stmt) (wantOn : Bool) :
    stmtIf d a o e body wantOn = stmtIf' d a o e body wantOn := by
  obtain ⟨blk, pos, plugs, itr, cp, proc⟩ := e
  rcases plugs with _ | _ | ⟨⟨nm, _ | n⟩, l⟩
  · rfl
  · rfl
  · rfl
  · rfl

theorem stmtIf_frame (d : Dev) (a : Action) (o : Oracle) (e : ExecCtx) (body : List Stmt) (wantOn : Bool) :
    (stmtIf d a o e body wantOn).dev = d ∧ (stmtIf d a o e body wantOn).oracle = o ∧
    (stmtIf d a o e body wantOn).out = [] ∧ (stmtIf d a o e body wantOn).finished = true := by
  rw [stmtIf_eq]; unfold stmtIf'
  split
  · simp
  · split
    · simp
    · split <;> simp

/-- returning from the body: the flag is cleared, nothing else happens -/
theorem stmtIf_return (d : Dev) (a : Action) (o : Oracle) (e : ExecCtx) (body : List Stmt) (wantOn : Bool)
    (hp : e.processing = true) :
    (stmtIf d a o e body wantOn).act = setTop a { e with processing := false } := by
  rw [stmtIf_eq]; unfold stmtIf'; simp [hp]

/-- the condition holds: the body is pushed, with the context's plugs -/
theorem stmtIf_taken (d : Dev) (a : Action) (o : Oracle) (e : ExecCtx) (body : List Stmt) (wantOn : Bool)
    (hp : e.processing = false) (hst : nodeState d a.arglist (ctxNode e.plugs) = (if wantOn then .on else .off)) :
    (stmtIf d a o e body wantOn).act =
      { a with exec := bodyCtx body (some (e.plugs.getD [])) :: { e with processing := true } :: a.exec.drop 1 } := by
  rw [stmtIf_eq]; unfold stmtIf'
  cases wantOn <;> simp [hp, hst, condHolds]

/-- the state is known and is the other one: nothing is pushed, nothing fails -/
theorem stmtIf_skipped (d : Dev) (a : Action) (o : Oracle) (e : ExecCtx) (body : List Stmt) (wantOn : Bool)
    (hp : e.processing = false) (hst : nodeState d a.arglist (ctxNode e.plugs) = (if wantOn then .off else .on)) :
    (stmtIf d a o e body wantOn).act = a := by
  rw [stmtIf_eq]; unfold stmtIf'
  cases wantOn <;> simp [hp, hst, condHolds]

/-- the state is unknown: nothing is pushed and the action fails -/
theorem stmtIf_unknown (d : Dev) (a : Action) (o : Oracle) (e : ExecCtx) (body : List Stmt) (wantOn : Bool)
    (hp : e.processing = false) (hst : nodeState d a.arglist (ctxNode e.plugs) = .unknown) :
    (stmtIf d a o e body wantOn).act = { a with errnum := .expfail } := by
  rw [stmtIf_eq]; unfold stmtIf'
  cases wantOn <;> simp [hp, hst, condHolds]

/-- conversely: whenever the stack grew, the flag was clear and the plug's state was the wanted one -/
theorem stmtIf_pushed_only_if (d : Dev) (a : Action) (o : Oracle) (e : ExecCtx) (body : List Stmt) (wantOn : Bool)
    (hne : a.exec ≠ [])
    (h : (stmtIf d a o e body wantOn).act.exec.length > a.exec.length) :
    e.processing = false ∧ nodeState d a.arglist (ctxNode e.plugs) = (if wantOn then .on else .off) := by
  rw [stmtIf_eq] at h; unfold stmtIf' at h
  have hl : (a.exec.drop 1).length + 1 = a.exec.length := by
    cases hx : a.exec with
    | nil => exact absurd hx hne
    | cons x xs => simp
  by_cases hp : e.processing = true
  · simp [hp] at h; omega
  · have hp' : e.processing = false := by simpa using hp
    refine ⟨hp', ?_⟩
    simp only [hp', Bool.false_eq_true, ↓reduceIte] at h
    split at h
    · rename_i hc
      unfold condHolds at hc
      cases wantOn <;> simp_all
    · split at h <;> simp at h

/-! ### A5 `_process_setplugstate`, `_process_setresult`: the first matching interpretation -/

/-- an oracle that is a function: the answer depends on pattern and subject only (what `regexec` is) -/
def pureAsk (m : Nat → Bytes → Bool) : Oracle → Nat → Bytes → Oracle × Option (List (Int × Int)) × List Out :=
  fun o pat s => (o, if m pat s then some [] else none, [])

theorem pickState_pure (m : Nat → Bytes → Bool) (s : Bytes) (l : List (PState × Nat)) (o : Oracle) (errs : List Out) :
    pickState (pureAsk m) s l o errs = (o, ((l.find? fun i => m i.2 s).map (·.1)).getD .unknown, errs) := by
  induction l generalizing errs with
  | nil => simp [pickState]
  | cons p r ih =>
    obtain ⟨st, pat⟩ := p
    unfold pickState
    by_cases h : m pat s = true
    · simp [pureAsk, h]
    · simp [pureAsk, h, ih]

theorem pickResult_pure (m : Nat → Bytes → Bool) (s : Bytes) (l : List (PResult × Nat)) (o : Oracle) (errs : List Out) :
    pickResult (pureAsk m) s l o errs = (o, ((l.find? fun i => m i.2 s).map (·.1)).getD .unknown, errs) := by
  induction l generalizing errs with
  | nil => simp [pickResult]
  | cons p r ih =>
    obtain ⟨st, pat⟩ := p
    unfold pickResult
    by_cases h : m pat s = true
    · simp [pureAsk, h]
    · simp [pureAsk, h, ih]

theorem askRx_cons (x : RxCall) (xs : List RxCall) (pat : Nat) (s : Bytes) :
    ∃ E, askRx ⟨x :: xs⟩ pat s = (⟨xs⟩, x.answer, E) := by
  unfold askRx
  by_cases hq : (x.pat == pat && x.subject == s) = true
  · exact ⟨[], by simp only [hq, ↓reduceIte]⟩
  · exact ⟨[.rxMismatch x (pat, s)], by simp only [hq]; rfl⟩

/-- with the recorded oracle: interpretations are tried in list order, one recorded call each; the first call answered
    with a match decides -/
theorem pickState_first (s : Bytes) (l : List (PState × Nat)) (pre : List RxCall) (c : RxCall) (post : List RxCall)
    (errs : List Out) (hpre : ∀ x ∈ pre, x.answer = none) (hc : c.answer.isSome = true) (hlen : pre.length < l.length) :
    (pickState askRx s l ⟨pre ++ c :: post⟩ errs).1 = ⟨post⟩ ∧
    (pickState askRx s l ⟨pre ++ c :: post⟩ errs).2.1 = (l[pre.length]'hlen).1 := by
  induction l generalizing pre errs with
  | nil => simp at hlen
  | cons p r ih =>
    obtain ⟨st, pat⟩ := p
    cases pre with
    | nil =>
      obtain ⟨E, hE⟩ := askRx_cons c post pat s
      rw [pickState]
      simp [hE, hc]
    | cons x xs =>
      have hx : x.answer = none := hpre x (by simp)
      have hxs : ∀ y ∈ xs, y.answer = none := fun y hy => hpre y (by simp [hy])
      have hl : xs.length < r.length := by simpa using hlen
      obtain ⟨E, hE⟩ := askRx_cons x (xs ++ c :: post) pat s
      rw [pickState]
      simp only [List.cons_append, hE, hx, Option.isSome_none, Bool.false_eq_true, ↓reduceIte]
      simpa using ih xs _ hxs hl

/-- … and when none of them matches the state is `unknown` -/
theorem pickState_nomatch (s : Bytes) (l : List (PState × Nat)) (pre post : List RxCall)
    (errs : List Out) (hpre : ∀ x ∈ pre, x.answer = none) (hlen : pre.length = l.length) :
    (pickState askRx s l ⟨pre ++ post⟩ errs).1 = ⟨post⟩ ∧
    (pickState askRx s l ⟨pre ++ post⟩ errs).2.1 = .unknown := by
  induction l generalizing pre errs with
  | nil =>
    have : pre = [] := by simpa using hlen
    subst this; simp [pickState]
  | cons p r ih =>
    obtain ⟨st, pat⟩ := p
    cases pre with
    | nil => simp at hlen
    | cons x xs =>
      have hx : x.answer = none := hpre x (by simp)
      have hxs : ∀ y ∈ xs, y.answer = none := fun y hy => hpre y (by simp [hy])
      have hl : xs.length = r.length := by simpa using hlen
      obtain ⟨E, hE⟩ := askRx_cons x (xs ++ post) pat s
      rw [pickState]
      simp only [List.cons_append, hE, hx, Option.isSome_none, Bool.false_eq_true, ↓reduceIte]
      exact ih xs _ hxs hl

/-- with the recorded oracle: interpretations are tried in list order, one recorded call each; the first call answered
    with a match decides -/
theorem pickResult_first (s : Bytes) (l : List (PResult × Nat)) (pre : List RxCall) (c : RxCall) (post : List RxCall)
    (errs : List Out) (hpre : ∀ x ∈ pre, x.answer = none) (hc : c.answer.isSome = true) (hlen : pre.length < l.length) :
    (pickResult askRx s l ⟨pre ++ c :: post⟩ errs).1 = ⟨post⟩ ∧
    (pickResult askRx s l ⟨pre ++ c :: post⟩ errs).2.1 = (l[pre.length]'hlen).1 := by
  induction l generalizing pre errs with
  | nil => simp at hlen
  | cons p r ih =>
    obtain ⟨st, pat⟩ := p
    cases pre with
    | nil =>
      obtain ⟨E, hE⟩ := askRx_cons c post pat s
      rw [pickResult]
      simp [hE, hc]
    | cons x xs =>
      have hx : x.answer = none := hpre x (by simp)
      have hxs : ∀ y ∈ xs, y.answer = none := fun y hy => hpre y (by simp [hy])
      have hl : xs.length < r.length := by simpa using hlen
      obtain ⟨E, hE⟩ := askRx_cons x (xs ++ c :: post) pat s
      rw [pickResult]
      simp only [List.cons_append, hE, hx, Option.isSome_none, Bool.false_eq_true, ↓reduceIte]
      simpa using ih xs _ hxs hl

/-- … and when none of them matches the state is `unknown` -/
theorem pickResult_nomatch (s : Bytes) (l : List (PResult × Nat)) (pre post : List RxCall)
    (errs : List Out) (hpre : ∀ x ∈ pre, x.answer = none) (hlen : pre.length = l.length) :
    (pickResult askRx s l ⟨pre ++ post⟩ errs).1 = ⟨post⟩ ∧
    (pickResult askRx s l ⟨pre ++ post⟩ errs).2.1 = .unknown := by
  induction l generalizing pre errs with
  | nil =>
    have : pre = [] := by simpa using hlen
    subst this; simp [pickResult]
  | cons p r ih =>
    obtain ⟨st, pat⟩ := p
    cases pre with
    | nil => simp at hlen
    | cons x xs =>
      have hx : x.answer = none := hpre x (by simp)
      have hxs : ∀ y ∈ xs, y.answer = none := fun y hy => hpre y (by simp [hy])
      have hl : xs.length = r.length := by simpa using hlen
      obtain ⟨E, hE⟩ := askRx_cons x (xs ++ post) pat s
      rw [pickResult]
      simp only [List.cons_append, hE, hx, Option.isSome_none, Bool.false_eq_true, ↓reduceIte]
      exact ih xs _ hxs hl


/-- the script argument: the name of the first plug of the context -/
def ctxName : Option (List Plug) → Option Bytes
  | some (p :: _) => some p.name
  | _ => none

/-- the plug a `setplugstate` is about: literal, else capture, else script argument -/
def chosenName (d : Dev) (lit : Option Bytes) (plugMp : Int) (target : Option Bytes) : Option Bytes :=
  match lit with
  | some n => some n
  | none => match subOf d plugMp with
    | some n => some n
    | none => target

/-- the arglist after `setplugstate` wrote state `st` and text `s` for `node` -/
def writeState (as : List Arg) (node : Bytes) (st : PState) (s : Bytes) : List Arg :=
  as.map fun g => if g.node == node then { g with state := st, val := some s } else g

def writeResult (as : List Arg) (node : Bytes) (res : PResult) (s : Bytes) : List Arg :=
  as.map fun g => if g.node == node then { g with result := res, val := some s } else g

/-- `stmtSetplugstate` with the context reduced to the script argument -/
def setplugstateCore (d : Dev) (a : Action) (o : Oracle) (target : Option Bytes) (lit : Option Bytes) (plugMp statMp : Int)
    (interps : List (PState × Nat)) : StepR :=
  match chosenName d lit plugMp target with
  | none => ⟨d, a, o, [], true⟩
  | some pn =>
    match subOf d statMp, findPlug d pn with
    | some s, some plug =>
      ⟨setArgs d a.arglist (writeState (getArgs d a.arglist) (plug.node.getD []) (pickState askRx s interps o []).2.1 s),
        a, (pickState askRx s interps o []).1, (pickState askRx s interps o []).2.2, true⟩
    | _, _ => ⟨d, a, o, [], true⟩

theorem stmtSetplugstate_eq (d : Dev) (a : Action) (o : Oracle) (e : ExecCtx) (lit : Option Bytes) (plugMp statMp : Int)
    (interps : List (PState × Nat)) :
    stmtSetplugstate d a o e lit plugMp statMp interps = setplugstateCore d a o (ctxName e.plugs) lit plugMp statMp interps := by
  obtain ⟨blk, pos, plugs, itr, cp, proc⟩ := e
  unfold stmtSetplugstate setplugstateCore chosenName writeState
  cases lit with
  | some n => rfl
  | none =>
    cases subOf d plugMp with
    | some n => rfl
    | none => rcases plugs with _ | _ | ⟨p, l⟩ <;> rfl

theorem setplugstateCore_frame (d : Dev) (a : Action) (o : Oracle) (t lit : Option Bytes) (pm sm : Int)
    (is : List (PState × Nat)) :
    (setplugstateCore d a o t lit pm sm is).act = a ∧ (setplugstateCore d a o t lit pm sm is).finished = true := by
  unfold setplugstateCore
  split
  · simp
  · split <;> simp

/-- the write: only cells of this action's arglist whose node is the plug's node change, and they receive the state of
    the first matching interpretation and the captured text -/
theorem setplugstateCore_writes (d : Dev) (a : Action) (o : Oracle) (t lit : Option Bytes) (pm sm : Int)
    (is : List (PState × Nat)) (pn s : Bytes) (plug : Plug)
    (hn : chosenName d lit pm t = some pn) (hs : subOf d sm = some s) (hp : findPlug d pn = some plug) :
    (setplugstateCore d a o t lit pm sm is).dev =
      setArgs d a.arglist (writeState (getArgs d a.arglist) (plug.node.getD []) (pickState askRx s is o []).2.1 s) ∧
    (setplugstateCore d a o t lit pm sm is).oracle = (pickState askRx s is o []).1 ∧
    (setplugstateCore d a o t lit pm sm is).out = (pickState askRx s is o []).2.2 := by
  unfold setplugstateCore
  simp [hn, hs, hp]

/-- no plug name, no status capture, or a name that is not a mapped plug of this device: nothing is written -/
theorem setplugstateCore_nothing (d : Dev) (a : Action) (o : Oracle) (t lit : Option Bytes) (pm sm : Int)
    (is : List (PState × Nat))
    (h : chosenName d lit pm t = none ∨ subOf d sm = none ∨
         ∃ pn, chosenName d lit pm t = some pn ∧ findPlug d pn = none) :
    setplugstateCore d a o t lit pm sm is = ⟨d, a, o, [], true⟩ := by
  unfold setplugstateCore
  rcases h with h | h | ⟨pn, h1, h2⟩
  · simp [h]
  · split
    · rfl
    · split
      · simp_all
      · rfl
  · simp only [h1, h2]
    split
    · simp_all
    · rfl

/-- `pluglist_find` followed by the `plug->node` test: the first plug of that name, if it is mapped to a node -/
theorem findPlug_some_iff (d : Dev) (pn : Bytes) (p : Plug) :
    findPlug d pn = some p ↔ d.plugs.find? (·.name == pn) = some p ∧ p.node.isSome = true := by
  unfold findPlug
  cases h : d.plugs.find? (·.name == pn) with
  | none => simp
  | some q =>
    by_cases hq : q.node.isSome = true
    · simp only [hq, ↓reduceIte, Option.some.injEq]
      constructor
      · intro h1; subst h1; exact ⟨rfl, hq⟩
      · intro h1; exact h1.1
    · simp only [hq, Bool.false_eq_true, ↓reduceIte, Option.some.injEq]
      constructor
      · intro h1; cases h1
      · intro h1; obtain ⟨h1, h2⟩ := h1; subst h1; exact absurd h2 hq

theorem getArgs_setArgs (d : Dev) (id : Nat) (as : List Arg) : getArgs (setArgs d id as) id = as := by
  simp [getArgs, setArgs]

theorem lookup_filter_ne (l : List (Nat × List Arg)) (id id' : Nat) (h : id' ≠ id) :
    (l.filter (·.1 ≠ id)).lookup id' = l.lookup id' := by
  induction l with
  | nil => rfl
  | cons x xs ih =>
    obtain ⟨k, v⟩ := x
    by_cases hk : k = id
    · subst hk
      have h1 : (id' == k) = false := by simpa using h
      simpa [List.filter, List.lookup, h1] using ih
    · by_cases hk' : id' = k
      · subst hk'; simp [List.filter, List.lookup, hk]
      · have : (id' == k) = false := by simpa using hk'
        simpa [List.filter, List.lookup, hk, this] using ih

theorem getArgs_setArgs_ne (d : Dev) (id id' : Nat) (as : List Arg) (h : id' ≠ id) :
    getArgs (setArgs d id as) id' = getArgs d id' := by
  unfold getArgs setArgs
  have h1 : (id' == id) = false := by simpa using h
  simp only [List.lookup, h1]
  rw [lookup_filter_ne _ _ _ h]

/-- a cell whose node is not the plug's node is left exactly as it was; every cell keeps its node and its result -/
theorem writeState_spec (as : List Arg) (node : Bytes) (st : PState) (s : Bytes) :
    (writeState as node st s).length = as.length ∧
    ∀ i (h : i < as.length),
      ((writeState as node st s)[i]?).map (·.node) = some as[i].node ∧
      (as[i].node ≠ node → (writeState as node st s)[i]? = some as[i]) ∧
      (as[i].node = node → (writeState as node st s)[i]? = some { as[i] with state := st, val := some s }) := by
  unfold writeState
  refine ⟨by simp, ?_⟩
  intro i h
  simp only [List.getElem?_map, List.getElem?_eq_getElem h, Option.map_some]
  by_cases hn : as[i].node = node
  · simp [hn]
  · simp [hn]

/-- the diagnostic a `setresult` sends to the client when the result is not `success` -/
def resultDiag (d : Dev) (a : Action) (node : Bytes) (res : PResult) (s : Bytes) : List Out :=
  if (getArgs d a.arglist).any (·.node == node) && res != .success then
    [Out.diag a.clientId (node ++ str ": " ++ (s.takeWhile fun b => b != 13 && b != 10).take 1023)] else []

theorem stmtSetresult_frame (d : Dev) (a : Action) (o : Oracle) (pm sm : Int) (is : List (PResult × Nat)) :
    (stmtSetresult d a o pm sm is).act = a ∧ (stmtSetresult d a o pm sm is).finished = true := by
  unfold stmtSetresult
  split
  · simp
  · split <;> simp

theorem stmtSetresult_writes (d : Dev) (a : Action) (o : Oracle) (pm sm : Int)
    (is : List (PResult × Nat)) (pn s : Bytes) (plug : Plug)
    (hn : subOf d pm = some pn) (hs : subOf d sm = some s) (hp : findPlug d pn = some plug) :
    (stmtSetresult d a o pm sm is).dev =
      setArgs d a.arglist (writeResult (getArgs d a.arglist) (plug.node.getD []) (pickResult askRx s is o []).2.1 s) ∧
    (stmtSetresult d a o pm sm is).oracle = (pickResult askRx s is o []).1 ∧
    (stmtSetresult d a o pm sm is).out = (pickResult askRx s is o []).2.2 ++
      resultDiag d a (plug.node.getD []) (pickResult askRx s is o []).2.1 s := by
  unfold stmtSetresult resultDiag writeResult
  simp [hn, hs, hp]

theorem stmtSetresult_nothing (d : Dev) (a : Action) (o : Oracle) (pm sm : Int)
    (is : List (PResult × Nat))
    (h : subOf d pm = none ∨ subOf d sm = none ∨ ∃ pn, subOf d pm = some pn ∧ findPlug d pn = none) :
    stmtSetresult d a o pm sm is = ⟨d, a, o, [], true⟩ := by
  unfold stmtSetresult
  rcases h with h | h | ⟨pn, h1, h2⟩
  · simp [h]
  · split
    · rfl
    · split
      · simp_all
      · rfl
  · simp only [h1, h2]
    split
    · simp_all
    · rfl

/-! ### A6 `_process_foreach` -/

/-- a plug that `foreachnode` skips -/
def skipped (isNode : Bool) (p : Plug) : Bool := isNode && p.node.isNone

/-- `pluglist_next` (repeated while the plug is unmapped, for `foreachnode`): with enough fuel the answer is the first
    plug at or after `k` that is not skipped, with the index behind it; what is still to be visited is then one plug
    shorter -/
theorem nextPlug_spec (isNode : Bool) (lst : List Plug) (k fuel : Nat) (hf : lst.length < k + fuel) :
    match nextPlug isNode lst k fuel with
    | some (p, k') => k < k' ∧ k' ≤ lst.length ∧ lst[k' - 1]? = some p ∧ skipped isNode p = false ∧
        (∀ j, k ≤ j → j < k' - 1 → ∀ q, lst[j]? = some q → skipped isNode q = true) ∧
        (lst.drop k).filter (fun p => !skipped isNode p) = p :: (lst.drop k').filter (fun p => !skipped isNode p)
    | none => (lst.drop k).filter (fun p => !skipped isNode p) = [] := by
  induction fuel generalizing k with
  | zero =>
    have : lst.length ≤ k := by omega
    simp [nextPlug, List.drop_eq_nil_of_le this]
  | succ f ih =>
    unfold nextPlug
    cases hk : lst[k]? with
    | none =>
      have : lst.length ≤ k := by
        rcases Nat.lt_or_ge k lst.length with h' | h'
        · rw [List.getElem?_eq_getElem h'] at hk; cases hk
        · exact h'
      simp [List.drop_eq_nil_of_le this]
    | some p =>
      have hlt : k < lst.length := by
        rcases Nat.lt_or_ge k lst.length with h' | h'
        · exact h'
        · rw [List.getElem?_eq_none h'] at hk; cases hk
      have hp : lst[k] = p := by
        have := List.getElem?_eq_getElem hlt
        rw [this] at hk; exact Option.some.inj hk
      have hdrop : lst.drop k = p :: lst.drop (k + 1) := by
        rw [List.drop_eq_getElem_cons hlt, hp]
      by_cases hs : (isNode && p.node.isNone) = true
      · simp only [hs, ↓reduceIte]
        have := ih (k + 1) (by omega)
        have hsk : skipped isNode p = true := hs
        split at this
        · rename_i p' k' heq
          obtain ⟨h1, h2, h3, h4, h5, h6⟩ := this
          refine ⟨by omega, h2, h3, h4, ?_, ?_⟩
          · intro j hj1 hj2 q hq
            by_cases hjk : j = k
            · subst hjk; rw [hk] at hq; cases hq; exact hsk
            · exact h5 j (by omega) hj2 q hq
          · rw [hdrop, List.filter_cons]; simp [hsk, h6]
        · rename_i heq
          rw [hdrop, List.filter_cons]; simp [hsk, this]
      · simp only [hs]
        have hsk : skipped isNode p = false := by
          unfold skipped; cases h : (isNode && p.node.isNone) <;> simp_all
        refine ⟨by omega, by omega, by simpa using hk, hsk, ?_, ?_⟩
        · intro j hj1 hj2; omega
        · rw [hdrop, List.filter_cons]; simp [hsk]

/-- the plugs a `foreach` of this context runs over: the device's, or for a ranged script the targeted ones -/
def foreachList (d : Dev) (a : Action) (e : ExecCtx) : List Plug :=
  if isRanged a.com then (if e.plugItr.isNone then e.plugCopy.getD (e.plugs.getD []) else e.plugCopy.getD [])
  else d.plugs

/-- the context once the iterator exists -/
def foreachCtx (a : Action) (e : ExecCtx) : ExecCtx :=
  if e.plugItr.isNone && isRanged a.com then
    { e with plugCopy := some (e.plugCopy.getD (e.plugs.getD [])), plugItr := some 0 }
  else if e.plugItr.isNone then { e with plugItr := some 0 } else e

/-- `stmtForeach` cut into pieces -/
def stmtForeach' (d : Dev) (a : Action) (o : Oracle) (e : ExecCtx) (body : List Stmt) (isNode : Bool) : StepR :=
  match nextPlug isNode (foreachList d a e) (e.plugItr.getD 0) ((foreachList d a e).length + 1) with
  | some (p, k) =>
    ⟨d, { a with exec := bodyCtx body (some [p]) :: { foreachCtx a e with plugItr := some k } :: a.exec.drop 1 }, o, [], true⟩
  | none => ⟨d, setTop a { foreachCtx a e with plugItr := none }, o, [], true⟩

theorem stmtForeach_eq (d : Dev) (a : Action) (o : Oracle) (e : ExecCtx) (body : List Stmt) (isNode : Bool) :
    stmtForeach d a o e body isNode = stmtForeach' d a o e body isNode := by
  obtain ⟨blk, pos, plugs, itr, cp, proc⟩ := e
  unfold stmtForeach stmtForeach' foreachList foreachCtx bodyCtx
  cases itr <;> cases isRanged a.com <;> rfl

theorem stmtForeach_frame (d : Dev) (a : Action) (o : Oracle) (e : ExecCtx) (body : List Stmt) (isNode : Bool) :
    (stmtForeach d a o e body isNode).dev = d ∧ (stmtForeach d a o e body isNode).oracle = o ∧
    (stmtForeach d a o e body isNode).out = [] ∧ (stmtForeach d a o e body isNode).finished = true := by
  rw [stmtForeach_eq]; unfold stmtForeach'
  split <;> simp

/-- the plugs visited by calling the iterator again and again, starting at index `k` -/
def visitFrom (isNode : Bool) (lst : List Plug) : Nat → Nat → List Plug
  | 0, _ => []
  | n + 1, k => match nextPlug isNode lst k (lst.length + 1) with
    | some (p, k') => p :: visitFrom isNode lst n k'
    | none => []

theorem visitFrom_eq (isNode : Bool) (lst : List Plug) (n k : Nat) (h : lst.length < k + n) :
    visitFrom isNode lst n k = (lst.drop k).filter fun p => !skipped isNode p := by
  induction n generalizing k with
  | zero =>
    have : lst.length ≤ k := by omega
    simp [visitFrom, List.drop_eq_nil_of_le this]
  | succ n ih =>
    unfold visitFrom
    have hs := nextPlug_spec isNode lst k (lst.length + 1) (by omega)
    split at hs
    · rename_i p k' heq
      try simp only [heq]
      obtain ⟨h1, h2, h3, h4, h5, h6⟩ := hs
      rw [h6, ih k' (by omega)]
    · rename_i heq
      try simp only [heq]
      exact hs.symm

/-- `foreachplug` visits every plug of the list, in list order, each once -/
theorem visit_foreachplug (lst : List Plug) : visitFrom false lst (lst.length + 1) 0 = lst := by
  rw [visitFrom_eq _ _ _ _ (by omega)]
  simp [skipped]

/-- `foreachnode` visits the plugs that are mapped to a node, in list order, each once -/
theorem visit_foreachnode (lst : List Plug) :
    visitFrom true lst (lst.length + 1) 0 = lst.filter fun p => p.node.isSome := by
  rw [visitFrom_eq _ _ _ _ (by omega)]
  simp only [List.drop_zero, skipped, Bool.true_and]
  congr 1
  funext p
  cases p.node <;> rfl

/-- the iterator hands out a plug: the body is pushed for that plug alone and the iterator remembers where it stands -/
theorem stmtForeach_next (d : Dev) (a : Action) (o : Oracle) (e : ExecCtx) (body : List Stmt) (isNode : Bool) (p : Plug) (k : Nat)
    (h : nextPlug isNode (foreachList d a e) (e.plugItr.getD 0) ((foreachList d a e).length + 1) = some (p, k)) :
    (stmtForeach d a o e body isNode).act =
      { a with exec := bodyCtx body (some [p]) :: { foreachCtx a e with plugItr := some k } :: a.exec.drop 1 } := by
  rw [stmtForeach_eq]; unfold stmtForeach'; simp only [h]

/-- the list is exhausted: nothing is pushed and the iterator is destroyed -/
theorem stmtForeach_done (d : Dev) (a : Action) (o : Oracle) (e : ExecCtx) (body : List Stmt) (isNode : Bool)
    (h : nextPlug isNode (foreachList d a e) (e.plugItr.getD 0) ((foreachList d a e).length + 1) = none) :
    (stmtForeach d a o e body isNode).act = setTop a { foreachCtx a e with plugItr := none } := by
  rw [stmtForeach_eq]; unfold stmtForeach'; simp only [h]


end Pm.Dev2.Interp
