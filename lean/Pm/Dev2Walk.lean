import Pm.Dev2
/-! The address walk of `device_tcp.c` (`tcp_connect`, `tcp_finish_connect`: `while (tcp->cur && !tcp_connect_one(dev, tcp->cur))
    tcp->cur = tcp->cur->ai_next`) on the mirror `Pm/Dev2.lean`: generic lemmas used by every proof file that goes through the
    connection layer.

* `ConnFrame` / `WalkFrame`: the connection functions touch six fields of the device (`fd`, `conn`, `cur`, `statConnects`,
  `tstate`, `tcmd`), the three answer lists of the environment, the log and the abort flag — nothing else;
* `connectWalk_cases`: how a walk ends — on the first address that does not fail at once, or with the list exhausted;
* `connectOne_tel` … `finishConnectFail_tel`: the telnet decoder and the connect counter are reset / counted exactly when a
  connection comes up.
  (Which addresses are tried, the log of a walk, `tcp->cur` inside the list: `Pm/WalkProof.lean`, `Pm/CurInv.lean`.) -/
namespace Pm.Dev2

/-- every field of the device but `fd`, `conn`, `cur`, `statConnects`, `tstate`, `tcmd` is the same -/
structure ConnFrame (d d' : Dev) : Prop where
  plugs : d'.plugs = d.plugs
  scripts : d'.scripts = d.scripts
  timeout : d'.timeout = d.timeout
  acts : d'.acts = d.acts
  toBuf : d'.toBuf = d.toBuf
  fromBuf : d'.fromBuf = d.fromBuf
  xmStr : d'.xmStr = d.xmStr
  xmOffs : d'.xmOffs = d.xmOffs
  xmResult : d'.xmResult = d.xmResult
  xmUsed : d'.xmUsed = d.xmUsed
  args : d'.args = d.args
  nextUid : d'.nextUid = d.nextUid
  shortCircuitDelay : d'.shortCircuitDelay = d.shortCircuitDelay
  wake : d'.wake = d.wake
  connected : d'.connected = d.connected
  retryCount : d'.retryCount = d.retryCount
  lastRetry : d'.lastRetry = d.lastRetry
  loggedIn : d'.loggedIn = d.loggedIn
  naddr : d'.naddr = d.naddr
  statActions : d'.statActions = d.statActions
  isPipe : d'.isPipe = d.isPipe
  cpid : d'.cpid = d.cpid
  pingPeriod : d'.pingPeriod = d.pingPeriod
  lastPing : d'.lastPing = d.lastPing
  fromSize : d'.fromSize = d.fromSize

theorem ConnFrame.rfl' (d : Dev) : ConnFrame d d := by constructor <;> rfl
theorem ConnFrame.trans {a b c : Dev} (h1 : ConnFrame a b) (h2 : ConnFrame b c) : ConnFrame a c := by
  constructor
  · exact h2.plugs.trans h1.plugs
  · exact h2.scripts.trans h1.scripts
  · exact h2.timeout.trans h1.timeout
  · exact h2.acts.trans h1.acts
  · exact h2.toBuf.trans h1.toBuf
  · exact h2.fromBuf.trans h1.fromBuf
  · exact h2.xmStr.trans h1.xmStr
  · exact h2.xmOffs.trans h1.xmOffs
  · exact h2.xmResult.trans h1.xmResult
  · exact h2.xmUsed.trans h1.xmUsed
  · exact h2.args.trans h1.args
  · exact h2.nextUid.trans h1.nextUid
  · exact h2.shortCircuitDelay.trans h1.shortCircuitDelay
  · exact h2.wake.trans h1.wake
  · exact h2.connected.trans h1.connected
  · exact h2.retryCount.trans h1.retryCount
  · exact h2.lastRetry.trans h1.lastRetry
  · exact h2.loggedIn.trans h1.loggedIn
  · exact h2.naddr.trans h1.naddr
  · exact h2.statActions.trans h1.statActions
  · exact h2.isPipe.trans h1.isPipe
  · exact h2.cpid.trans h1.cpid
  · exact h2.pingPeriod.trans h1.pingPeriod
  · exact h2.lastPing.trans h1.lastPing
  · exact h2.fromSize.trans h1.fromSize

/-- a log entry that is a `read` or a `write` on the device's descriptor -/
def Sys.isIO : Sys → Bool
  | .read _ => true
  | .write _ _ => true
  | _ => false
/-- no `read`, no `write` -/
def NoIO (δ : List Sys) : Prop := ∀ s ∈ δ, s.isIO = false
theorem NoIO.nil : NoIO [] := by intro s h; simp at h
theorem NoIO.append {a b : List Sys} (h1 : NoIO a) (h2 : NoIO b) : NoIO (a ++ b) := by
  intro s h; rcases List.mem_append.1 h with h | h
  · exact h1 s h
  · exact h2 s h

/-- the pass state apart from the connection: the device (`ConnFrame`), and of the environment everything but the three answer
    lists; the log only grows, an abort stays -/
structure WalkFrame (c c' : CS) : Prop where
  dev : ConnFrame c.dev c'.dev
  now : c'.env.now = c.env.now
  revents : c'.env.revents = c.env.revents
  read : c'.env.read = c.env.read
  writeOk : c'.env.writeOk = c.env.writeOk
  wcap : c'.env.wcap = c.env.wcap
  pairs : c'.env.pairs = c.env.pairs
  pids : c'.env.pids = c.env.pids
  log : ∃ δ, c'.sys = c.sys ++ δ ∧ NoIO δ
  aborted : c.aborted = true → c'.aborted = true

theorem WalkFrame.rfl' (c : CS) : WalkFrame c c :=
  ⟨ConnFrame.rfl' _, rfl, rfl, rfl, rfl, rfl, rfl, rfl, ⟨[], by simp, NoIO.nil⟩, id⟩
theorem WalkFrame.trans {a b c : CS} (h1 : WalkFrame a b) (h2 : WalkFrame b c) : WalkFrame a c := by
  obtain ⟨δ1, e1, n1⟩ := h1.log
  obtain ⟨δ2, e2, n2⟩ := h2.log
  exact ⟨h1.dev.trans h2.dev, h2.now.trans h1.now, h2.revents.trans h1.revents, h2.read.trans h1.read,
    h2.writeOk.trans h1.writeOk, h2.wcap.trans h1.wcap, h2.pairs.trans h1.pairs, h2.pids.trans h1.pids,
    ⟨δ1 ++ δ2, by rw [e2, e1, List.append_assoc], n1.append n2⟩, fun h => h2.aborted (h1.aborted h)⟩

theorem finishConnectOne_log (c : CS) : ∃ δ, (finishConnectOne c).1.sys = c.sys ++ δ ∧ NoIO δ := by
  unfold finishConnectOne
  split
  · dsimp only; split <;> exact ⟨_, rfl, by intro s h; simp at h; subst h; rfl⟩
  · exact ⟨_, rfl, by intro s h; simp at h; subst h; rfl⟩

theorem noIO_open (fd ans : Nat) : NoIO [Sys.socket fd, Sys.connect ans] := by
  intro s h; simp at h; rcases h with rfl | rfl <;> rfl
theorem noIO_close (fd : Nat) : NoIO [Sys.close fd] := by
  intro s h; simp at h; subst h; rfl

theorem connectOne_log (c : CS) : ∃ δ, (connectOne c).1.sys = c.sys ++ δ ∧ NoIO δ := by
  unfold connectOne
  split
  · rename_i fd fr ans ar _ _
    dsimp only
    split
    · obtain ⟨δ, e, hn⟩ := finishConnectOne_log { c with env := { c.env with sockets := fr, connects := ar }, sys := c.sys ++ [Sys.socket fd, Sys.connect ans], dev := { c.dev with fd := some fd } }
      generalize finishConnectOne _ = r at *
      split
      · exact ⟨[.socket fd, .connect ans] ++ δ, by simp [e], (noIO_open fd ans).append hn⟩
      · exact ⟨[.socket fd, .connect ans] ++ δ ++ [.close fd], by simp [e], ((noIO_open fd ans).append hn).append (noIO_close fd)⟩
    · split
      · exact ⟨_, rfl, noIO_open fd ans⟩
      · exact ⟨[.socket fd, .connect ans] ++ [.close fd], by simp, (noIO_open fd ans).append (noIO_close fd)⟩
  · exact ⟨_, rfl, by intro s h; simp at h; subst h; rfl⟩

theorem connectOne_frame (c : CS) : WalkFrame c (connectOne c).1 := by
  refine ⟨?_, ?_, ?_, ?_, ?_, ?_, ?_, ?_, connectOne_log c, ?_⟩
  · constructor <;> (unfold connectOne finishConnectOne; grind)
  all_goals (unfold connectOne finishConnectOne; grind)

/-- `tcp->cur = …` alone -/
theorem setCur_frame (c : CS) (v : Option Nat) : WalkFrame c { c with dev := { c.dev with cur := v } } :=
  ⟨by constructor <;> rfl, rfl, rfl, rfl, rfl, rfl, rfl, rfl, ⟨[], by simp, NoIO.nil⟩, id⟩

theorem connectWalk_frame (n : Nat) (c : CS) : WalkFrame c (connectWalk n c) := by
  induction n generalizing c with
  | zero => exact setCur_frame c none
  | succ n ih =>
    unfold connectWalk
    split
    · exact WalkFrame.rfl' c
    · split
      · exact connectOne_frame c
      · exact (connectOne_frame c).trans ((setCur_frame _ _).trans (ih _))

theorem tcpConnect_frame (c : CS) : WalkFrame c (tcpConnect c).1 := by
  unfold tcpConnect
  split
  · exact ⟨ConnFrame.rfl' _, rfl, rfl, rfl, rfl, rfl, rfl, rfl, ⟨_, rfl, by intro s h; simp at h; subst h; rfl⟩, fun _ => rfl⟩
  · split
    · exact ⟨ConnFrame.rfl' _, rfl, rfl, rfl, rfl, rfl, rfl, rfl, ⟨_, rfl, by intro s h; simp at h; subst h; rfl⟩, fun _ => rfl⟩
    · dsimp only
      have h0 : WalkFrame c { c with dev := { c.dev with conn := 1, cur := some 0 } } :=
        ⟨by constructor <;> rfl, rfl, rfl, rfl, rfl, rfl, rfl, rfl, ⟨[], by simp, NoIO.nil⟩, id⟩
      have h1 := connectWalk_frame c.dev.naddr { c with dev := { c.dev with conn := 1, cur := some 0 } }
      generalize connectWalk c.dev.naddr _ = r at *
      split
      · exact (h0.trans h1).trans ⟨by constructor <;> rfl, rfl, rfl, rfl, rfl, rfl, rfl, rfl, ⟨[], by simp, NoIO.nil⟩, id⟩
      · exact h0.trans h1

theorem closeFd_frame (c : CS) : WalkFrame c (closeFd c) := by
  unfold closeFd
  split
  · exact ⟨by constructor <;> rfl, rfl, rfl, rfl, rfl, rfl, rfl, rfl, ⟨_, rfl, by intro s h; simp at h; rcases h with rfl | h <;> first | rfl | (rcases h with rfl | h <;> first | rfl | simp at h) | simp at h⟩, id⟩
  · exact WalkFrame.rfl' c

theorem finishConnectFail_frame (c : CS) : WalkFrame c (finishConnectFail c) := by
  unfold finishConnectFail
  have h0 := closeFd_frame c
  generalize closeFd c = c1 at *
  split
  · exact h0.trans ⟨by constructor <;> rfl, rfl, rfl, rfl, rfl, rfl, rfl, rfl, ⟨_, rfl, by intro s h; simp at h; subst h; rfl⟩, fun _ => rfl⟩
  · rename_i i _
    dsimp only
    have h1 := connectWalk_frame c1.dev.naddr { c1 with dev := { c1.dev with cur := aiNext c1.dev.naddr i } }
    generalize connectWalk c1.dev.naddr _ = r at *
    split
    · exact (h0.trans ((setCur_frame _ _).trans h1)).trans ⟨by constructor <;> rfl, rfl, rfl, rfl, rfl, rfl, rfl, rfl, ⟨[], by simp, NoIO.nil⟩, id⟩
    · exact h0.trans ((setCur_frame _ _).trans h1)

theorem pipeConnect_frame (c : CS) : (pipeConnect c).1.dev.acts = c.dev.acts := by
  unfold pipeConnect; split
  · rfl
  · split
    · rfl
    · split <;> rfl

/-! ### how a walk ends -/

/-- the outcome of `tcp_connect_one`: `true` leaves a descriptor (CONNECTED after a `connect` that completed at once and a clean
    `SO_ERROR`, otherwise the state is what it was); `false` leaves none if one was opened; the address pointer is not touched -/
theorem connectOne_cases (c : CS) :
    (connectOne c).1.dev.cur = c.dev.cur ∧
    (((connectOne c).2 = true ∧ (connectOne c).1.dev.fd.isSome = true ∧
        ((connectOne c).1.dev.conn = 2 ∨ (connectOne c).1.dev.conn = c.dev.conn)) ∨
     ((connectOne c).2 = false ∧ (connectOne c).1.dev.conn = c.dev.conn ∧
        ((connectOne c).1.dev.fd = none ∨ ((connectOne c).1.aborted = true ∧ (connectOne c).1.dev.fd = c.dev.fd)))) := by
  unfold connectOne finishConnectOne
  grind

/-- a walk ends with `cur == NULL` and whatever descriptor state the last failure left, or on an address whose
    `tcp_connect_one` returned true -/
theorem connectWalk_cases (n : Nat) (c : CS) (hfd : c.dev.fd = none) :
    ((connectWalk n c).dev.cur = none ∧ (connectWalk n c).dev.fd = none ∧ (connectWalk n c).dev.conn = c.dev.conn) ∨
    ((connectWalk n c).dev.cur.isSome = true ∧ (connectWalk n c).dev.fd.isSome = true ∧
      ((connectWalk n c).dev.conn = 2 ∨ (connectWalk n c).dev.conn = c.dev.conn)) := by
  induction n generalizing c with
  | zero => left; exact ⟨rfl, hfd, rfl⟩
  | succ n ih =>
    unfold connectWalk
    split
    · rename_i h; left; exact ⟨h, hfd, rfl⟩
    · rename_i i hi
      obtain ⟨hcur, hc⟩ := connectOne_cases c
      split
      · rename_i hok
        right
        rcases hc with ⟨_, h2, h3⟩ | ⟨h1, _⟩
        · exact ⟨by rw [hcur, hi]; rfl, h2, h3⟩
        · rw [h1] at hok; cases hok
      · rename_i hok
        rcases hc with ⟨h1, _⟩ | ⟨_, h2, h3⟩
        · rw [h1] at hok; exact absurd rfl hok
        · have hfd' : (connectOne c).1.dev.fd = none := by
            rcases h3 with h3 | ⟨_, h3⟩
            · exact h3
            · rw [h3]; exact hfd
          have := ih { (connectOne c).1 with dev := { (connectOne c).1.dev with cur := aiNext c.dev.naddr i } } hfd'
          generalize hc' : ({ (connectOne c).1 with dev := { (connectOne c).1.dev with cur := aiNext c.dev.naddr i } } : CS) = c' at this ⊢
          have hconn : c'.dev.conn = c.dev.conn := by rw [← hc']; exact h2
          rcases this with ⟨a, b, d⟩ | ⟨a, b, d⟩
          · left; exact ⟨a, b, d.trans hconn⟩
          · right; exact ⟨a, b, d.imp id (·.trans hconn)⟩

/-! ### the telnet decoder and the connect counter -/

/-- decoder state and connect counter untouched -/
def TelSame (d d' : Dev) : Prop := d'.tstate = d.tstate ∧ d'.tcmd = d.tcmd ∧ d'.statConnects = d.statConnects
/-- a connection came up: CONNECTED, the decoder reset (`_telnet_init`), one more successful connect counted -/
def TelUp (d d' : Dev) : Prop := d'.conn = 2 ∧ d'.tstate = 0 ∧ d'.tcmd = 0 ∧ d'.statConnects = d.statConnects + 1

theorem connectOne_tel (c : CS) :
    (TelSame c.dev (connectOne c).1.dev ∧ (connectOne c).1.dev.conn = c.dev.conn) ∨
    ((connectOne c).2 = true ∧ TelUp c.dev (connectOne c).1.dev) := by
  unfold connectOne finishConnectOne TelSame TelUp
  grind

theorem connectWalk_tel (n : Nat) (c : CS) :
    (TelSame c.dev (connectWalk n c).dev ∧ (connectWalk n c).dev.conn = c.dev.conn) ∨
    ((connectWalk n c).dev.cur.isSome = true ∧ TelUp c.dev (connectWalk n c).dev) := by
  induction n generalizing c with
  | zero => left; exact ⟨⟨rfl, rfl, rfl⟩, rfl⟩
  | succ n ih =>
    unfold connectWalk
    split
    · left; exact ⟨⟨rfl, rfl, rfl⟩, rfl⟩
    · rename_i i hi
      have hcur := (connectOne_cases c).1
      split
      · rename_i hok
        rcases connectOne_tel c with h | ⟨_, h⟩
        · left; exact h
        · right; exact ⟨by rw [hcur, hi]; rfl, h⟩
      · rename_i hok
        rcases connectOne_tel c with ⟨⟨a1, a2, a3⟩, a4⟩ | ⟨h, _⟩
        · have := ih { (connectOne c).1 with dev := { (connectOne c).1.dev with cur := aiNext c.dev.naddr i } }
          generalize hc' : ({ (connectOne c).1 with dev := { (connectOne c).1.dev with cur := aiNext c.dev.naddr i } } : CS) = c' at this ⊢
          have e1 : c'.dev.tstate = c.dev.tstate := by rw [← hc']; exact a1
          have e2 : c'.dev.tcmd = c.dev.tcmd := by rw [← hc']; exact a2
          have e3 : c'.dev.statConnects = c.dev.statConnects := by rw [← hc']; exact a3
          have e4 : c'.dev.conn = c.dev.conn := by rw [← hc']; exact a4
          unfold TelSame TelUp at *
          rcases this with ⟨⟨b1, b2, b3⟩, b4⟩ | ⟨b0, b1, b2, b3, b4⟩
          · left; exact ⟨⟨b1.trans e1, b2.trans e2, b3.trans e3⟩, b4.trans e4⟩
          · right; exact ⟨b0, b1, b2, b3, by rw [b4, e3]⟩
        · exact absurd h hok

/-- `tcp_connect`: the device ends NOT_CONNECTED or CONNECTING with decoder and counter untouched (also when it stops at one
    of its asserts), or CONNECTED with the decoder reset -/
theorem tcpConnect_tel (c : CS) :
    (TelSame c.dev (tcpConnect c).1.dev ∧
      ((tcpConnect c).1.dev.conn = c.dev.conn ∨ (tcpConnect c).1.dev.conn = 0 ∨ (tcpConnect c).1.dev.conn = 1)) ∨
    TelUp c.dev (tcpConnect c).1.dev := by
  unfold tcpConnect
  split
  · left; exact ⟨⟨rfl, rfl, rfl⟩, Or.inl rfl⟩
  · split
    · left; exact ⟨⟨rfl, rfl, rfl⟩, Or.inl rfl⟩
    · dsimp only
      have h := connectWalk_tel c.dev.naddr { c with dev := { c.dev with conn := 1, cur := some 0 } }
      generalize connectWalk c.dev.naddr _ = r at *
      rcases h with ⟨a, b⟩ | ⟨b0, b⟩
      · left
        split
        · exact ⟨a, Or.inr (Or.inl rfl)⟩
        · exact ⟨a, Or.inr (Or.inr b)⟩
      · right
        have : r.dev.cur.isNone = false := by cases h : r.dev.cur <;> simp_all
        simp only [this, Bool.false_eq_true, ↓reduceIte]
        exact b

theorem closeFd_tel (c : CS) : TelSame c.dev (closeFd c).dev ∧ (closeFd c).dev.conn = c.dev.conn := by
  unfold closeFd; split <;> exact ⟨⟨rfl, rfl, rfl⟩, rfl⟩

/-- `tcp_finish_connect` after a failed `SO_ERROR`: NOT_CONNECTED or still CONNECTING (on a later address) with decoder and
    counter untouched, or CONNECTED on a later address with the decoder reset -/
theorem finishConnectFail_tel (c : CS) :
    (TelSame c.dev (finishConnectFail c).dev ∧
      ((finishConnectFail c).dev.conn = 0 ∨ (finishConnectFail c).dev.conn = c.dev.conn)) ∨
    TelUp c.dev (finishConnectFail c).dev := by
  unfold finishConnectFail
  obtain ⟨⟨t1, t2, t3⟩, t4⟩ := closeFd_tel c
  generalize closeFd c = c1 at *
  split
  · left; exact ⟨⟨t1, t2, t3⟩, Or.inl rfl⟩
  · rename_i i _
    dsimp only
    have h := connectWalk_tel c1.dev.naddr { c1 with dev := { c1.dev with cur := aiNext c1.dev.naddr i } }
    generalize connectWalk c1.dev.naddr _ = r at *
    unfold TelSame TelUp at *
    rcases h with ⟨⟨a1, a2, a3⟩, b⟩ | ⟨b0, b1, b2, b3, b4⟩
    · left
      split
      · exact ⟨⟨a1.trans t1, a2.trans t2, a3.trans t3⟩, Or.inl rfl⟩
      · exact ⟨⟨a1.trans t1, a2.trans t2, a3.trans t3⟩, Or.inr (b.trans t4)⟩
    · right
      have : r.dev.cur.isNone = false := by cases h : r.dev.cur <;> simp_all
      simp only [this, Bool.false_eq_true, ↓reduceIte]
      exact ⟨b1, b2, b3, by rw [b4]; exact congrArg (· + 1) t3⟩

theorem finishConnectOne_frame (c : CS) : WalkFrame c (finishConnectOne c).1 := by
  refine ⟨?_, ?_, ?_, ?_, ?_, ?_, ?_, ?_, finishConnectOne_log c, ?_⟩
  · constructor <;> (unfold finishConnectOne; grind)
  all_goals (unfold finishConnectOne; grind)

end Pm.Dev2
