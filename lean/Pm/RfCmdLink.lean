import Pm.RfCmdProof
import Pm.RoundTrip
/-! # The plug list and the plug map of redfishpower stay in step (`Link`), for plug names that survive being parsed again

`plugs.c` keeps an ordered hostlist (`plugs_name_valid`, `stat` without arguments) and a hash map (everything else).
`plugs_add` pushes the NAME through `hostlist_push`, i.e. parses it again as a hostlist expression.  For names without
separators and brackets (`LegalName`) that is `hostlist_push_host`, and the two structures hold the same names; then every
state reachable through such lines satisfies `Linked`, which is what `powerCmd_resolved` needs. -/
namespace Pm.RfCmd
open Pm
open Pm.Daemon (createR CR)

theorem tokens_legal (n : Name) (h : LegalName n) : tokens n = [n] := by
  unfold tokens
  have := tokens_go_plain n h.2 [] [] []
  rw [List.append_nil] at this
  rw [this, tokens_go_nil]
  have hne : n ≠ [] := h.1
  simp [hne]

theorem legal_no_bracket (n : Name) (h : LegalName n) : '[' ∉ n ∧ ']' ∉ n := by
  constructor
  · intro hm; exact (legalChar_spec (h.2 _ hm)).1 rfl
  · intro hm; exact (legalChar_spec (h.2 _ hm)).2.1 rfl

/-- a legal name parsed as a hostlist expression is that one host, pushed -/
theorem createR_legal (n : Name) (h : LegalName n) : createR n = .ok (pushHost [] n) := by
  obtain ⟨h1, h2⟩ := legal_no_bracket n h
  unfold createR
  rw [tokens_legal n h]
  simp only [List.foldl_cons, List.foldl_nil]
  rw [splitOnFirst_miss '[' n h1]
  have : n.contains ']' = false := by
    cases hc : n.contains ']' with
    | false => rfl
    | true => exact absurd (by simpa using hc) h2
  simp only [this, Bool.false_eq_true, if_false]

theorem hlCreate_legal (n : Name) (h : LegalName n) : hlCreate n = some (pushHost [] n) := by
  unfold hlCreate; rw [createR_legal n h]

/-- the one range `hostlist_push_host` makes of a name -/
def rangeOf (n : Name) : HostRange :=
  match (HostName.ofName n).suffix with
  | some ds => { pfx := (HostName.ofName n).pfx, lo := (HostName.ofName n).num, hi := (HostName.ofName n).num, width := ds.length, single := false }
  | none => { pfx := n, lo := 0, hi := 0, width := 0, single := true }

theorem pushHost_eq (hl : Hostlist) (n : Name) : pushHost hl n = pushRange hl (rangeOf n) := by
  unfold pushHost rangeOf
  simp only
  cases (HostName.ofName n).suffix <;> rfl

theorem pushRange_nil (r : HostRange) : pushRange [] r = [r] := by
  unfold pushRange; simp

theorem rangeOf_count (n : Name) : (rangeOf n).count = 1 := by
  unfold rangeOf HostRange.count
  split <;> simp

/-- `hostlist_push(hl, name)` for a legal name is `hostlist_push_host` and pushes one host -/
theorem hlPush_legal (hl : Hostlist) (n : Name) (h : LegalName n) : hlPush hl n = (pushHost hl n, 1) := by
  unfold hlPush
  rw [hlCreate_legal n h]
  simp only [pushHost_eq [] n, pushRange_nil, List.foldl_cons, List.foldl_nil, hlCount, List.map_cons, List.map_nil,
    List.sum_cons, List.sum_nil, rangeOf_count, pushHost_eq hl n, Nat.add_zero]

/-- `hostlist_delete(hl, name)` for a legal name is `hostlist_delete_host` -/
theorem hlDelete_legal (hl : Hostlist) (n : Name) (h : LegalName n) : hlDelete hl n = (deleteHost hl n).1 := by
  unfold hlDelete
  rw [hlCreate_legal n h]
  have : expand (pushHost [] n) = [n] := by
    rw [expand_pushHost' [] n (fun t ht => by simp at ht)]; simp [expand_nil]
  simp only [this, List.reverse_cons, List.reverse_nil, List.nil_append, List.foldl_cons, List.foldl_nil]

/-- list and map in step -/
def Link (s : State) : Prop :=
  HWF s.plugs ∧ HPushed s.plugs ∧ (expand s.plugs).Nodup ∧
  (∀ n ∈ expand s.plugs, n ∈ s.plugMap.map (·.1)) ∧ (∀ n ∈ s.plugMap.map (·.1), n ∈ expand s.plugs)

instance (r : HostRange) : Decidable r.Pushed := by unfold HostRange.Pushed; exact inferInstance
instance (s : State) : Decidable (Link s) := by unfold Link HWF HPushed; exact inferInstance

theorem Link.linkedD {s : State} (h : Link s) : LinkedD s := ⟨h.2.1, h.2.2.2.1, h.2.2.2.2⟩
theorem Link.linked {s : State} (h : Link s) : Linked s := h.linkedD.linked

theorem Link.find_iff {s : State} (h : Link s) (n : Name) : (find s.plugs n).isSome = true ↔ n ∈ expand s.plugs := by
  constructor
  · intro hf
    cases hfi : find s.plugs n with
    | none => rw [hfi] at hf; cases hf
    | some i => exact find_mem s.plugs n i hfi
  · intro hm
    rw [find_complete s.plugs n hm (HPushed_findable s.plugs n h.2.1)]; rfl

theorem mapDelete_keys (m : PlugMap) (n : Name) : (mapDelete m n).map (·.1) = (m.map (·.1)).filter (fun k => k ≠ n) := by
  unfold mapDelete
  induction m with
  | nil => rfl
  | cons e r ih =>
    simp only [List.filter_cons, List.map_cons]
    by_cases he : e.1 = n
    · simp only [he, ne_eq, not_true_eq_false, decide_false, Bool.false_eq_true, if_false]; exact ih
    · simp only [he, ne_eq, not_false_eq_true, decide_true, if_true, List.map_cons]; rw [ih]

theorem plugsAdd_Link {s s' : State} {p host : Name} {i : Nat} {par : Option Name} (h : Link s) (hp : LegalName p)
    (ha : plugsAdd s p host i par = some s') : Link s' := by
  obtain ⟨hwf, hpu, hnd, h1, h2⟩ := h
  unfold plugsAdd at ha
  simp only at ha
  by_cases hf : (find s.plugs p).isNone = true
  · rw [if_pos hf, hlPush_legal s.plugs p hp] at ha
    simp only [Nat.succ_ne_zero, if_false] at ha
    cases ha
    have hnot : p ∉ expand s.plugs := by
      intro hm
      have := (Link.find_iff ⟨hwf, hpu, hnd, h1, h2⟩ p).mpr hm
      cases hfi : find s.plugs p with
      | none => rw [hfi] at this; cases this
      | some i => rw [hfi] at hf; cases hf
    have hlk : s.plugMap.lookup p = none := by
      cases hl : s.plugMap.lookup p with
      | none => rfl
      | some v =>
        have : p ∈ s.plugMap.map (·.1) := (lookup_isSome_iff_mem_keys _ _).mp (by rw [hl]; rfl)
        exact absurd (h2 p this) hnot
    have hexp : expand (pushHost s.plugs p) = expand s.plugs ++ [p] := expand_pushHost' s.plugs p hwf
    have hkeys : (mapUpdate s.plugMap p { plugname := p, hostname := host, hostIdx := i, parent := par }).map (·.1) =
        s.plugMap.map (·.1) ++ [p] := by rw [mapUpdate_keys, hlk]; simp
    refine ⟨pushHost_HWF _ _ hwf, pushHost_HPushed _ _ hpu, ?_, ?_, ?_⟩
    · show (expand (pushHost s.plugs p)).Nodup
      rw [hexp, List.nodup_append]
      refine ⟨hnd, by simp, ?_⟩
      intro a ha b hb
      simp at hb; subst hb
      intro e; subst e; exact hnot ha
    · intro n hn
      show n ∈ (mapUpdate s.plugMap p _).map (·.1)
      rw [hkeys]
      have : n ∈ expand s.plugs ++ [p] := by rw [← hexp]; exact hn
      rcases List.mem_append.mp this with h | h
      · exact List.mem_append.mpr (Or.inl (h1 n h))
      · exact List.mem_append.mpr (Or.inr h)
    · intro n hn
      show n ∈ expand (pushHost s.plugs p)
      rw [hexp]
      have : n ∈ s.plugMap.map (·.1) ++ [p] := by rw [← hkeys]; exact hn
      rcases List.mem_append.mp this with h | h
      · exact List.mem_append.mpr (Or.inl (h2 n h))
      · exact List.mem_append.mpr (Or.inr h)
  · rw [if_neg hf] at ha
    cases ha
    have hsome : (find s.plugs p).isSome = true := by
      cases hfi : find s.plugs p with
      | none => rw [hfi] at hf; exact absurd rfl hf
      | some i => rfl
    have hm : p ∈ expand s.plugs := (Link.find_iff ⟨hwf, hpu, hnd, h1, h2⟩ p).mp hsome
    have hlk : (s.plugMap.lookup p).isSome = true := (lookup_isSome_iff_mem_keys _ _).mpr (h1 p hm)
    have hkeys : (mapUpdate s.plugMap p { plugname := p, hostname := host, hostIdx := i, parent := par }).map (·.1) =
        s.plugMap.map (·.1) := by rw [mapUpdate_keys, if_pos hlk]
    refine ⟨hwf, hpu, hnd, ?_, ?_⟩
    · intro n hn; show n ∈ (mapUpdate s.plugMap p _).map (·.1); rw [hkeys]; exact h1 n hn
    · intro n hn
      have : n ∈ (mapUpdate s.plugMap p _).map (·.1) := hn
      rw [hkeys] at this; exact h2 n this

theorem plugsRemove_Link {s : State} {n : Name} (h : Link s) (hn : LegalName n) : Link (plugsRemove s n) := by
  obtain ⟨hwf, hpu, hnd, h1, h2⟩ := h
  unfold plugsRemove
  have hd := deleteHost_expand s.plugs n hwf (HPushed_findable s.plugs n hpu)
  refine ⟨?_, ?_, ?_, ?_, ?_⟩
  · show HWF (hlDelete s.plugs n); rw [hlDelete_legal _ _ hn]; exact deleteHost_HWF _ _ hwf
  · show HPushed (hlDelete s.plugs n); rw [hlDelete_legal _ _ hn]; exact deleteHost_HPushed _ _ hpu
  · show (expand (hlDelete s.plugs n)).Nodup
    rw [hlDelete_legal _ _ hn, hd.1]; exact hnd.erase n
  · intro x hx
    have hx' : x ∈ expand (hlDelete s.plugs n) := hx
    rw [hlDelete_legal _ _ hn, hd.1, hnd.mem_erase_iff] at hx'
    show x ∈ (mapDelete s.plugMap n).map (·.1)
    rw [mapDelete_keys]
    exact List.mem_filter.mpr ⟨h1 x hx'.2, by simpa using hx'.1⟩
  · intro x hx
    have hx' : x ∈ (mapDelete s.plugMap n).map (·.1) := hx
    rw [mapDelete_keys] at hx'
    obtain ⟨a, b⟩ := List.mem_filter.mp hx'
    show x ∈ expand (hlDelete s.plugs n)
    rw [hlDelete_legal _ _ hn, hd.1, hnd.mem_erase_iff]
    exact ⟨by simpa using b, h2 x a⟩

/-! ### `createR` (the mirror of `hostlist_create` used by the daemon model and here) and `create` agree on success -/

def crStep (acc : CR) (tok : List Char) : CR :=
  match acc with
  | .ok hl =>
    match createTok hl tok with
    | .ok hl' => .ok hl'
    | .error _ => .err
  | other => other

theorem createR_eq_foldl (s : List Char) : createR s = (tokens s).foldl crStep (.ok []) := by
  unfold createR
  congr 1
  funext acc tok
  unfold crStep createTok
  cases acc with
  | ok hl =>
    simp only
    rcases h1 : splitOnFirst '[' tok with ⟨pfx, _ | rest⟩
    · simp only
      by_cases hc : ']' ∈ tok <;> simp [hc]
    · simp only
      rcases h2 : splitOnFirst ']' rest with ⟨body, _ | sfx⟩
      · simp
      · simp only
        cases h3 : parseRangeList body with
        | error e => simp
        | ok rs => simp only; by_cases hs : sfx.isEmpty = true <;> simp [hs]
  | err => rfl
  | fatal => rfl

theorem crStep_not_ok (toks : List (List Char)) : ∀ (acc : CR), (∀ hl, acc ≠ .ok hl) →
    ∀ hl, toks.foldl crStep acc ≠ .ok hl := by
  induction toks with
  | nil => intro acc h hl; exact h hl
  | cons t r ih =>
    intro acc h hl
    simp only [List.foldl_cons]
    apply ih
    intro hl'
    cases acc with
    | ok x => exact absurd rfl (h x)
    | err => intro e; cases e
    | fatal => intro e; cases e

theorem crFold_ok (toks : List (List Char)) : ∀ (hl hl' : Hostlist),
    toks.foldl crStep (.ok hl) = .ok hl' → toks.foldlM createTok hl = .ok hl' := by
  induction toks with
  | nil => intro hl hl' h; simp at h; subst h; rfl
  | cons t r ih =>
    intro hl hl' h
    simp only [List.foldl_cons] at h
    simp only [List.foldlM_cons]
    cases hc : createTok hl t with
    | error e =>
      have : crStep (.ok hl) t = .err := by unfold crStep; simp only [hc]
      rw [this] at h
      exact absurd h (crStep_not_ok r .err (fun _ e => by cases e) hl')
    | ok x =>
      have : crStep (.ok hl) t = .ok x := by unfold crStep; simp only [hc]
      rw [this] at h
      exact ih x hl' h

theorem create_of_createR (s : List Char) (hl : Hostlist) (h : createR s = .ok hl) : create s = .ok hl := by
  rw [createR_eq_foldl] at h
  rw [create_eq]
  exact crFold_ok _ _ _ h

theorem hlCreate_HWF (a : Name) (hl : Hostlist) (h : hlCreate a = some hl) : HWF hl := by
  unfold hlCreate at h
  cases hc : createR a with
  | ok x => rw [hc] at h; cases h; exact create_HWF a _ (create_of_createR a _ hc)
  | err => rw [hc] at h; cases h
  | fatal => rw [hc] at h; cases h

theorem nthC_mem (hl : Hostlist) (hw : HWF hl) (i : Nat) (p : Name) (h : nthC hl i = some p) : p ∈ expand hl := by
  rw [nthC_spec hl i hw] at h
  exact List.mem_of_getElem? h

/-! ### every command keeps `Link` (names legal) -/

def HostsLegal (s : State) : Prop := ∀ n ∈ expand s.hosts, LegalName n

theorem Link_of_frame {s s' : State} (h : Link s) (h1 : s'.plugs = s.plugs) (h2 : s'.plugMap = s.plugMap) : Link s' := by
  unfold Link at *; rw [h1, h2]; exact h

theorem foldl_plugsRemove_Link (l : List Name) (hl : ∀ n ∈ l, LegalName n) : ∀ (s : State), Link s →
    Link (l.foldl plugsRemove s) := by
  induction l with
  | nil => intro s h; exact h
  | cons n r ih =>
    intro s h
    exact ih (fun x hx => hl x (List.mem_cons_of_mem _ hx)) _ (plugsRemove_Link h (hl n (List.mem_cons_self ..)))

theorem removeInitialPlugs_Link (s : State) (h : Link s) (hh : HostsLegal s) : Link (removeInitialPlugs s) := by
  unfold removeInitialPlugs
  split
  · exact h
  · exact foldl_plugsRemove_Link _ hh s h

theorem setupPlug_Link {s s' : State} {p his : Name} {par : Option Name} (h : Link s) (hp : LegalName p)
    (ha : setupPlug s p his par = .ok s') : Link s' := by
  unfold setupPlug at ha
  simp only at ha
  split at ha
  · cases ha
  · split at ha
    · cases ha
    · split at ha
      · cases ha
      · rename_i s1 h1
        cases ha
        exact Link_of_frame (plugsAdd_Link h hp h1) rfl rfl

theorem setplugsLoop_Link (lplugs : Hostlist) (idx : Nat → Option Name) (parent : Option Name)
    (hleg : ∀ i p, nthC lplugs i = some p → LegalName p) :
    ∀ (k i : Nat) (s : State), Link s → Link (setplugsLoop lplugs idx parent k i s).st := by
  intro k
  induction k with
  | zero => intro i s h; exact h
  | succ k ih =>
    intro i s h
    unfold setplugsLoop
    split
    · exact h
    · rename_i plug hp
      split
      · exact h
      · split
        · rename_i s' hs
          exact ih (i + 1) s' (setupPlug_Link h (hleg i plug hp) hs)
        · exact h
        · exact h

theorem setplugs_Link (s : State) (av : List Name) (h : Link s) (hh : HostsLegal s)
    (hleg : ∀ a0 rest lplugs, av = a0 :: rest → hlCreate a0 = some lplugs → ∀ p ∈ expand lplugs, LegalName p) :
    Link (setplugs s av).st := by
  have r := removeInitialPlugs_Link s h hh
  unfold setplugs
  split
  · rename_i a0 a1 rest
    split
    · exact h
    · split
      · exact h
      · rename_i lplugs h0
        have hl : ∀ i p, nthC lplugs i = some p → LegalName p := fun i p hp =>
          hleg a0 (a1 :: rest) lplugs rfl h0 p (nthC_mem lplugs (hlCreate_HWF a0 lplugs h0) i p hp)
        split
        · exact h
        · simp only
          split
          · split
            · split
              · exact r
              · exact setplugsLoop_Link _ _ _ hl _ _ _ r
            · exact r
          · exact setplugsLoop_Link _ _ _ hl _ _ _ r
  · exact h

theorem plugsUpdatePath_Link {s s' : State} {n cmd path : Name} {post : Option Name} (h : Link s)
    (ha : plugsUpdatePath s n cmd path post = some s') : Link s' := by
  unfold plugsUpdatePath at ha
  split at ha
  · cases ha
  · rename_i pd hpd
    cases ha
    obtain ⟨hwf, hpu, hnd, h1, h2⟩ := h
    have hlk : (s.plugMap.lookup n).isSome = true := by unfold plugsGetData at hpd; rw [hpd]; rfl
    have hkeys : (mapUpdate s.plugMap n (updPath pd cmd path post)).map (·.1) = s.plugMap.map (·.1) := by
      rw [mapUpdate_keys, if_pos hlk]
    refine ⟨hwf, hpu, hnd, ?_, ?_⟩
    · intro x hx; show x ∈ (mapUpdate s.plugMap n _).map (·.1); rw [hkeys]; exact h1 x hx
    · intro x hx
      have : x ∈ (mapUpdate s.plugMap n _).map (·.1) := hx
      rw [hkeys] at this; exact h2 x this

theorem setpathLoop_Link (cmd path : Name) (post : Option Name) :
    ∀ (l : List Name) (s : State), Link s → Link (setpathLoop cmd path post l s).st := by
  intro l
  induction l with
  | nil => intro s h; exact h
  | cons n r ih =>
    intro s h
    unfold setpathLoop
    split
    · exact h
    · split
      · exact h
      · rename_i s' hs
        exact ih s' (plugsUpdatePath_Link h hs)

theorem setpath_Link (s : State) (av : List Name) (h : Link s) : Link (setpath s av).st := by
  unfold setpath
  split
  · split
    · exact h
    · split
      · exact h
      · split
        · exact h
        · exact setpathLoop_Link _ _ _ _ _ h
  · exact h

theorem dispatch_plugs (s : State) (cmd : Redfish.Cmd) (pre : List Name) (ts : List Nat) :
    (dispatch s cmd pre ts).st.plugs = s.plugs := by
  unfold dispatch
  split
  · rfl
  · simp only
    repeat' split
    all_goals rfl

theorem powerCmd_plugs (s : State) (cmd : Redfish.Cmd) (av : List Name) : (powerCmd s cmd av).st.plugs = s.plugs := by
  unfold powerCmd
  split
  · split
    · rfl
    · split
      · rfl
      · simp only
        split
        · rfl
        · exact dispatch_plugs _ _ _ _
  · simp only
    split
    · rfl
    · exact dispatch_plugs _ _ _ _

/-- the plug names a `setplugs` line defines are legal: no separators, no brackets (true of every expression without a
    bracket after the closing bracket of a range) -/
def LegalSetplugs (av : List Name) : Prop :=
  ∀ a0 rest lplugs, av = lit "setplugs" :: a0 :: rest → hlCreate a0 = some lplugs → ∀ p ∈ expand lplugs, LegalName p

theorem processCmd_Link (s : State) (av : List Name) (h : Link s) (hh : HostsLegal s) (hleg : LegalSetplugs av) :
    Link (processCmd s av).st := by
  unfold processCmd
  split
  · exact h
  · rename_i c args
    by_cases h1 : c = lit "help"
    · rw [if_pos h1]; exact h
    rw [if_neg h1]; clear h1
    by_cases h1 : c = lit "quit"
    · rw [if_pos h1]; exact h
    rw [if_neg h1]; clear h1
    by_cases h1 : c = lit "auth"
    · rw [if_pos h1]; unfold auth; split
      · exact h
      · split <;> exact h
    rw [if_neg h1]; clear h1
    by_cases h1 : c = lit "setheader"
    · rw [if_pos h1]; exact h
    rw [if_neg h1]; clear h1
    by_cases h1 : c = lit "setstatpath"
    · rw [if_pos h1]; exact h
    rw [if_neg h1]; clear h1
    by_cases h1 : c = lit "setonpath"
    · rw [if_pos h1]; unfold setonpath; split <;> exact h
    rw [if_neg h1]; clear h1
    by_cases h1 : c = lit "setoffpath"
    · rw [if_pos h1]; unfold setoffpath; split <;> exact h
    rw [if_neg h1]; clear h1
    by_cases h1 : c = lit "setplugs"
    · rw [if_pos h1]
      exact setplugs_Link s args h hh (fun a0 rest lplugs e => hleg a0 rest lplugs (by rw [h1, e]))
    rw [if_neg h1]; clear h1
    by_cases h1 : c = lit "setpath"
    · rw [if_pos h1]; exact setpath_Link s args h
    rw [if_neg h1]; clear h1
    by_cases h1 : c = lit "settimeout"
    · rw [if_pos h1]; unfold settimeout; split
      · exact h
      · simp only; split <;> exact h
    rw [if_neg h1]; clear h1
    by_cases h1 : c = lit "stat"
    · rw [if_pos h1]; exact Link_of_frame h (powerCmd_plugs _ _ _) (powerCmd_frame _ _ _).2
    rw [if_neg h1]; clear h1
    by_cases h1 : c = lit "on"
    · rw [if_pos h1]; exact Link_of_frame h (powerCmd_plugs _ _ _) (powerCmd_frame _ _ _).2
    rw [if_neg h1]; clear h1
    by_cases h1 : c = lit "off"
    · rw [if_pos h1]; exact Link_of_frame h (powerCmd_plugs _ _ _) (powerCmd_frame _ _ _).2
    rw [if_neg h1]; exact h

/-- **every piece of input keeps list and map in step** (and the map well-formed), as long as the plug names it
    defines are legal -/
theorem step_Link (s : State) (buf : List Char) (ht : TInv s) (h : Link s) (hh : HostsLegal s)
    (hleg : LegalSetplugs (argvCreate (cstr buf))) :
    TInv (step s buf).st ∧ Link (step s buf).st ∧ HostsLegal (step s buf).st := by
  obtain ⟨a, b⟩ := step_inv s buf ht
  refine ⟨b, processCmd_Link s _ h hh hleg, ?_⟩
  unfold HostsLegal
  rw [a]; exact hh

/-- … hence along whole sessions: every state the session passes through has list and map in step -/
theorem session_Link : ∀ (bufs : List (List Char)) (s : State), TInv s → Link s → HostsLegal s →
    (∀ b ∈ bufs, LegalSetplugs (argvCreate (cstr b))) →
    TInv (session s bufs).1 ∧ Link (session s bufs).1 ∧ HostsLegal (session s bufs).1
  | [], s, ht, h, hh, _ => ⟨ht, h, hh⟩
  | b :: rest, s, ht, h, hh, hl => by
    obtain ⟨a1, a2, a3⟩ := step_Link s b ht h hh (hl b (List.mem_cons_self ..))
    unfold session
    simp only
    split
    · exact session_Link rest _ a1 a2 a3 (fun x hx => hl x (List.mem_cons_of_mem _ hx))
    · exact ⟨a1, a2, a3⟩

/-! ### the state `main` hands to `shell()` -/

theorem hlPush_HWF (hl : Hostlist) (a : Name) (h : HWF hl) : HWF (hlPush hl a).1 := by
  unfold hlPush
  cases hc : hlCreate a with
  | none => exact h
  | some new =>
    simp only
    have hn := hlCreate_HWF a new hc
    exact foldl_inv_mem HWF pushRange new (fun b r hr hb => pushRange_HWF b r (hn r hr) hb) hl h

theorem foldl_hlPush_HWF (args : List Name) : ∀ (hl : Hostlist), HWF hl → HWF (args.foldl (fun hl a => (hlPush hl a).1) hl) := by
  induction args with
  | nil => intro hl h; exact h
  | cons a r ih => intro hl h; exact ih _ (hlPush_HWF hl a h)

theorem setupHosts_fold (H : Hostlist) (hw : HWF H) :
    ∀ (l : List (Name × Nat)) (st s1 : State), (∀ e ∈ l, (expand H)[e.2]? = some e.1 ∧ LegalName e.1) →
      st.hosts = H → TInv st → Link st →
      l.foldl (fun acc e => match acc with | none => none | some st => plugsAdd st e.1 e.1 e.2 none) (some st) = some s1 →
      s1.hosts = H ∧ TInv s1 ∧ Link s1 := by
  intro l
  induction l with
  | nil => intro st s1 _ hh ht hl h; simp at h; subst h; exact ⟨hh, ht, hl⟩
  | cons e r ih =>
    intro st s1 hall hh ht hl h
    simp only [List.foldl_cons] at h
    cases ha : plugsAdd st e.1 e.1 e.2 none with
    | none =>
      rw [ha] at h
      have : ∀ (l : List (Name × Nat)), l.foldl (fun (acc : Option State) e => match acc with | none => none | some st => plugsAdd st e.1 e.1 e.2 none) none = none := by
        intro l; induction l with
        | nil => rfl
        | cons x xs ihx => simp only [List.foldl_cons]; exact ihx
      rw [this] at h; cases h
    | some st' =>
      rw [ha] at h
      obtain ⟨he, hleg⟩ := hall e (List.mem_cons_self ..)
      have hn : nthC st.hosts e.2 = some e.1 := by rw [hh, nthC_spec H _ hw]; exact he
      obtain ⟨a, b, _⟩ := plugsAdd_inv ht hn ha
      exact ih st' s1 (fun x hx => hall x (List.mem_cons_of_mem _ hx)) (a.trans hh) b (plugsAdd_Link hl hleg ha) h

/-- the host list `main` builds from its `-h` arguments -/
def hostsOf (hostArgs : List Name) : Hostlist := hostArgs.foldl (fun hl a => (hlPush hl a).1) []

/-- the initial state: the map is well-formed, list and map are in step (host names legal) -/
theorem init_inv (hostArgs failArgs : List Name) (now : Nat) (s : State) (h : init hostArgs failArgs now = some s)
    (hleg : ∀ n ∈ expand (hostsOf hostArgs), LegalName n) : TInv s ∧ Link s ∧ HostsLegal s := by
  unfold init at h
  split at h
  · cases h
  · simp only at h
    split at h
    · cases h
    · split at h
      · cases h
      · rename_i s1 hs1
        cases h
        unfold setupHosts at hs1
        simp only at hs1
        have hw : HWF (hostArgs.foldl (fun hl a => (hlPush hl a).1) []) := foldl_hlPush_HWF hostArgs [] HWF_nil
        have key := setupHosts_fold _ hw _ _ s1 (by
            intro e he
            obtain ⟨x, i⟩ := e
            have := List.mem_zipIdx he
            simp only [Nat.sub_zero, Nat.zero_add] at this
            obtain ⟨_, hi, hx⟩ := this
            refine ⟨?_, ?_⟩
            · show (expand _)[i]? = some x
              rw [List.getElem?_eq_getElem hi, hx]
            · exact hleg x (by rw [hx]; exact List.getElem_mem _)) rfl
          (⟨by simp, by intro e he; simp at he⟩ : TInv _)
          (⟨HWF_nil, (fun t ht => by simp at ht), by simp [expand_nil], by intro n hn; simp [expand_nil] at hn, by intro n hn; simp at hn⟩ : Link _) hs1
        obtain ⟨k1, k2, k3⟩ := key
        refine ⟨k2, Link_of_frame k3 rfl rfl, ?_⟩
        intro n hn
        have : n ∈ expand s1.hosts := hn
        rw [k1] at this
        exact hleg n this

instance (n : Name) : Decidable (LegalName n) := by unfold LegalName; exact inferInstance

/-- `LegalSetplugs` as a computation on the words of the line -/
def legalSetplugsB (av : List Name) : Bool :=
  match av with
  | c :: a0 :: _ =>
    if c = lit "setplugs" then
      match hlCreate a0 with
      | some l => (expand l).all fun p => decide (LegalName p)
      | none => true
    else true
  | _ => true

theorem legalSetplugsB_sound (av : List Name) (h : legalSetplugsB av = true) : LegalSetplugs av := by
  intro a0 rest lplugs hav hc p hp
  subst hav
  unfold legalSetplugsB at h
  simp only [if_true, hc, List.all_eq_true, decide_eq_true_eq] at h
  exact h p hp

/-- **reachable states**: started on legal host names, after any pieces of input whose `setplugs` lines define legal
    plug names, the plug map is well-formed and the list and the map name the same plugs -/
theorem reachable_inv (hostArgs failArgs : List Name) (now : Nat) (s0 : State)
    (h0 : init hostArgs failArgs now = some s0) (hleg : ∀ n ∈ expand (hostsOf hostArgs), LegalName n)
    (bufs : List (List Char)) (hb : ∀ b ∈ bufs, LegalSetplugs (argvCreate (cstr b))) :
    TInv (session s0 bufs).1 ∧ Link (session s0 bufs).1 ∧ Linked (session s0 bufs).1 := by
  obtain ⟨a, b, c⟩ := init_inv hostArgs failArgs now s0 h0 hleg
  obtain ⟨d, e, _⟩ := session_Link bufs s0 a b c hb
  exact ⟨d, e, e.linked⟩



/-! ### with legal plug names and list and map in step, `setplugs` and `setpath` always come back to the prompt -/

theorem plugsAdd_legal (s : State) (p host : Name) (i : Nat) (par : Option Name) (hp : LegalName p) :
    (plugsAdd s p host i par).isSome = true := by
  unfold plugsAdd
  simp only
  split
  · rw [hlPush_legal s.plugs p hp]; rfl
  · rfl

theorem setupPlug_not_fatal (s : State) (p his : Name) (par : Option Name) (hp : LegalName p) (c : Ctl) :
    setupPlug s p his par ≠ .fatal c := by
  intro h
  unfold setupPlug at h
  simp only at h
  split at h
  · cases h
  · split at h
    · cases h
    · rename_i host _
      split at h
      · rename_i hn
        have := plugsAdd_legal s p host (toInt32 (strtol his).1).toNat par hp
        rw [hn] at this; cases this
      · cases h

theorem setplugsLoop_cont (lplugs : Hostlist) (idx : Nat → Option Name) (parent : Option Name)
    (hleg : ∀ i p, nthC lplugs i = some p → LegalName p) :
    ∀ (k i : Nat) (s : State), (∀ j, i ≤ j → j < i + k → (nthC lplugs j).isSome = true ∧ (idx j).isSome = true) →
      (setplugsLoop lplugs idx parent k i s).ctl = .cont := by
  intro k
  induction k with
  | zero => intro i s _; rfl
  | succ k ih =>
    intro i s hall
    obtain ⟨h1, h2⟩ := hall i (Nat.le_refl _) (by omega)
    unfold setplugsLoop
    cases hp : nthC lplugs i with
    | none => rw [hp] at h1; cases h1
    | some plug =>
      simp only
      cases hi : idx i with
      | none => rw [hi] at h2; cases h2
      | some his =>
        simp only
        cases hs : setupPlug s plug his parent with
        | ok s' => simp only; exact ih (i + 1) s' (fun j a b => hall j (by omega) (by omega))
        | bad line => rfl
        | fatal c => exact absurd hs (setupPlug_not_fatal s plug his parent (hleg i plug hp) c)

theorem nthC_isSome (hl : Hostlist) (hw : HWF hl) (j : Nat) (hj : j < hlCount hl) : (nthC hl j).isSome = true := by
  have hc : hlCount hl = (expand hl).length := count_expand hl hw
  rw [nthC_spec hl j hw, List.getElem?_eq_getElem (by omega)]; rfl

/-- `setplugs` whose plug names are legal never ends the helper -/
theorem setplugs_cont (s : State) (av : List Name)
    (hleg : ∀ a0 rest lplugs, av = a0 :: rest → hlCreate a0 = some lplugs → ∀ p ∈ expand lplugs, LegalName p) :
    (setplugs s av).ctl = .cont ∨ (setplugs s av).ctl = bignum := by
  unfold setplugs
  split
  · rename_i a0 a1 rest
    split
    · right; rfl
    · split
      · left; rfl
      · rename_i lplugs h0
        have hw0 := hlCreate_HWF a0 lplugs h0
        have hl : ∀ i p, nthC lplugs i = some p → LegalName p := fun i p hp =>
          hleg a0 (a1 :: rest) lplugs rfl h0 p (nthC_mem lplugs hw0 i p hp)
        split
        · left; rfl
        · rename_i hostindices h1
          have hw1 := hlCreate_HWF a1 hostindices h1
          simp only
          split
          · split
            · rename_i hcs
              simp only [Bool.and_eq_true, decide_eq_true_eq, beq_iff_eq] at hcs
              cases hn : nthC hostindices 0 with
              | none =>
                have := nthC_isSome hostindices hw1 0 (by omega)
                rw [hn] at this; cases this
              | some his =>
                simp only
                left
                exact setplugsLoop_cont _ _ _ hl _ _ _ (fun j _ hj => ⟨nthC_isSome lplugs hw0 j (by omega), rfl⟩)
            · left; rfl
          · rename_i hne
            have heq : hlCount lplugs = hlCount hostindices := by simpa using hne
            left
            exact setplugsLoop_cont _ _ _ hl _ _ _
              (fun j _ hj => ⟨nthC_isSome lplugs hw0 j (by omega), nthC_isSome hostindices hw1 j (by omega)⟩)
  · left; rfl

theorem setpathLoop_cont (cmd path : Name) (post : Option Name) :
    ∀ (l : List Name) (s : State), Link s → (setpathLoop cmd path post l s).ctl = .cont := by
  intro l
  induction l with
  | nil => intro s _; rfl
  | cons n r ih =>
    intro s h
    unfold setpathLoop
    split
    · rfl
    · rename_i hv
      split
      · rename_i hnone
        have hv' : plugsNameValid s n = true := by simpa using hv
        have := (h.linked n).mp hv'
        unfold plugsUpdatePath plugsGetData at hnone
        cases hl : s.plugMap.lookup n with
        | none => rw [hl] at this; cases this
        | some pd => rw [hl] at hnone; simp at hnone
      · rename_i s' hs
        exact ih s' (plugsUpdatePath_Link h hs)

theorem setpath_cont (s : State) (av : List Name) (h : Link s) :
    (setpath s av).ctl = .cont ∨ (setpath s av).ctl = bignum := by
  unfold setpath
  split
  · split
    · left; rfl
    · split
      · right; rfl
      · split
        · left; rfl
        · left; exact setpathLoop_cont _ _ _ _ _ h
  · left; rfl

theorem processCmd_setplugs (s : State) (args : List Name) : processCmd s (lit "setplugs" :: args) = setplugs s args := by
  unfold processCmd; simp only
  rw [if_neg (show ¬ lit "setplugs" = lit "help" by decide +kernel), if_neg (show ¬ lit "setplugs" = lit "quit" by decide +kernel), if_neg (show ¬ lit "setplugs" = lit "auth" by decide +kernel), if_neg (show ¬ lit "setplugs" = lit "setheader" by decide +kernel), if_neg (show ¬ lit "setplugs" = lit "setstatpath" by decide +kernel), if_neg (show ¬ lit "setplugs" = lit "setonpath" by decide +kernel), if_neg (show ¬ lit "setplugs" = lit "setoffpath" by decide +kernel), if_pos trivial]
theorem processCmd_setpath (s : State) (args : List Name) : processCmd s (lit "setpath" :: args) = setpath s args := by
  unfold processCmd; simp only
  rw [if_neg (show ¬ lit "setpath" = lit "help" by decide +kernel), if_neg (show ¬ lit "setpath" = lit "quit" by decide +kernel), if_neg (show ¬ lit "setpath" = lit "auth" by decide +kernel), if_neg (show ¬ lit "setpath" = lit "setheader" by decide +kernel), if_neg (show ¬ lit "setpath" = lit "setstatpath" by decide +kernel), if_neg (show ¬ lit "setpath" = lit "setonpath" by decide +kernel), if_neg (show ¬ lit "setpath" = lit "setoffpath" by decide +kernel), if_neg (show ¬ lit "setpath" = lit "setplugs" by decide +kernel), if_pos trivial]

/-- **any line, from a reachable `Safe` state**: with list and map in step, a line that defines only legal plug names
    and has no 20-digit number in a range comes back to the prompt unless it is `quit` — `setplugs` and `setpath`
    included -/
theorem step_cont (s : State) (buf : List Char) (hs : Safe s) (ht : TimeoutOK s) (hl : Link s)
    (hleg : LegalSetplugs (argvCreate (cstr buf))) (hb : (step s buf).ctl ≠ bignum) :
    (step s buf).ctl = .cont ∨ ((step s buf).ctl = .exit 0 ∧ firstWord buf = some (lit "quit")) := by
  by_cases h1 : firstWord buf = some (lit "setplugs")
  · left
    unfold step firstWord at *
    generalize argvCreate (cstr buf) = av at *
    cases av with
    | nil => simp at h1
    | cons c args =>
      simp only [List.head?_cons, Option.some.injEq] at h1
      subst h1
      rw [processCmd_setplugs] at hb ⊢
      rcases setplugs_cont s args (fun a0 rest lplugs e => hleg a0 rest lplugs (by rw [e])) with h | h
      · exact h
      · exact absurd h hb
  · by_cases h2 : firstWord buf = some (lit "setpath")
    · left
      unfold step firstWord at *
      generalize argvCreate (cstr buf) = av at *
      cases av with
      | nil => simp at h2
      | cons c args =>
        simp only [List.head?_cons, Option.some.injEq] at h2
        subst h2
        rw [processCmd_setpath] at hb ⊢
        rcases setpath_cont s args hl with h | h
        · exact h
        · exact absurd h hb
    · exact step_safe s buf hs ht h1 h2 hb

/-! ### which lines can make a `Safe` state unsafe -/

/-- the parts of the state `Safe` looks at -/
def SameCfg (s s' : State) : Prop :=
  s'.plugMap = s.plugMap ∧ s'.failHosts = s.failHosts ∧ s'.statpath = s.statpath

theorem SameCfg.refl (s : State) : SameCfg s s := ⟨rfl, rfl, rfl⟩

theorem Safe_of_SameCfg {s s' : State} (h : SameCfg s s') (hs : Safe s) : Safe s' := by
  obtain ⟨h1, h2, h3⟩ := h
  have e1 : mCfg s' = mCfg s := by unfold mCfg hostFailing; rw [h1, h2]
  have e2 : allStatPaths s' = allStatPaths s := by unfold allStatPaths; rw [h1, h3]
  unfold Safe at *
  rw [e1, e2]; exact hs

theorem dispatch_SameCfg (s : State) (cmd : Redfish.Cmd) (pre : List Name) (ts : List Nat) :
    SameCfg s (dispatch s cmd pre ts).st := by
  unfold dispatch
  split
  · exact SameCfg.refl s
  · simp only
    repeat' split
    all_goals exact ⟨rfl, rfl, rfl⟩

theorem powerCmd_SameCfg (s : State) (cmd : Redfish.Cmd) (av : List Name) : SameCfg s (powerCmd s cmd av).st := by
  unfold powerCmd
  split
  · split
    · exact SameCfg.refl s
    · split
      · exact SameCfg.refl s
      · simp only
        split
        · exact SameCfg.refl s
        · exact dispatch_SameCfg _ _ _ _
  · simp only
    split
    · exact SameCfg.refl s
    · exact dispatch_SameCfg _ _ _ _

/-- only `setplugs`, `setpath` and `setstatpath` touch what `Safe` looks at -/
theorem processCmd_SameCfg (s : State) (av : List Name)
    (h : av.head? ≠ some (lit "setplugs") ∧ av.head? ≠ some (lit "setpath") ∧ av.head? ≠ some (lit "setstatpath")) :
    SameCfg s (processCmd s av).st := by
  obtain ⟨n1, n2, n3⟩ := h
  unfold processCmd
  split
  · exact SameCfg.refl s
  · rename_i c args
    simp only [List.head?_cons, ne_eq, Option.some.injEq] at n1 n2 n3
    by_cases h1 : c = lit "help"
    · rw [if_pos h1]; exact SameCfg.refl s
    rw [if_neg h1]; clear h1
    by_cases h1 : c = lit "quit"
    · rw [if_pos h1]; exact SameCfg.refl s
    rw [if_neg h1]; clear h1
    by_cases h1 : c = lit "auth"
    · rw [if_pos h1]; unfold auth; split
      · exact SameCfg.refl s
      · split
        · exact SameCfg.refl s
        · exact ⟨rfl, rfl, rfl⟩
    rw [if_neg h1]; clear h1
    by_cases h1 : c = lit "setheader"
    · rw [if_pos h1]; exact ⟨rfl, rfl, rfl⟩
    rw [if_neg h1]; clear h1
    rw [if_neg n3]
    by_cases h1 : c = lit "setonpath"
    · rw [if_pos h1]; unfold setonpath; split <;> exact ⟨rfl, rfl, rfl⟩
    rw [if_neg h1]; clear h1
    by_cases h1 : c = lit "setoffpath"
    · rw [if_pos h1]; unfold setoffpath; split <;> exact ⟨rfl, rfl, rfl⟩
    rw [if_neg h1]; clear h1
    rw [if_neg n1, if_neg n2]
    by_cases h1 : c = lit "settimeout"
    · rw [if_pos h1]; unfold settimeout; split
      · exact SameCfg.refl s
      · simp only; split <;> exact ⟨rfl, rfl, rfl⟩
    rw [if_neg h1]; clear h1
    by_cases h1 : c = lit "stat"
    · rw [if_pos h1]; exact powerCmd_SameCfg _ _ _
    rw [if_neg h1]; clear h1
    by_cases h1 : c = lit "on"
    · rw [if_pos h1]; exact powerCmd_SameCfg _ _ _
    rw [if_neg h1]; clear h1
    by_cases h1 : c = lit "off"
    · rw [if_pos h1]; exact powerCmd_SameCfg _ _ _
    rw [if_neg h1]; exact SameCfg.refl s

/-- a `Safe` state stays `Safe` under every line that is not `setplugs`, `setpath` or `setstatpath`:
    in particular under every `stat` / `on` / `off`, `settimeout`, unknown command, malformed target expression -/
theorem step_Safe (s : State) (buf : List Char) (hs : Safe s)
    (h : firstWord buf ≠ some (lit "setplugs") ∧ firstWord buf ≠ some (lit "setpath") ∧
      firstWord buf ≠ some (lit "setstatpath")) : Safe (step s buf).st :=
  Safe_of_SameCfg (processCmd_SameCfg s _ h) hs

/-! ### the stored time-out always fits an `int` (repair 7f04ec7): `err_exit("cmd_timeout overflow")` is unreachable -/

/-- `cmd_timeout` and the clock are the same -/
def SameTime (s s' : State) : Prop := s'.cmdTimeout = s.cmdTimeout ∧ s'.now = s.now

theorem SameTime.trans {a b c : State} (h1 : SameTime a b) (h2 : SameTime b c) : SameTime a c :=
  ⟨h2.1.trans h1.1, h2.2.trans h1.2⟩

theorem plugsAdd_time {s s' : State} {p host : Name} {i : Nat} {par : Option Name}
    (ha : plugsAdd s p host i par = some s') : SameTime s s' := by
  unfold plugsAdd at ha
  simp only at ha
  split at ha
  · split at ha
    · cases ha
    · cases ha; exact ⟨rfl, rfl⟩
  · cases ha; exact ⟨rfl, rfl⟩

theorem foldl_plugsRemove_time (l : List Name) : ∀ (s : State), SameTime s (l.foldl plugsRemove s) := by
  induction l with
  | nil => intro s; exact ⟨rfl, rfl⟩
  | cons n r ih => intro s; exact SameTime.trans (⟨rfl, rfl⟩ : SameTime s (plugsRemove s n)) (ih _)

theorem removeInitialPlugs_time (s : State) : SameTime s (removeInitialPlugs s) := by
  unfold removeInitialPlugs
  split
  · exact ⟨rfl, rfl⟩
  · exact foldl_plugsRemove_time _ s

theorem setupPlug_time {s s' : State} {p his : Name} {par : Option Name} (ha : setupPlug s p his par = .ok s') :
    SameTime s s' := by
  unfold setupPlug at ha
  simp only at ha
  split at ha
  · cases ha
  · split at ha
    · cases ha
    · split at ha
      · cases ha
      · rename_i s1 h1
        cases ha
        exact SameTime.trans (plugsAdd_time h1) ⟨rfl, rfl⟩

theorem setplugsLoop_time (lplugs : Hostlist) (idx : Nat → Option Name) (parent : Option Name) :
    ∀ (k i : Nat) (s : State), SameTime s (setplugsLoop lplugs idx parent k i s).st := by
  intro k
  induction k with
  | zero => intro i s; exact ⟨rfl, rfl⟩
  | succ k ih =>
    intro i s
    unfold setplugsLoop
    split
    · exact ⟨rfl, rfl⟩
    · split
      · exact ⟨rfl, rfl⟩
      · split
        · rename_i s' hs; exact SameTime.trans (setupPlug_time hs) (ih (i + 1) s')
        · exact ⟨rfl, rfl⟩
        · exact ⟨rfl, rfl⟩

theorem setplugs_time (s : State) (av : List Name) : SameTime s (setplugs s av).st := by
  have r := removeInitialPlugs_time s
  unfold setplugs
  split
  · split
    · exact ⟨rfl, rfl⟩
    · split
      · exact ⟨rfl, rfl⟩
      · split
        · exact ⟨rfl, rfl⟩
        · simp only
          split
          · split
            · split
              · exact r
              · exact SameTime.trans r (setplugsLoop_time _ _ _ _ _ _)
            · exact r
          · exact SameTime.trans r (setplugsLoop_time _ _ _ _ _ _)
  · exact ⟨rfl, rfl⟩

theorem setpathLoop_time (cmd path : Name) (post : Option Name) :
    ∀ (l : List Name) (s : State), SameTime s (setpathLoop cmd path post l s).st := by
  intro l
  induction l with
  | nil => intro s; exact ⟨rfl, rfl⟩
  | cons n r ih =>
    intro s
    unfold setpathLoop
    split
    · exact ⟨rfl, rfl⟩
    · split
      · exact ⟨rfl, rfl⟩
      · rename_i s' hs
        have : SameTime s s' := by
          unfold plugsUpdatePath at hs
          split at hs
          · cases hs
          · cases hs; exact ⟨rfl, rfl⟩
        exact SameTime.trans this (ih s')

theorem setpath_time (s : State) (av : List Name) : SameTime s (setpath s av).st := by
  unfold setpath
  split
  · split
    · exact ⟨rfl, rfl⟩
    · split
      · exact ⟨rfl, rfl⟩
      · split
        · exact ⟨rfl, rfl⟩
        · exact setpathLoop_time _ _ _ _ _
  · exact ⟨rfl, rfl⟩

theorem dispatch_time (s : State) (cmd : Redfish.Cmd) (pre : List Name) (ts : List Nat) :
    SameTime s (dispatch s cmd pre ts).st := by
  unfold dispatch
  split
  · exact ⟨rfl, rfl⟩
  · simp only
    repeat' split
    all_goals exact ⟨rfl, rfl⟩

theorem powerCmd_time (s : State) (cmd : Redfish.Cmd) (av : List Name) : SameTime s (powerCmd s cmd av).st := by
  unfold powerCmd
  split
  · split
    · exact ⟨rfl, rfl⟩
    · split
      · exact ⟨rfl, rfl⟩
      · simp only
        split
        · exact ⟨rfl, rfl⟩
        · exact dispatch_time _ _ _ _
  · simp only
    split
    · exact ⟨rfl, rfl⟩
    · exact dispatch_time _ _ _ _

theorem TimeoutOK_of_SameTime {s s' : State} (h : SameTime s s') (ht : TimeoutOK s) : TimeoutOK s' := by
  unfold TimeoutOK at *; rw [h.1, h.2]; exact ht

theorem settimeout_TimeoutOK (s : State) (av : List Name) (ht : TimeoutOK s) : TimeoutOK (settimeout s av).st := by
  unfold settimeout
  split
  · exact ht
  · simp only
    split
    · exact ht
    · rename_i hb
      simp only [Bool.or_eq_true, bne_iff_ne, ne_eq, decide_eq_true_eq, not_or, Int.not_lt] at hb
      exact ⟨hb.2, ht.2⟩

/-- every piece of input keeps the stored time-out within `int` -/
theorem processCmd_TimeoutOK (s : State) (av : List Name) (ht : TimeoutOK s) : TimeoutOK (processCmd s av).st := by
  unfold processCmd
  split
  · exact ht
  · rename_i c args
    by_cases h1 : c = lit "help"
    · rw [if_pos h1]; exact ht
    rw [if_neg h1]; clear h1
    by_cases h1 : c = lit "quit"
    · rw [if_pos h1]; exact ht
    rw [if_neg h1]; clear h1
    by_cases h1 : c = lit "auth"
    · rw [if_pos h1]; unfold auth; split
      · exact ht
      · split <;> exact ht
    rw [if_neg h1]; clear h1
    by_cases h1 : c = lit "setheader"
    · rw [if_pos h1]; exact ht
    rw [if_neg h1]; clear h1
    by_cases h1 : c = lit "setstatpath"
    · rw [if_pos h1]; exact ht
    rw [if_neg h1]; clear h1
    by_cases h1 : c = lit "setonpath"
    · rw [if_pos h1]; unfold setonpath; split <;> exact ht
    rw [if_neg h1]; clear h1
    by_cases h1 : c = lit "setoffpath"
    · rw [if_pos h1]; unfold setoffpath; split <;> exact ht
    rw [if_neg h1]; clear h1
    by_cases h1 : c = lit "setplugs"
    · rw [if_pos h1]; exact TimeoutOK_of_SameTime (setplugs_time s args) ht
    rw [if_neg h1]; clear h1
    by_cases h1 : c = lit "setpath"
    · rw [if_pos h1]; exact TimeoutOK_of_SameTime (setpath_time s args) ht
    rw [if_neg h1]; clear h1
    by_cases h1 : c = lit "settimeout"
    · rw [if_pos h1]; exact settimeout_TimeoutOK s args ht
    rw [if_neg h1]; clear h1
    by_cases h1 : c = lit "stat"
    · rw [if_pos h1]; exact TimeoutOK_of_SameTime (powerCmd_time _ _ _) ht
    rw [if_neg h1]; clear h1
    by_cases h1 : c = lit "on"
    · rw [if_pos h1]; exact TimeoutOK_of_SameTime (powerCmd_time _ _ _) ht
    rw [if_neg h1]; clear h1
    by_cases h1 : c = lit "off"
    · rw [if_pos h1]; exact TimeoutOK_of_SameTime (powerCmd_time _ _ _) ht
    rw [if_neg h1]; exact ht

theorem step_TimeoutOK (s : State) (buf : List Char) (ht : TimeoutOK s) : TimeoutOK (step s buf).st :=
  processCmd_TimeoutOK s _ ht

theorem session_TimeoutOK : ∀ (bufs : List (List Char)) (s : State), TimeoutOK s → TimeoutOK (session s bufs).1
  | [], _, h => h
  | b :: rest, s, h => by
    have a := step_TimeoutOK s b h
    unfold session
    simp only
    split
    · exact session_TimeoutOK rest _ a
    · exact a

theorem setupHosts_time (l : List (Name × Nat)) : ∀ (st s1 : State),
    l.foldl (fun acc e => match acc with | none => none | some st => plugsAdd st e.1 e.1 e.2 none) (some st) = some s1 →
      SameTime st s1 := by
  induction l with
  | nil => intro st s1 h; simp at h; subst h; exact ⟨rfl, rfl⟩
  | cons e r ih =>
    intro st s1 h
    simp only [List.foldl_cons] at h
    cases ha : plugsAdd st e.1 e.1 e.2 none with
    | none =>
      rw [ha] at h
      have : ∀ (l : List (Name × Nat)), l.foldl (fun (acc : Option State) e => match acc with | none => none | some st => plugsAdd st e.1 e.1 e.2 none) none = none := by
        intro l; induction l with
        | nil => rfl
        | cons x xs ihx => simp only [List.foldl_cons]; exact ihx
      rw [this] at h; cases h
    | some st' =>
      rw [ha] at h
      exact SameTime.trans (plugsAdd_time ha) (ih st' s1 h)

/-- the helper starts with `cmd_timeout = 60`: `TimeoutOK` holds at start whenever the clock is not within 2^31 seconds
    of the end of `long` -/
theorem init_TimeoutOK (hostArgs failArgs : List Name) (now : Nat) (s : State) (h : init hostArgs failArgs now = some s)
    (hn : (now : Int) ≤ LONG_MAX - INT_MAX) : TimeoutOK s := by
  unfold init at h
  split at h
  · cases h
  · simp only at h
    split at h
    · cases h
    · split at h
      · cases h
      · rename_i s1 hs1
        cases h
        unfold setupHosts at hs1
        obtain ⟨a, b⟩ := setupHosts_time _ _ _ hs1
        simp only at a b
        exact ⟨by show s1.cmdTimeout ≤ INT_MAX; rw [a]; decide, by show (s1.now : Int) ≤ _; rw [b]; exact hn⟩

/-- reachable states, whatever the lines (no proviso on plug names), the stored time-out fits an `int` -/
theorem reachable_TimeoutOK (hostArgs failArgs : List Name) (now : Nat) (s0 : State)
    (h0 : init hostArgs failArgs now = some s0) (hn : (now : Int) ≤ LONG_MAX - INT_MAX) (bufs : List (List Char)) :
    TimeoutOK (session s0 bufs).1 :=
  session_TimeoutOK bufs s0 (init_TimeoutOK hostArgs failArgs now s0 h0 hn)

/-! ### over-long lines: `fgets` cuts the input into pieces of at most 255 bytes and loses nothing -/

theorem fgetsOne_spec : ∀ (k : Nat) (acc rest : List Char),
    (fgetsOne k acc rest).1 ++ (fgetsOne k acc rest).2 = acc.reverse ++ rest ∧
    (fgetsOne k acc rest).1.length ≤ acc.length + k ∧
    (rest ≠ [] → 0 < k → (fgetsOne k acc rest).2.length < rest.length)
  | 0, acc, rest => by simp [fgetsOne]
  | k + 1, acc, [] => by simp [fgetsOne]
  | k + 1, acc, c :: r => by
    unfold fgetsOne
    split
    · simp
    · obtain ⟨a, b, d⟩ := fgetsOne_spec k (c :: acc) r
      refine ⟨by rw [a]; simp, by simp at b ⊢; omega, ?_⟩
      intro _ _
      by_cases hr : r = []
      · subst hr
        have : (fgetsOne k (c :: acc) []).2 = [] := by cases k <;> simp [fgetsOne]
        rw [this]; simp
      · by_cases hk : 0 < k
        · have := d hr hk; simp; omega
        · have hk0 : k = 0 := by omega
          subst hk0; simp [fgetsOne]

/-- the pieces `fgets` returns, put together again, are the input; each has at most 255 bytes -/
theorem fgetsSplit_spec : ∀ (fuel : Nat) (l : List Char), l.length < fuel →
    (fgetsSplit fuel l).flatten = l ∧ ∀ p ∈ fgetsSplit fuel l, p.length ≤ 255
  | 0, l, h => by omega
  | fuel + 1, [], _ => by simp [fgetsSplit]
  | fuel + 1, c :: r, h => by
    unfold fgetsSplit
    simp only
    obtain ⟨a, b, d⟩ := fgetsOne_spec 255 [] (c :: r)
    have hlt := d (by simp) (by omega)
    obtain ⟨ih1, ih2⟩ := fgetsSplit_spec fuel (fgetsOne 255 [] (c :: r)).2 (by simp at h hlt; omega)
    refine ⟨?_, ?_⟩
    · rw [List.flatten_cons, ih1, a]; simp
    · intro p hp
      rcases List.mem_cons.mp hp with rfl | hp
      · simpa using b
      · exact ih2 p hp

end Pm.RfCmd

#print axioms Pm.RfCmd.step_class
#print axioms Pm.RfCmd.step_safe
#print axioms Pm.RfCmd.step_inv
#print axioms Pm.RfCmd.setplugs_pairs
#print axioms Pm.RfCmd.powerCmd_resolved
#print axioms Pm.RfCmd.reachable_inv
#print axioms Pm.RfCmd.init_inv
#print axioms Pm.RfCmd.step_cont
#print axioms Pm.RfCmd.step_Safe
#print axioms Pm.RfCmd.reachable_TimeoutOK
#print axioms Pm.RfCmd.fgetsSplit_spec
