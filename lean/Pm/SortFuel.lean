import Pm.SortFProof
/-! Termination of the outer loop of `hostlist_coalesce` within the computed bound `coalesceFuel`
    (`Pm/Sort2.lean`): `sortHL` never answers `.fuel` on a well-formed list.

    Measure.  With `N` = number of hosts (kept by every iteration, `den_length`), `R` = number of ranges (`R ≤ N`
    because no range is empty) and `inv` = number of inversions of the sequence of `hi` fields in list order
    (`inv ≤ R²`), one iteration of the `for` loop does one of three things:

    * no split: the list and all `lo`/`hi` are unchanged, `i` goes down by one;
    * a split whose right range is a point `[x-x]` (`hprev = [a-c]`, `hnext = [x-x]`, `a ≤ x < c` becomes `[a-x]`, `[x-c]`):
      no range is added, the two neighbouring `hi` values `c > x` are exchanged — exactly one inversion less;
    * any other split: at least one range is added.

    So `((N - R)·(N+1)² + inv)·(N+1) + i` decreases in every iteration, and it starts below `(N+1)⁴ ≤ (R+N+2)⁴`. -/
namespace Pm
open List

/-! ## inversions of a list of numbers -/

/-- number of pairs of positions `i < j` with `l[i] > l[j]` -/
def invCount : List Nat → Nat
  | [] => 0
  | a :: l => l.countP (· < a) + invCount l

theorem inv_le_sq : ∀ (l : List Nat), invCount l ≤ l.length * l.length
  | [] => by simp [invCount]
  | a :: l => by
    have h1 := inv_le_sq l
    have h2 : l.countP (· < a) ≤ l.length := countP_le_length
    simp only [invCount, length_cons]
    have : (l.length + 1) * (l.length + 1) = l.length * l.length + l.length + l.length + 1 := by
      rw [Nat.add_mul, Nat.mul_add]; omega
    omega

/-- exchanging two neighbours that are out of order removes exactly one inversion -/
theorem inv_swap (x y : Nat) (hxy : y < x) (l2 : List Nat) : ∀ (l1 : List Nat),
    invCount (l1 ++ y :: x :: l2) + 1 = invCount (l1 ++ x :: y :: l2)
  | [] => by
    simp only [nil_append, invCount, countP_cons]
    have h1 : decide (y < x) = true := by simpa using hxy
    have h2 : decide (x < y) = false := by simp; omega
    simp only [h1, h2, if_true]
    simp
    omega
  | a :: l1 => by
    have ih := inv_swap x y hxy l2 l1
    simp only [cons_append, invCount]
    have : countP (· < a) (l1 ++ y :: x :: l2) = countP (· < a) (l1 ++ x :: y :: l2) := by
      simp only [countP_append, countP_cons]; omega
    omega

/-! ## hosts, ranges, the `hi` sequence -/

/-- number of hosts the ids stand for (the second summand of `coalesceSize`) -/
def hostCount (st : Store) (ids : List Nat) : Nat := (ids.map fun i => (st[i]!).cnt).sum

/-- inversions of the sequence of `hi` fields, in list order -/
def invHi (st : Store) (ids : List Nat) : Nat := invCount (ids.map fun i => (st[i]!).hi)

theorem expand_length (r : HostRange) : r.expand.length = r.cnt := by
  unfold HostRange.expand HostRange.cnt
  split <;> simp

theorem den_length (st : Store) : ∀ (ids : List Nat), (den st ids).length = hostCount st ids
  | [] => by simp [den, hostCount]
  | a :: l => by
    rw [den_cons, length_append, expand_length, den_length st l]
    simp [hostCount]

theorem WFS_cnt_pos {r : HostRange} (h : r.WFS) : 1 ≤ r.cnt := by
  unfold HostRange.cnt
  rcases h with ⟨h1, _, _⟩ | ⟨h1, h2⟩
  · simp [h1]
  · simp [h1]; omega

theorem length_le_sum {f : Nat → Nat} : ∀ (l : List Nat), (∀ i ∈ l, 1 ≤ f i) → l.length ≤ (l.map f).sum
  | [], _ => by simp
  | a :: l, h => by
    have h1 := h a (by simp)
    have h2 := length_le_sum l (fun i hi => h i (by simp [hi]))
    simp only [length_cons, map_cons, sum_cons]
    omega

/-- no range is empty, so there are at most as many ranges as hosts -/
theorem Inv.length_le_hosts {st : Store} {ids : List Nat} (h : Inv st ids) : ids.length ≤ hostCount st ids :=
  length_le_sum ids (fun i hi => WFS_cnt_pos (h.2.2 i hi))

theorem invHi_SEq {st st' : Store} (h : SEq st st') (ids : List Nat) : invHi st' ids = invHi st ids := by
  unfold invHi
  congr 1
  exact map_congr_left (fun k _ => (h.2 k).2.2.1)

/-! ## the insertion loop never shortens the list; the two shapes of a split -/

theorem insertAt_length (st : Store) (ids : List Nat) (j : Nat) (mk : HostRange) :
    (insertAt st ids j mk).1.length = ids.length + 1 := by
  unfold insertAt
  simp only [length_append, length_take, length_drop, length_cons, length_nil]
  omega

theorem insOne_length_ge (pfx : Name) (w a2hi b2lo : Nat) (st : Store) (ids : List Nat) (x j : Nat) :
    ids.length ≤ (insOne pfx w a2hi b2lo st ids x j).1.length := by
  unfold insOne
  simp only
  split <;> split <;> simp only [insertAt_length] <;> omega

theorem insOne_length_lt (pfx : Name) (w a2hi b2lo : Nat) (st : Store) (ids : List Nat) (x j : Nat) (h : x < b2lo) :
    ids.length < (insOne pfx w a2hi b2lo st ids x j).1.length := by
  unfold insOne
  simp only [h, if_true]
  split <;> simp only [insertAt_length] <;> omega

theorem insOne_none (pfx : Name) (w a2hi b2lo : Nat) (st : Store) (ids : List Nat) (x j : Nat)
    (h1 : ¬ x > a2hi) (h2 : ¬ x < b2lo) : insOne pfx w a2hi b2lo st ids x j = (ids, st, j) := by
  unfold insOne
  simp only [h1, h2, if_false]

theorem insF_length_ge (pfx : Name) (w a2hi b2lo newHi : Nat) : ∀ (f : Nat) (st : Store) (ids : List Nat) (x j : Nat),
    ids.length ≤ (insF pfx w a2hi b2lo newHi f st ids x j).1.length
  | 0, _, _, _, _ => by simp [insF]
  | f + 1, st, ids, x, j => by
    unfold insF
    split
    · exact Nat.le_refl _
    · exact Nat.le_trans (insOne_length_ge pfx w a2hi b2lo st ids x j) (insF_length_ge pfx w a2hi b2lo newHi f _ _ _ _)

/-- a split whose overlap `[b.lo .. min b.hi a.hi]` has more than one element adds at least one range -/
theorem splitStep_grow (st : Store) (ids : List Nat) (i p q : Nat) (h : (st[q]!).lo < min (st[q]!).hi (st[p]!).hi) :
    ids.length < (splitStep st ids i p q).1.length := by
  unfold splitStep
  simp only
  generalize st[p]! = a at *
  generalize st[q]! = b at *
  have hf : min b.hi a.hi + 2 - b.lo = (min b.hi a.hi + 1 - b.lo) + 1 := by omega
  rw [hf]
  unfold insF
  simp only [show ¬ b.lo > min b.hi a.hi by omega, if_false]
  exact Nat.lt_of_lt_of_le (insOne_length_lt _ _ _ _ _ _ _ _ h) (insF_length_ge _ _ _ _ _ _ _ _ _ _)

/-- a split whose right range is the point `[b.lo-b.lo]` adds nothing: the two ranges exchange their upper ends -/
theorem splitStep_point (st : Store) (ids : List Nat) (i p q : Nat) (hb : (st[q]!).hi = (st[q]!).lo)
    (hov : (st[q]!).lo < (st[p]!).hi) :
    splitStep st ids i p q =
      (ids, (st.set! p { st[p]! with hi := (st[q]!).lo }).set! q { st[q]! with hi := (st[p]!).hi }) := by
  unfold splitStep
  simp only
  generalize st[p]! = a at *
  generalize st[q]! = b at *
  have hm : min b.hi a.hi = b.lo := by omega
  rw [hm]
  have hf : b.lo + 2 - b.lo = 1 + 1 := by omega
  rw [hf]
  unfold insF
  simp only [show ¬ b.lo > b.lo by omega, if_false]
  rw [insOne_none _ _ _ _ _ _ _ _ (by omega) (by omega)]
  unfold insF
  simp only [show b.lo + 1 > b.lo by omega, if_true, hov]

/-! ## the point split exchanges two neighbouring `hi` values -/

theorem split_at_adj {l : List Nat} {i : Nat} (h0 : i ≠ 0) (hi : i < l.length) :
    l = l.take (i - 1) ++ l[i-1]! :: l[i]! :: l.drop (i + 1) := by
  have h1 : i - 1 < l.length := by omega
  rw [getElem!_pos l i hi, getElem!_pos l (i-1) h1]
  have e1 : l.drop i = l[i] :: l.drop (i + 1) := drop_eq_getElem_cons hi
  have e2 : l.drop (i - 1) = l[i-1] :: l.drop (i - 1 + 1) := drop_eq_getElem_cons h1
  have e3 : i - 1 + 1 = i := by omega
  rw [e3] at e2
  rw [← e1, ← e2, take_append_drop]

theorem inv_map_swap (h h' : Nat → Nat) (l1 l2 : List Nat) (p q : Nat)
    (e1 : ∀ k ∈ l1, h' k = h k) (e2 : ∀ k ∈ l2, h' k = h k) (ep : h' p = h q) (eq : h' q = h p) (hlt : h q < h p) :
    invCount ((l1 ++ p :: q :: l2).map h') + 1 = invCount ((l1 ++ p :: q :: l2).map h) := by
  simp only [map_append, map_cons, ep, eq, map_congr_left e1, map_congr_left e2]
  exact inv_swap (h p) (h q) hlt _ _

theorem invHi_point {st : Store} {ids : List Nat} {i : Nat} (hn : ids.Nodup) (h0 : i ≠ 0) (hi : i < ids.length)
    (hps : ids[i-1]! < st.size) (hqs : ids[i]! < st.size)
    (hb : (st[ids[i]!]!).hi = (st[ids[i]!]!).lo) (hov : (st[ids[i]!]!).lo < (st[ids[i-1]!]!).hi) :
    invHi ((st.set! ids[i-1]! { st[ids[i-1]!]! with hi := (st[ids[i]!]!).lo }).set! ids[i]!
            { st[ids[i]!]! with hi := (st[ids[i-1]!]!).hi }) ids + 1 = invHi st ids := by
  have hsplit := split_at_adj h0 hi
  generalize ids[i-1]! = p at *
  generalize ids[i]! = q at *
  generalize ids.take (i - 1) = l1 at *
  generalize ids.drop (i + 1) = l2 at *
  subst hsplit
  have hn' : (p :: q :: (l1 ++ l2)).Nodup := by
    refine (Perm.nodup_iff ?_).mp hn
    have : (l1 ++ p :: q :: l2).Perm (p :: (l1 ++ q :: l2)) := perm_middle
    exact this.trans (perm_middle.cons p)
  simp only [nodup_cons, mem_cons, mem_append, not_or] at hn'
  obtain ⟨⟨hpq, hp1, hp2⟩, ⟨hq1, hq2⟩, _⟩ := hn'
  unfold invHi
  refine inv_map_swap (fun k => (st[k]!).hi) _ l1 l2 p q ?_ ?_ ?_ ?_ ?_
  · intro k hk
    have : k ≠ p ∧ k ≠ q := ⟨fun e => hp1 (e ▸ hk), fun e => hq1 (e ▸ hk)⟩
    simp only [Store.get_set, Store.size_set]
    grind
  · intro k hk
    have : k ≠ p ∧ k ≠ q := ⟨fun e => hp2 (e ▸ hk), fun e => hq2 (e ▸ hk)⟩
    simp only [Store.get_set, Store.size_set]
    grind
  · simp only [Store.get_set, Store.size_set]
    grind
  · simp only [Store.get_set, Store.size_set]
    grind
  · omega

/-! ## what one iteration of the outer loop does to the measure -/

/-- the three kinds of iteration: no split (`i` goes down), point split (one inversion of the `hi` sequence less,
    same list), any other split (a longer list) -/
def StepKind (st : Store) (ids : List Nat) (i : Nat) (st' : Store) (ids' : List Nat) (i' : Nat) : Prop :=
  (ids' = ids ∧ invHi st' ids = invHi st ids ∧ i' + 1 = i) ∨
  (ids' = ids ∧ invHi st' ids + 1 = invHi st ids) ∨
  ids.length < ids'.length

theorem coalesceTail_meas {st : Store} {ids : List Nat} {i : Nat} {st' : Store} {ids' : List Nat} {i' : Nat}
    (hinv : Inv st ids) (h0 : i ≠ 0) (hi : i < ids.length) (hbs : (st[ids[i]!]!).single = false)
    (h : coalesceTail st ids i ids[i-1]! ids[i]! = .cont st' ids' i') : StepKind st ids i st' ids' i' := by
  obtain ⟨hp, hq, hpq, _⟩ := adj_ids hinv.1 h0 hi
  unfold coalesceTail at h
  split at h
  · simp only [StepRes.cont.injEq] at h
    obtain ⟨rfl, rfl, rfl⟩ := h
    exact Or.inl ⟨rfl, rfl, by omega⟩
  · rename_i hc
    have hseq := combineM_SEq st ids[i-1]! ids[i]!
    split at h
    · simp only [StepRes.cont.injEq] at h
      obtain ⟨rfl, rfl, rfl⟩ := h
      exact Or.inl ⟨rfl, invHi_SEq hseq ids, by omega⟩
    · have hc : prefixCmp st[ids[i-1]!]! st[ids[i]!]! = 0 ∧ (st[ids[i]!]!).lo < (st[ids[i-1]!]!).hi := by simpa using hc
      obtain ⟨_, hov⟩ := hc
      simp only [StepRes.cont.injEq] at h
      obtain ⟨rfl, rfl, rfl⟩ := h
      have hinv2 := Inv_SEq hseq hinv
      obtain ⟨_, _, ah1, _, _⟩ := hseq.2 ids[i-1]!
      obtain ⟨_, bl1, bh1, bs1, _⟩ := hseq.2 ids[i]!
      have hi2 := invHi_SEq hseq ids
      generalize (combineM st ids[i-1]! ids[i]!).2 = st2 at *
      have hbwf := WFS_nonsingle (hinv2.2.2 _ hq) (by rw [bs1]; exact hbs)
      have hov2 : (st2[ids[i]!]!).lo < (st2[ids[i-1]!]!).hi := by rw [bl1, ah1]; exact hov
      by_cases hg : (st2[ids[i]!]!).lo < min (st2[ids[i]!]!).hi (st2[ids[i-1]!]!).hi
      · exact Or.inr (Or.inr (splitStep_grow st2 ids i _ _ hg))
      · have hb : (st2[ids[i]!]!).hi = (st2[ids[i]!]!).lo := by omega
        rw [splitStep_point st2 ids i _ _ hb hov2]
        refine Or.inr (Or.inl ⟨rfl, ?_⟩)
        rw [← hi2]
        exact invHi_point hinv2.1 h0 hi (hinv2.2.1 _ hp) (hinv2.2.1 _ hq) hb hov2

theorem coalesceStep_meas {st : Store} {ids : List Nat} {i : Nat} {st' : Store} {ids' : List Nat} {i' : Nat}
    (hinv : Inv st ids) (hi : i = 0 ∨ i < ids.length) (h : coalesceStep st ids i = .cont st' ids' i') :
    StepKind st ids i st' ids' i' := by
  unfold coalesceStep at h
  split at h
  · cases h
  · rename_i h0
    have h0 : i ≠ 0 := by simpa using h0
    have hi : i < ids.length := by omega
    split at h
    · simp only [StepRes.cont.injEq] at h
      obtain ⟨rfl, rfl, rfl⟩ := h
      exact Or.inl ⟨rfl, rfl, by omega⟩
    · rename_i hsing
      simp only [Bool.or_eq_true, not_or, Bool.not_eq_true] at hsing
      split at h
      · cases h
      · have hseq := cmpM_SEq st ids[i-1]! ids[i]!
        have hk := coalesceTail_meas (Inv_SEq hseq hinv) h0 hi (by rw [(hseq.2 _).2.2.2.1]; exact hsing.2) h
        have he := invHi_SEq hseq ids
        unfold StepKind at hk ⊢
        rw [he] at hk
        exact hk

/-! ## the measure, and the bound -/

/-- `((N - R)·(N+1)² + inv)·(N+1) + i` for `N` hosts, `R` ranges, `inv` inversions of the `hi` sequence, scan position `i` -/
def coalesceMu (N : Nat) (st : Store) (ids : List Nat) (i : Nat) : Nat :=
  ((N - ids.length) * ((N + 1) * (N + 1)) + invHi st ids) * (N + 1) + i

theorem sq_lt_succ_sq {a n : Nat} (h : a ≤ n) : a * a < (n + 1) * (n + 1) := by
  have h1 : a * a ≤ n * n := Nat.mul_le_mul h h
  have h2 : (n + 1) * (n + 1) = n * n + n + n + 1 := by rw [Nat.add_mul, Nat.mul_add]; omega
  omega

theorem mu_arith_point (X v' i i' N : Nat) (h : i' ≤ N) : (X + v') * (N + 1) + i' < (X + (v' + 1)) * (N + 1) + i := by
  have : (X + (v' + 1)) * (N + 1) = (X + v') * (N + 1) + (N + 1) := by
    rw [← Nat.add_assoc, Nat.add_mul (X + v') 1, Nat.one_mul]
  omega

theorem mu_arith_grow (N R R' v v' i i' : Nat) (h1 : R < R') (h2 : R' ≤ N) (h3 : v' ≤ R' * R') (h4 : i' ≤ N) :
    ((N - R') * ((N + 1) * (N + 1)) + v') * (N + 1) + i' < ((N - R) * ((N + 1) * (N + 1)) + v) * (N + 1) + i := by
  have hK := sq_lt_succ_sq h2
  generalize (N + 1) * (N + 1) = K at *
  have h5 : (N - R' + 1) * K ≤ (N - R) * K := Nat.mul_le_mul_right K (by omega)
  rw [Nat.add_mul, Nat.one_mul] at h5
  have h6 : (N - R') * K + v' + 1 ≤ (N - R) * K + v := by omega
  have h7 := Nat.mul_le_mul_right (N + 1) h6
  rw [Nat.add_mul ((N - R') * K + v') 1, Nat.one_mul] at h7
  omega

theorem mu_arith_init (N R v i : Nat) (h2 : R ≤ N) (h3 : v ≤ R * R) (h4 : i ≤ N) :
    ((N - R) * ((N + 1) * (N + 1)) + v) * (N + 1) + i < (R + N + 2) ^ 4 := by
  have hK := sq_lt_succ_sq h2
  have hT : (N + 1) * ((N + 1) * (N + 1)) * (N + 1) ≤ (R + N + 2) ^ 4 := by
    have e : (R + N + 2) ^ 4 = (R + N + 2) * ((R + N + 2) * (R + N + 2)) * (R + N + 2) := by
      simp [Nat.pow_succ, Nat.mul_assoc]
    rw [e]
    have hle : N + 1 ≤ R + N + 2 := by omega
    exact Nat.mul_le_mul (Nat.mul_le_mul hle (Nat.mul_le_mul hle hle)) hle
  generalize (N + 1) * (N + 1) = K at *
  have h5 : (N - R) * K ≤ N * K := Nat.mul_le_mul_right K (by omega)
  have h6 : (N - R) * K + v + 1 ≤ (N + 1) * K := by rw [Nat.add_mul, Nat.one_mul]; omega
  have h7 := Nat.mul_le_mul_right (N + 1) h6
  rw [Nat.add_mul ((N - R) * K + v) 1, Nat.one_mul] at h7
  omega

/-- every iteration that does not end the loop keeps the invariant and the number of hosts and decreases `coalesceMu` -/
theorem coalesceStep_mu {st : Store} {ids : List Nat} {i : Nat} {st' : Store} {ids' : List Nat} {i' : Nat} {N : Nat}
    (hinv : Inv st ids) (hi : i = 0 ∨ i < ids.length) (hN : hostCount st ids = N)
    (h : coalesceStep st ids i = .cont st' ids' i') :
    Inv st' ids' ∧ (i' = 0 ∨ i' < ids'.length) ∧ hostCount st' ids' = N ∧ coalesceMu N st' ids' i' < coalesceMu N st ids i := by
  obtain ⟨hinv', hden, hi'⟩ := coalesceStep_cont hinv hi h
  have hN' : hostCount st' ids' = N := by rw [← hN, ← den_length, ← den_length]; exact hden.length_eq
  have hR' := hinv'.length_le_hosts
  rw [hN'] at hR'
  have hiN : i' ≤ N := by omega
  refine ⟨hinv', hi', hN', ?_⟩
  unfold coalesceMu
  rcases coalesceStep_meas hinv hi h with ⟨rfl, hv, hidx⟩ | ⟨rfl, hv⟩ | hlen
  · rw [hv]; omega
  · rw [← hv]; exact mu_arith_point _ _ _ _ _ hiN
  · exact mu_arith_grow _ _ _ _ _ _ _ hlen hR' (by unfold invHi; simpa using inv_le_sq (ids'.map fun i => (st'[i]!).hi)) hiN

theorem coalesceLoopF_ne_fuel : ∀ (f : Nat) (st : Store) (ids : List Nat) (i N : Nat),
    Inv st ids → (i = 0 ∨ i < ids.length) → hostCount st ids = N → coalesceMu N st ids i < f → coalesceLoopF f st ids i ≠ .fuel
  | 0, _, _, _, _, _, _, _, h => by omega
  | f + 1, st, ids, i, N, hinv, hi, hN, h => by
    unfold coalesceLoopF
    split
    · intro e; cases e
    · intro e; cases e
    · rename_i st' ids' i' hs
      obtain ⟨h1, h2, h3, h4⟩ := coalesceStep_mu hinv hi hN hs
      exact coalesceLoopF_ne_fuel f st' ids' i' N h1 h2 h3 (by omega)

/-- the outer loop of `hostlist_coalesce` ends within `coalesceFuel` iterations -/
theorem coalesce_ne_fuel {st : Store} {ids : List Nat} (hinv : Inv st ids) : coalesce st ids ≠ .fuel := by
  unfold coalesce
  refine coalesceLoopF_ne_fuel _ st ids _ (hostCount st ids) hinv (by omega) rfl ?_
  unfold coalesceFuel coalesceSize coalesceMu
  have hR := hinv.length_le_hosts
  exact mu_arith_init _ _ _ _ hR (by unfold invHi; simpa using inv_le_sq (ids.map fun i => (st[i]!).hi)) (by omega)

/-- `hostlist_sort` on a well-formed list never exhausts the computed iteration bounds of its mirror -/
theorem sortHL_ne_fuel (hl : Hostlist) (hwf : HWFS hl) : sortHL hl ≠ .fuel := by
  intro h
  obtain ⟨ids, st, hm, hco⟩ := sortHL_fuel_only_coalesce hl h
  obtain ⟨p1, s1⟩ := msort_perm _ _ _ _ _ hm
  exact coalesce_ne_fuel (Inv_perm p1.symm (Inv_SEq s1 (Inv_init hl hwf))) hco

/-- so it either returns a list or dies in the assert of `hostrange_intersect` -/
theorem sortHL_total (hl : Hostlist) (hwf : HWFS hl) : (∃ hl', sortHL hl = .ok hl') ∨ sortHL hl = .abort := by
  have := sortHL_ne_fuel hl hwf
  cases h : sortHL hl with
  | ok r => exact Or.inl ⟨r, rfl⟩
  | abort => exact Or.inr rfl
  | fuel => exact absurd h this

/-- under `HWFS` "did not return" means the assert, nothing else -/
theorem sortHL_Died_iff (hl : Hostlist) (hwf : HWFS hl) : (sortHL hl).Died ↔ sortHL hl = .abort := by
  unfold SortRes.Died
  constructor
  · rintro (h | h)
    · exact h
    · exact absurd h (sortHL_ne_fuel hl hwf)
  · exact Or.inl

/-! ## where the abort can come from: only the assert reached from `hostlist_coalesce` -/

theorem mergeF_ne_abort : ∀ (f : Nat) (st : Store) (l r acc : List Nat), mergeF f st l r acc ≠ .abort
  | 0, _, _, _, _ => by simp [mergeF]
  | f + 1, st, l, r, acc => by
    unfold mergeF
    split
    · intro e; cases e
    · intro e; cases e
    · split
      · exact mergeF_ne_abort f _ _ _ _
      · exact mergeF_ne_abort f _ _ _ _

theorem msort_ne_abort : ∀ (f : Nat) (st : Store) (ids : List Nat), msort f st ids ≠ .abort
  | 0, _, _ => by simp [msort]
  | f + 1, st, ids => by
    unfold msort
    split
    · intro e; cases e
    · have ih1 := msort_ne_abort f st (ids.take (ids.length / 2))
      split
      · rename_i l st1 _
        have ih2 := msort_ne_abort f st1 (ids.drop (ids.length / 2))
        split
        · exact mergeF_ne_abort _ _ _ _ _
        · rename_i hh; exact absurd hh ih2
        · intro e; cases e
      · rename_i hh; exact absurd hh ih1
      · intro e; cases e

theorem collapseLoopF_ne_abort : ∀ (f : Nat) (st : Store) (ids : List Nat) (i : Nat), collapseLoopF f st ids i ≠ .abort
  | 0, _, _, _ => by simp [collapseLoopF]
  | f + 1, st, ids, i => by
    unfold collapseLoopF
    split
    · intro e; cases e
    · rename_i hs; exact absurd hs collapseStep_ne_abort
    · exact collapseLoopF_ne_abort f _ _ _

/-- one iteration of `hostlist_coalesce` aborts exactly when both neighbours are numeric ranges and `hostrange_cmp`
    puts the left one after the right one -/
theorem coalesceStep_abort_iff (st : Store) (ids : List Nat) (i : Nat) :
    coalesceStep st ids i = .abort ↔
      i ≠ 0 ∧ (st[ids[i-1]!]!).single = false ∧ (st[ids[i]!]!).single = false ∧ (cmpM st ids[i-1]! ids[i]!).1 > 0 := by
  unfold coalesceStep
  split
  · rename_i h0; simp at h0; simp [h0]
  · rename_i h0
    have h0 : i ≠ 0 := by simpa using h0
    split
    · rename_i hs
      simp only [Bool.or_eq_true] at hs
      constructor
      · intro e; cases e
      · rintro ⟨_, h1, h2, _⟩; rw [h1, h2] at hs; simp at hs
    · rename_i hs
      simp only [Bool.or_eq_true, not_or, Bool.not_eq_true] at hs
      split
      · rename_i hc; exact ⟨fun _ => ⟨h0, hs.1, hs.2, hc⟩, fun _ => rfl⟩
      · rename_i hc
        constructor
        · intro e; exact absurd e coalesceTail_ne.1
        · rintro ⟨_, _, _, h⟩; exact absurd h hc

/-- the comparison that fires the assert: same prefix, both numeric, and either the widths were reconciled and the
    left range starts later, or the widths could not be reconciled and the left one is the wider (F19) -/
theorem cmpM_pos_iff (st : Store) (p q : Nat) (hp : (st[p]!).single = false) (hq : (st[q]!).single = false) :
    (cmpM st p q).1 > 0 ↔
      (st[q]!).pfx < (st[p]!).pfx ∨
      ((st[p]!).pfx = (st[q]!).pfx ∧
        ((combOk st[p]! st[q]! = true ∧ (st[q]!).lo < (st[p]!).lo) ∨
         (combOk st[p]! st[q]! = false ∧ (st[q]!).width < (st[p]!).width))) := by
  have hseq := combineM_SEq st p q
  have hpc : prefixCmp st[p]! st[q]! =
      if (st[p]!).pfx < (st[q]!).pfx then -1 else if (st[q]!).pfx < (st[p]!).pfx then 1 else 0 := by
    unfold prefixCmp; rw [hp, hq]; simp
  rw [cmpM_eq]
  by_cases h1 : (st[p]!).pfx < (st[q]!).pfx
  · have h2 : ¬ (st[q]!).pfx < (st[p]!).pfx := fun h => List.lt_asymm h1 h
    have h3 : (st[p]!).pfx ≠ (st[q]!).pfx := fun e => by rw [e] at h1; exact List.lt_irrefl _ h1
    rw [hpc]
    simp [h1, h2, h3]
  · by_cases h2 : (st[q]!).pfx < (st[p]!).pfx
    · rw [hpc]
      simp [h1, h2]
    · have h3 : (st[p]!).pfx = (st[q]!).pfx := List.le_antisymm (List.not_lt.mp h2) (List.not_lt.mp h1)
      have hpc0 : prefixCmp st[p]! st[q]! = 0 := by rw [hpc]; simp [h1, h2]
      simp only [hpc0, bne_self_eq_false, Bool.false_eq_true, if_false, h2, false_or]
      rw [← combineM_fst]
      cases hc : (combineM st p q).1
      · simp only [Bool.false_eq_true, if_false, false_and, true_and, false_or, h3]
        rw [combineM_false st p q hc, combineM_false st p q hc]
        omega
      · simp only [if_true, true_and, Bool.true_eq_false, false_and, or_false, h3]
        rw [(hseq.2 p).2.1, (hseq.2 q).2.1]
        omega

/-- `hostlist_sort` aborts only in the assert of `hostrange_intersect` reached from `hostlist_coalesce`: the merge sort
    and `hostlist_collapse` have no assert -/
theorem sortHL_abort_only_coalesce (hl : Hostlist) (h : sortHL hl = .abort) :
    ∃ ids st, msort (hl.length + 1) hl.toArray (List.range hl.length) = .ok (ids, st) ∧ coalesce st ids = .abort := by
  unfold sortHL at h
  split at h
  · cases h
  · unfold afterMsortF at h
    split at h
    · rename_i ids1 st1 hm
      refine ⟨ids1, st1, hm, ?_⟩
      unfold afterCoalesceF at h
      split at h
      · rename_i ids2 st2 hco
        unfold finishF at h
        split at h
        · cases h
        · rename_i hcl; unfold collapse at hcl; exact absurd hcl (collapseLoopF_ne_abort _ _ _ _)
        · cases h
      · rename_i hco; exact hco
      · cases h
    · rename_i hm; exact absurd hm (msort_ne_abort _ _ _)
    · cases h

/-- the hypotheses are satisfiable on a list where both kinds of split occur (`n[1-10]`, `n[5-5]` is a point split,
    `n[1-3]`, `n[2-5]` adds ranges) -/
example : HWFS (hlOfString "n[1-10],n[5-5],m[1-3],m[2-5],x") ∧
    sortHL (hlOfString "n[1-10],n[5-5],m[1-3],m[2-5],x") =
      .ok (hlOfString "m[1-2],m[2-3],m[3-5],n[1-5],n[5-10],x") := by
  constructor
  · unfold HWFS; decide +kernel
  · decide +kernel

end Pm

#print axioms Pm.sortHL_ne_fuel
#print axioms Pm.sortHL_total
#print axioms Pm.coalesce_ne_fuel
#print axioms Pm.sortHL_abort_only_coalesce
#print axioms Pm.cmpM_pos_iff
#print axioms Pm.coalesceStep_abort_iff
#print axioms Pm.sortHL_Died_iff
