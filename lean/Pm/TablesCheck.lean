import Pm.Generated.Tables
import Pm.Generated.Proto
import Pm.Daemon
import Pm.SpecCheck
/-! The hand-written constants of the model agree with the tables the translator regenerates from the C sources on
    every run (`Pm/Generated/*.lean`).  If a table changes in the source, one of these stops checking. -/
namespace Pm.TablesCheck
open Pm.Generated

theorem rtab_agrees : Pm.Dev2.rtab = rtab := by decide
theorem rtab_ge_one : ∀ x ∈ rtab, 1 ≤ x := by decide
theorem nScripts_agrees : Pm.Dev2.nScripts = NUM_SCRIPTS := by decide
theorem maxMatchPos_agrees : Pm.SpecCheck.MAX_MATCH_POS = MAX_MATCH_POS := by decide
/-- `client.c:_next_cli_id`: client ids are handed out 1, 2, 3, … and start again at 1 after `INT_MAX`.  The model's id counter is
    an unbounded `Nat`: it is the code's counter for every history with fewer than 2^31 − 1 accepted connections (`C11_ids*` are
    statements about those; what happens at the wrap is finding F17). -/
theorem cliIdWrap_is_int_max : CLI_ID_WRAP = 2147483647 := by decide
theorem login_ping_agree : Pm.Dev2.LOG_IN = PM_LOG_IN ∧ PM_PING = 6 := by decide

/-- `_get_all_script` / `_get_ranged_script` as mirrored in `Pm.Daemon` -/
theorem allOf_agrees : ∀ c, c < 64 → Pm.Daemon.allOf c = allOf c := by decide
theorem rangedOf_agrees : ∀ c, c < 64 → Pm.Daemon.rangedOf c = rangedOf c := by decide
/-- the ranged test of `_process_foreach` as mirrored in `Pm.Dev2.isRanged` -/
theorem isRanged_agrees : ∀ c, c < 64 → Pm.Dev2.isRanged c = rangedKinds.contains c := by decide
/-- `_is_query_action` on the commands a client can name -/
theorem isQuery_agrees : ∀ com : Pm.Client.Com, Pm.Daemon.isQuery (Pm.Daemon.comIdx com) = queryKinds.contains (Pm.Daemon.comIdx com) := by
  intro com; cases com <;> decide
/-- the script index of every client command -/
theorem comIdx_agrees : Pm.Daemon.comIdx .on = PM_POWER_ON ∧ Pm.Daemon.comIdx .off = PM_POWER_OFF ∧ Pm.Daemon.comIdx .cycle = PM_POWER_CYCLE ∧
    Pm.Daemon.comIdx .reset = PM_RESET ∧ Pm.Daemon.comIdx .flash = PM_BEACON_ON ∧ Pm.Daemon.comIdx .unflash = PM_BEACON_OFF ∧
    Pm.Daemon.comIdx .status = PM_STATUS_PLUGS ∧ Pm.Daemon.comIdx .temp = PM_STATUS_TEMP ∧ Pm.Daemon.comIdx .beacon = PM_STATUS_BEACON := by decide

/-- the kinds that carry a plug argument (C17's static check) are exactly the commands that have variants, plus the ranged variants -/
theorem plugArgKinds_agrees : ∀ c, c < 64 →
    Pm.SpecCheck.plugArgKinds.contains c = ((allOf c).isSome || (rangedOf c).isSome || rangedKinds.contains c) := by decide
theorem singletKinds_agrees : ∀ c, c < 64 →
    Pm.SpecCheck.singletKinds.contains c = ((allOf c).isSome || (rangedOf c).isSome) := by decide

/-- telnet option answers of `_telnet_recvopt` as mirrored in `telnetStep` (state OPT after `IAC DO`) -/
theorem telnet_agrees : ∀ b : Fin 256,
    (Pm.Dev2.telnetStep 2 253 (UInt8.ofNat b.val)).2.2.2 =
      (if telnetWill.contains b.val then [255, 251, UInt8.ofNat b.val] else if telnetWont.contains b.val then [255, 252, UInt8.ofNat b.val] else []) := by
  decide +kernel

/-! ### reply formats (`client_proto.h`) -/

def isDigit (b : UInt8) : Bool := 48 ≤ b.toNat && b.toNat ≤ 57
def documentedCodes : List Nat := [1, 101, 102, 103, 104, 105, 201, 202, 203, 204, 205, 208, 209, 210, 211, 213, 301, 302, 303, 304, 305, 306, 307, 308, 309]

/-- split at CRLF: complete lines and the rest -/
def splitCRLF : List UInt8 → List UInt8 → List (List UInt8) × List UInt8
  | [], cur => ([], cur.reverse)
  | [x], cur => ([], (x :: cur).reverse)
  | 13 :: 10 :: r, cur => let p := splitCRLF r []; (cur.reverse :: p.1, p.2)
  | x :: y :: r, cur => splitCRLF (y :: r) (x :: cur)

def lineOK (l : List UInt8) : Bool :=
  match l with
  | a :: b :: c :: 32 :: text =>
    isDigit a && isDigit b && isDigit c &&
    documentedCodes.contains ((a.toNat - 48) * 100 + (b.toNat - 48) * 10 + (c.toNat - 48)) &&
    text.all fun x => x != 13 && x != 10
  | _ => false

/-- a reply format is a non-empty sequence of complete `NNN␠text CRLF` lines with documented codes, nothing after the last CRLF;
    the prompt and the end-of-line constant themselves are exempt -/
def isReply (name : String) : Bool :=
  name.startsWith "CP_RSP_" || name.startsWith "CP_ERR_" || name.startsWith "CP_INFO_" || name == "CP_VERSION"

/-- a reply format is a non-empty sequence of complete `NNN␠text CRLF` lines with documented codes and nothing after the last
    CRLF (request keywords, the prompt and the end-of-line constant are not replies) -/
def fmtOK (name : String) (f : List UInt8) : Bool :=
  if !isReply name then true else
  let p := splitCRLF f []
  !p.1.isEmpty && p.2.isEmpty && p.1.all lineOK

/-- every reply format of the header, as regenerated from the source, is well-formed -/
theorem proto_wf : protoTable.all (fun p => fmtOK p.1 p.2) = true := by decide +kernel
/-- and there are replies in the table (the statement is not vacuous) -/
theorem proto_replies_present : (protoTable.filter fun p => isReply p.1).length ≥ 25 := by decide +kernel

/-- request keywords: the scanner of `Pm/Client.lean` uses the header's keywords (`"kw %s"` resp. `"kw"`) -/
theorem keywords_agree :
    Pm.Client.kwOn ++ [32, 37, 115] = CP_ON ∧ Pm.Client.kwOff ++ [32, 37, 115] = CP_OFF ∧ Pm.Client.kwCycle ++ [32, 37, 115] = CP_CYCLE ∧
    Pm.Client.kwReset ++ [32, 37, 115] = CP_RESET ∧ Pm.Client.kwFlash ++ [32, 37, 115] = CP_BEACON_ON ∧ Pm.Client.kwUnflash ++ [32, 37, 115] = CP_BEACON_OFF ∧
    Pm.Client.kwStatus ++ [32, 37, 115] = CP_STATUS ∧ Pm.Client.kwStatus = CP_STATUS_ALL ∧ Pm.Client.kwTemp ++ [32, 37, 115] = CP_TEMP ∧ Pm.Client.kwTemp = CP_TEMP_ALL ∧
    Pm.Client.kwBeacon ++ [32, 37, 115] = CP_BEACON ∧ Pm.Client.kwBeacon = CP_BEACON_ALL ∧ Pm.Client.kwDevice ++ [32, 37, 115] = CP_DEVICE ∧ Pm.Client.kwDevice = CP_DEVICE_ALL ∧
    Pm.Client.kwHelp = CP_HELP ∧ Pm.Client.kwNodes = CP_NODES ∧ Pm.Client.kwTelemetry = CP_TELEMETRY ∧ Pm.Client.kwExprange = CP_EXPRANGE ∧ Pm.Client.kwQuit = CP_QUIT := by
  decide

/-! the model's reply texts are the header's -/
open Pm.Daemon in
theorem proto_agrees :
    codeLine 201 ++ crlf = CP_ERR_UNKNOWN ∧ codeLine 203 ++ crlf = CP_ERR_TOOLONG ∧ codeLine 208 ++ crlf = CP_ERR_CLIBUSY ∧
    codeLine 213 ++ crlf = CP_ERR_UNIMPL ∧ codeLine 101 ++ crlf = CP_RSP_QUIT ∧
    bstr "102 Command completed successfully" ++ crlf = CP_RSP_COM_COMPLETE ∧ bstr "210 Command completed with errors" ++ crlf = CP_ERR_COM_COMPLETE ∧
    bstr "103 Query complete" ++ crlf = CP_RSP_QRY_COMPLETE ∧ bstr "211 Query completed with errors" ++ crlf = CP_ERR_QRY_COMPLETE ∧
    helpText = CP_INFO_HELP ∧ prompt = CP_PROMPT ∧ crlf = CP_EOL := by
  decide +kernel

end Pm.TablesCheck
