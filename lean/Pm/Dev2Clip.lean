import Pm.Dev2
/-! Basic facts about `clipRead`, the capacity half of `device.c:_handle_read` (`cbuf_write_from_fd` before the bytes land):
    it touches only `env.read` (cut to the planned length), `dev.fromSize` (grown) and `dev.fromBuf` (oldest bytes
    dropped, only at `MAX_DEV_BUF`).  Everything else is as before, so every lemma about the read branch of
    `_handle_ready_device` — stated for arbitrary delivered bytes — applies to the clipped state. -/
namespace Pm.Dev2

@[simp] theorem clipRead_sys (c : CS) : (clipRead c).sys = c.sys := by unfold clipRead; split <;> rfl
@[simp] theorem clipRead_aborted (c : CS) : (clipRead c).aborted = c.aborted := by unfold clipRead; split <;> rfl
@[simp] theorem clipRead_plugs (c : CS) : (clipRead c).dev.plugs = c.dev.plugs := by unfold clipRead; split <;> rfl
@[simp] theorem clipRead_scripts (c : CS) : (clipRead c).dev.scripts = c.dev.scripts := by unfold clipRead; split <;> rfl
@[simp] theorem clipRead_timeout (c : CS) : (clipRead c).dev.timeout = c.dev.timeout := by unfold clipRead; split <;> rfl
@[simp] theorem clipRead_acts (c : CS) : (clipRead c).dev.acts = c.dev.acts := by unfold clipRead; split <;> rfl
@[simp] theorem clipRead_toBuf (c : CS) : (clipRead c).dev.toBuf = c.dev.toBuf := by unfold clipRead; split <;> rfl
@[simp] theorem clipRead_xmStr (c : CS) : (clipRead c).dev.xmStr = c.dev.xmStr := by unfold clipRead; split <;> rfl
@[simp] theorem clipRead_xmOffs (c : CS) : (clipRead c).dev.xmOffs = c.dev.xmOffs := by unfold clipRead; split <;> rfl
@[simp] theorem clipRead_xmResult (c : CS) : (clipRead c).dev.xmResult = c.dev.xmResult := by unfold clipRead; split <;> rfl
@[simp] theorem clipRead_xmUsed (c : CS) : (clipRead c).dev.xmUsed = c.dev.xmUsed := by unfold clipRead; split <;> rfl
@[simp] theorem clipRead_args (c : CS) : (clipRead c).dev.args = c.dev.args := by unfold clipRead; split <;> rfl
@[simp] theorem clipRead_nextUid (c : CS) : (clipRead c).dev.nextUid = c.dev.nextUid := by unfold clipRead; split <;> rfl
@[simp] theorem clipRead_shortCircuitDelay (c : CS) : (clipRead c).dev.shortCircuitDelay = c.dev.shortCircuitDelay := by unfold clipRead; split <;> rfl
@[simp] theorem clipRead_wake (c : CS) : (clipRead c).dev.wake = c.dev.wake := by unfold clipRead; split <;> rfl
@[simp] theorem clipRead_connected (c : CS) : (clipRead c).dev.connected = c.dev.connected := by unfold clipRead; split <;> rfl
@[simp] theorem clipRead_retryCount (c : CS) : (clipRead c).dev.retryCount = c.dev.retryCount := by unfold clipRead; split <;> rfl
@[simp] theorem clipRead_lastRetry (c : CS) : (clipRead c).dev.lastRetry = c.dev.lastRetry := by unfold clipRead; split <;> rfl
@[simp] theorem clipRead_conn (c : CS) : (clipRead c).dev.conn = c.dev.conn := by unfold clipRead; split <;> rfl
@[simp] theorem clipRead_loggedIn (c : CS) : (clipRead c).dev.loggedIn = c.dev.loggedIn := by unfold clipRead; split <;> rfl
@[simp] theorem clipRead_fd (c : CS) : (clipRead c).dev.fd = c.dev.fd := by unfold clipRead; split <;> rfl
@[simp] theorem clipRead_cur (c : CS) : (clipRead c).dev.cur = c.dev.cur := by unfold clipRead; split <;> rfl
@[simp] theorem clipRead_naddr (c : CS) : (clipRead c).dev.naddr = c.dev.naddr := by unfold clipRead; split <;> rfl
@[simp] theorem clipRead_tstate (c : CS) : (clipRead c).dev.tstate = c.dev.tstate := by unfold clipRead; split <;> rfl
@[simp] theorem clipRead_tcmd (c : CS) : (clipRead c).dev.tcmd = c.dev.tcmd := by unfold clipRead; split <;> rfl
@[simp] theorem clipRead_statConnects (c : CS) : (clipRead c).dev.statConnects = c.dev.statConnects := by unfold clipRead; split <;> rfl
@[simp] theorem clipRead_statActions (c : CS) : (clipRead c).dev.statActions = c.dev.statActions := by unfold clipRead; split <;> rfl
@[simp] theorem clipRead_isPipe (c : CS) : (clipRead c).dev.isPipe = c.dev.isPipe := by unfold clipRead; split <;> rfl
@[simp] theorem clipRead_cpid (c : CS) : (clipRead c).dev.cpid = c.dev.cpid := by unfold clipRead; split <;> rfl
@[simp] theorem clipRead_pingPeriod (c : CS) : (clipRead c).dev.pingPeriod = c.dev.pingPeriod := by unfold clipRead; split <;> rfl
@[simp] theorem clipRead_lastPing (c : CS) : (clipRead c).dev.lastPing = c.dev.lastPing := by unfold clipRead; split <;> rfl
@[simp] theorem clipRead_env_now (c : CS) : (clipRead c).env.now = c.env.now := by unfold clipRead; split <;> rfl
@[simp] theorem clipRead_env_revents (c : CS) : (clipRead c).env.revents = c.env.revents := by unfold clipRead; split <;> rfl
@[simp] theorem clipRead_env_sockets (c : CS) : (clipRead c).env.sockets = c.env.sockets := by unfold clipRead; split <;> rfl
@[simp] theorem clipRead_env_connects (c : CS) : (clipRead c).env.connects = c.env.connects := by unfold clipRead; split <;> rfl
@[simp] theorem clipRead_env_soerrs (c : CS) : (clipRead c).env.soerrs = c.env.soerrs := by unfold clipRead; split <;> rfl
@[simp] theorem clipRead_env_writeOk (c : CS) : (clipRead c).env.writeOk = c.env.writeOk := by unfold clipRead; split <;> rfl
@[simp] theorem clipRead_env_pairs (c : CS) : (clipRead c).env.pairs = c.env.pairs := by unfold clipRead; split <;> rfl
@[simp] theorem clipRead_env_pids (c : CS) : (clipRead c).env.pids = c.env.pids := by unfold clipRead; split <;> rfl
@[simp] theorem clipRead_env_wcap (c : CS) : (clipRead c).env.wcap = c.env.wcap := by unfold clipRead; split <;> rfl

/-- the bytes `read` hands over after the cut: the first `n` of what the kernel had -/
def clipLen (c : CS) : Nat := match c.env.read with | some r => (devReadPlan c.dev r).1 | none => 0
/-- the number of oldest unread bytes that give way -/
def clipDrop (c : CS) : Nat := match c.env.read with | some r => (devReadPlan c.dev r).2.2 | none => 0
/-- the size of `dev->from` afterwards -/
def clipSize (c : CS) : Nat := match c.env.read with | some r => (devReadPlan c.dev r).2.1 | none => c.dev.fromSize

theorem clipRead_read (c : CS) : (clipRead c).env.read = c.env.read.map fun r => r.map fun bs => bs.take (clipLen c) := by
  unfold clipRead clipLen; split <;> simp_all
theorem clipRead_fromBuf (c : CS) : (clipRead c).dev.fromBuf = c.dev.fromBuf.drop (clipDrop c) := by
  unfold clipRead clipDrop; split <;> simp_all
theorem clipRead_fromSize (c : CS) : (clipRead c).dev.fromSize = clipSize c := by
  unfold clipRead clipSize; split <;> simp_all

theorem clipRead_read_none (c : CS) (h : c.env.read = none) : clipRead c = c := by
  unfold clipRead; rw [h]
theorem clipRead_read_err (c : CS) (h : c.env.read = some none) : (clipRead c).env.read = some none := by
  rw [clipRead_read, h]; rfl
theorem clipRead_read_some (c : CS) (bs : Bytes) (h : c.env.read = some (some bs)) :
    (clipRead c).env.read = some (some (bs.take (clipLen c))) := by
  rw [clipRead_read, h]; rfl
theorem clipRead_read_isNone (c : CS) : (clipRead c).env.read.isNone = c.env.read.isNone := by
  rw [clipRead_read]; cases c.env.read <;> rfl

/-- whatever is read after the cut is a prefix of what the kernel had, of the planned length -/
theorem clipRead_prefix (c : CS) (bs' : Bytes) (h : (clipRead c).env.read = some (some bs')) :
    ∃ bs, c.env.read = some (some bs) ∧ bs' = bs.take (clipLen c) ∧ clipLen c = (devReadPlan c.dev (some bs)).1 := by
  rw [clipRead_read] at h
  cases hr : c.env.read with
  | none => rw [hr] at h; cases h
  | some r =>
    cases r with
    | none => rw [hr] at h; cases h
    | some bs =>
      rw [hr] at h
      simp only [Option.map_some, Option.some.injEq] at h
      exact ⟨bs, rfl, h.symm, by unfold clipLen; rw [hr]⟩

/-- the bytes one `read` takes when the kernel has `bs` for a device in state `d`: the first `n` of them,
    `n = min (free space, or a chunk when the buffer is full) |bs|` -/
def readOf (d : Dev) (bs : Bytes) : Bytes := bs.take (devReadPlan d (some bs)).1

theorem clipLen_of_some (c : CS) (bs : Bytes) (h : c.env.read = some (some bs)) : clipLen c = (devReadPlan c.dev (some bs)).1 := by
  unfold clipLen; rw [h]

theorem clipRead_read_data (c : CS) (bs : Bytes) (h : c.env.read = some (some bs)) :
    (clipRead c).env.read = some (some (readOf c.dev bs)) := by
  rw [clipRead_read_some c bs h, clipLen_of_some c bs h]; rfl

theorem readOf_prefix (d : Dev) (bs : Bytes) : readOf d bs <+: bs := List.take_prefix _ _

theorem readOf_length (d : Dev) (bs : Bytes) : (readOf d bs).length = (devReadPlan d (some bs)).1 := by
  unfold readOf
  rw [List.length_take]
  have := Pm.Cbuf.readPlan_n_le_avail d.fromSize d.fromBuf.length devBufMax bs.length
  unfold devReadPlan
  simp only
  omega

theorem readOf_congr {d d' : Dev} (h1 : d'.fromSize = d.fromSize) (h2 : d'.fromBuf = d.fromBuf) (bs : Bytes) :
    readOf d' bs = readOf d bs := by
  unfold readOf devReadPlan; rw [h1, h2]

/-- whatever the read branch sees as data after the cut is `readOf` of what the kernel had -/
theorem clipRead_data_inv (c : CS) (bs' : Bytes) (h : (clipRead c).env.read = some (some bs')) :
    ∃ bs, c.env.read = some (some bs) ∧ bs' = readOf c.dev bs := by
  obtain ⟨bs, h1, h2, h3⟩ := clipRead_prefix c bs' h
  exact ⟨bs, h1, by rw [h2, h3]; rfl⟩

/-- the whole device after the cut -/
theorem clipRead_dev (c : CS) : (clipRead c).dev = { c.dev with fromSize := clipSize c, fromBuf := c.dev.fromBuf.drop (clipDrop c) } := by
  unfold clipRead clipSize clipDrop; split <;> simp_all

/-- the number of oldest unread bytes one `read` overwrites when the kernel has `bs` (0 unless the buffer is full at
    `MAX_DEV_BUF`) -/
def dropOf (d : Dev) (bs : Bytes) : Nat := (devReadPlan d (some bs)).2.2
/-- the size of `dev->from` after that `read` -/
def sizeAfter (d : Dev) (bs : Bytes) : Nat := (devReadPlan d (some bs)).2.1
/-- the device after the capacity half of a `read` for which the kernel has `bs` -/
def devClip (d : Dev) (bs : Bytes) : Dev := { d with fromSize := sizeAfter d bs, fromBuf := d.fromBuf.drop (dropOf d bs) }

theorem clipRead_dev_data (c : CS) (bs : Bytes) (h : c.env.read = some (some bs)) : (clipRead c).dev = devClip c.dev bs := by
  unfold clipRead devClip sizeAfter dropOf; rw [h]

/-- the whole state after the capacity half of a `read` for which the kernel has `bs` -/
theorem clipRead_data_eq (c : CS) (bs : Bytes) (h : c.env.read = some (some bs)) :
    clipRead c = { c with env := { c.env with read := some (some (readOf c.dev bs)) }, dev := devClip c.dev bs } := by
  unfold clipRead devClip sizeAfter dropOf readOf; rw [h]; rfl

theorem readOf_nil (d : Dev) : readOf d [] = [] := by unfold readOf; simp

theorem dropOf_nil (d : Dev) : dropOf d [] = 0 := by
  unfold dropOf devReadPlan; exact (Pm.Cbuf.readPlan_zero _ _ _).2

/-- a `read` that hands over nothing (end of file, `EAGAIN`, an error) changes nothing but, possibly, the size -/
theorem clipRead_dev_nodata (c : CS) (h : ∀ bs, c.env.read = some (some bs) → bs = []) :
    (clipRead c).dev = { c.dev with fromSize := clipSize c } := by
  rw [clipRead_dev]
  have : clipDrop c = 0 := by
    unfold clipDrop
    cases hr : c.env.read with
    | none => rfl
    | some r =>
      cases r with
      | none => exact (Pm.Cbuf.readPlan_zero _ _ _).2
      | some bs => rw [h bs hr]; exact (Pm.Cbuf.readPlan_zero _ _ _).2
  rw [this, List.drop_zero]

/-- something to hand out, something read: the request is never for zero bytes -/
theorem readOf_ne_nil (d : Dev) (bs : Bytes) (h : bs ≠ []) : readOf d bs ≠ [] := by
  intro h0
  have hl := readOf_length d bs
  rw [h0] at hl
  unfold devReadPlan at hl
  rw [Pm.Cbuf.readPlan_n_eq] at hl
  have : 0 < bs.length := List.length_pos_iff.mpr h
  simp only [List.length_nil] at hl
  unfold Pm.Cbuf.chunk at hl
  split at hl <;> omega

@[simp] theorem devClip_conn (d : Dev) (bs : Bytes) : (devClip d bs).conn = d.conn := rfl
@[simp] theorem devClip_statConnects (d : Dev) (bs : Bytes) : (devClip d bs).statConnects = d.statConnects := rfl
@[simp] theorem devClip_isPipe (d : Dev) (bs : Bytes) : (devClip d bs).isPipe = d.isPipe := rfl
@[simp] theorem devClip_tstate (d : Dev) (bs : Bytes) : (devClip d bs).tstate = d.tstate := rfl
@[simp] theorem devClip_tcmd (d : Dev) (bs : Bytes) : (devClip d bs).tcmd = d.tcmd := rfl
@[simp] theorem devClip_toBuf (d : Dev) (bs : Bytes) : (devClip d bs).toBuf = d.toBuf := rfl
@[simp] theorem devClip_acts (d : Dev) (bs : Bytes) : (devClip d bs).acts = d.acts := rfl
@[simp] theorem devClip_fromBuf (d : Dev) (bs : Bytes) : (devClip d bs).fromBuf = d.fromBuf.drop (dropOf d bs) := rfl
@[simp] theorem devClip_fromSize (d : Dev) (bs : Bytes) : (devClip d bs).fromSize = sizeAfter d bs := rfl

end Pm.Dev2
