import Pm.Dev2
/-! The capacity of the device *output* buffer `dev->to` (`cbuf_create(MIN_DEV_BUF, MAX_DEV_BUF)`, overwrite mode
    `CBUF_WRAP_MANY`): basic facts about `clipTo`, the model of "what is queued after `cbuf_write` stored these bytes
    behind those": the last 65536 bytes of the concatenation.

    Everything is proved for an arbitrary capacity `m` first (`lastN`): tactics that meet the literal `65536` next to an
    unknown length try to evaluate `n - 65536` by unfolding and run out of recursion depth. -/
namespace Pm.Dev2

/-- the last `m` elements -/
def lastN {α : Type} (m : Nat) (b : List α) : List α := if m < b.length then b.drop (b.length - m) else b

section generic
variable {α : Type}

theorem lastN_eq_drop (m : Nat) (b : List α) : lastN m b = b.drop (b.length - m) := by
  unfold lastN; split
  · rfl
  · rw [Nat.sub_eq_zero_of_le (by omega)]; rfl

theorem lastN_of_le (m : Nat) (b : List α) (h : b.length ≤ m) : lastN m b = b := by
  unfold lastN; split
  · omega
  · rfl

theorem lastN_length (m : Nat) (b : List α) : (lastN m b).length = min b.length m := by
  unfold lastN; split
  · rw [List.length_drop]; omega
  · omega

theorem lastN_suffix (m : Nat) (b : List α) : lastN m b <:+ b := by
  rw [lastN_eq_drop]; exact List.drop_suffix _ _

theorem lastN_split (m : Nat) (b : List α) : b = b.take (b.length - m) ++ lastN m b := by
  rw [lastN_eq_drop, List.take_append_drop]

theorem lastN_eq_nil_iff (m : Nat) (hm : 0 < m) (b : List α) : lastN m b = [] ↔ b = [] := by
  constructor
  · intro h
    have := lastN_length m b
    rw [h] at this
    simp only [List.length_nil] at this
    exact List.eq_nil_of_length_eq_zero (by omega)
  · intro h; rw [h]; rfl

theorem lastN_isEmpty (m : Nat) (hm : 0 < m) (b : List α) : (lastN m b).isEmpty = b.isEmpty := by
  cases hb : b with
  | nil => rfl
  | cons x xs =>
    cases hc : lastN m (x :: xs) with
    | nil => have := (lastN_eq_nil_iff m hm _).mp hc; cases this
    | cons _ _ => rfl

theorem lastN_lastN_append (m : Nat) (a b : List α) : lastN m (lastN m a ++ b) = lastN m (a ++ b) := by
  by_cases h : a.length ≤ m
  · rw [lastN_of_le m a h]
  · have e : a = a.take (a.length - m) ++ lastN m a := lastN_split m a
    have hd : (lastN m a).length = m := by rw [lastN_length]; omega
    have hl : (a.take (a.length - m)).length = a.length - m := by rw [List.length_take]; omega
    generalize lastN m a = t at e hd
    generalize a.take (a.length - m) = p at e hl
    subst e
    rw [lastN_eq_drop, lastN_eq_drop m (p ++ t ++ b), List.append_assoc]
    have h1 : (p ++ (t ++ b)).length - m = p.length + ((t ++ b).length - m) := by
      simp only [List.length_append] at h ⊢; omega
    rw [h1, ← List.drop_drop, List.drop_left]

theorem lastN_foldl_append (m : Nat) (init : List α) (ws : List (List α)) :
    ws.foldl (fun acc w => lastN m (acc ++ w)) (lastN m init) = lastN m (init ++ ws.flatten) := by
  induction ws generalizing init with
  | nil => simp
  | cons w r ih =>
    simp only [List.foldl_cons, List.flatten_cons]
    rw [lastN_lastN_append, ih, List.append_assoc]

theorem lastN_append_of_fits (m : Nat) (old s : List α) (hs : s.length ≤ m) :
    lastN m (old ++ s) = old.drop ((old ++ s).length - m) ++ s := by
  rw [lastN_eq_drop, List.drop_append]
  have : (old ++ s).length - m - old.length = 0 := by simp only [List.length_append]; omega
  rw [this, List.drop_zero]

theorem lastN_append_of_long (m : Nat) (old s : List α) (hs : m ≤ s.length) : lastN m (old ++ s) = lastN m s := by
  rw [lastN_eq_drop, lastN_eq_drop m s, List.drop_append]
  have h1 : old.length ≤ (old ++ s).length - m := by simp only [List.length_append]; omega
  rw [List.drop_eq_nil_of_le h1, List.nil_append]
  congr 1
  simp only [List.length_append]; omega

theorem lastN_full (m : Nat) (old s : List α) (hf : old.length = m) (hs : s.length ≤ m) :
    lastN m (old ++ s) = old.drop s.length ++ s := by
  rw [lastN_append_of_fits m old s hs]
  congr 2
  simp only [List.length_append]; omega

end generic

/-- `MAX_DEV_BUF` for the output side (the same constant as `devBufMax`) -/
def toMax : Nat := 65536

theorem toMax_eq_devBufMax : toMax = devBufMax := rfl
theorem toMax_val : toMax = 65536 := rfl

theorem clipTo_eq_lastN (b : Bytes) : clipTo b = lastN 65536 b := rfl

/-- `clipTo` in the form the task states it: the last 65536 bytes -/
theorem clipTo_eq_drop (b : Bytes) : clipTo b = b.drop (b.length - 65536) := lastN_eq_drop 65536 b

/-- below the limit (and at it) nothing is lost -/
theorem clipTo_of_le (b : Bytes) (h : b.length ≤ 65536) : clipTo b = b := lastN_of_le 65536 b h

@[simp] theorem clipTo_nil : clipTo [] = [] := rfl

theorem clipTo_length (b : Bytes) : (clipTo b).length = min b.length 65536 := lastN_length 65536 b

/-- the capacity: never more than 65536 bytes are queued after a write -/
theorem clipTo_length_le (b : Bytes) : (clipTo b).length ≤ 65536 := by
  rw [clipTo_length]; exact Nat.min_le_right _ _

theorem clipTo_length_le_self (b : Bytes) : (clipTo b).length ≤ b.length := by
  rw [clipTo_length]; exact Nat.min_le_left _ _

/-- what survives is the end of what was stored -/
theorem clipTo_suffix (b : Bytes) : clipTo b <:+ b := lastN_suffix 65536 b

/-- nothing but the dropped oldest bytes is missing -/
theorem clipTo_split (b : Bytes) : b = b.take (b.length - 65536) ++ clipTo b := lastN_split 65536 b

theorem clipTo_idem (b : Bytes) : clipTo (clipTo b) = clipTo b :=
  clipTo_of_le _ (clipTo_length_le b)

theorem clipTo_eq_nil_iff (b : Bytes) : clipTo b = [] ↔ b = [] := lastN_eq_nil_iff 65536 (by decide) b

theorem clipTo_isEmpty (b : Bytes) : (clipTo b).isEmpty = b.isEmpty := lastN_isEmpty 65536 (by decide) b

/-- overwriting writes compose: what survives of a write behind what survived earlier writes is what survives of everything
    written.  (This is why the telnet filter, which issues one 3-byte `cbuf_write` per answer, can be modelled by one
    `clipTo` of all answers of the pass.) -/
theorem clipTo_clipTo_append (a b : Bytes) : clipTo (clipTo a ++ b) = clipTo (a ++ b) := lastN_lastN_append 65536 a b

/-- the telnet answers are triples: a sequence of single writes is one write of the concatenation -/
theorem clipTo_foldl_append (init : Bytes) (ws : List Bytes) :
    ws.foldl (fun acc w => clipTo (acc ++ w)) (clipTo init) = clipTo (init ++ ws.flatten) :=
  lastN_foldl_append 65536 init ws

/-- the number of oldest bytes a write of `s` behind `old` overwrites: `*ndropped = MAX (0, n - nfree)` of `cbuf_writer`
    after `cbuf_grow` made `nfree = 65536 - |old|` -/
def toDropped (old s : Bytes) : Nat := (old ++ s).length - 65536

theorem toOverrun_iff (old s : Bytes) : toOverrun old s = true ↔ 0 < toDropped old s := by
  unfold toOverrun toDropped; simp only [decide_eq_true_eq]; exact (Nat.sub_pos_iff_lt).symm

theorem toOverrun_false_iff (old s : Bytes) : toOverrun old s = false ↔ (old ++ s).length ≤ 65536 := by
  unfold toOverrun; simp only [decide_eq_false_iff_not]; exact Nat.not_lt

theorem toOverrun_false_of_le (old s : Bytes) (h : (old ++ s).length ≤ 65536) : toOverrun old s = false :=
  (toOverrun_false_iff old s).mpr h

/-- a write behind `old`: the `toDropped` oldest bytes of (`old ++ s`) are gone, the rest is queued -/
theorem clipTo_append_eq (old s : Bytes) : clipTo (old ++ s) = (old ++ s).drop (toDropped old s) :=
  lastN_eq_drop 65536 (old ++ s)

/-- as long as what is written fits the buffer, the dropped bytes are all bytes of `old` and `s` is queued whole -/
theorem clipTo_append_of_fits (old s : Bytes) (hs : s.length ≤ 65536) :
    clipTo (old ++ s) = old.drop (toDropped old s) ++ s := lastN_append_of_fits 65536 old s hs

/-- a write longer than the buffer: nothing of `old` is left and only the tail of `s` is queued -/
theorem clipTo_append_of_long (old s : Bytes) (hs : 65536 ≤ s.length) : clipTo (old ++ s) = clipTo s :=
  lastN_append_of_long 65536 old s hs

/-- the exact statement at the limit: with exactly 65536 bytes queued, a write of `k ≤ 65536` bytes loses exactly the `k` oldest -/
theorem clipTo_full (old s : Bytes) (hf : old.length = 65536) (hs : s.length ≤ 65536) :
    clipTo (old ++ s) = old.drop s.length ++ s := lastN_full 65536 old s hf hs

/-- below the limit the old clean statement: the write is an append -/
theorem clipTo_append_of_le (old s : Bytes) (h : (old ++ s).length ≤ 65536) : clipTo (old ++ s) = old ++ s :=
  clipTo_of_le _ h

example : clipTo [1, 2, 3] = [1, 2, 3] := by decide
example : toOverrun [1, 2] [3] = false := by decide
example : (clipTo (List.replicate 65536 7 ++ [1, 2, 3])).length = 65536 := by
  rw [clipTo_length, List.length_append, List.length_replicate]; decide
example : clipTo (List.replicate 65536 7 ++ [1, 2, 3]) = (List.replicate 65536 7).drop 3 ++ [1, 2, 3] :=
  clipTo_full _ _ List.length_replicate (by decide)

end Pm.Dev2

section audit
open Pm.Dev2
#print axioms clipTo_eq_drop
#print axioms clipTo_clipTo_append
#print axioms clipTo_foldl_append
#print axioms clipTo_full
#print axioms clipTo_append_of_long
#print axioms clipTo_isEmpty
end audit
