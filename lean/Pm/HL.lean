import Pm.Digits
namespace Pm

abbrev Name := List Char

/-- result of a C function that may leave the normal world -/
inductive Res (α : Type) where
  | ok (a : α)
  | abort (site : String)      -- assert()
  | exit (status : Nat) (msg : String)  -- err_exit / lsd_fatal_error
  | ub (site : String)         -- out-of-bounds access the model tracks
deriving Repr

structure HostRange where
  pfx : Name
  lo : Nat
  hi : Nat
  width : Nat
  single : Bool
deriving Repr, DecidableEq

abbrev Hostlist := List HostRange

def MAX_HOST_SUFFIX : Nat := 1 <<< 25

def HostRange.count (r : HostRange) : Nat := if r.single then 1 else r.hi - r.lo + 1

def HostRange.expand (r : HostRange) : List Name :=
  if r.single then [r.pfx] else (List.range (r.hi + 1 - r.lo)).map fun i => r.pfx ++ fmtNum r.width (r.lo + i)

def expand (hl : Hostlist) : List Name := hl.flatMap HostRange.expand

/-- `hostname_create`: split trailing digits; suffix valid iff value ≤ MAX_HOST_SUFFIX -/
structure HostName where
  full : Name
  pfx : Name
  num : Nat
  suffix : Option Name   -- none = no valid numeric suffix
deriving Repr

def splitDigits (n : Name) : Name × Name :=
  let r := n.reverse
  let ds := r.takeWhile Char.isDigit
  ((r.dropWhile Char.isDigit).reverse, ds.reverse)


def HostName.ofName (n : Name) : HostName :=
  let (p, ds) := splitDigits n
  if ds.isEmpty then { full := n, pfx := n, num := 0, suffix := none }
  else
    let v := parseNat ds
    if v ≤ MAX_HOST_SUFFIX then { full := n, pfx := p, num := v, suffix := some ds }
    else { full := n, pfx := n, num := 0, suffix := none }

def pushRange (hl : Hostlist) (r : HostRange) : Hostlist :=
  match hl.getLast? with
  | some t =>
    if t.pfx = r.pfx ∧ t.single = r.single ∧ !t.single ∧ t.hi + 1 = r.lo then
      match widthEquiv t.lo t.width r.lo r.width with
      | some (wt, _) => hl.dropLast ++ [{ t with hi := r.hi, width := wt }]
      | none => hl ++ [r]
    else hl ++ [r]
  | none => [r]

def pushHost (hl : Hostlist) (n : Name) : Hostlist :=
  let h := HostName.ofName n
  match h.suffix with
  | some ds => pushRange hl { pfx := h.pfx, lo := h.num, hi := h.num, width := ds.length, single := false }
  | none => pushRange hl { pfx := n, lo := 0, hi := 0, width := 0, single := true }

/-- well-formedness kept by every operation -/
def HostRange.WF (r : HostRange) : Prop := r.single = true ∨ r.lo ≤ r.hi

end Pm

