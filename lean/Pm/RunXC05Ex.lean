import Pm.RunXC05
import Pm.FrameEx
import Pm.TwoRunEx
/-! Example runs for the non-vacuity examples of the `runX` statements of `Props/C05`: the example worlds of `Pm/FrameEx.lean` and
`Pm/TwoRunEx.lean` with **no regex answer pending at the start**; the answers of each pass are fed before that pass (`feed`), and
device `B` gets different answers in the two runs in *both* passes (`xB'` for the sick `B'`). -/
namespace Pm.Daemon.TwoRun.ExC05
open Pm Pm.Client Pm.Daemon Pm.Daemon.Isolation Pm.Daemon.TwoRun

/-! ### general client phase -/

def wa0 : W := withX Ex.wa []
def wb0 : W := withX Ex.wb []
/-- the two runs as pairs of `PassX`: `(⟨q1, xA⟩, ⟨q1, xA ++ xB'⟩)`, `(⟨q2, []⟩, ⟨q2, xB'⟩)` -/
def runsG : List (PassX × PassX) := Ex.runsG.map toX2

theorem rel0 : MRel Pm.Daemon.Ex.Q Ex.FB 1 Ex.PBx wa0 wb0 := Ex.rel0.withX [] []

theorem goodG0 : GenRun Pm.Daemon.Ex.Q Ex.FB 1 Ex.PBx wa0 wb0 Ex.runsG :=
  .cons _ _ _ _ _ _ _ _ _ _ _ Ex.cli1h Ex.dev1h (.cons _ _ _ _ _ _ _ _ _ _ _ Ex.cli2h Ex.dev2h (.nil _ _))

theorem alongG : AlongX (GenX Pm.Daemon.Ex.Q Ex.FB 1 Ex.PBx) wa0 wb0 runsG :=
  (genRun_to_X Pm.Daemon.Ex.Q Ex.FB 1 Ex.PBx Ex.hQB wa0 wb0 Ex.runsG goodG0 rel0 rfl rfl).1

theorem runsG_eq : runsG = [(⟨Ex.q1, Pm.Daemon.Ex.xA⟩, ⟨Ex.q1, Pm.Daemon.Ex.xA ++ Pm.Daemon.Ex.xB'⟩), (⟨Ex.q2, []⟩, ⟨Ex.q2, Pm.Daemon.Ex.xB'⟩)] := rfl

theorem outcomeG :
    (cliRec (runX wa0 (runsG.map (·.1))) 1).map (fun c => (c.toBuf, c.cmd.map (·.pending))) =
      some (bstr "208 Command in progress\r\n", some 1) ∧
    (cliRec (runX wb0 (runsG.map (·.2))) 1).map (fun c => (c.toBuf, c.cmd.map (·.pending))) =
      some (bstr "208 Command in progress\r\n", some 1) ∧
    (runX wa0 (runsG.map (·.1))).devs.map (fun nd => (nd.2.acts.map (·.clientId), nd.2.fromBuf)) =
      [([1], []), ([2], []), ([], [])] ∧
    (runX wb0 (runsG.map (·.2))).devs.map (fun nd => (nd.2.acts.map (·.clientId), nd.2.fromBuf)) =
      [([1], []), ([2], [1, 2, 3]), ([], [])] ∧
    replyPassRunX wa0 (runsG.map (·.1)) 1 = some 0 ∧ replyPassRunX wb0 (runsG.map (·.2)) 1 = some 0 := by decide +kernel

/-! ### quiet client phase -/

def w10 : W := withX Pm.Daemon.Ex.w1 []
def w20 : W := withX Pm.Daemon.Ex.w2 []
def runs : List (PassX × PassX) := Pm.Daemon.Ex.runs.map toX2

theorem relQ : PassRel Pm.Daemon.Ex.Q 1 1 w10 w20 := Pm.Daemon.Ex.rel0.withX [] []

theorem good20 : GoodRun Pm.Daemon.Ex.Q 1 1 w10 w20 Pm.Daemon.Ex.runs :=
  .cons _ _ _ _ _ _ _ _ _ _ _ Pm.Daemon.Ex.hyps1 (.cons _ _ _ _ _ _ _ _ _ _ _ Pm.Daemon.Ex.hyps2 (.nil _ _))

theorem alongQ : AlongX (GoodX Pm.Daemon.Ex.Q 1 1) w10 w20 runs :=
  (goodRun_to_X Pm.Daemon.Ex.Q 1 1 w10 w20 Pm.Daemon.Ex.runs good20 relQ rfl rfl).1

/-! ### an observer of `B` that goes on typing -/

def wh0 : W := withX Ex.wh []
theorem relH : MRel Pm.Daemon.Ex.Q Ex.FB 1 Ex.PBx wh0 wb0 := Ex.relH.withX [] []

theorem observer :
    (cliRec (runX wh0 (Ex.runH.map toX)) 1).map (·.toBuf) =
      some (bstr "304 A: state=connected reconnects=000 actions=002 type= hosts=a1\r\n103 Query complete\r\npowerman> ") ∧
    (cliRec (runX wb0 (Ex.runS.map toX)) 1).map (·.toBuf) =
      some (bstr "304 A: state=connected reconnects=000 actions=001 type= hosts=a1\r\n103 Query complete\r\npowerman> ") :=
  ⟨by decide +kernel, by decide +kernel⟩

end Pm.Daemon.TwoRun.ExC05
