import Pm.RedfishPW
/-! helper lemmas for C19, part 3: the plug-state association list; `processOne` by cases -/
namespace Pm.Redfish

theorem lookup_filter_ne (st : St) (p x : Nat) (h : x ≠ p) :
    List.lookup x (st.filter (fun e => !decide (e.1 = p))) = List.lookup x st := by
  induction st with
  | nil => rfl
  | cons e st ih =>
    rcases e with ⟨a, b⟩
    by_cases ha : a = p
    · subst ha
      have : (x == a) = false := by simp [h]
      simp [List.lookup_cons, this, ih]
    · by_cases hx : x = a
      · subst hx; simp [ha, List.lookup_cons]
      · have : (x == a) = false := by simp [hx]
        simp [ha, List.lookup_cons, this, ih]

theorem isOn_setSt (st : St) (p : Nat) (v : Bool) (x : Nat) :
    isOn (setSt st p v) x = if x = p then v else isOn st x := by
  unfold isOn setSt
  by_cases h : x = p
  · subst h; simp [List.lookup_cons]
  · have : (x == p) = false := by simp [h]
    simp [List.lookup_cons, this, h, lookup_filter_ne st p x h]

theorem isOn_descOff_fold (c : Cfg) (p : Nat) (l : List PlugCfg) (st : St) (x : Nat) :
    isOn (l.foldl (fun s q => if isDesc c q.name p then setSt s q.name false else s) st) x
      = (isOn st x && !(l.any fun q => q.name = x && isDesc c q.name p)) := by
  induction l generalizing st with
  | nil => simp
  | cons q l ih =>
    rw [List.foldl_cons, ih]
    by_cases hd : isDesc c q.name p = true
    · simp only [hd, if_true, isOn_setSt, List.any_cons]
      by_cases hx : x = q.name
      · subst hx; simp [hd]
      · have : ¬ q.name = x := fun e => hx e.symm
        simp [hx, this]
    · simp [hd]

theorem isOn_descendantsOff {c : Cfg} (st : St) (p x : Nat) :
    isOn (descendantsOff c st p) x = (isOn st x && !isDesc c x p) := by
  unfold descendantsOff
  rw [isOn_descOff_fold]
  by_cases hd : isDesc c x p = true
  · have hk : known c x = true := by
      obtain ⟨q, hq⟩ := anc_nonempty_parent (isDesc_iff.1 hd)
      exact parentOf_known hq
    unfold known at hk
    cases hl : lookup c x with
    | none => simp [hl] at hk
    | some pc =>
      have ⟨hn, hm⟩ := lookup_name hl
      have : (c.plugs.any fun q => q.name = x && isDesc c q.name p) = true := by
        rw [List.any_eq_true]; exact ⟨pc, hm, by simp [hn, hd]⟩
      simp [this, hd]
  · have : (c.plugs.any fun q => q.name = x && isDesc c q.name p) = false := by
      rw [List.any_eq_false]; intro q _
      by_cases e : q.name = x
      · subst e; simpa using hd
      · simp [e]
    simp [this, hd]

/-- the state after an accepted power command on `p` -/
def powerSt (c : Cfg) (st : St) (cmd : Cmd) (p : Nat) : St :=
  if cmd == .on then setSt st p true else descendantsOff c (setSt st p false) p

theorem isOn_powerSt_on (c : Cfg) (st : St) (p x : Nat) :
    isOn (powerSt c st .on p) x = (decide (x = p) || isOn st x) := by
  simp only [powerSt, beq_self_eq_true, if_true, isOn_setSt]
  by_cases h : x = p <;> simp [h]

theorem isOn_powerSt_off (c : Cfg) (st : St) (p x : Nat) (cmd : Cmd) (h : cmd ≠ .on) :
    isOn (powerSt c st cmd p) x = (isOn st x && !decide (x = p) && !isDesc c x p) := by
  have : (cmd == Cmd.on) = false := by cases cmd <;> simp_all
  unfold powerSt
  rw [this]
  simp only [Bool.false_eq_true, if_false]
  rw [isOn_descendantsOff, isOn_setSt]
  by_cases h : x = p <;> simp [h]

/-! ### `processOne`, one lemma per branch -/

def outIf (m : M) (b : Bool) (l : Line) : M := if b then { m with out := m.out ++ [l] } else m

theorem processOne_fail (c : Cfg) (m : M) (pm : PM) (h : hostFails c pm.plug = true) :
    processOne c m pm = processWaiters c (outIf m pm.output (.status pm.plug .error)) pm.plug .error := by
  simp [processOne, h, outIf]

theorem processOne_stat (c : Cfg) (m : M) (pm : PM) (h : hostFails c pm.plug = false) (hc : pm.cmd = .stat) :
    processOne c m pm =
      processWaiters c (outIf m pm.output (.status pm.plug (statStr c m pm.plug))) pm.plug (statStr c m pm.plug) := by
  simp [processOne, h, hc, outIf]

theorem processOne_fresh (c : Cfg) (m : M) (pm : PM) (h : hostFails c pm.plug = false) (hc : pm.cmd ≠ .stat)
    (hwt : pm.waitState = false) :
    processOne c m pm =
      { m with st := powerSt c m.st pm.cmd pm.plug,
               delayed := m.delayed ++ [{ pm with output := true, waitState := true }] } := by
  unfold processOne powerSt
  cases hcm : pm.cmd <;> simp_all

theorem processOne_done (c : Cfg) (m : M) (pm : PM) (h : hostFails c pm.plug = false) (hc : pm.cmd ≠ .stat)
    (hwt : pm.waitState = true) (hs : (statStr c m pm.plug == .on) = (pm.cmd == .on)) :
    processOne c m pm =
      processWaiters c { m with out := m.out ++ [.ok pm.plug] } pm.plug (statStr c m pm.plug) := by
  unfold processOne
  cases hcm : pm.cmd <;> simp_all

theorem processOne_again (c : Cfg) (m : M) (pm : PM) (h : hostFails c pm.plug = false) (hc : pm.cmd ≠ .stat)
    (hwt : pm.waitState = true) (hs : (statStr c m pm.plug == .on) ≠ (pm.cmd == .on)) :
    processOne c m pm = { m with delayed := m.delayed ++ [pm] } := by
  unfold processOne
  cases hcm : pm.cmd <;> simp_all

end Pm.Redfish
