import Pm.CbufRingBase
/-! Refinement proof of the index-level cbuf model, part 1: create / flush / options, `cbuf_dropper`, `cbuf_drop`,
`cbuf_reader`, `cbuf_peek`, `cbuf_read_to_fd`.  (Part 2, the write side: `Pm/CbufRingWrite.lean`; lines:
`Pm/CbufRingLine.lean`.) -/
namespace Pm.CbufRing

/-! ### create, flush, options -/

theorem create_valid (mn mx : Int) (r : Ring) (h : create mn mx = some r) : ValidP r := by
  unfold create at h
  split at h
  · cases h
  · rename_i hmn
    injection h with h
    subst h
    have hmn' : 0 < mn.toNat := by omega
    refine ⟨by simp, rfl, hmn', Nat.le_refl _, ?_, hmn', Nat.zero_le _, Or.inr rfl, Nat.zero_le _, Nat.zero_le _, Nat.zero_le _,
      by simp, by simp, ?_⟩
    · dsimp only; split <;> omega
    · dsimp only
      have := mod2 (0 + (mn.toNat + 1) - 0 - 1) (mn.toNat + 1) (by omega)
      omega

theorem create_some (mn mx : Int) (h : 0 < mn) : ∃ r, create mn mx = some r := by
  unfold create
  have : ¬ mn ≤ 0 := by omega
  simp [this]

theorem create_contents (mn mx : Int) (r : Ring) (h : create mn mx = some r) : r.contents = [] := by
  have hv := create_valid mn mx r h
  rw [hv.contents_eq]
  unfold create at h
  split at h
  · cases h
  · injection h with h; subst h; simp

theorem create_fields (mn mx : Int) (r : Ring) (h : create mn mx = some r) :
    r.size = mn.toNat ∧ r.minsize = mn.toNat ∧ r.maxsize = (if mx > mn then mx.toNat else mn.toNat) ∧ r.used = 0 ∧
      r.overwrite = .wrapMany := by
  unfold create at h
  split at h
  · cases h
  · injection h with h; subst h; simp

theorem flush_valid (r : Ring) (h : ValidP r) : ValidP (flush r) := by
  have ⟨h1, h2, h5, h6, h7, h8, _, _, _, _, _, _, _, _⟩ := h
  refine ⟨h1, h2, h5, h6, h7, h8, Nat.zero_le _, Or.inr rfl, Nat.zero_le _, Nat.zero_le _, Nat.zero_le _, by simp [flush], by simp [flush], ?_⟩
  simp only [flush]
  have := mod2 (0 + (r.size + 1) - 0 - 1) (r.size + 1) (by omega)
  omega

theorem flush_contents (r : Ring) (h : ValidP r) : (flush r).contents = [] := by
  rw [(flush_valid r h).contents_eq]; simp [flush]

theorem optSet_valid (r : Ring) (v : Int) (h : ValidP r) : ValidP (optSet r v).2 := by
  have ⟨h1, h2, h5, h6, h7, h8, h9, h10, h11, h12, h13, h14, h15, h16⟩ := h
  unfold optSet
  repeat' split
  all_goals exact ⟨h1, h2, h5, h6, h7, h8, h9, h10, h11, h12, h13, h14, h15, h16⟩

theorem optSet_contents (r : Ring) (v : Int) : (optSet r v).2.contents = r.contents := by
  unfold optSet
  repeat' split
  all_goals rfl

/-! ### `cbuf_dropper`, `cbuf_drop` -/

theorem dropper_valid (r : Ring) (len : Nat) (h : ValidP r) (hl : len ≤ r.used) : ValidP (dropper r len).1 := by
  have ⟨h1, h2, h5, h6, h7, h8, h9, h10, h11, h12, h13, h14, h15, h16⟩ := h
  have hc := h.used_cases
  have hm := mod2 (r.i_out + len) (r.size + 1) (by omega)
  refine ⟨h1, h2, h5, h6, h7, h8, ?_, h10, h11, ?_, h13, ?_, ?_, ?_⟩
  all_goals simp only [dropper]
  · omega
  · omega
  · omega
  · omega
  · have := mod2 ((r.i_out + len) % (r.size + 1) + (r.size + 1) - r.i_in - 1) (r.size + 1) (by omega)
    omega

theorem dropper_ok (r : Ring) (len : Nat) (h : ValidP r) (hl : len ≤ r.used) (h0 : 0 < len) : (dropper r len).2 = true := by
  have hv := (valid_iff _).mpr (dropper_valid r len h hl)
  simp only [dropper] at hv ⊢
  simp only [shrink, hv, ite_self, Bool.and_true, Bool.and_eq_true, decide_eq_true_eq]
  exact ⟨h0, hl⟩

theorem dropper_contents (r : Ring) (len : Nat) (h : ValidP r) (hl : len ≤ r.used) :
    (dropper r len).1.contents = r.contents.drop len := by
  rw [(dropper_valid r len h hl).contents_eq, h.contents_eq, rslice_drop]
  rfl

theorem dropper_fields (r : Ring) (len : Nat) :
    (dropper r len).1.size = r.size ∧ (dropper r len).1.maxsize = r.maxsize ∧ (dropper r len).1.minsize = r.minsize ∧
    (dropper r len).1.overwrite = r.overwrite ∧ (dropper r len).1.used = r.used - len ∧ (dropper r len).1.data = r.data ∧
    (dropper r len).1.i_in = r.i_in := by
  simp [dropper]

/-- `cbuf_drop (cb, len)`: what it returns -/
def dropCount (r : Ring) (len : Int) : Nat := if len = -1 then r.used else min len.toNat r.used

/-- `cbuf_drop` on a valid ring: the invariant survives, no assertion fires, `len < -1` is refused (-1) and changes
    nothing, otherwise `min len used` (`used` for -1) bytes are reported and exactly that many of the oldest go. -/
theorem drop_spec (r : Ring) (len : Int) (h : ValidP r) :
    ValidP (drop r len).2.1 ∧ (drop r len).2.2 = true ∧
    (len < -1 → (drop r len).1 = -1 ∧ (drop r len).2.1 = r) ∧
    (-1 ≤ len → (drop r len).1 = (dropCount r len : Nat) ∧ (drop r len).2.1.contents = r.contents.drop (dropCount r len)) := by
  have hv := (valid_iff r).mpr h
  unfold drop dropCount
  by_cases h1 : len < -1
  · simp [h1, h]
  · by_cases h2 : len = 0
    · subst h2; simp [h]
    · rw [if_neg h1, if_neg h2]
      generalize hn : (if len = -1 then r.used else min len.toNat r.used) = n
      have hle : n ≤ r.used := by rw [← hn]; split <;> omega
      by_cases h3 : n > 0
      · rw [if_pos h3]
        have hd := dropper_valid r n h hle
        refine ⟨hd, ?_, fun hh => absurd hh h1, fun _ => ⟨rfl, dropper_contents r n h hle⟩⟩
        simp [hv, dropper_ok r n h hle h3, (valid_iff _).mpr hd]
      · have : n = 0 := by omega
        subst this
        rw [if_neg h3]
        exact ⟨h, by simp [hv], fun hh => absurd hh h1, fun _ => ⟨rfl, by simp⟩⟩

/-! ### sinks -/

/-- what a `putf` call does: it takes at most what it is handed, and what it reports as taken is what was appended -/
theorem put_spec (p : Putter) (bs : List UInt8) :
    (p.put bs).1 ≤ (bs.length : Nat) ∧
    (0 < (p.put bs).1 → (p.put bs).2.out = p.out ++ bs.take (p.put bs).1.toNat) ∧
    ((p.put bs).1 ≤ 0 → (p.put bs).2.out = p.out) := by
  cases p with
  | mem dst =>
    simp only [Putter.put, Putter.out]
    refine ⟨Int.le_refl _, fun _ => by simp, fun h => ?_⟩
    have : bs.length = 0 := by omega
    simp [List.length_eq_zero_iff.mp this]
  | fd d =>
    simp only [Putter.put]
    split
    · simp only [Putter.out]
      refine ⟨Int.le_refl _, fun _ => by simp, fun h => ?_⟩
      have : bs.length = 0 := by omega
      simp [List.length_eq_zero_iff.mp this]
    · rename_i c cs hc
      split
      · rename_i hc0
        simp only [Putter.out]
        exact ⟨by omega, fun h => by omega, fun _ => by simp⟩
      · rename_i hc0
        simp only [Putter.out]
        refine ⟨by omega, fun _ => by simp, fun h => ?_⟩
        have : min bs.length c.toNat = 0 := by omega
        simp [this]

/-- a descriptor stays a descriptor -/
theorem put_fd (d : Dst) (bs : List UInt8) : ∃ d', ((Putter.fd d).put bs).2 = .fd d' := by
  simp only [Putter.put]
  split
  · exact ⟨_, rfl⟩
  · split <;> exact ⟨_, rfl⟩

theorem put_mem (dst bs : List UInt8) : (Putter.mem dst).put bs = (((bs.length : Nat) : Int), Putter.mem (dst ++ bs)) := rfl

/-! ### `cbuf_reader` -/

/-- the copy loop: from slot `i_src` with `nleft` bytes to go it delivers some `d ≤ nleft` bytes, exactly the slice of
    the ring from `i_src`, whatever the sink takes per call -/
theorem readerLoop_spec (fuel : Nat) (data : List UInt8) (size : Nat) (s : RLoop)
    (hl : data.length = size + 1) (hi : s.i_src ≤ size) (hf : s.nleft ≤ fuel) :
    ∃ d, d ≤ s.nleft ∧ (readerLoop fuel data size s).nleft = s.nleft - d ∧
      (readerLoop fuel data size s).p.out = s.p.out ++ rslice data (size + 1) s.i_src d ∧
      (d = 0 → (readerLoop fuel data size s).m ≤ 0 ∨ (readerLoop fuel data size s).m = s.m) := by
  induction fuel generalizing s with
  | zero =>
    refine ⟨0, Nat.zero_le _, ?_, ?_, fun _ => ?_⟩ <;> simp [readerLoop]
  | succ fuel ih =>
    unfold readerLoop
    by_cases hn : s.nleft > 0
    · simp only [hn, ↓reduceIte]
      generalize hnn : min s.nleft (size + 1 - s.i_src) = n
      have hn1 : 0 < n := by omega
      have hn2 : n ≤ s.nleft := by omega
      have hn3 : s.i_src + n ≤ size + 1 := by omega
      have hpiece : (data.drop s.i_src).take n = rslice data (size + 1) s.i_src n :=
        (rslice_contig data (size + 1) s.i_src n hn3 (by omega)).symm
      have hplen : ((data.drop s.i_src).take n).length = n := by rw [hpiece]; simp
      have hp := put_spec s.p ((data.drop s.i_src).take n)
      rw [hplen] at hp
      generalize hpr : s.p.put ((data.drop s.i_src).take n) = pr at hp
      obtain ⟨hp1, hp2, hp3⟩ := hp
      by_cases hm0 : pr.1 > 0
      · simp only [hm0, ↓reduceIte]
        by_cases hne : (n : Int) ≠ pr.1
        · -- a short put: the loop ends
          simp only [hne, ↓reduceIte, ne_eq, not_false_eq_true]
          refine ⟨pr.1.toNat, by omega, rfl, ?_, fun h => by omega⟩
          rw [hp2 hm0, hpiece, rslice_take]
          congr 2; omega
        · -- the whole piece went out: next round from the slot after it
          have he : (n : Int) = pr.1 := by omega
          have het : pr.1.toNat = n := by omega
          simp only [he, ne_eq, not_true_eq_false, ↓reduceIte]
          obtain ⟨d, hd1, hd2, hd3, _⟩ := ih
            { i_src := (s.i_src + pr.1.toNat) % (size + 1), nleft := s.nleft - pr.1.toNat, m := pr.1, p := pr.2 }
            (by have := Nat.mod_lt (s.i_src + pr.1.toNat) (by omega : 0 < size + 1); simp only; omega) (by simp only [het]; omega)
          simp only [het] at hd1 hd2 hd3
          refine ⟨n + d, by omega, ?_, ?_, fun h => by omega⟩
          · simp only [het]; rw [hd2]; omega
          · simp only [het]; rw [hd3, hp2 hm0, hpiece, rslice_add, List.append_assoc, het, rslice_take]
            congr 2; congr 1; omega
      · -- the sink takes nothing (or reports an error): the loop ends
        have hne : (n : Int) ≠ pr.1 := by omega
        simp only [hm0, hne, ↓reduceIte, ne_eq, not_false_eq_true]
        refine ⟨0, Nat.zero_le _, rfl, ?_, fun _ => Or.inl (by omega)⟩
        simp [hp3 (by omega)]
    · refine ⟨0, Nat.zero_le _, ?_, ?_, fun _ => ?_⟩ <;> simp [hn]

/-- `cbuf_reader (src, len, putf, dst)`, any sink: no assertion fires; a positive return value `n` is at most
    `min len used` and the sink has received exactly the first `n` unread bytes; otherwise the sink has received nothing. -/
theorem reader_spec (r : Ring) (len : Nat) (p : Putter) (h : ValidP r) (hl : 0 < len) :
    (reader r len p).2.2 = true ∧ (reader r len p).1 ≤ (min len r.used : Nat) ∧
    (0 < (reader r len p).1 → (reader r len p).2.1.out = p.out ++ r.contents.take (reader r len p).1.toNat) ∧
    ((reader r len p).1 ≤ 0 → (reader r len p).2.1.out = p.out) := by
  unfold reader
  simp only [hl, decide_true, Bool.true_and]
  by_cases h0 : min len r.used = 0
  · simp [h0]
  · rw [if_neg h0]
    obtain ⟨d, hd1, hd2, hd3, hd4⟩ := readerLoop_spec (min len r.used) r.data r.size
      { i_src := r.i_out, nleft := min len r.used, m := 0, p := p } h.len h.out_le (Nat.le_refl _)
    simp only at hd1 hd2 hd3 hd4
    generalize readerLoop (min len r.used) r.data r.size { i_src := r.i_out, nleft := min len r.used, m := 0, p := p } = s
      at hd2 hd3 hd4
    have hn : min len r.used - s.nleft = d := by omega
    rw [hn]
    by_cases hd0 : d = 0
    · rw [if_pos hd0]
      have hm : s.m ≤ 0 := by rcases hd4 hd0 with h1 | h1 <;> omega
      refine ⟨by simp; omega, by omega, fun hh => by omega, fun _ => ?_⟩
      simp [hd3, hd0]
    · rw [if_neg hd0]
      refine ⟨by simp; omega, by simp only; omega, fun _ => ?_, fun hh => by simp only at hh; omega⟩
      simp only [Int.toNat_natCast]
      rw [hd3, h.contents_eq, rslice_take]
      congr 2; omega

/-- with memory as the sink the loop never stops early -/
theorem readerLoop_mem (fuel : Nat) (data : List UInt8) (size : Nat) (i nleft : Nat) (m : Int) (dst : List UInt8)
    (hl : data.length = size + 1) (hi : i ≤ size) (hf : nleft ≤ fuel) :
    (readerLoop fuel data size { i_src := i, nleft := nleft, m := m, p := .mem dst }).nleft = 0 := by
  induction fuel generalizing i nleft m dst with
  | zero => simp [readerLoop]; omega
  | succ fuel ih =>
    unfold readerLoop
    by_cases hn : nleft > 0
    · simp only [hn, ↓reduceIte, put_mem]
      generalize hpc : List.take (min nleft (size + 1 - i)) (List.drop i data) = piece
      have hlen : piece.length = min nleft (size + 1 - i) := by
        rw [← hpc]; simp only [List.length_take, List.length_drop]; omega
      simp only [hlen]
      have hpos : ((min nleft (size + 1 - i) : Nat) : Int) > 0 := by omega
      simp only [hpos, ↓reduceIte, ne_eq, not_true_eq_false, Int.toNat_natCast]
      apply ih
      · exact Nat.le_of_lt_succ (Nat.mod_lt _ (by omega))
      · omega
    · simp only [hn, ↓reduceIte]; omega

theorem reader_mem (r : Ring) (len : Nat) (dst : List UInt8) (h : ValidP r) (hl : 0 < len) :
    (reader r len (.mem dst)).1 = (min len r.used : Nat) ∧
    (reader r len (.mem dst)).2.1.out = dst ++ r.contents.take len := by
  have hs := reader_spec r len (.mem dst) h hl
  have hrc : (reader r len (.mem dst)).1 = (min len r.used : Nat) := by
    unfold reader
    dsimp only
    by_cases h0 : min len r.used = 0
    · simp [h0]
    · rw [if_neg h0]
      rw [readerLoop_mem _ _ _ _ _ _ _ h.len h.out_le (Nat.le_refl _)]
      simp [h0]
  refine ⟨hrc, ?_⟩
  by_cases h0 : min len r.used = 0
  · have h1 := hs.2.2.2 (by rw [hrc]; omega)
    rw [h1]
    have : r.contents.take len = [] := by
      rw [h.contents_eq, rslice_take]
      have : min len r.used = 0 := h0
      rw [this]; simp
    rw [this]; simp [Putter.out]
  · have h1 := hs.2.2.1 (by rw [hrc]; omega)
    rw [h1, hrc]
    simp only [Putter.out, Int.toNat_natCast]
    rw [h.contents_eq, rslice_take, rslice_take]
    congr 2; omega

/-! ### `cbuf_peek` -/

/-- `cbuf_peek (src, dstbuf, len)` on a valid ring: no assertion fires; a negative `len` is refused (-1); otherwise
    the return value is `min len used` and `dstbuf` receives exactly the first `len` unread bytes.  (The ring is only
    read: the model's `peek` has no ring in its result.) -/
theorem peek_spec (r : Ring) (len : Int) (h : ValidP r) :
    (peek r len).2.2 = true ∧ (len < 0 → (peek r len).1 = -1) ∧
    (0 ≤ len → (peek r len).1 = (min len.toNat r.used : Nat) ∧ (peek r len).2.1 = r.contents.take len.toNat) := by
  have hv := (valid_iff r).mpr h
  unfold peek
  by_cases h1 : len < 0
  · rw [if_pos h1]; exact ⟨rfl, fun _ => rfl, fun hh => by omega⟩
  · rw [if_neg h1]
    by_cases h2 : len = 0
    · subst h2; exact ⟨rfl, fun hh => by omega, fun _ => by simp⟩
    · rw [if_neg h2]
      have hm := reader_mem r len.toNat [] h (by omega)
      have hs := reader_spec r len.toNat (.mem []) h (by omega)
      refine ⟨by simp [hv, hs.1], fun hh => by omega, fun _ => ⟨hm.1, ?_⟩⟩
      simp [hm.2]

/-! ### `cbuf_read_to_fd` -/

/-- the reader hands a descriptor back as a descriptor -/
theorem readerLoop_fd (fuel : Nat) (data : List UInt8) (size : Nat) (s : RLoop) (hd : ∃ d, s.p = .fd d) :
    ∃ d', (readerLoop fuel data size s).p = .fd d' := by
  induction fuel generalizing s with
  | zero => simpa [readerLoop] using hd
  | succ fuel ih =>
    unfold readerLoop
    obtain ⟨d, hd⟩ := hd
    by_cases hn : s.nleft > 0
    · simp only [hn, ↓reduceIte]
      obtain ⟨d1, hd1⟩ := put_fd d ((data.drop s.i_src).take (min s.nleft (size + 1 - s.i_src)))
      rw [← hd] at hd1
      split
      · split
        · exact ⟨d1, hd1⟩
        · exact ⟨d1, hd1⟩
      · apply ih
        split <;> exact ⟨d1, hd1⟩
    · simp only [hn, ↓reduceIte]; exact ⟨d, hd⟩

theorem reader_fd (r : Ring) (len : Nat) (d : Dst) : ∃ d', (reader r len (.fd d)).2.1 = .fd d' := by
  unfold reader
  dsimp only
  split
  · exact ⟨d, rfl⟩
  · obtain ⟨d', hd'⟩ := readerLoop_fd (min len r.used) r.data r.size
      { i_src := r.i_out, nleft := min len r.used, m := 0, p := .fd d } ⟨d, rfl⟩
    split <;> exact ⟨d', hd'⟩

/-- the length `cbuf_read_to_fd` works with -/
def readLen (r : Ring) (len : Int) : Nat := if len = -1 then r.used else len.toNat

/-- `cbuf_read_to_fd (src, fd, len)` on a valid ring, whatever the descriptor accepts per `write` call: the invariant
    survives and no assertion fires; `len < -1` is refused; a positive return value `n` is at most `min len used`
    (`used` for -1), the descriptor has received exactly the first `n` unread bytes and exactly these are gone from the
    ring; with a return value `≤ 0` the descriptor has received nothing and the ring is as before. -/
theorem readToFd_spec (r : Ring) (len : Int) (d : Dst) (h : ValidP r) :
    ValidP (readToFd r len d).2.1 ∧ (readToFd r len d).2.2.2 = true ∧
    (len < -1 → (readToFd r len d).1 = -1 ∧ (readToFd r len d).2.1 = r ∧ (readToFd r len d).2.2.1 = d) ∧
    (-1 ≤ len → (readToFd r len d).1 ≤ (min (readLen r len) r.used : Nat) ∧
      (0 < (readToFd r len d).1 →
        (readToFd r len d).2.2.1.out = d.out ++ r.contents.take (readToFd r len d).1.toNat ∧
        (readToFd r len d).2.1.contents = r.contents.drop (readToFd r len d).1.toNat) ∧
      ((readToFd r len d).1 ≤ 0 → (readToFd r len d).2.2.1.out = d.out ∧ (readToFd r len d).2.1 = r)) := by
  have hv := (valid_iff r).mpr h
  unfold readToFd readLen
  dsimp only
  by_cases h1 : len < -1
  · rw [if_pos h1]; exact ⟨h, rfl, fun _ => ⟨rfl, rfl, rfl⟩, fun hh => by omega⟩
  · rw [if_neg h1]
    generalize hn : (if len = -1 then r.used else len.toNat) = n
    by_cases h2 : n > 0
    · rw [if_pos h2]
      have hs := reader_spec r n (.fd d) h h2
      obtain ⟨d', hd'⟩ := reader_fd r n d
      generalize reader r n (.fd d) = x at hs hd'
      obtain ⟨hs1, hs2, hs3, hs4⟩ := hs
      rw [hd'] at hs3 hs4
      simp only [hd']
      simp only [Putter.out] at hs3 hs4
      by_cases h3 : x.1 > 0
      · rw [if_pos h3]
        have hle : x.1.toNat ≤ r.used := by omega
        have hdv := dropper_valid r x.1.toNat h hle
        refine ⟨hdv, ?_, fun hh => absurd hh h1, fun _ => ⟨hs2, fun _ => ⟨hs3 h3, dropper_contents r _ h hle⟩, fun hh => by simp only at hh; omega⟩⟩
        simp [hv, hs1, dropper_ok r _ h hle (by omega), (valid_iff _).mpr hdv]
      · rw [if_neg h3]
        refine ⟨h, by simp [hv, hs1], fun hh => absurd hh h1, fun _ => ⟨hs2, fun hh => by simp only at hh; omega, fun _ => ⟨hs4 (by omega), rfl⟩⟩⟩
    · rw [if_neg h2]
      have : n = 0 := by omega
      subst this
      exact ⟨h, by simp [hv], fun hh => absurd hh h1, fun _ => ⟨by simp, fun hh => by simp at hh, fun _ => ⟨rfl, rfl⟩⟩⟩

end Pm.CbufRing
