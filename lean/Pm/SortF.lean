import Pm.HLDefs
/-! Structurally recursive (fuel based) restatement of `msort` / `coalesce` / `collapse` / `sortHL` of `Pm/Sort2.lean`
    (= `hostlist_sort` of `liblsd/hostlist.c`: `qsort` with `hostrange_cmp`, `hostlist_coalesce`, `hostlist_collapse`).

    The originals are `partial def`s, so nothing can be proved about them.  The `…F` versions below run the same
    steps in the same order (glibc merge order: top down, `n1 = n/2`, take from the left run when `cmp ≤ 0`; the same
    width side effects of `hostrange_cmp` / `hostrange_width_combine` on the shared range objects; the same `assert`
    outcome), but every loop runs on a fuel COMPUTED from its input and reports exhaustion explicitly (`.fuel`)
    instead of stopping silently.  Agreement with the originals is checked by evaluation (see the end of this file);
    the proofs are in `Pm/SortFProof.lean`. -/
namespace Pm

/-- outcome of a fuel-bounded computation that may hit the `assert` of `hostrange_intersect` -/
inductive RF (α : Type) where
  | ok (a : α)
  | abort          -- assert(hostrange_cmp(h1, h2) <= 0) in hostrange_intersect
  | fuel           -- the computed fuel bound was not enough (never observed)
deriving Repr, DecidableEq

/-- result of `sortHLF` -/
inductive SortResF where
  | ok (hl : Hostlist)
  | abort
  | fuel
deriving Repr, DecidableEq

/-! ## merge sort (glibc `msort_with_tmp`) -/

/-- the merge loop of `msort_with_tmp`; needs at most `l.length + r.length + 1` iterations -/
def mergeF : Nat → Store → List Nat → List Nat → List Nat → RF (List Nat × Store)
  | 0, _, _, _, _ => .fuel
  | f + 1, st, l, r, acc =>
    match l, r with
    | [], r => .ok (acc.reverse ++ r, st)
    | l, [] => .ok (acc.reverse ++ l, st)
    | a :: l', b :: r' =>
      if (cmpM st a b).1 ≤ 0 then mergeF f (cmpM st a b).2 l' (b :: r') (a :: acc)
      else mergeF f (cmpM st a b).2 (a :: l') r' (b :: acc)

/-- `msort` with the recursion depth as fuel (`ids.length + 1` is enough) -/
def msortF : Nat → Store → List Nat → RF (List Nat × Store)
  | 0, _, _ => .fuel
  | f + 1, st, ids =>
    if ids.length ≤ 1 then .ok (ids, st) else
    match msortF f st (ids.take (ids.length / 2)) with
    | .ok (l, st1) =>
      match msortF f st1 (ids.drop (ids.length / 2)) with
      | .ok (r, st2) => mergeF (l.length + r.length + 1) st2 l r []
      | .abort => .abort
      | .fuel => .fuel
    | .abort => .abort
    | .fuel => .fuel

/-! ## `hostlist_coalesce` -/

/-- `hostlist_insert_range(hl, hr, j)` of a fresh copy: the copy gets the next free id -/
def insertAt (st : Store) (ids : List Nat) (j : Nat) (mk : HostRange) : List Nat × Store :=
  (ids.take j ++ [st.size] ++ ids.drop j, st.push mk)

/-- one iteration of the `while (new->lo <= new->hi)` loop body of `hostlist_coalesce` for `new->lo = x`:
    `a2hi` is `hprev->hi`, `b2lo` is `hnext->lo` -/
def insOne (pfx : Name) (w a2hi b2lo : Nat) (st : Store) (ids : List Nat) (x j : Nat) : List Nat × Store × Nat :=
  let mk : HostRange := { pfx := pfx, lo := x, hi := x, width := w, single := false }
  let r1 : List Nat × Store × Nat :=
    if x > a2hi then ((insertAt st ids j mk).1, (insertAt st ids j mk).2, j + 1) else (ids, st, j)
  if x < b2lo then ((insertAt r1.2.1 r1.1 r1.2.2 mk).1, (insertAt r1.2.1 r1.1 r1.2.2 mk).2, r1.2.2 + 1) else r1

/-- the `while (new->lo <= new->hi)` loop; same fuel (`newHi + 2 - newLo`) and same silent stop as `coalesce.loop.ins`
    (the bound is exact: `x` runs `newLo..newHi`) -/
def insF (pfx : Name) (w a2hi b2lo newHi : Nat) : Nat → Store → List Nat → Nat → Nat → List Nat × Store
  | 0, st, ids, _, _ => (ids, st)
  | f + 1, st, ids, x, j =>
    if x > newHi then (ids, st) else
    insF pfx w a2hi b2lo newHi f (insOne pfx w a2hi b2lo st ids x j).2.1 (insOne pfx w a2hi b2lo st ids x j).1
      (x + 1) (insOne pfx w a2hi b2lo st ids x j).2.2

/-- the body of `if (new) { … }` in `hostlist_coalesce`, after `hostrange_intersect` returned a range:
    `p`, `q` are the ids of `hl->hr[i-1]`, `hl->hr[i]` -/
def splitStep (st : Store) (ids : List Nat) (i p q : Nat) : List Nat × Store :=
  let a := st[p]!; let b := st[q]!
  let newLo := b.lo; let newHi := min b.hi a.hi; let newW := a.width
  let b1 : HostRange := if newHi < a.hi then { b with hi := a.hi } else b
  let a2 : HostRange := { a with hi := newLo }
  let b2 : HostRange := { b1 with lo := newHi }
  insF a.pfx newW newLo newHi newHi (newHi + 2 - newLo) ((st.set! p a2).set! q b2) ids newLo i

/-- outcome of one iteration of an outer loop -/
inductive StepRes where
  | cont (st : Store) (ids : List Nat) (i : Nat)
  | abort
  | done (st : Store) (ids : List Nat)

/-- the part of `hostrange_intersect` after its `assert`, and the `if (new)` body -/
def coalesceTail (st : Store) (ids : List Nat) (i p q : Nat) : StepRes :=
  if !(prefixCmp st[p]! st[q]! == 0 && (st[p]!).hi > (st[q]!).lo) then .cont st ids (i - 1) else
  if !(combineM st p q).1 then .cont (combineM st p q).2 ids (i - 1) else
  .cont (splitStep (combineM st p q).2 ids i p q).2 (splitStep (combineM st p q).2 ids i p q).1
    ((splitStep (combineM st p q).2 ids i p q).1.length - 1)

/-- one iteration of `for (i = hl->nranges - 1; i > 0; i--)` in `hostlist_coalesce` -/
def coalesceStep (st : Store) (ids : List Nat) (i : Nat) : StepRes :=
  if i == 0 then .done st ids else
  if (st[ids[i-1]!]!).single || (st[ids[i]!]!).single then .cont st ids (i - 1) else
  if (cmpM st ids[i-1]! ids[i]!).1 > 0 then .abort else
  coalesceTail (cmpM st ids[i-1]! ids[i]!).2 ids i ids[i-1]! ids[i]!

def coalesceLoopF : Nat → Store → List Nat → Nat → RF (List Nat × Store)
  | 0, _, _, _ => .fuel
  | f + 1, st, ids, i =>
    match coalesceStep st ids i with
    | .done st ids => .ok (ids, st)
    | .abort => .abort
    | .cont st ids i => coalesceLoopF f st ids i

/-- number of ranges plus number of hosts -/
def coalesceSize (st : Store) (ids : List Nat) : Nat :=
  ids.length + (ids.map fun i => (st[i]!).cnt).sum

/-- generous bound for the number of iterations of the outer loop of `hostlist_coalesce` -/
def coalesceFuel (st : Store) (ids : List Nat) : Nat := (coalesceSize st ids + 2) * (coalesceSize st ids + 2)

def coalesceF (st : Store) (ids : List Nat) : RF (List Nat × Store) :=
  coalesceLoopF (coalesceFuel st ids) st ids (ids.length - 1)

/-! ## `hostlist_collapse` -/

/-- one iteration of `for (i = hl->nranges - 1; i > 0; i--)` in `hostlist_collapse` -/
def collapseStep (st : Store) (ids : List Nat) (i : Nat) : StepRes :=
  if i == 0 then .done st ids else
  if prefixCmp st[ids[i-1]!]! st[ids[i]!]! == 0 && (st[ids[i-1]!]!).hi + 1 == (st[ids[i]!]!).lo then
    if (combineM st ids[i-1]! ids[i]!).1 then
      .cont ((combineM st ids[i-1]! ids[i]!).2.set! ids[i-1]!
              { (combineM st ids[i-1]! ids[i]!).2[ids[i-1]!]! with hi := ((combineM st ids[i-1]! ids[i]!).2[ids[i]!]!).hi })
            (ids.eraseIdx i) (i - 1)
    else .cont (combineM st ids[i-1]! ids[i]!).2 ids (i - 1)
  else .cont st ids (i - 1)

def collapseLoopF : Nat → Store → List Nat → Nat → RF (List Nat × Store)
  | 0, _, _, _ => .fuel
  | f + 1, st, ids, i =>
    match collapseStep st ids i with
    | .done st ids => .ok (ids, st)
    | .abort => .abort
    | .cont st ids i => collapseLoopF f st ids i

/-- `i` goes down by one per iteration from `ids.length - 1`, so `ids.length + 1` iterations are enough -/
def collapseF (st : Store) (ids : List Nat) : RF (List Nat × Store) :=
  collapseLoopF (ids.length + 1) st ids (ids.length - 1)

/-! ## `hostlist_sort` -/

def finishF (r : RF (List Nat × Store)) : SortResF :=
  match r with
  | .ok (ids, st) => .ok (ids.map fun i => st[i]!)
  | .abort => .abort
  | .fuel => .fuel

def afterCoalesceF (r : RF (List Nat × Store)) : SortResF :=
  match r with
  | .ok (ids, st) => finishF (collapseF st ids)
  | .abort => .abort
  | .fuel => .fuel

def afterMsortF (r : RF (List Nat × Store)) : SortResF :=
  match r with
  | .ok (ids, st) => afterCoalesceF (coalesceF st ids)
  | .abort => .abort
  | .fuel => .fuel

/-- `hostlist_sort`, total -/
def sortHLF (hl : Hostlist) : SortResF :=
  if hl.length ≤ 1 then .ok hl else
  afterMsortF (msortF (hl.length + 1) hl.toArray (List.range hl.length))

/-- comparison of the two result types (for the agreement checks) -/
def SortRes.agrees : SortRes → SortResF → Bool
  | .ok a, .ok b => a == b
  | .abort, .abort => true
  | _, _ => false

/-! ## agreement of `sortHLF` with `sortHL`, and the known defect F19 -/

/-- the list `hostlist_create` builds from a string (`[]` on a parse error); for the checks below -/
def hlOfString (s : String) : Hostlist :=
  match create s.toList with
  | .ok hl => hl
  | .error _ => []

/- `sortHL` is a `partial def`, so agreement can only be observed by evaluation, not proved.  With

     def showRes : SortResF → String
       | .ok hl => "ok " ++ String.ofList (rangedString hl) | .abort => "abort" | .fuel => "fuel"
     #eval tests.map fun s => ((sortHL (hlOfString s)).agrees (sortHLF (hlOfString s)), showRes (sortHLF (hlOfString s)))

   the observed output (Lean 4.33.0) is `true` (same `Hostlist`, compared with `==`, or both abort) on every one of:

     "f[97-100,066,97-103]"              abort          (known defect F19, in both)
     "f[066,97-100,97-103]"              abort
     "f[97-103,066,97-100]"              abort
     "f[9-10,06,9-13]"                   abort
     "b2,a[1-3],a[2-5],b1"               ok a[1-2,2-3,3-5],b[1-2]
     "n[1-10],n[5-7]"                    ok n[1-5,5-6,6-7,7-10]
     "n[08-10],n[9-11],n007"             ok n[9-11,08-10,007]
     "x,x,y,x1,x01,x[1-3]"               ok x,x,x[1,1-3,01],y
     ""                                  ok (empty)
     "a"                                 ok a
     "a[1-5]"                            ok a[1-5]
     "b,a"                               ok a,b
     "a3,a2,a1,a2,a3"                    ok a[1-2,2-3,3]
     "n[1-3],n[1-3],n[1-3]"              ok n[1,1,1-2,2,2-3,3,3]
     "n[10-20],n[1-30],n[5-6],n[15-40]"  ok n[1-5,5-6,6-10,10-11,…,14-15,15,15-16,16,…,19-20,20,20-21,21-22,…,29-30,30-40]
     "z9,z[08-12],z[008-012],z10,y,y,y0,y00"
                                         ok y,y,y[0,00],z[9,08-10,10-12,008-012]
     "c[3-4],b[1-2],a[5-9],c[1-2],b[2-7],a1,a[0-3],d,d1x,e[1-2]x"
                                         ok a[0-1,1-3,5-9],b[1-2,2-7],c[1-4],d,d1x,e1x,e2x
     "n30,n29,…,n1,n0,m5,m3,m4,m[3-5],m1"    (36 ranges)
                                         ok m[1,3,3-4,4-5,5],n[0-30]
     "p[1-2],q[1-2],p[2-3],q[2-3],…,p[16-17],q[16-17]"    (32 ranges)
                                         ok p[1-2,2-3,…,16-17],q[1-2,2-3,…,16-17]
     "h[1-100],h[50-150],h[25-75],h[1-1],h100"
                                         ok h[1,1-25,25-26,…,49-50,50,50-51,51,…,74-75,75,75-76,76-77,…,99-100,100,100-150]
     "a[01-03],a[1-3],a[001-003],a2,a02" ok a[1-2,2-3,01-02,02-03,001-003]
     "k[5-9],k[1-3],k4,k[10-12],k[0-0]"  ok k[0-12]
     "w1,w[1-2],w[1-3],w[1-4],w[2-4],w[3-4],w4"
                                         ok w[1,1,1,1-2,2,2,2-3,3,3,3-4,4,4,4]

   `.fuel` was never observed.  A further run over 20000 pseudo-random lists (0-8 ranges, three prefixes `a`/`b`/`a1`,
   singles, `lo < 14`, length ≤ 6, widths 1-3) gave agreement on all 20000 (25 of them abort in both, none `.fuel`).
   The differential harness compares `sortHL` with the C function. -/

/-- the `…F` version evaluates in the kernel -/
example : sortHLF (hlOfString "b2,a[1-3],a[2-5],b1") = .ok (hlOfString "a[1-2],a[2-3],a[3-5],b[1-2]") := by decide +kernel
example : sortHLF (hlOfString "n[1-10],n[5-7]") = .ok (hlOfString "n[1-5],n[5-6],n[6-7],n[7-10]") := by decide +kernel
example : sortHLF (hlOfString "n[08-10],n[9-11],n007") = .ok (hlOfString "n[9-11],n[08-10],n007") := by decide +kernel
example : sortHLF (hlOfString "x,x,y,x1,x01,x[1-3]") = .ok (hlOfString "x,x,x1,x[1-3],x01,y") := by decide +kernel
example : sortHLF (hlOfString "k[5-9],k[1-3],k4,k[10-12],k[0-0]") = .ok (hlOfString "k[0-12]") := by decide +kernel
example : sortHLF (hlOfString "") = .ok [] := by decide +kernel
example : sortHLF (hlOfString "a[1-5]") = .ok (hlOfString "a[1-5]") := by decide +kernel

/-- known defect F19 reproduces in the `…F` version: sorting `f[97-100,066,97-103]` dies in
    `assert(hostrange_cmp(h1, h2) <= 0)` of `hostrange_intersect` -/
theorem sortHLF_F19_abort : sortHLF (hlOfString "f[97-100,066,97-103]") = .abort := by decide +kernel

example : hlOfString "f[97-100,066,97-103]" =
    [⟨['f'], 97, 100, 2, false⟩, ⟨['f'], 66, 66, 3, false⟩, ⟨['f'], 97, 103, 2, false⟩] := by decide +kernel

end Pm
