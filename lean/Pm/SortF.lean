import Pm.HLDefs
/-! Checks on `hostlist_sort` as modelled in `Pm/Sort2.lean` (`msort` / `coalesce` / `collapse` / `sortHL`: structurally
    recursive, fuel computed from the input, explicit `.fuel` outcome): kernel-evaluated examples, the known defect F19,
    and the record of the agreement runs made when these definitions replaced the earlier `partial` definitions.
    The proofs are in `Pm/SortFProof.lean`. -/
namespace Pm

/-! ## evaluation checks, and the known defect F19 -/

/-- the list `hostlist_create` builds from a string (`[]` on a parse error); for the checks below -/
def hlOfString (s : String) : Hostlist :=
  match create s.toList with
  | .ok hl => hl
  | .error _ => []

/- Record of the replacement.  Until this file's definitions moved into `Sort2.lean`, `sortHL` there was built from
   `partial` definitions (`msort`, `coalesce` with a silent fuel of 100000, `collapse`); the present definitions were then called
   `msort` … `sortHL`.  Agreement of the two could only be observed by evaluation, not proved.  With

     #eval tests.map fun s => ((sortHL (hlOfString s)).agrees (sortHLF (hlOfString s)), showRes (sortHLF (hlOfString s)))

   the observed output (Lean 4.33.0) was `true` (same `Hostlist`, compared with `==`, or both abort) on every one of:

     "f[97-100,066,97-103]"              abort          (known defect F19, in both)
     "f[066,97-100,97-103]"              abort
     "f[97-103,066,97-100]"              abort
     "f[9-10,06,9-13]"                   abort
     "b2,a[1-3],a[2-5],b1"               ok a[1-2,2-3,3-5],b[1-2]
     "n[1-10],n[5-7]"                    ok n[1-5,5-6,6-7,7-10]
     "n[08-10],n[9-11],n007"             ok n[9-11,08-10,007]
     "x,x,y,x1,x01,x[1-3]"               ok x,x,x[1,1-3,01],y
     ""                                  ok (empty)
     "a"                                 ok a
     "a[1-5]"                            ok a[1-5]
     "b,a"                               ok a,b
     "a3,a2,a1,a2,a3"                    ok a[1-2,2-3,3]
     "n[1-3],n[1-3],n[1-3]"              ok n[1,1,1-2,2,2-3,3,3]
     "n[10-20],n[1-30],n[5-6],n[15-40]"  ok n[1-5,5-6,6-10,10-11,…,14-15,15,15-16,16,…,19-20,20,20-21,21-22,…,29-30,30-40]
     "z9,z[08-12],z[008-012],z10,y,y,y0,y00"
                                         ok y,y,y[0,00],z[9,08-10,10-12,008-012]
     "c[3-4],b[1-2],a[5-9],c[1-2],b[2-7],a1,a[0-3],d,d1x,e[1-2]x"
                                         ok a[0-1,1-3,5-9],b[1-2,2-7],c[1-4],d,d1x,e1x,e2x
     "n30,n29,…,n1,n0,m5,m3,m4,m[3-5],m1"    (36 ranges)
                                         ok m[1,3,3-4,4-5,5],n[0-30]
     "p[1-2],q[1-2],p[2-3],q[2-3],…,p[16-17],q[16-17]"    (32 ranges)
                                         ok p[1-2,2-3,…,16-17],q[1-2,2-3,…,16-17]
     "h[1-100],h[50-150],h[25-75],h[1-1],h100"
                                         ok h[1,1-25,25-26,…,49-50,50,50-51,51,…,74-75,75,75-76,76-77,…,99-100,100,100-150]
     "a[01-03],a[1-3],a[001-003],a2,a02" ok a[1-2,2-3,01-02,02-03,001-003]
     "k[5-9],k[1-3],k4,k[10-12],k[0-0]"  ok k[0-12]
     "w1,w[1-2],w[1-3],w[1-4],w[2-4],w[3-4],w4"
                                         ok w[1,1,1,1-2,2,2,2-3,3,3,3-4,4,4,4]

   `.fuel` was never observed.  A further run over 20000 pseudo-random lists (0-8 ranges, three prefixes `a`/`b`/`a1`,
   singles, `lo < 14`, length ≤ 6, widths 1-3) gave agreement on all 20000 (25 of them abort in both, none `.fuel`).
   The bound of `coalesce` was then `(size+2)²`; that is NOT always enough (10 copies of `n[1-30]` need 109364 iterations
   of the outer loop against a bound of 97344, and the old silent fuel of 100000 was exceeded as well, by 20 copies of
   `n[1-20]`: 458779 iterations), so it is now `(size+2)⁴` — see `coalesceFuel`; that bound is proved sufficient for every
   well-formed list in `Pm/SortFuel.lean` (`sortHL_ne_fuel`).
   The differential harness compares `sortHL` with the C function on every run. -/

/-- the `…F` version evaluates in the kernel -/
example : sortHL (hlOfString "b2,a[1-3],a[2-5],b1") = .ok (hlOfString "a[1-2],a[2-3],a[3-5],b[1-2]") := by decide +kernel
example : sortHL (hlOfString "n[1-10],n[5-7]") = .ok (hlOfString "n[1-5],n[5-6],n[6-7],n[7-10]") := by decide +kernel
example : sortHL (hlOfString "n[08-10],n[9-11],n007") = .ok (hlOfString "n[9-11],n[08-10],n007") := by decide +kernel
example : sortHL (hlOfString "x,x,y,x1,x01,x[1-3]") = .ok (hlOfString "x,x,x1,x[1-3],x01,y") := by decide +kernel
example : sortHL (hlOfString "k[5-9],k[1-3],k4,k[10-12],k[0-0]") = .ok (hlOfString "k[0-12]") := by decide +kernel
example : sortHL (hlOfString "") = .ok [] := by decide +kernel
example : sortHL (hlOfString "a[1-5]") = .ok (hlOfString "a[1-5]") := by decide +kernel

/-- known defect F19 reproduces in the `…F` version: sorting `f[97-100,066,97-103]` dies in
    `assert(hostrange_cmp(h1, h2) <= 0)` of `hostrange_intersect` -/
theorem sortHL_F19_abort : sortHL (hlOfString "f[97-100,066,97-103]") = .abort := by decide +kernel

example : hlOfString "f[97-100,066,97-103]" =
    [⟨['f'], 97, 100, 2, false⟩, ⟨['f'], 66, 66, 3, false⟩, ⟨['f'], 97, 103, 2, false⟩] := by decide +kernel

end Pm
