import Pm.Daemon
/-! `powermand.c`: the exit pipe.  `_exit_handler` (SIGTERM, SIGINT) writes one byte to `exitpipe[1]`; `_select_loop` registers
`exitpipe[0]` with every `poll` and `break`s **before** `cli_post_poll`/`dev_post_poll` when it is readable; `main` then closes the
pipe and runs `cli_fini`, `dev_fini`, `conf_fini` and returns 0. -/
namespace Pm.Daemon
open Pm Pm.Client

/-- what `cli_pre_poll`/`dev_pre_poll` register and the time-out handed to `poll` — the first lines of every pass (the same
    expression `daemonPass` starts with: `daemonPass_pre`) -/
def prePollLines (w : W) : List String :=
  let ints := cliPrePoll w ++ w.devs.filterMap fun (nd : Bytes × Pm.Dev2.Dev) => Pm.Dev2.prePoll nd.2
  (ints.map fun (fd, f) => s!"O interest {fd} {f}") ++
    [s!"O polltmo {match w.tmo with | some t => toString (t / 1000) | none => "-1"}"]

/-- the pass in which a termination signal has made the exit pipe readable: whatever else `poll` reports (`_p`: connections
    waiting, client or device bytes, a time-out that has expired) is **not** looked at; the daemon tears down and exits 0 -/
def signalPass (w : W) (_p : PassIn) : List String := prePollLines w ++ teardown w

/-- `xpoll`'s `tv_sec * 1000 + tv_usec / 1000` on the `timersub`-normalised remaining time `us` (µs, may be negative: then
    `tv_sec < 0 ≤ tv_usec`): the floor of `us / 1000`.  A negative value makes `poll` wait without limit. -/
def tvMsec (us : Int) : Int := Int.fdiv us 1000000 * 1000 + Int.fmod us 1000000 / 1000

/-- `xpoll` when a caught signal (SIGHUP: `_noop_handler`) interrupts the sleep `d` µs after it began: `poll` fails with `EINTR`
    and is called again with what is left of the time-out (`tv − (end − start)`); without a time-out it simply sleeps again.
    `clamp`: the repaired code never hands `poll` a negative time-out (F32). -/
def xpollRetryMsec (tmo : Option Nat) (d : Nat) : Int :=
  match tmo with
  | none => -1
  | some t => if (t : Int) - d < 0 then 0 else tvMsec ((t : Int) - d)

/-- the same before the repair: a signal that arrives when the time-out has (just) run out left a negative remainder -/
def xpollRetryMsecOld (tmo : Option Nat) (d : Nat) : Int :=
  match tmo with
  | none => -1
  | some t => tvMsec ((t : Int) - d)

/-- a pass whose sleep is interrupted once by SIGHUP after `d` µs: registration and time-out are printed twice (two calls of
    `poll`), the second time with the remaining time-out; everything else is the ordinary pass -/
def hupPass (w : W) (d : Nat) (p : PassIn) : W × List String :=
  let r := daemonPass w p
  (r.1, prePollLines w ++ r.2.map fun l => if l.startsWith "O polltmo " then s!"O polltmo {xpollRetryMsec w.tmo d}" else l)

end Pm.Daemon
