import Pm.TelnetPass
import Pm.ClientStream
/-! Helper lemmas for C09 (capacity): the sizes of the input buffers (`liblsd/cbuf.c`, `Pm/Cbuf.lean`) on the read side of
    devices (`device.c:_handle_read`) and clients (`client.c:_handle_read`): what one `read` takes is a prefix of what the
    kernel had, of the planned length; `fromBuf.length ≤ fromSize ≤ max` is kept; the size never decreases; nothing is
    lost below the maximal size; at the maximal size the oldest bytes give way; and the device's short writes. -/
namespace Pm.Dev2.Cap
open Pm.Dev2 Pm.Dev2.Tel

/-! ## 1. devices -/

/-- the capacity invariant of `dev->from`: what is unread fits; the size is between `MIN_DEV_BUF` and `MAX_DEV_BUF` -/
structure DevCap (d : Dev) : Prop where
  fits : d.fromBuf.length ≤ d.fromSize
  min : 1024 ≤ d.fromSize
  max : d.fromSize ≤ devBufMax

/-- the decoder never keeps more than it is given -/
theorem telnetStep_kept_le (st : Nat) (cmd b : UInt8) : (telnetStep st cmd b).2.2.1.length ≤ 1 := by
  unfold telnetStep
  repeat' split
  all_goals simp

theorem decodeFrom_kept_le (s : Bytes) : ∀ (st : Nat) (cmd : UInt8), (decodeFrom st cmd s).kept.length ≤ s.length := by
  induction s with
  | nil => intro st cmd; simp
  | cons b r ih =>
    intro st cmd
    rw [decodeFrom_cons]
    simp only [List.length_append, List.length_cons]
    have h1 := telnetStep_kept_le st cmd b
    have h2 := ih (telnetStep st cmd b).1 (telnetStep st cmd b).2.1
    omega

theorem keptOf_length_le (d : Dev) (bs : Bytes) : (keptOf d bs).length ≤ bs.length := by
  unfold keptOf; split
  · exact Nat.le_refl _
  · exact decodeFrom_kept_le bs _ _

/-- the plan of one `read` under the capacity invariant -/
theorem plan_facts (d : Dev) (r : Option Bytes) (h : DevCap d) :
    d.fromSize ≤ (devReadPlan d r).2.1 ∧ (devReadPlan d r).2.1 ≤ devBufMax ∧
    (devReadPlan d r).2.2 ≤ d.fromBuf.length ∧
    d.fromBuf.length - (devReadPlan d r).2.2 + (devReadPlan d r).1 ≤ (devReadPlan d r).2.1 := by
  have key : ∀ avail : Nat,
      d.fromSize ≤ (Pm.Cbuf.readPlan d.fromSize d.fromBuf.length devBufMax avail).2.1 ∧
      (Pm.Cbuf.readPlan d.fromSize d.fromBuf.length devBufMax avail).2.1 ≤ devBufMax ∧
      (Pm.Cbuf.readPlan d.fromSize d.fromBuf.length devBufMax avail).2.2 ≤ d.fromBuf.length ∧
      d.fromBuf.length - (Pm.Cbuf.readPlan d.fromSize d.fromBuf.length devBufMax avail).2.2 +
        (Pm.Cbuf.readPlan d.fromSize d.fromBuf.length devBufMax avail).1 ≤
        (Pm.Cbuf.readPlan d.fromSize d.fromBuf.length devBufMax avail).2.1 := by
    intro avail
    have h1 := Pm.Cbuf.readPlan_size_ge d.fromSize d.fromBuf.length devBufMax avail h.max
    have h2 := Pm.Cbuf.readPlan_size_le d.fromSize d.fromBuf.length devBufMax avail h.max
    have h3 := Pm.Cbuf.readPlan_dropped_le_used d.fromSize d.fromBuf.length devBufMax avail h.fits h.max
      (by unfold Pm.Cbuf.chunk; have := h.min; omega)
    have h4 := Pm.Cbuf.readPlan_fits d.fromSize d.fromBuf.length devBufMax avail h.fits h.max
    exact ⟨h1, h2, h3, by omega⟩
  exact key _

/-- the capacity half of the `read` makes room for exactly what it lets through -/
theorem clipRead_cap (c : CS) (h : DevCap c.dev) :
    (clipRead c).dev.fromBuf.length + (match (clipRead c).env.read with | some (some bs) => bs.length | _ => 0)
      ≤ (clipRead c).dev.fromSize ∧
    c.dev.fromSize ≤ (clipRead c).dev.fromSize ∧ (clipRead c).dev.fromSize ≤ devBufMax := by
  unfold clipRead
  cases hr : c.env.read with
  | none => simp only [hr]; exact ⟨by have := h.fits; omega, Nat.le_refl _, h.max⟩
  | some r =>
    simp only
    obtain ⟨p1, p2, p3, p4⟩ := plan_facts c.dev r h
    refine ⟨?_, p1, p2⟩
    cases r with
    | none => simp only [Option.map_none, List.length_drop]; omega
    | some bs =>
      simp only [Option.map_some, List.length_drop, List.length_take]
      have := Nat.min_le_left (devReadPlan c.dev (some bs)).1 bs.length
      generalize min (devReadPlan c.dev (some bs)).1 bs.length = m at *
      omega

theorem readyRd_fromSize (c : CS) : (readyRd c).1.dev.fromSize = c.dev.fromSize := by
  unfold readyRd telnetFilter
  repeat' split
  all_goals rfl

theorem readyRd_fromBuf_le (c : CS) :
    (readyRd c).1.dev.fromBuf.length ≤ c.dev.fromBuf.length + (match c.env.read with | some (some bs) => bs.length | _ => 0) := by
  rcases readyRd_cases c with ⟨_, h⟩ | ⟨bs, hr, _, _, h⟩
  · rw [h]; omega
  · rw [h, absorb_fromBuf, hr, List.length_append]
    have := keptOf_length_le c.dev bs
    simp only
    omega

theorem readyRead_cap (f : Nat) (c : CS) (h : DevCap c.dev) :
    DevCap (readyRead f c).1.dev ∧ c.dev.fromSize ≤ (readyRead f c).1.dev.fromSize := by
  unfold readyRead
  split
  · obtain ⟨h1, h2, h3⟩ := clipRead_cap c h
    have h4 := readyRd_fromBuf_le (clipRead c)
    have h5 := readyRd_fromSize (clipRead c)
    exact ⟨⟨by rw [h5]; omega, by rw [h5]; have := h.min; omega, by rw [h5]; exact h3⟩, by rw [h5]; exact h2⟩
  · exact ⟨h, Nat.le_refl _⟩

/-- **capacity, one call of `_handle_ready_device`** -/
theorem handleReady_cap (c : CS) (h : DevCap c.dev) :
    DevCap (handleReady c).1.dev ∧ c.dev.fromSize ≤ (handleReady c).1.dev.fromSize := by
  rw [handleReady_eq]
  split
  · exact ⟨h, Nat.le_refl _⟩
  split
  · exact ⟨h, Nat.le_refl _⟩
  split
  · exact ⟨h, Nat.le_refl _⟩
  obtain ⟨w1, _, w3⟩ := readyWrite_fromBuf c
  have hw : DevCap (readyWrite c).1.dev := ⟨by rw [w1, w3]; exact h.fits, by rw [w3]; exact h.min, by rw [w3]; exact h.max⟩
  split
  · exact ⟨hw, Nat.le_of_eq w3.symm⟩
  split
  · exact ⟨hw, Nat.le_of_eq w3.symm⟩
  · obtain ⟨r1, r2⟩ := readyRead_cap c.env.revents (readyWrite c).1 hw
    exact ⟨r1, by rw [w3] at r2; exact r2⟩

/-! ### what one call appends: the bytes read, after the oldest gave way -/

theorem keptOf_nil (d : Dev) : keptOf d [] = [] := by unfold keptOf; split <;> simp

theorem keptOf_congr {d d' : Dev} (h1 : d'.isPipe = d.isPipe) (h2 : d'.tstate = d.tstate) (h3 : d'.tcmd = d.tcmd) (bs : Bytes) :
    keptOf d' bs = keptOf d bs := by unfold keptOf; rw [h1, h2, h3]

/-- `_handle_ready_device`, every case: the input buffer afterwards is the old one less its `readDropped c` oldest bytes,
    followed by what the daemon keeps (`keptOf`: everything on a coprocess, the telnet decoder's output on tcp) of the
    bytes read, `readTaken c` -/
theorem handleReady_fromBuf (c : CS) :
    (handleReady c).1.dev.fromBuf = c.dev.fromBuf.drop (readDropped c) ++ keptOf c.dev (readTaken c) := by
  have knil := keptOf_nil c.dev
  unfold readTaken readDropped
  rw [handleReady_eq]
  by_cases h1 : (c.dev.conn == 0) = true
  · simp [h1, knil]
  by_cases h2 : c.dev.fd.isNone = true
  · simp [h1, h2, knil]
  by_cases h3 : (c.env.revents &&& 4 != 0 || c.env.revents &&& 8 != 0 || c.env.revents &&& 16 != 0) = true
  · simp only [h1, h2, h3, Bool.false_eq_true, ↓reduceIte, Bool.or_true, Bool.true_or, List.drop_zero, knil, List.append_nil]
  have hfb := readyWrite_fromBuf c
  by_cases h4 : (readyWrite c).2.1 = true
  · simp only [h1, h2, h3, h4, Bool.false_eq_true, ↓reduceIte, Bool.or_true, Bool.true_or, List.drop_zero, knil, List.append_nil, hfb.1]
  by_cases h5 : (readyWrite c).2.2 = true
  · simp only [h1, h2, h3, h4, h5, Bool.false_eq_true, ↓reduceIte, Bool.or_true, Bool.true_or, List.drop_zero, knil, List.append_nil, hfb.1]
  have hn := readyWrite_noskip c (by simpa using h5)
  by_cases h6 : c.env.revents &&& 1 = 0
  · have h6' : (c.env.revents &&& 1 == 0) = true := by simpa using h6
    simp only [h1, h2, h3, h4, h5, h6', Bool.false_eq_true, ↓reduceIte, Bool.or_true, List.drop_zero, knil,
      List.append_nil, readyRead_idle _ _ h6, hfb.1]
  · have h6' : (c.env.revents &&& 1 == 0) = false := by simpa using h6
    simp only [h1, h2, h3, h4, h5, h6', Bool.false_eq_true, ↓reduceIte, Bool.or_self]
    have nodata : (∀ bs, c.env.read = some (some bs) → bs = []) →
        (readyRead c.env.revents (readyWrite c).1).1.dev.fromBuf = c.dev.fromBuf := by
      intro hnd
      obtain ⟨n, hn'⟩ := readyRead_nodata c.env.revents (readyWrite c).1 (by rw [hn.2.2.2.2]; exact hnd)
      rw [hn']; exact hfb.1
    cases hh : c.env.read with
    | none => rw [nodata (fun bs h => by rw [hh] at h; cases h)]; simp [knil]
    | some x =>
      cases x with
      | none => rw [nodata (fun bs h => by rw [hh] at h; cases h)]; simp [knil]
      | some bs =>
        cases bs with
        | nil =>
          rw [nodata (fun bs h => by rw [hh] at h; cases h; rfl)]
          simp [knil, readOf_nil, dropOf_nil]
        | cons b r =>
          rw [readyRead_data _ _ (b :: r) h6 (by rw [hn.2.2.2.2]; exact hh) (by simp)]
          simp only
          rw [absorb_fromBuf, devClip_fromBuf, readOf_afterWrite, dropOf_afterWrite, hfb.1]
          congr 1
          exact keptOf_congr hfb.2.1 hn.1 hn.2.1 _

/-- the bytes read are a prefix of what the kernel had, of the planned length -/
theorem readTaken_prefix (c : CS) (bs : Bytes) (hr : c.env.read = some (some bs)) :
    readTaken c = [] ∨
    readTaken c = bs.take (Pm.Cbuf.readPlan c.dev.fromSize c.dev.fromBuf.length devBufMax bs.length).1 := by
  unfold readTaken
  split
  · exact Or.inl rfl
  · right; rw [hr]; rfl

theorem readTaken_isPrefix (c : CS) (bs : Bytes) (hr : c.env.read = some (some bs)) : readTaken c <+: bs := by
  rcases readTaken_prefix c bs hr with h | h <;> rw [h]
  · exact List.nil_prefix
  · exact List.take_prefix _ _

/-- without data from the kernel nothing is taken in -/
theorem readTaken_nodata (c : CS) (h : ∀ bs, c.env.read ≠ some (some bs)) : readTaken c = [] := by
  unfold readTaken
  split
  · rfl
  · split
    · rename_i bs hr; exact absurd hr (h bs)
    · rfl

/-- how many of the oldest bytes give way: what was read, less the room there is after growing -/
theorem readDropped_eq (c : CS) :
    readDropped c = (readTaken c).length - ((handleReady c).1.dev.fromSize - c.dev.fromBuf.length) ∨ readDropped c = 0 := by
  by_cases h0 : readDropped c = 0
  · exact Or.inr h0
  left
  unfold readDropped at h0
  split at h0
  · exact absurd rfl h0
  rename_i hcond
  split at h0
  · rename_i bs hr
    have hd : readDropped c = dropOf c.dev bs := by unfold readDropped; rw [if_neg hcond, hr]
    have ht : readTaken c = readOf c.dev bs := by unfold readTaken; rw [if_neg hcond, hr]
    have hbs : bs ≠ [] := by intro h; subst h; exact h0 (dropOf_nil _)
    -- the size after this call
    have hsz : (handleReady c).1.dev.fromSize = sizeAfter c.dev bs := by
      rw [handleReady_eq]
      simp only [Bool.or_eq_true, not_or, Bool.not_eq_true] at hcond
      obtain ⟨⟨⟨⟨⟨h1, h2⟩, h3⟩, h4⟩, h5⟩, h6⟩ := hcond
      have h3' : (c.env.revents &&& 4 != 0 || c.env.revents &&& 8 != 0 || c.env.revents &&& 16 != 0) = false := by
        simpa using h3
      simp only [h1, h2, h3', h4, h5, Bool.false_eq_true, ↓reduceIte]
      have hn := readyWrite_noskip c h5
      have hfb := readyWrite_fromBuf c
      rw [readyRead_data _ _ bs (by simpa using h6) (by rw [hn.2.2.2.2]; exact hr) hbs]
      simp only
      rw [absorb_fromSize, devClip_fromSize]
      unfold sizeAfter devReadPlan; rw [hfb.2.2, hfb.1]
    rw [hd, ht, hsz, readOf_length]
    unfold dropOf sizeAfter devReadPlan
    exact Pm.Cbuf.readPlan_dropped_eq _ _ _ _
  · exact absurd rfl h0

/-- `readTaken` and `readDropped` go together -/
theorem taken_dropped (c : CS) :
    (readTaken c = [] ∧ readDropped c = 0) ∨
    ∃ bs, c.env.read = some (some bs) ∧ readTaken c = readOf c.dev bs ∧ readDropped c = dropOf c.dev bs := by
  unfold readTaken readDropped
  split
  · exact Or.inl ⟨rfl, rfl⟩
  · cases hr : c.env.read with
    | none => exact Or.inl ⟨rfl, rfl⟩
    | some x =>
      cases x with
      | none => exact Or.inl ⟨rfl, rfl⟩
      | some bs => exact Or.inr ⟨bs, rfl, rfl, rfl⟩

/-- with room left in the buffer nothing is lost -/
theorem readDropped_of_room (c : CS) (h : c.dev.fromBuf.length < c.dev.fromSize) : readDropped c = 0 := by
  rcases taken_dropped c with ⟨_, h0⟩ | ⟨bs, _, _, hd⟩
  · exact h0
  · rw [hd]; unfold dropOf devReadPlan
    exact Pm.Cbuf.readPlan_dropped_of_room _ _ _ _ h

/-- when bytes are lost the buffer has just reached (or had) its maximal size -/
theorem readDropped_pos (c : CS) (h0 : readDropped c ≠ 0) :
    ∃ bs, c.env.read = some (some bs) ∧ bs ≠ [] ∧ readDropped c = dropOf c.dev bs ∧ readTaken c = readOf c.dev bs ∧
      (handleReady c).1.dev.fromSize = sizeAfter c.dev bs := by
  have hcond : ¬ (c.dev.conn == 0 || c.dev.fd.isNone ||
     (c.env.revents &&& 4 != 0 || c.env.revents &&& 8 != 0 || c.env.revents &&& 16 != 0) ||
     (readyWrite c).2.1 || (readyWrite c).2.2 || c.env.revents &&& 1 == 0) = true := by
    intro hc; apply h0; unfold readDropped; rw [if_pos hc]
  rcases taken_dropped c with ⟨_, h⟩ | ⟨bs, hr, ht, hd⟩
  · exact absurd h h0
  · have hbs : bs ≠ [] := by intro h; subst h; rw [hd] at h0; exact h0 (dropOf_nil _)
    refine ⟨bs, hr, hbs, hd, ht, ?_⟩
    rw [handleReady_eq]
    simp only [Bool.or_eq_true, not_or, Bool.not_eq_true] at hcond
    obtain ⟨⟨⟨⟨⟨h1, h2⟩, h3⟩, h4⟩, h5⟩, h6⟩ := hcond
    have h3' : (c.env.revents &&& 4 != 0 || c.env.revents &&& 8 != 0 || c.env.revents &&& 16 != 0) = false := by
      simpa using h3
    simp only [h1, h2, h3', h4, h5, Bool.false_eq_true, ↓reduceIte]
    have hn := readyWrite_noskip c h5
    have hfb := readyWrite_fromBuf c
    rw [readyRead_data _ _ bs (by simpa using h6) (by rw [hn.2.2.2.2]; exact hr) hbs]
    simp only
    rw [absorb_fromSize, devClip_fromSize]
    unfold sizeAfter devReadPlan; rw [hfb.2.2, hfb.1]

/-- **nothing is lost below the maximal size** -/
theorem readDropped_below_max (c : CS) (hf : c.dev.fromBuf.length ≤ c.dev.fromSize)
    (h : (handleReady c).1.dev.fromSize < devBufMax) : readDropped c = 0 := by
  apply Classical.byContradiction
  intro h0
  obtain ⟨bs, _, _, hd, _, hs⟩ := readDropped_pos c h0
  apply h0
  rw [hd]; unfold dropOf devReadPlan
  rw [hs] at h; unfold sizeAfter devReadPlan at h
  exact Pm.Cbuf.readPlan_dropped_of_lt_max _ _ _ _ hf h

/-- **the exact loss at the maximal size**: a full buffer at `MAX_DEV_BUF` asks for a chunk and loses as many of its
    oldest bytes as it reads -/
theorem readDropped_full (c : CS) (hs : c.dev.fromSize = devBufMax) (hfull : c.dev.fromBuf.length = devBufMax) :
    readDropped c = (readTaken c).length ∧ (readTaken c).length ≤ 1000 ∧
    ∀ bs, c.env.read = some (some bs) → readTaken c = [] ∨ readTaken c = bs.take 1000 := by
  have plan : ∀ bs : Bytes, devReadPlan c.dev (some bs) = (min 1000 bs.length, devBufMax, min 1000 bs.length) := by
    intro bs; unfold devReadPlan; rw [hs, hfull]; exact Pm.Cbuf.readPlan_full_at_max _ _
  have htake : ∀ bs : Bytes, readOf c.dev bs = bs.take 1000 := by
    intro bs; unfold readOf; rw [plan]
    simp only
    by_cases hl : 1000 ≤ bs.length
    · rw [Nat.min_eq_left hl]
    · rw [Nat.min_eq_right (by omega), List.take_of_length_le (Nat.le_refl _), List.take_of_length_le (by omega)]
  rcases taken_dropped c with ⟨ht, hd⟩ | ⟨bs, hr, ht, hd⟩
  · rw [ht, hd]; exact ⟨rfl, by simp, fun _ _ => Or.inl rfl⟩
  · refine ⟨?_, ?_, fun bs' hr' => ?_⟩
    · rw [hd, ht, readOf_length]; unfold dropOf; rw [plan]
    · rw [ht, htake, List.length_take]; omega
    · rw [hr] at hr'; cases hr'; right; rw [ht, htake]

/-! ### the size of the input buffer is touched by `_handle_read` only -/

theorem stmtExpect_fromSize (d a o pat) : (stmtExpect d a o pat).dev.fromSize = d.fromSize := by
  unfold stmtExpect; grind
theorem stmtSend_fromSize (d a o e fmt) : (stmtSend d a o e fmt).dev.fromSize = d.fromSize := by
  unfold stmtSend; grind
theorem stmtDelay_fromSize (d a o e now us) : (stmtDelay d a o e now us).dev.fromSize = d.fromSize := by
  unfold stmtDelay; grind
theorem stmtSetplugstate_fromSize (d a o e l p s i) : (stmtSetplugstate d a o e l p s i).dev.fromSize = d.fromSize := by
  unfold stmtSetplugstate; grind [setArgs]
theorem stmtSetresult_fromSize (d a o p s i) : (stmtSetresult d a o p s i).dev.fromSize = d.fromSize := by
  unfold stmtSetresult; grind [setArgs]
theorem stmtForeach_fromSize (d a o e b n) : (stmtForeach d a o e b n).dev.fromSize = d.fromSize := by
  unfold stmtForeach; grind
theorem stmtIf_fromSize (d a o e b n) : (stmtIf d a o e b n).dev.fromSize = d.fromSize := by
  unfold stmtIf; grind

theorem processStmt_fromSize (d : Dev) (a : Action) (o : Oracle) (now : Time) :
    (processStmt d a o now).dev.fromSize = d.fromSize := by
  unfold processStmt
  dsimp only
  split
  · rfl
  all_goals first
    | exact stmtExpect_fromSize _ _ _ _
    | exact stmtSend_fromSize _ _ _ _ _
    | exact stmtDelay_fromSize _ _ _ _ _ _
    | exact stmtSetplugstate_fromSize _ _ _ _ _ _ _ _
    | exact stmtSetresult_fromSize _ _ _ _ _ _
    | exact stmtForeach_fromSize _ _ _ _ _ _
    | exact stmtIf_fromSize _ _ _ _ _ _

theorem innerLoop_fromSize (now : Time) (fuel : Nat) (d : Dev) (a : Action) (o : Oracle) (acc : List Out) :
    (innerLoop now fuel d a o acc).dev.fromSize = d.fromSize := by
  induction fuel generalizing d a o acc with
  | zero => simpa [innerLoop] using processStmt_fromSize d a o now
  | succ n ih =>
    unfold innerLoop; dsimp only
    have hp := processStmt_fromSize d a o now
    split
    · rw [ih, hp]
    · simpa using hp

theorem finishConnectOne_fromSize (c : CS) : (finishConnectOne c).1.dev.fromSize = c.dev.fromSize := by
  unfold finishConnectOne; grind
theorem connectOne_fromSize (c : CS) : (connectOne c).1.dev.fromSize = c.dev.fromSize := (connectOne_frame c).dev.fromSize
theorem tcpConnect_fromSize (c : CS) : (tcpConnect c).1.dev.fromSize = c.dev.fromSize := (tcpConnect_frame c).dev.fromSize
theorem pipeConnect_fromSize (c : CS) : (pipeConnect c).1.dev.fromSize = c.dev.fromSize := by
  unfold pipeConnect; grind
theorem enqueueLogin_fromSize (d : Dev) : (enqueueLogin d).fromSize = d.fromSize := rfl
theorem connectDev_fromSize (c : CS) : (connectDev c).dev.fromSize = c.dev.fromSize := by
  unfold connectDev
  dsimp only
  have h1 := tcpConnect_fromSize { c with dev := { c.dev with lastRetry := c.env.now, retryCount := c.dev.retryCount + 1 } }
  have h2 := pipeConnect_fromSize { c with dev := { c.dev with lastRetry := c.env.now, retryCount := c.dev.retryCount + 1 } }
  split
  · generalize pipeConnect _ = r at *
    split
    · simpa [enqueueLogin] using h2
    · exact h2
  · generalize tcpConnect _ = r at *
    split
    · simpa [enqueueLogin] using h1
    · exact h1
theorem disconnectDev_fromSize (c : CS) : (disconnectDev c).dev.fromSize = c.dev.fromSize := by
  unfold disconnectDev; grind
theorem reconnectDev_fromSize (c : CS) (tmo : Option Time) : (reconnectDev c tmo).1.dev.fromSize = c.dev.fromSize := by
  unfold reconnectDev
  dsimp only
  have h0 : (if (c.dev.conn != 0) = true then disconnectDev c else c).dev.fromSize = c.dev.fromSize := by
    split
    · exact disconnectDev_fromSize c
    · rfl
  generalize (if (c.dev.conn != 0) = true then disconnectDev c else c) = c1 at *
  split
  · rw [connectDev_fromSize]; exact h0
  · exact h0
  · exact h0

theorem failAll_fromSize (rest : List Action) (c : CS) (a : Action) (o : Oracle) (out : List Out) (tmo : Option Time) :
    (failAll rest c a o out tmo).1.dev.fromSize = c.dev.fromSize := by
  unfold failAll
  dsimp only
  split
  · rw [reconnectDev_fromSize]
  · rfl

theorem onTimeout_fromSize (rest : List Action) (c : CS) (a : Action) (o : Oracle) (out : List Out) (tmo : Option Time) :
    (onTimeout rest c a o out tmo).1.dev.fromSize = c.dev.fromSize := by
  unfold onTimeout
  dsimp only
  generalize (if a.telemetry = true then
      (if (c.dev.conn != 2) = true then [Out.telemetry a.clientId (str "connect(dev): timeout")]
       else teleMem a.clientId "recv(dev): '" c.dev.fromBuf) else []) = tele
  cases hh : hasAbort tele
  · simp only [Bool.false_eq_true, ↓reduceIte]; exact failAll_fromSize _ _ _ _ _ _
  · simp only [↓reduceIte]

theorem onRun_fromSize (k : CS → Oracle → List Out → Option Time → PA) (rest : List Action) (c : CS) (a : Action) (o : Oracle)
    (out : List Out) (tmo : Option Time) (left : Time)
    (hk : ∀ c' o' out' tmo', (k c' o' out' tmo').1.dev.fromSize = c'.dev.fromSize) :
    (onRun k rest c a o out tmo left).1.dev.fromSize = c.dev.fromSize := by
  unfold onRun
  dsimp only
  have hL : (innerLoop c.env.now (loopBound a) { c.dev with wake := none } a o []).dev.fromSize = c.dev.fromSize :=
    innerLoop_fromSize _ _ _ _ _ _
  generalize innerLoop c.env.now (loopBound a) { c.dev with wake := none } a o [] = r at *
  split
  · exact hL
  · split
    · exact hL
    · split
      · split
        · rw [hk]; exact hL
        · rw [hk]; exact hL
      · rw [failAll_fromSize]; exact hL

theorem processActionF_fromSize (fuel : Nat) (c : CS) (o : Oracle) (out : List Out) (tmo : Option Time) :
    (processActionF fuel c o out tmo).1.dev.fromSize = c.dev.fromSize := by
  induction fuel generalizing c o out tmo with
  | zero => rfl
  | succ n ih =>
    unfold processActionF processActionBody
    by_cases hab : c.aborted = true
    · simp only [hab, ↓reduceIte]
    · simp only [hab, Bool.false_eq_true, ↓reduceIte]
      cases hacts : c.dev.acts with
      | nil => rfl
      | cons a0 rest =>
        simp only
        generalize stamp c.env.now a0 = a
        split
        · exact onTimeout_fromSize _ _ _ _ _ _
        · split
          · rfl
          · exact onRun_fromSize _ _ _ _ _ _ _ _ (fun c' o' out' tmo' => ih c' o' out' tmo')

theorem ppPing_fromSize (env : Env) (p : CS × Option Time) : (ppPing env p).1.dev.fromSize = p.1.dev.fromSize := by
  unfold ppPing
  dsimp only
  repeat' split
  all_goals rfl

/-- what a pass can do to the read side (`PassRel`) never makes the pending bytes more -/
theorem PassRel.fromBuf_le {d d' : Dev} (h : PassRel d d') : d'.fromBuf.length ≤ d.fromBuf.length := by
  rcases h with h | h
  · obtain ⟨k, hk⟩ := h.fromBuf; rw [hk, List.length_drop]; omega
  · rw [h.empty]; exact Nat.zero_le _

theorem reconnectDev_fromBuf_le (c : CS) (tmo : Option Time) :
    (reconnectDev c tmo).1.dev.fromBuf.length ≤ c.dev.fromBuf.length := by
  by_cases h0 : c.dev.conn = 0
  · rw [(reconnectDev_idle c tmo h0).1]; exact Nat.le_refl _
  · rw [(reconnectDev_clean c tmo h0).1]; exact Nat.zero_le _

/-- **capacity, a whole pass of `dev_post_poll`**: the invariant is kept and the size never decreases -/
theorem postPoll_cap (d : Dev) (env : Env) (o : Oracle) (h : DevCap d) :
    DevCap (postPoll d env o).1.dev ∧ d.fromSize ≤ (postPoll d env o).1.dev.fromSize := by
  rw [postPoll_eq]
  have h1 : DevCap (ppReady d env).1.dev ∧ d.fromSize ≤ (ppReady d env).1.dev.fromSize := by
    unfold ppReady
    split
    · exact handleReady_cap (ppC0 d env) h
    · exact ⟨h, Nat.le_refl _⟩
  generalize ppReady d env = r1 at *
  split
  · exact h1
  · have shrink : ∀ {a b : Dev}, DevCap a → b.fromSize = a.fromSize → b.fromBuf.length ≤ a.fromBuf.length → DevCap b := by
      intro a b ha hs hl
      exact ⟨by rw [hs]; exact Nat.le_trans hl ha.fits, by rw [hs]; exact ha.min, by rw [hs]; exact ha.max⟩
    have h2 : DevCap (ppReconn r1).1.dev ∧ (ppReconn r1).1.dev.fromSize = r1.1.dev.fromSize := by
      unfold ppReconn
      split
      · exact ⟨shrink h1.1 (reconnectDev_fromSize _ _) (reconnectDev_fromBuf_le _ _), reconnectDev_fromSize _ _⟩
      · exact ⟨h1.1, rfl⟩
    have h3 : DevCap (ppPing env (ppReconn r1)).1.dev ∧ (ppPing env (ppReconn r1)).1.dev.fromSize = r1.1.dev.fromSize := by
      refine ⟨shrink h2.1 (ppPing_fromSize _ _) ?_, (ppPing_fromSize _ _).trans h2.2⟩
      exact PassRel.fromBuf_le (.inl (ppPing_same env (ppReconn r1)).1)
    generalize ppPing env (ppReconn r1) = r3 at *
    have h4 := processActionF_fromSize (passFuel r3.1.dev) r3.1 o [] r3.2
    have h5 := PassRel.fromBuf_le (processAction_passRel r3.1 o [] r3.2)
    unfold processAction at h5 ⊢
    exact ⟨shrink h3.1 h4 h5, by rw [h4, h3.2]; exact h1.2⟩

theorem postPoll_fromSize (d : Dev) (env : Env) (o : Oracle) :
    (postPoll d env o).1.dev.fromSize = (ppReady d env).1.dev.fromSize := by
  rw [postPoll_eq]
  split
  · rfl
  · unfold processAction
    rw [processActionF_fromSize, ppPing_fromSize]
    unfold ppReconn
    split
    · exact reconnectDev_fromSize _ _
    · rfl

/-- **nothing is lost in a pass below the maximal size** -/
theorem passDropped_zero (d : Dev) (env : Env) (o : Oracle) (hf : d.fromBuf.length ≤ d.fromSize)
    (h : d.fromBuf.length < d.fromSize ∨ (postPoll d env o).1.dev.fromSize < devBufMax) : passDropped d env = 0 := by
  unfold passDropped
  split
  · rcases h with h | h
    · exact readDropped_of_room (ppC0 d env) h
    · apply readDropped_below_max (ppC0 d env) hf
      rw [postPoll_fromSize] at h
      unfold ppReady at h
      rename_i hfl
      rw [if_pos hfl] at h
      exact h
  · rfl

/-- the device's short write: with a descriptor that takes `wcap ≥ 1` bytes, the first `min wcap |toBuf|` bytes of the
    output buffer are written and leave it, the rest stays queued, in order, and this is not an error; with `wcap = 0`
    (`EAGAIN`) an empty write is logged, the buffer is as it was, and an i/o error is reported -/
theorem short_write (c : CS) (h : ReadyOk c) (hout : c.env.revents &&& 2 ≠ 0) (hin : c.env.revents &&& 1 = 0)
    (hc : c.dev.conn ≠ 1) (hb : c.dev.toBuf ≠ []) (hw : c.env.writeOk = true) :
    (c.env.wcap ≠ 0 → (handleReady c).2 = false ∧
      ∃ wr, wr ≠ [] ∧ wr.length = min c.env.wcap c.dev.toBuf.length ∧ (handleReady c).1.sys = c.sys ++ [.write wr true] ∧
        wr ++ (handleReady c).1.dev.toBuf = c.dev.toBuf) ∧
    (c.env.wcap = 0 → (handleReady c).2 = true ∧ (handleReady c).1.sys = c.sys ++ [.write [] true] ∧
      (handleReady c).1.dev.toBuf = c.dev.toBuf) := by
  rw [handleReady_write_only c h hout hin hc hb, hw]
  simp only [↓reduceIte]
  constructor
  · intro hcap
    have hcap' : (c.env.wcap == 0) = false := by simpa using hcap
    simp only [hcap', Bool.false_eq_true, ↓reduceIte]
    refine ⟨trivial, c.dev.toBuf.take c.env.wcap, ?_, List.length_take, rfl, List.take_append_drop _ _⟩
    cases hb' : c.dev.toBuf with
    | nil => exact absurd hb' hb
    | cons x xs =>
      cases hwc : c.env.wcap with
      | zero => exact absurd hwc hcap
      | succ n => simp
  · intro hcap
    have hcap' : (c.env.wcap == 0) = true := by simpa using hcap
    simp only [hcap', ↓reduceIte]
    exact ⟨trivial, trivial, trivial⟩

/-! ### a concrete overflow, for the non-vacuity example of `Props/C09` (65536-element lists are beyond `decide`) -/
namespace Ex

/-- a connected coprocess device whose input buffer holds `MAX_DEV_BUF` unconsumed bytes (all `a`), readable, the kernel
    has `x y z` -/
def fullPipe : CS :=
  { dev := { plugs := [], scripts := fun _ => none, timeout := 0, acts := [], toBuf := [], fromBuf := List.replicate 65536 97,
             xmStr := none, xmOffs := [], xmResult := false, xmUsed := false, args := [], nextUid := 0,
             shortCircuitDelay := false, conn := 2, fd := some 7, isPipe := true, fromSize := 65536 },
    env := { now := 0, revents := 1, sockets := [], connects := [], soerrs := [], read := some (some [120, 121, 122]),
             writeOk := true },
    sys := [] }

theorem fullPipe_cap : DevCap fullPipe.dev := ⟨by show (List.replicate 65536 (97 : UInt8)).length ≤ 65536; rw [List.length_replicate]; exact Nat.le_refl _, by decide, by decide⟩

theorem fullPipe_spec :
    readDropped fullPipe = 3 ∧ readTaken fullPipe = [120, 121, 122] ∧
    (handleReady fullPipe).1.dev.fromBuf = List.replicate 65533 97 ++ [120, 121, 122] ∧
    (handleReady fullPipe).1.dev.fromSize = 65536 := by
  have hs : fullPipe.dev.fromSize = devBufMax := rfl
  have hfull : fullPipe.dev.fromBuf.length = devBufMax := by
    show (List.replicate 65536 (97 : UInt8)).length = 65536; rw [List.length_replicate]
  obtain ⟨h1, _, h3⟩ := readDropped_full fullPipe hs hfull
  have ht : readTaken fullPipe = [120, 121, 122] := by
    have e := readTaken_eq fullPipe [120, 121, 122] (by decide) (by decide) (by decide) (by decide) (by decide) (by decide) rfl
    rcases h3 [120, 121, 122] rfl with h | h
    · rw [e] at h; exact absurd h (readOf_ne_nil _ _ (by simp))
    · rw [h]; rfl
  have hd : readDropped fullPipe = 3 := by rw [h1, ht]; rfl
  refine ⟨hd, ht, ?_, ?_⟩
  · rw [handleReady_fromBuf, hd, ht]
    show List.drop 3 (List.replicate 65536 (97 : UInt8)) ++ keptOf fullPipe.dev [120, 121, 122] = _
    rw [List.drop_replicate]
    rfl
  · have := handleReady_cap fullPipe fullPipe_cap
    have h1 := this.1.max
    have h2 := this.2
    rw [hs] at h2
    exact Nat.le_antisymm h1 h2

end Ex

end Pm.Dev2.Cap

namespace Pm.Daemon.Cap
open Pm Pm.Client Pm.Daemon Pm.Daemon.ClientPf

/-! ## 2. clients -/

/-- the capacity invariant of `c->from`: what is unread fits; the size is between `MIN_CLIENT_BUF` and `MAX_CLIENT_BUF` -/
structure CliCap (c : Cli) : Prop where
  fits : c.fromBuf.length ≤ c.fromSize
  min : 1024 ≤ c.fromSize
  max : c.fromSize ≤ cliBufMax

/-- the read stage of `clientPass` (`_handle_read`): the capacity half, then the bytes -/
def cliRead (w : W) (c : Cli) (e : Option FdEnv) : W × Cli := cpRead w (clipC c e) (clipE c e)

/-- what the kernel has to hand out: nothing on an error or at end of file -/
def cliAvail (e : FdEnv) : Nat := if e.rk == 1 || e.rk == 2 then 0 else e.data.length
/-- the bytes one `read` takes: the first `n` of what the kernel had, `n` as planned by `Pm.Cbuf.readPlan` -/
def cliTaken (c : Cli) (e : FdEnv) : Bytes := if e.rk == 1 || e.rk == 2 then [] else e.data.take (cliReadPlan c e).1
/-- the number of oldest unread bytes that `read` overwrites -/
def cliDropped (c : Cli) (e : FdEnv) : Nat := (cliReadPlan c e).2.2
/-- the size of the input buffer afterwards -/
def cliSizeAfter (c : Cli) (e : FdEnv) : Nat := (cliReadPlan c e).2.1

theorem cliReadPlan_eq (c : Cli) (e : FdEnv) :
    cliReadPlan c e = Pm.Cbuf.readPlan c.fromSize c.fromBuf.length cliBufMax (cliAvail e) := rfl

theorem cliTaken_length (c : Cli) (e : FdEnv) : (cliTaken c e).length = (cliReadPlan c e).1 := by
  have h := Pm.Cbuf.readPlan_n_le_avail c.fromSize c.fromBuf.length cliBufMax (cliAvail e)
  rw [← cliReadPlan_eq] at h
  unfold cliTaken
  unfold cliAvail at h
  split
  · rename_i hk; simp only [hk, ↓reduceIte] at h; simp; omega
  · rename_i hk; simp only [hk, Bool.false_eq_true, ↓reduceIte] at h
    rw [List.length_take]; omega

theorem cliTaken_prefix (c : Cli) (e : FdEnv) : cliTaken c e <+: e.data := by
  unfold cliTaken; split
  · exact List.nil_prefix
  · exact List.take_prefix _ _

theorem cliDropped_le_taken (c : Cli) (e : FdEnv) : cliDropped c e ≤ (cliTaken c e).length := by
  rw [cliTaken_length]; exact Pm.Cbuf.readPlan_dropped_le_n _ _ _ _

/-- **the read stage, spelled out**: the input buffer loses its `cliDropped` oldest bytes and gains `cliTaken`; the size is
    the planned one; one `read` is logged — its result is the number of bytes taken, 0 at end of file, -1 on an error or
    when the kernel had nothing (`EAGAIN`) — and the client is marked as having quit when nothing was taken -/
theorem cliRead_spec (w : W) (c : Cli) (e : FdEnv) :
    (cliRead w c (some e)).2.fromBuf = c.fromBuf.drop (cliDropped c e) ++ cliTaken c e ∧
    (cliRead w c (some e)).2.fromSize = cliSizeAfter c e ∧
    (cliRead w c (some e)).1.sys = w.sys ++ [Sys.read c.fd
      (if e.rk == 1 then -1 else if e.rk == 2 then 0 else if (cliTaken c e).isEmpty then -1 else ((cliTaken c e).length : Int))] ∧
    (cliRead w c (some e)).2.quit = (c.quit || (cliTaken c e).isEmpty) := by
  have hd := cliDropped_le_taken c e
  unfold cliRead cpRead clipC clipE clipCli clipEnv
  simp only [Option.map_some]
  unfold cliTaken cliSizeAfter at *
  unfold cliDropped at *
  by_cases h1 : (e.rk == 1) = true
  · simp only [h1, Bool.true_or, ↓reduceIte, List.length_nil, Nat.le_zero_eq] at hd ⊢
    simp [hd]
  · by_cases h2 : (e.rk == 2) = true
    · simp only [h1, h2, Bool.or_true, ↓reduceIte, List.length_nil, Nat.le_zero_eq, Bool.false_eq_true] at hd ⊢
      simp [hd]
    · simp only [h1, h2, Bool.or_self, Bool.false_eq_true, ↓reduceIte] at hd ⊢
      by_cases h3 : (e.data.take (cliReadPlan c e).1).isEmpty = true
      · simp only [h3, ↓reduceIte]
        have : e.data.take (cliReadPlan c e).1 = [] := by simpa using h3
        rw [this] at hd ⊢
        simp only [List.length_nil, Nat.le_zero_eq] at hd
        simp [hd]
      · simp only [h3, Bool.false_eq_true, ↓reduceIte]
        simp

theorem cliRead_none (w : W) (c : Cli) : cliRead w c none = (w, c) := rfl

/-- the plan of one `read` under the capacity invariant -/
theorem cliPlan_facts (c : Cli) (e : FdEnv) (h : CliCap c) :
    c.fromSize ≤ cliSizeAfter c e ∧ cliSizeAfter c e ≤ cliBufMax ∧ cliDropped c e ≤ c.fromBuf.length ∧
    c.fromBuf.length - cliDropped c e + (cliTaken c e).length ≤ cliSizeAfter c e := by
  rw [cliTaken_length]
  unfold cliSizeAfter cliDropped
  rw [cliReadPlan_eq]
  have h1 := Pm.Cbuf.readPlan_size_ge c.fromSize c.fromBuf.length cliBufMax (cliAvail e) h.max
  have h2 := Pm.Cbuf.readPlan_size_le c.fromSize c.fromBuf.length cliBufMax (cliAvail e) h.max
  have h3 := Pm.Cbuf.readPlan_dropped_le_used c.fromSize c.fromBuf.length cliBufMax (cliAvail e) h.fits h.max
    (by unfold Pm.Cbuf.chunk; have := h.min; omega)
  have h4 := Pm.Cbuf.readPlan_fits c.fromSize c.fromBuf.length cliBufMax (cliAvail e) h.fits h.max
  exact ⟨h1, h2, h3, by omega⟩

theorem cliRead_cap (w : W) (c : Cli) (e : Option FdEnv) (h : CliCap c) :
    CliCap (cliRead w c e).2 ∧ c.fromSize ≤ (cliRead w c e).2.fromSize := by
  cases e with
  | none => rw [cliRead_none]; exact ⟨h, Nat.le_refl _⟩
  | some e =>
    obtain ⟨s1, s2, _, _⟩ := cliRead_spec w c e
    obtain ⟨p1, p2, p3, p4⟩ := cliPlan_facts c e h
    refine ⟨⟨?_, ?_, ?_⟩, ?_⟩
    · rw [s1, s2, List.length_append, List.length_drop]; exact p4
    · rw [s2]; have := h.min; omega
    · rw [s2]; exact p2
    · rw [s2]; exact p1

theorem handleWrite_from (w : W) (c : Cli) :
    (handleWrite w c).2.fromBuf = c.fromBuf ∧ (handleWrite w c).2.fromSize = c.fromSize := by
  unfold handleWrite
  dsimp only
  repeat' split
  all_goals exact ⟨rfl, rfl⟩

theorem runLines_from : ∀ (ls : List Bytes) (w : W) (c : Cli),
    (runLines w c ls).2.fromSize = c.fromSize ∧ (runLines w c ls).2.fromBuf.length ≤ c.fromBuf.length := by
  intro ls
  induction ls with
  | nil => intro w c; exact ⟨rfl, Nat.le_refl _⟩
  | cons l ls ih =>
    intro w c
    unfold runLines
    split
    · exact ⟨rfl, Nat.le_refl _⟩
    · have hf := parseLine_frame w { c with fromBuf := c.fromBuf.drop l.length } l
      obtain ⟨i1, i2⟩ := ih (parseLine w { c with fromBuf := c.fromBuf.drop l.length } l).1
        (parseLine w { c with fromBuf := c.fromBuf.drop l.length } l).2
      refine ⟨i1.trans hf.fromSize, Nat.le_trans i2 ?_⟩
      rw [hf.fromBuf]
      simp only [List.length_drop]
      omega

theorem handleInput_from (w : W) (c : Cli) :
    (handleInput w c).2.fromSize = c.fromSize ∧ (handleInput w c).2.fromBuf.length ≤ c.fromBuf.length := by
  rw [handleInput_lines]; exact runLines_from _ w c

/-- **capacity, one client's share of `cli_post_poll`**: a client that survives the pass still satisfies the invariant,
    and the size of its input buffer has not decreased -/
theorem clientPass_cap (w : W) (c : Cli) (e : Option FdEnv) (c' : Cli) (h : CliCap c) (hc : (clientPass w c e).2 = some c') :
    CliCap c' ∧ c.fromSize ≤ c'.fromSize := by
  rw [clientPass_eq] at hc
  unfold clientPass' at hc
  dsimp only at hc
  split at hc
  · simp [cpDead] at hc
  · have h1 : CliCap (if (cpRev c e &&& 1 != 0 || cpRev c e &&& 4 != 0) = true then cpRead w (clipC c e) (clipE c e) else (w, c)).2 ∧
        c.fromSize ≤ (if (cpRev c e &&& 1 != 0 || cpRev c e &&& 4 != 0) = true then cpRead w (clipC c e) (clipE c e) else (w, c)).2.fromSize := by
      split
      · exact cliRead_cap w c e h
      · exact ⟨h, Nat.le_refl _⟩
    generalize (if (cpRev c e &&& 1 != 0 || cpRev c e &&& 4 != 0) = true then cpRead w (clipC c e) (clipE c e) else (w, c)) = r1 at *
    have h2 : CliCap (if (cpRev c e &&& 2 != 0) = true then handleWrite r1.1 r1.2 else r1).2 ∧
        c.fromSize ≤ (if (cpRev c e &&& 2 != 0) = true then handleWrite r1.1 r1.2 else r1).2.fromSize := by
      split
      · obtain ⟨a, b⟩ := handleWrite_from r1.1 r1.2
        exact ⟨⟨by rw [a, b]; exact h1.1.fits, by rw [b]; exact h1.1.min, by rw [b]; exact h1.1.max⟩, by rw [b]; exact h1.2⟩
      · exact h1
    generalize (if (cpRev c e &&& 2 != 0) = true then handleWrite r1.1 r1.2 else r1) = r2 at *
    obtain ⟨a, b⟩ := handleInput_from r2.1 r2.2
    have h3 : CliCap (handleInput r2.1 r2.2).2 ∧ c.fromSize ≤ (handleInput r2.1 r2.2).2.fromSize :=
      ⟨⟨by rw [a]; exact Nat.le_trans b h2.1.fits, by rw [a]; exact h2.1.min, by rw [a]; exact h2.1.max⟩, by rw [a]; exact h2.2⟩
    generalize handleInput r2.1 r2.2 = r3 at *
    unfold cpTail at hc
    split at hc
    · cases hc; exact h3
    · split at hc
      · simp [cpDead] at hc
      · cases hc; exact h3

/-- the stages of `clientPass`, with the read stage named -/
theorem clientPass_stages (w : W) (c : Cli) (e : Option FdEnv) :
    clientPass w c e =
      (if cpRev c e &&& 8 != 0 || cpRev c e &&& 16 != 0 then cpDead w c else
       let r1 := if cpRev c e &&& 1 != 0 || cpRev c e &&& 4 != 0 then cliRead w c e else (w, c)
       let r2 := if cpRev c e &&& 2 != 0 then handleWrite r1.1 r1.2 else r1
       cpTail (handleInput r2.1 r2.2)) := by
  rw [clientPass_eq]; rfl

/-! ### no loss below the maximal size; the exact loss at the maximal size -/

theorem cliDropped_of_room (c : Cli) (e : FdEnv) (h : c.fromBuf.length < c.fromSize) : cliDropped c e = 0 := by
  unfold cliDropped; rw [cliReadPlan_eq]; exact Pm.Cbuf.readPlan_dropped_of_room _ _ _ _ h

theorem cliDropped_below_max (c : Cli) (e : FdEnv) (hf : c.fromBuf.length ≤ c.fromSize)
    (h : cliSizeAfter c e < cliBufMax) : cliDropped c e = 0 := by
  unfold cliDropped cliSizeAfter at *; rw [cliReadPlan_eq] at *
  exact Pm.Cbuf.readPlan_dropped_of_lt_max _ _ _ _ hf h

theorem cliDropped_eq (c : Cli) (e : FdEnv) :
    cliDropped c e = (cliTaken c e).length - (cliSizeAfter c e - c.fromBuf.length) := by
  rw [cliTaken_length]; unfold cliDropped cliSizeAfter; rw [cliReadPlan_eq]
  exact Pm.Cbuf.readPlan_dropped_eq _ _ _ _

theorem cli_full (c : Cli) (e : FdEnv) (hs : c.fromSize = cliBufMax) (hfull : c.fromBuf.length = cliBufMax) :
    cliSizeAfter c e = cliBufMax ∧ cliDropped c e = (cliTaken c e).length ∧
    cliTaken c e = if e.rk == 1 || e.rk == 2 then [] else e.data.take 1000 := by
  have plan : cliReadPlan c e = (min 1000 (cliAvail e), cliBufMax, min 1000 (cliAvail e)) := by
    rw [cliReadPlan_eq, hs, hfull]; exact Pm.Cbuf.readPlan_full_at_max _ _
  refine ⟨by unfold cliSizeAfter; rw [plan], by rw [cliTaken_length]; unfold cliDropped; rw [plan], ?_⟩
  unfold cliTaken
  split
  · rfl
  · rename_i hk
    rw [plan]
    simp only
    unfold cliAvail
    simp only [hk, Bool.false_eq_true, ↓reduceIte]
    by_cases hl : 1000 ≤ e.data.length
    · rw [Nat.min_eq_left hl]
    · rw [Nat.min_eq_right (by omega), List.take_of_length_le (Nat.le_refl _), List.take_of_length_le (by omega)]

end Pm.Daemon.Cap
