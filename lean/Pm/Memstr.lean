/- pilot for C07: debug.c:dbg_memstr, buffer arithmetic with C `char` signedness -/
namespace Pm.Memstr

/-- number of characters `sprintf("\\%.3o", x)` produces (backslash + at least 3 octal digits) -/
def octLen (x : Nat) : Nat := 1 + max 3 (Nat.toDigits 8 x).length

/-- value passed to `%o` for byte `b`: as coded, `mem[i]` is a (signed) `char` promoted to `int` and
    reinterpreted as `unsigned int`; with the cast `(unsigned char)` it is just the byte -/
def promoted (signedChar : Bool) (b : UInt8) : Nat :=
  if signedChar && b.toNat ≥ 128 then 2 ^ 32 - 256 + b.toNat else b.toNat

def isPrint (b : UInt8) : Bool := 32 ≤ b.toNat && b.toNat ≤ 126

/-- (bytes written at &str[j] including the terminating NUL of strcpy/sprintf, advance of j) -/
def cell (signedChar : Bool) (b : UInt8) : Nat × Nat :=
  if b == 13 || b == 10 || b == 9 then (3, 2)          -- strcpy(&str[j], "\\r"); j += 2
  else if isPrint b then (1, 1)                          -- str[j++] = mem[i]
  else (octLen (promoted signedChar b) + 1, 4)           -- sprintf(...); j += 4

/-- walk the loop; `none` = some write went past `str[strsize]` (heap overflow) -/
def walk (signedChar : Bool) (size : Nat) : List UInt8 → Nat → Option Nat
  | [], j => if j + 1 ≤ size then some j else none        -- str[j] = '\0'
  | b :: bs, j =>
    let (w, adv) := cell signedChar b
    if j + w ≤ size then walk signedChar size bs (j + adv) else none

/-- `dbg_memstr(mem, len)` allocates `len*4 + 1` bytes -/
def memstrSafe (signedChar : Bool) (mem : List UInt8) : Bool := (walk signedChar (mem.length * 4 + 1) mem 0).isSome

/-- as coded (x86: plain `char` is signed) a single byte ≥ 0x80 overruns the allocation -/
theorem C07_memstr_counterexample : memstrSafe true [255] = false := by decide

theorem octLen_byte (b : UInt8) : octLen b.toNat = 4 := by
  have h : b.toNat < 256 := UInt8.toNat_lt b
  unfold octLen
  have : (Nat.toDigits 8 b.toNat).length ≤ 3 := by
    rw [Nat.length_toDigits_le_iff (by decide) (by decide)]
    omega
  omega

theorem cell_unsigned (b : UInt8) : (cell false b).1 ≤ (cell false b).2 + 1 ∧ (cell false b).2 ≤ 4 := by
  unfold cell
  split
  · simp
  · split
    · simp
    · simp [promoted, octLen_byte]

/-- with the byte taken as `unsigned char` no write ever leaves the allocation, for every input -/
theorem walk_unsigned (mem : List UInt8) : ∀ (j size : Nat), j + mem.length * 4 + 1 ≤ size →
    (walk false size mem j).isSome = true := by
  induction mem with
  | nil => intro j size h; simp [walk]; omega
  | cons b bs ih =>
    intro j size h
    obtain ⟨h1, h2⟩ := cell_unsigned b
    simp only [walk, List.length_cons] at h ⊢
    have hw : j + (cell false b).1 ≤ size := by omega
    simp only [hw, if_true]
    exact ih _ _ (by omega)

theorem C07_memstr_bound_fixed (mem : List UInt8) : memstrSafe false mem = true := by
  unfold memstrSafe
  exact walk_unsigned mem 0 _ (by omega)

end Pm.Memstr

