import Pm.TelnetPass
import Pm.CapProof
import Pm.ToBufProof
import Pm.InterpRef
import Pm.Dev2Fd
/-! Helper lemmas for the property theorems about the capacity of the device output buffer `dev->to`
    (`Props/C09` section 8, `Props/C07` `C07_send_overrun_never_aborts`, the counterexamples of `Props/C08` and `Props/C09`):
    the invariant over runs of passes, no loss below the maximum over a whole pass, the exact loss at the maximum for a
    `send`, for the telnet answers and for `_handle_ready_device`, and "an overrun is not an abort". -/
namespace Pm.Dev2.ToBufP
open Pm.Dev2.Login2 Pm.Dev2.Tel Pm.Dev2.Interp

/-! ### the invariant along the other transitions and over runs -/

theorem connectDev_cap (c : CS) (h : c.dev.toBuf.length ≤ 65536) : (connectDev c).dev.toBuf.length ≤ 65536 := by
  rw [(connectDev_buf c).1]; exact h

theorem disconnectDev_cap (c : CS) : (disconnectDev c).dev.toBuf.length ≤ 65536 := by
  rw [(disconnectDev_buf c).1]; exact Nat.zero_le _

theorem reconnectDev_cap (c : CS) (tmo : Option Time) (h : c.dev.toBuf.length ≤ 65536) :
    (reconnectDev c tmo).1.dev.toBuf.length ≤ 65536 := by
  by_cases h0 : c.dev.conn = 0
  · rw [Login2.reconnectDev_idle c tmo h0]; exact h
  · rw [(reconnectDev_flush c tmo h0).1]; exact Nat.zero_le _

/-- over any run of `dev_post_poll` passes (any kernel answers, any oracle) the output buffer stays within its capacity -/
theorem run_cap (s : Dev × Bytes) (ps : List (Env × Oracle)) (h : s.1.toBuf.length ≤ 65536) :
    (ps.foldl passStep s).1.toBuf.length ≤ 65536 := by
  induction ps generalizing s with
  | nil => exact h
  | cons p r ih => exact ih _ (postPoll_cap s.1 p.1 p.2 h)

/-! ### no loss below the maximum, a whole pass -/

/-- A whole `dev_post_poll` pass whose queue, telnet answers and send texts fit the buffer together: what a successful `write`
    took (`wr`, logged) followed by what is queued afterwards is what was queued before, then the telnet answers of the pass,
    then the texts of the pass's `send` statements — nothing lost, repeated or reordered — unless the pass disconnected. -/
theorem postPoll_no_loss (d : Dev) (env : Env) (o : Oracle)
    (hfit : d.toBuf.length + (readyReplies { dev := d, env := env, sys := [] }).length +
      (sentBytes (postPoll d env o).2.2.1).length ≤ 65536) :
    ∃ wr reply,
      (wr = [] ∨ Sys.write wr true ∈ (postPollReady d env).1.sys) ∧ wr <+: d.toBuf ∧
      (reply = [] ∨ ∃ bs, env.read = some (some bs) ∧ d.isPipe = false ∧
        reply = telnetReplies d.tstate d.tcmd (readOf d bs)) ∧
      (wr ++ (postPoll d env o).1.dev.toBuf = d.toBuf ++ reply ++ sentBytes (postPoll d env o).2.2.1 ∨
       ((postPoll d env o).1.dev.toBuf = sentBytes (postPoll d env o).2.2.1 ∧
          (postPollReady d env).2 = true ∧ (postPollReady d env).1.dev.conn ≠ 0) ∨
       ((postPoll d env o).1.dev.toBuf = [] ∧ (postPollPre d env).1.dev.conn = 2 ∧
          ((postPoll d env o).1.dev.conn ≠ 2 ∨
           (postPoll d env o).1.dev.retryCount = (postPollPre d env).1.dev.retryCount + 1))) := by
  obtain ⟨kept, reply, h1, h2, h3⟩ := postPoll_buf_below d env o hfit
  rcases h1 with h1 | ⟨wr, hne, hw, hlog⟩
  · refine ⟨[], reply, Or.inl rfl, List.nil_prefix, h2, ?_⟩
    rcases h3 with h | h | h
    · left; rw [h, h1]; rfl
    · right; left; exact h
    · right; right; exact h
  · refine ⟨wr, reply, Or.inr hlog, ⟨kept, hw⟩, h2, ?_⟩
    rcases h3 with h | h | h
    · left; rw [h, ← hw]; simp [List.append_assoc]
    · right; left; exact h
    · right; right; exact h

/-! ### the exact loss at the maximum -/

/-- a first-visit `send` of `s` (at most a buffer long) against `old` queued (within the capacity): exactly the
    `toDropped old s = |old| + |s| - 65536` oldest queued bytes give way, the text is queued whole -/
theorem stmtSend_drops_oldest (d : Dev) (a : Action) (o : Oracle) (e : ExecCtx) (fmt s : Bytes)
    (hp : e.processing = false) (hs : sendText fmt e.plugs = some s) (hlen : s.length ≤ 65536) :
    (stmtSend d a o e fmt).dev.toBuf = d.toBuf.drop (toDropped d.toBuf s) ++ s := by
  rw [(stmtSend_fresh d a o e fmt s hp hs).1]
  exact clipTo_append_of_fits d.toBuf s hlen

/-- at the limit: with exactly 65536 bytes queued, a `send` of `k` bytes loses exactly the `k` oldest -/
theorem stmtSend_full (d : Dev) (a : Action) (o : Oracle) (e : ExecCtx) (fmt s : Bytes)
    (hp : e.processing = false) (hs : sendText fmt e.plugs = some s) (hfull : d.toBuf.length = 65536) (hlen : s.length ≤ 65536) :
    (stmtSend d a o e fmt).dev.toBuf = d.toBuf.drop s.length ++ s := by
  rw [(stmtSend_fresh d a o e fmt s hp hs).1]
  exact clipTo_full d.toBuf s hfull hlen

/-- a text longer than the buffer: only its last 65536 bytes are queued, nothing of what was queued stays -/
theorem stmtSend_long (d : Dev) (a : Action) (o : Oracle) (e : ExecCtx) (fmt s : Bytes)
    (hp : e.processing = false) (hs : sendText fmt e.plugs = some s) (hlen : 65536 ≤ s.length) :
    (stmtSend d a o e fmt).dev.toBuf = clipTo s := by
  rw [(stmtSend_fresh d a o e fmt s hp hs).1]
  exact clipTo_append_of_long d.toBuf s hlen

theorem telnetFilter_drops_oldest (d : Dev) (bs : Bytes) (hlen : (telnetReplies d.tstate d.tcmd bs).length ≤ 65536) :
    (telnetFilter d bs).toBuf =
      d.toBuf.drop (toDropped d.toBuf (telnetReplies d.tstate d.tcmd bs)) ++ telnetReplies d.tstate d.tcmd bs := by
  rw [telnetFilter_toBuf]; exact clipTo_append_of_fits _ _ hlen

theorem telnetFilter_full (d : Dev) (bs : Bytes) (hfull : d.toBuf.length = 65536)
    (hlen : (telnetReplies d.tstate d.tcmd bs).length ≤ 65536) :
    (telnetFilter d bs).toBuf =
      d.toBuf.drop (telnetReplies d.tstate d.tcmd bs).length ++ telnetReplies d.tstate d.tcmd bs := by
  rw [telnetFilter_toBuf]; exact clipTo_full _ _ hfull hlen

theorem repliesOf_devClip (d : Dev) (bs x : Bytes) : repliesOf (devClip d bs) x = repliesOf d x := by
  rfl

/-- `_handle_ready_device`, the descriptor readable and not writable, the kernel has `bs`: the output buffer afterwards -/
theorem handleReady_read_toBuf (c : CS) (bs : Bytes) (h : ReadyOk c)
    (hout : c.env.revents &&& 2 = 0) (hin : c.env.revents &&& 1 ≠ 0)
    (hr : c.env.read = some (some bs)) (hbs : bs ≠ []) (hcap : c.dev.toBuf.length ≤ 65536) :
    (handleReady c).1.dev.toBuf = clipTo (c.dev.toBuf ++ repliesOf c.dev (readOf c.dev bs)) := by
  rw [handleReady_read_only c bs h hout hin hr hbs]
  show (absorb (devClip c.dev bs) (readOf c.dev bs)).toBuf = _
  rw [absorb_toBuf _ _ (by simpa using hcap), repliesOf_devClip]; simp

/-- the same at the limit: with exactly 65536 bytes queued and no `write` in this call, the answers to what was read
    (`r`, at most a buffer long) push out exactly the `|r|` oldest queued bytes -/
theorem handleReady_read_full (c : CS) (bs : Bytes) (h : ReadyOk c)
    (hout : c.env.revents &&& 2 = 0) (hin : c.env.revents &&& 1 ≠ 0)
    (hr : c.env.read = some (some bs)) (hbs : bs ≠ []) (hfull : c.dev.toBuf.length = 65536)
    (hlen : (repliesOf c.dev (readOf c.dev bs)).length ≤ 65536) :
    (handleReady c).1.dev.toBuf =
      c.dev.toBuf.drop (repliesOf c.dev (readOf c.dev bs)).length ++ repliesOf c.dev (readOf c.dev bs) := by
  rw [handleReady_read_toBuf c bs h hout hin hr hbs (Nat.le_of_eq hfull)]
  exact clipTo_full _ _ hfull hlen

/-! ### an overrun is not an abort -/

theorem sendTele_noAbort (d : Dev) (tele : Bool) (cid : Nat) (s : Bytes) : hasAbort (sendTele d tele cid s) = false := by
  unfold sendTele
  split
  · rfl
  · split
    · exact Fd.teleMem_noAbort _ _ _
    · rfl

/-- the only abort outcome of `_process_send` is the `hostlist_sort` assertion (F19): the overrun of `dev->to` is none -/
theorem stmtSend_abort_iff (d : Dev) (a : Action) (o : Oracle) (e : ExecCtx) (fmt : Bytes) :
    hasAbort (stmtSend d a o e fmt).out = true ↔ e.processing = false ∧ sendText fmt e.plugs = none := by
  by_cases hp : e.processing = true
  · rw [(stmtSend_reentry d a o e fmt hp).2.2.1]
    constructor
    · intro h; cases h
    · intro h; rw [hp] at h; cases h.1
  · have hp' : e.processing = false := by simpa using hp
    cases hs : sendText fmt e.plugs with
    | none =>
      rw [stmtSend_fresh_abort d a o e fmt hp' hs]
      exact ⟨fun _ => ⟨hp', rfl⟩, fun _ => rfl⟩
    | some s =>
      rw [(stmtSend_fresh d a o e fmt s hp' hs).2.2.1]
      constructor
      · intro h
        have : hasAbort ([Out.sent s] ++ sendTele d a.telemetry a.clientId s) = false := by
          have h2 := sendTele_noAbort d a.telemetry a.clientId s
          unfold hasAbort at h2 ⊢
          simp only [List.any_append, List.any_cons, List.any_nil, Bool.or_false, h2]
        rw [this] at h; cases h
      · intro h; cases h.2

/-- a first-visit `send` whose text does not fit behind what is queued: the text is reported as sent, nothing is shown to a
    telemetry client, the oldest queued bytes give way, the statement waits for the buffer to drain — and nothing aborts -/
theorem stmtSend_overrun (d : Dev) (a : Action) (o : Oracle) (e : ExecCtx) (fmt s : Bytes)
    (hp : e.processing = false) (hs : sendText fmt e.plugs = some s) (hov : 65536 < (d.toBuf ++ s).length) :
    (stmtSend d a o e fmt).out = [Out.sent s] ∧ hasAbort (stmtSend d a o e fmt).out = false ∧
    (stmtSend d a o e fmt).dev = { d with toBuf := clipTo (d.toBuf ++ s) } ∧
    (stmtSend d a o e fmt).dev.toBuf.length = 65536 ∧ (stmtSend d a o e fmt).finished = false := by
  obtain ⟨h1, _, h3, h4, _⟩ := stmtSend_fresh d a o e fmt s hp hs
  have hov' : toOverrun d.toBuf s = true := by unfold toOverrun; simpa using hov
  rw [sendTele_overrun _ _ _ _ hov'] at h3
  refine ⟨by rw [h3]; rfl, by rw [h3]; rfl, h1, ?_, ?_⟩
  · rw [h1]; show (clipTo (d.toBuf ++ s)).length = 65536
    rw [clipTo_length]; exact Nat.min_eq_right (Nat.le_of_lt hov)
  · rw [h4]
    cases hb : d.toBuf ++ s with
    | nil => rw [hb] at hov; exact absurd hov (by decide)
    | cons _ _ => rfl

/-! ### witnesses beyond the limit -/

/-- a device with nothing configured whose output buffer is full: 65536 bytes `7` -/
def fullDev : Dev :=
  { plugs := [], scripts := fun _ => none, timeout := 0, acts := [], toBuf := List.replicate 65536 7, fromBuf := [], xmStr := none,
    xmOffs := [], xmResult := false, xmUsed := false, args := [], nextUid := 0, shortCircuitDelay := false,
    conn := 2, fd := some 7 }

theorem fullDev_len : fullDev.toBuf.length = 65536 := List.length_replicate

def sendCtx : ExecCtx := { block := [.send [108, 10]], pos := 0, plugs := none, plugItr := none, plugCopy := none, processing := false }

theorem sendCtx_text : sendText [108, 10] sendCtx.plugs = some [108, 10] := by decide

/-- the clause of `C08_send_bytes` as it read before the capacity was modelled is false beyond 64 KiB: a `send "l\n"` against a
    full buffer does not leave `toBuf ++ "l\n"` -/
theorem send_append_counterexample (a : Action) (o : Oracle) :
    sendCtx.processing = false ∧ sendText [108, 10] sendCtx.plugs = some [108, 10] ∧
    (stmtSend fullDev a o sendCtx [108, 10]).dev ≠ { fullDev with toBuf := fullDev.toBuf ++ [108, 10] } ∧
    (stmtSend fullDev a o sendCtx [108, 10]).dev.toBuf = fullDev.toBuf.drop 2 ++ [108, 10] := by
  have h2le : ([108, 10] : Bytes).length ≤ 65536 := Nat.le_of_ble_eq_true rfl
  have hfull := stmtSend_full fullDev a o sendCtx [108, 10] [108, 10] rfl sendCtx_text fullDev_len h2le
  have hl2 : ([108, 10] : Bytes).length = 2 := rfl
  rw [hl2] at hfull
  refine ⟨rfl, sendCtx_text, ?_, hfull⟩
  intro h
  have h1 := (stmtSend_fresh fullDev a o sendCtx [108, 10] [108, 10] rfl sendCtx_text).1
  rw [h1] at h
  have h2 := congrArg (fun x : Dev => x.toBuf.length) h
  dsimp only at h2
  have h3 := clipTo_length_le (fullDev.toBuf ++ [108, 10])
  rw [h2, List.length_append, fullDev_len] at h3
  exact absurd h3 (by decide)

/-- the kernel hands out one `IAC DO ECHO`, the descriptor is not writable -/
def stormEnv : Env :=
  { now := 0, revents := 1, sockets := [], connects := [], soerrs := [], read := some (some [255, 253, 1]), writeOk := true }

def stormC : CS := { dev := fullDev, env := stormEnv, sys := [] }

theorem stormC_ok : ReadyOk stormC := ⟨by decide, by decide, by decide, by decide, by decide⟩

theorem stormC_readOf : readOf stormC.dev [255, 253, 1] = [255, 253, 1] := by decide

theorem stormC_replies : repliesOf stormC.dev [255, 253, 1] = [255, 252, 1] := by decide

/-- the buffer after the call: the three oldest bytes have given way to `IAC WONT ECHO` -/
theorem stormC_toBuf : (handleReady stormC).1.dev.toBuf = (List.replicate 65536 7).drop 3 ++ [255, 252, 1] := by
  have h := handleReady_read_full stormC [255, 253, 1] stormC_ok (by decide) (by decide) rfl (by decide) fullDev_len
    (by rw [stormC_readOf, stormC_replies]; decide)
  rw [stormC_readOf, stormC_replies] at h
  exact h

theorem stormC_written : devWritten (handleReady stormC).1.sys = [] := by
  rw [handleReady_read_only stormC [255, 253, 1] stormC_ok (by decide) (by decide) rfl (by decide)]
  show devWritten ([] ++ [Sys.read _]) = []
  simp [devWritten]

/-- `C09_device_write_conserved` as it read before the capacity was modelled — "written so far ++ queued only grows at its
    end, by the answers to what was read" — is false beyond 64 KiB: for no `bs` at all -/
theorem write_conserved_old_counterexample :
    ¬ ∃ bs, devWritten (handleReady stormC).1.sys ++ (handleReady stormC).1.dev.toBuf =
      devWritten stormC.sys ++ stormC.dev.toBuf ++ repliesOf stormC.dev bs := by
  rintro ⟨bs, h⟩
  rw [stormC_written, stormC_toBuf] at h
  have hl := congrArg List.length h
  simp only [List.nil_append, List.length_append, List.length_drop, List.length_replicate, List.length_cons, List.length_nil] at hl
  have hsys : devWritten stormC.sys = [] := rfl
  rw [hsys] at hl h
  have hb : stormC.dev.toBuf.length = 65536 := fullDev_len
  simp only [List.length_nil, hb] at hl
  have h0 : (repliesOf stormC.dev bs).length = 0 := by omega
  have hnil : repliesOf stormC.dev bs = [] := List.eq_nil_of_length_eq_zero h0
  rw [hnil] at h
  simp only [List.nil_append, List.append_nil] at h
  have hm : (255 : UInt8) ∈ List.drop 3 (List.replicate 65536 (7 : UInt8)) ++ [255, 252, 1] :=
    List.mem_append.mpr (Or.inr List.mem_cons_self)
  rw [h] at hm
  have : (255 : UInt8) = 7 := List.eq_of_mem_replicate hm
  exact absurd this (by decide)

end Pm.Dev2.ToBufP

section audit
open Pm.Dev2.ToBufP
#print axioms run_cap
#print axioms postPoll_no_loss
#print axioms stmtSend_drops_oldest
#print axioms stmtSend_full
#print axioms telnetFilter_full
#print axioms handleReady_read_full
#print axioms stmtSend_abort_iff
#print axioms stmtSend_overrun
#print axioms send_append_counterexample
#print axioms write_conserved_old_counterexample
end audit
