import Pm.StreamRun
/-! Helper lemmas for C15 over whole runs, part 4: **what a device pass hands to the clients is clean**.

    Every telemetry text the interpreter emits is `send(dev): '…'` / `recv(dev): '…'` with the bytes shown through
    `dbg_memstr` (printable ASCII), `delay(dev): s.uuuuuu` or `connect(dev): timeout`; every diagnostic is
    `node: text` with `node` the node of one of the device's plugs and `text` cut at the first CR or LF.  So, the plug nodes
    of the device being clean, no callback of `dev_post_poll` carries CR or LF. -/
namespace Pm.Daemon.StreamPf
open Pm Pm.Daemon Pm.Daemon.ClientPf
open Pm.Dev2

/-- the text a callback carries to a client contains neither CR nor LF -/
def OutClean : Out → Prop
  | .telemetry _ t => cleanText t = true
  | .diag _ t => cleanText t = true
  | _ => True

def OutsClean (l : List Out) : Prop := ∀ x ∈ l, OutClean x

theorem OutsClean.nil : OutsClean [] := by intro x hx; cases hx
theorem OutsClean.append {a b : List Out} (ha : OutsClean a) (hb : OutsClean b) : OutsClean (a ++ b) := by
  intro x hx; rcases List.mem_append.mp hx with h | h
  · exact ha x h
  · exact hb x h

/-- the nodes wired to the device's plugs contain neither CR nor LF -/
def PlugsClean (d : Dev) : Prop := ∀ p ∈ d.plugs, ∀ n, p.node = some n → cleanText n = true

theorem PlugsClean.congr {d d' : Dev} (h : PlugsClean d) (hp : d'.plugs = d.plugs) : PlugsClean d' := by
  unfold PlugsClean; rw [hp]; exact h

theorem str_eq (s : String) : str s = bstr s := rfl

theorem teleMem_outs (cid : Nat) (pre : String) (bs : Bytes) (hp : cleanText (str pre) = true) : OutsClean (teleMem cid pre bs) := by
  intro x hx
  cases x with
  | telemetry c t => exact teleMem_clean cid pre bs hp _ hx c t rfl
  | diag c t =>
    unfold teleMem at hx
    split at hx <;> simp at hx
  | _ => trivial

theorem recv_pre_clean : cleanText (str "recv(dev): '") = true := by decide +kernel
theorem send_pre_clean : cleanText (str "send(dev): '") = true := by decide +kernel

theorem askRx_outs (o : Oracle) (pat : Nat) (s : Bytes) : OutsClean (askRx o pat s).2.2 := by
  intro x hx
  unfold askRx at hx
  split at hx
  · split at hx
    · cases hx
    · simp at hx; subst hx; trivial
  · simp at hx; subst hx; trivial

theorem pickState_outs (s : Bytes) (l : List (PState × Nat)) (o : Oracle) (errs : List Out) (h : OutsClean errs) :
    OutsClean (pickState askRx s l o errs).2.2 := by
  induction l generalizing o errs with
  | nil => simpa [pickState] using h
  | cons p r ih =>
    obtain ⟨st, pat⟩ := p
    unfold pickState
    have h2 := askRx_outs o pat s
    dsimp only
    split
    · exact h.append h2
    · exact ih _ _ (h.append h2)

theorem pickResult_outs (s : Bytes) (l : List (PResult × Nat)) (o : Oracle) (errs : List Out) (h : OutsClean errs) :
    OutsClean (pickResult askRx s l o errs).2.2 := by
  induction l generalizing o errs with
  | nil => simpa [pickResult] using h
  | cons p r ih =>
    obtain ⟨st, pat⟩ := p
    unfold pickResult
    have h2 := askRx_outs o pat s
    dsimp only
    split
    · exact h.append h2
    · exact ih _ _ (h.append h2)

theorem stmtExpect_outs (d : Dev) (a : Action) (o : Oracle) (pat : Nat) : OutsClean (stmtExpect d a o pat).out := by
  unfold stmtExpect
  dsimp only
  split
  · exact .nil
  · have h1 := askRx_outs o pat (d.fromBuf.map fun b => if b == 0 then 255 else b)
    generalize askRx o pat (d.fromBuf.map fun b => if b == 0 then 255 else b) = r at h1
    obtain ⟨o', ans, errs⟩ := r
    dsimp only
    cases ans with
    | none => exact h1
    | some offs =>
      dsimp only
      refine OutsClean.append h1 ?_
      split
      · exact teleMem_outs _ _ _ recv_pre_clean
      · exact .nil

theorem stmtSend_outs (d : Dev) (a : Action) (o : Oracle) (e : ExecCtx) (fmt : Bytes) : OutsClean (stmtSend d a o e fmt).out := by
  unfold stmtSend
  split
  · dsimp only
    split
    · intro x hx; simp at hx; subst hx; trivial
    · rename_i s _
      have ht : OutsClean ([Out.sent s] ++ (if toOverrun d.toBuf s = true then [] else
          if a.telemetry = true then teleMem a.clientId "send(dev): '" s else [])) := by
        apply OutsClean.append
        · intro x hx; simp at hx; subst hx; trivial
        · split
          · exact .nil
          · split
            · exact teleMem_outs _ _ _ send_pre_clean
            · exact .nil
      split <;> exact ht
  · split <;> exact .nil

/-- the text of the `delay` telemetry: seconds, a dot, microseconds zero filled -/
theorem delayText_clean (us : Nat) :
    cleanText (str s!"delay(dev): {us / 1000000}.{String.ofList (List.replicate (6 - (toString (us % 1000000)).length) '0')}{us % 1000000}") = true := by
  rw [str_eq]
  simp only [bstr_append, cleanText_append]
  have h1 : cleanText (bstr (toString "delay(dev): ")) = true := by decide +kernel
  have h2 : cleanText (bstr (toString ".")) = true := by decide +kernel
  have h3 : ∀ k, cleanText (bstr (toString (String.ofList (List.replicate k '0')))) = true := zeros_clean
  rw [h1, h2, h3, toString_nat_clean, toString_nat_clean]
  rfl

set_option linter.deprecated false in
theorem stmtDelay_outs (d : Dev) (a : Action) (o : Oracle) (e : ExecCtx) (now us : Time) : OutsClean (stmtDelay d a o e now us).out := by
  unfold stmtDelay
  generalize hpr : (if (!e.processing) = true then
      (setTop { a with delayStart := now } { e with processing := true },
       if a.telemetry then [Out.telemetry a.clientId (str s!"delay(dev): {us / 1000000}.{String.mk (List.replicate (6 - (toString (us % 1000000)).length) '0')}{us % 1000000}")] else [])
    else (a, [])) = pr
  have ht : OutsClean pr.2 := by
    subst hpr
    split
    · dsimp only
      split
      · intro x hx; simp only [List.mem_singleton] at hx; subst hx; exact delayText_clean us
      · exact .nil
    · exact .nil
  obtain ⟨a', tele⟩ := pr
  dsimp only
  split <;> exact ht

theorem stmtSetplugstate_outs (d : Dev) (a : Action) (o : Oracle) (e : ExecCtx) (lit : Option Bytes) (p s : Int)
    (i : List (PState × Nat)) : OutsClean (stmtSetplugstate d a o e lit p s i).out := by
  unfold stmtSetplugstate
  dsimp only
  split
  · exact .nil
  · split
    · rename_i sv plug _ _
      exact pickState_outs sv i o [] .nil
    · exact .nil

theorem stmtSetresult_outs (d : Dev) (hd : PlugsClean d) (a : Action) (o : Oracle) (p s : Int) (i : List (PResult × Nat)) :
    OutsClean (stmtSetresult d a o p s i).out := by
  intro x hx
  cases x with
  | diag c t =>
    obtain ⟨node, txt, rfl, htxt, _, pl, hpl, hnode⟩ := setresult_diag d a o p s i _ hx c t rfl
    show cleanText (node ++ str ": " ++ txt) = true
    rw [cleanText_append, cleanText_append, hd pl hpl node hnode, htxt]
    decide +kernel
  | telemetry c t =>
    unfold stmtSetresult at hx
    split at hx
    · simp at hx
    · split at hx
      · rename_i sv plug hs hf
        have hnd := pickResult_outs sv i o [] .nil
        generalize pickResult askRx sv i o [] = pr at hx hnd
        obtain ⟨o', res, errs⟩ := pr
        simp only [List.mem_append] at hx
        rcases hx with hx | hx
        · exact hnd _ hx
        · split at hx <;> simp at hx
      · simp at hx
  | _ => trivial


theorem processStmt_outs (d : Dev) (hd : PlugsClean d) (a : Action) (o : Oracle) (now : Time) : OutsClean (processStmt d a o now).out := by
  unfold processStmt
  dsimp only
  split
  · intro x hx; simp at hx; subst hx; trivial
  · exact stmtExpect_outs _ _ _ _
  · exact stmtSend_outs _ _ _ _ _
  · exact stmtDelay_outs _ _ _ _ _ _
  · exact stmtSetplugstate_outs _ _ _ _ _ _ _ _
  · exact stmtSetresult_outs _ hd _ _ _ _ _
  · unfold stmtForeach; dsimp only; split <;> split <;> exact .nil
  · unfold stmtForeach; dsimp only; split <;> split <;> exact .nil
  · unfold stmtIf; dsimp only; repeat' split
    all_goals exact .nil
  · unfold stmtIf; dsimp only; repeat' split
    all_goals exact .nil

theorem innerLoop_outs (now : Time) (fuel : Nat) (d : Dev) (hd : PlugsClean d) (a : Action) (o : Oracle) (acc : List Out)
    (hacc : OutsClean acc) : OutsClean (innerLoop now fuel d a o acc).out := by
  induction fuel generalizing d a o acc with
  | zero =>
    unfold innerLoop
    exact hacc.append (processStmt_outs d hd a o now)
  | succ n ih =>
    unfold innerLoop; dsimp only; split
    · exact ih _ (hd.congr (processStmt_plugs d a o now)) _ _ _ (hacc.append (processStmt_outs d hd a o now))
    · exact hacc.append (processStmt_outs d hd a o now)

/-- what `_process_action` returns: the plugs are those of the device, the callbacks are clean -/
def PAClean (d : Dev) (r : PA) : Prop := r.1.dev.plugs = d.plugs ∧ OutsClean r.2.2.1

theorem finish_outs (l : List Out) (h : ∀ x ∈ l, ∃ c e, x = Out.finish c e) : OutsClean l := by
  intro x hx; obtain ⟨c, e, rfl⟩ := h x hx; trivial

theorem failAll_clean (rest : List Action) (c : CS) (a : Action) (o : Oracle) (out : List Out) (tmo : Option Time)
    (hout : OutsClean out) : PAClean c.dev (failAll rest c a o out tmo) := by
  have hfin : OutsClean ((if a.clientId != 0 then [Out.finish a.clientId a.errnum] else []) ++
      (rest.filter (·.clientId != 0)).map fun b => Out.finish b.clientId (if a.errnum == .expfail then .abort else a.errnum)) := by
    apply finish_outs
    intro x hx
    rcases List.mem_append.mp hx with hx | hx
    · split at hx
      · simp at hx; exact ⟨_, _, hx⟩
      · cases hx
    · simp only [List.mem_map] at hx
      obtain ⟨b, _, rfl⟩ := hx
      exact ⟨_, _, rfl⟩
  have hr := reconnectDev_devFrame { c with dev := { c.dev with acts := [], xmStr := none, xmResult := false, xmUsed := false } } tmo
  unfold failAll
  dsimp only
  split
  · generalize reconnectDev _ tmo = r at *
    exact ⟨hr.plugs, hout.append hfin⟩
  · exact ⟨rfl, hout.append hfin⟩

theorem connect_timeout_clean : cleanText (str "connect(dev): timeout") = true := by decide +kernel

theorem onTimeout_clean (rest : List Action) (c : CS) (a : Action) (o : Oracle) (out : List Out) (tmo : Option Time)
    (hout : OutsClean out) : PAClean c.dev (onTimeout rest c a o out tmo) := by
  unfold onTimeout
  dsimp only
  generalize htele : (if a.telemetry = true then
      (if (c.dev.conn != 2) = true then [Out.telemetry a.clientId (str "connect(dev): timeout")]
       else teleMem a.clientId "recv(dev): '" c.dev.fromBuf) else []) = tele
  have hnt : OutsClean tele := by
    subst htele
    split
    · split
      · intro x hx; simp only [List.mem_singleton] at hx; subst hx; exact connect_timeout_clean
      · exact teleMem_outs _ _ _ recv_pre_clean
    · exact .nil
  split
  · exact ⟨rfl, hout.append hnt⟩
  · exact failAll_clean rest c _ o _ tmo (hout.append hnt)

theorem onRun_clean (k : CS → Oracle → List Out → Option Time → PA)
    (rest : List Action) (c : CS) (a : Action) (o : Oracle) (out : List Out) (tmo : Option Time) (left : Time)
    (hd : PlugsClean c.dev) (hout : OutsClean out)
    (hk : ∀ c' o' out' tmo', c'.dev.plugs = c.dev.plugs → OutsClean out' → PAClean c'.dev (k c' o' out' tmo')) :
    PAClean c.dev (onRun k rest c a o out tmo left) := by
  unfold onRun
  dsimp only
  have hIL := innerLoop_outs c.env.now (loopBound a) { c.dev with wake := none } hd a o [] .nil
  have hfr := innerLoop_frame (fun _ => false) c.env.now (loopBound a) { c.dev with wake := none } a o [] (fun _ _ _ _ => rfl) (by simp)
  generalize innerLoop c.env.now (loopBound a) { c.dev with wake := none } a o [] = r at *
  have hplugs : r.dev.plugs = c.dev.plugs := hfr.plugs
  split
  · exact ⟨hplugs, hout.append hIL⟩
  · split
    · exact ⟨hplugs, hout.append hIL⟩
    · split
      · split
        · have := hk { c with dev := { r.dev with acts := rest, loggedIn := r.dev.loggedIn || (advance r.act).com == 0, statActions := r.dev.statActions + 1, xmStr := none, xmResult := false, xmUsed := false } }
            r.oracle ((out ++ r.out) ++ (if (advance r.act).clientId != 0 then [Out.finish (advance r.act).clientId .success] else [])) tmo
            hplugs ((hout.append hIL).append (by
              apply finish_outs
              intro x hx
              split at hx
              · simp at hx; exact ⟨_, _, hx⟩
              · cases hx))
          exact ⟨this.1.trans hplugs, this.2⟩
        · have := hk { c with dev := { r.dev with acts := advance r.act :: rest } } r.oracle (out ++ r.out) tmo hplugs (hout.append hIL)
          exact ⟨this.1.trans hplugs, this.2⟩
      · have := failAll_clean rest { c with dev := r.dev } r.act r.oracle (out ++ r.out) tmo (hout.append hIL)
        exact ⟨this.1.trans hplugs, this.2⟩

theorem processActionF_clean (fuel : Nat) (c : CS) (o : Oracle) (out : List Out) (tmo : Option Time)
    (hd : PlugsClean c.dev) (hout : OutsClean out) : PAClean c.dev (processActionF fuel c o out tmo) := by
  induction fuel generalizing c o out tmo with
  | zero =>
    unfold processActionF
    exact ⟨rfl, hout.append (by intro x hx; simp at hx; subst hx; trivial)⟩
  | succ n ih =>
    unfold processActionF processActionBody
    split
    · exact ⟨rfl, hout⟩
    · split
      · exact ⟨rfl, hout⟩
      · dsimp only
        split
        · exact onTimeout_clean _ c _ o out tmo hout
        · split
          · exact ⟨rfl, hout⟩
          · exact onRun_clean _ _ c _ o out tmo _ hd hout (fun c' o' out' tmo' h1 h2 => ih c' o' out' tmo' (hd.congr h1) h2)

/-- **every callback of one device's share of `dev_post_poll` carries clean text**, the nodes of the device's plugs being
    clean; and the plugs are kept -/
theorem postPoll_clean (d : Dev) (env : Env) (o : Oracle) (hd : PlugsClean d) :
    (postPoll d env o).1.dev.plugs = d.plugs ∧ OutsClean (postPoll d env o).2.2.1 := by
  rw [postPoll_eq]
  unfold postPoll'
  have h1 := ppReady_devFrame d env
  generalize ppReady d env = r at *
  dsimp only
  split
  · exact ⟨h1.plugs, .nil⟩
  · have h2 := ppReconnect_devFrame r.1 r.2
    generalize ppReconnect r.1 r.2 = r2 at *
    have h3 := ppPing_frame r2.1 env.now r2.2
    generalize ppPing r2.1 env.now r2.2 = r3 at *
    have hp : r3.1.dev.plugs = d.plugs := h3.1.trans (h1.trans h2).plugs
    have := processActionF_clean (passFuel r3.1.dev) r3.1 o [] r3.2 (hd.congr hp) .nil
    unfold processAction
    exact ⟨this.1.trans hp, this.2⟩

end Pm.Daemon.StreamPf

/-! axiom audit (expected: at most `propext`, `Classical.choice`, `Quot.sound`) -/
#print axioms Pm.Daemon.StreamPf.postPoll_clean
#print axioms Pm.Daemon.StreamPf.delayText_clean
