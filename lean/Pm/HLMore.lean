import Pm.HLDefs
/-! Helper lemmas for property C14 (items 1–4): well-formedness is preserved, count / nth agree with the
    expansion, `find` is complete under the suffix bound, `deleteHost` removes exactly one occurrence. -/
namespace Pm

/-! ## 1. well-formedness is preserved -/

theorem mem_of_getLast? {α} {l : List α} {t : α} (h : l.getLast? = some t) : t ∈ l := by
  obtain ⟨ys, hys⟩ := List.getLast?_eq_some_iff.mp h
  rw [hys]; simp

theorem mem_dropLast {α} {l : List α} {x : α} (h : x ∈ l.dropLast) : x ∈ l :=
  List.dropLast_subset l h

theorem pushRange_HWF (hl : Hostlist) (r : HostRange) (hr : r.single = true ∨ r.lo ≤ r.hi) (h : HWF hl) :
    HWF (pushRange hl r) := by
  unfold pushRange
  cases hlast : hl.getLast? with
  | none => intro t ht; simp at ht; subst ht; exact hr
  | some t =>
    simp only
    have htm := mem_of_getLast? hlast
    split
    · rename_i hc
      obtain ⟨hp, hs, hts, hadj⟩ := hc
      have hts' : t.single = false := by simpa using hts
      have hrs : r.single = false := by rw [← hs]; exact hts'
      cases hwe : widthEquiv t.lo t.width r.lo r.width with
      | none =>
        intro x hx
        rcases List.mem_append.mp hx with hx | hx
        · exact h x hx
        · simp at hx; subst hx; exact hr
      | some p =>
        obtain ⟨wt, wr⟩ := p
        intro x hx
        rcases List.mem_append.mp hx with hx | hx
        · exact h x (mem_dropLast hx)
        · simp at hx; subst hx
          right
          have h1 := h t htm
          simp [hts'] at h1
          simp [hrs] at hr
          simp; omega
    · intro x hx
      rcases List.mem_append.mp hx with hx | hx
      · exact h x hx
      · simp at hx; subst hx; exact hr

theorem pushRange_HWFS (hl : Hostlist) (r : HostRange) (hr : r.WFS) (h : HWFS hl) :
    HWFS (pushRange hl r) := by
  unfold pushRange
  cases hlast : hl.getLast? with
  | none => intro t ht; simp at ht; subst ht; exact hr
  | some t =>
    simp only
    have htm := mem_of_getLast? hlast
    split
    · rename_i hc
      obtain ⟨hp, hs, hts, hadj⟩ := hc
      have hts' : t.single = false := by simpa using hts
      have hrs : r.single = false := by rw [← hs]; exact hts'
      cases hwe : widthEquiv t.lo t.width r.lo r.width with
      | none =>
        intro x hx
        rcases List.mem_append.mp hx with hx | hx
        · exact h x hx
        · simp at hx; subst hx; exact hr
      | some p =>
        obtain ⟨wt, wr⟩ := p
        intro x hx
        rcases List.mem_append.mp hx with hx | hx
        · exact h x (mem_dropLast hx)
        · simp at hx; subst hx
          right
          have h1 := h t htm
          unfold HostRange.WFS at h1 hr
          simp [hts'] at h1
          simp [hrs] at hr
          simp [hts']; omega
    · intro x hx
      rcases List.mem_append.mp hx with hx | hx
      · exact h x hx
      · simp at hx; subst hx; exact hr

theorem pushHost_HWFS (hl : Hostlist) (n : Name) (h : HWFS hl) : HWFS (pushHost hl n) := by
  unfold pushHost
  simp only
  split
  · apply pushRange_HWFS _ _ _ h
    right; simp
  · apply pushRange_HWFS _ _ _ h
    left; simp

theorem pushHost_HWF (hl : Hostlist) (n : Name) (h : HWF hl) : HWF (pushHost hl n) := by
  unfold pushHost
  simp only
  split
  · exact pushRange_HWF _ _ (Or.inr (Nat.le_refl _)) h
  · exact pushRange_HWF _ _ (Or.inl rfl) h

theorem HWF_nil : HWF [] := by intro t ht; simp at ht
theorem HWFS_nil : HWFS [] := by intro t ht; simp at ht

theorem foldl_pushHost_HWFS (names : List Name) : ∀ (hl : Hostlist), HWFS hl → HWFS (names.foldl pushHost hl) := by
  induction names with
  | nil => intro hl h; exact h
  | cons n ns ih => intro hl h; exact ih _ (pushHost_HWFS hl n h)

theorem foldl_pushHost_HWF (names : List Name) : ∀ (hl : Hostlist), HWF hl → HWF (names.foldl pushHost hl) := by
  induction names with
  | nil => intro hl h; exact h
  | cons n ns ih => intro hl h; exact ih _ (pushHost_HWF hl n h)

/-- a list built by pushing names denotes exactly those names in order -/
theorem expand_foldl_pushHost (names : List Name) : ∀ (hl : Hostlist), HWF hl →
    expand (names.foldl pushHost hl) = expand hl ++ names := by
  induction names with
  | nil => intro hl _; simp
  | cons n ns ih =>
    intro hl h
    simp only [List.foldl_cons]
    rw [ih _ (pushHost_HWF hl n h), expand_pushHost' hl n h]
    simp

theorem HWFS_cons {r : HostRange} {rs : Hostlist} : HWFS (r :: rs) ↔ r.WFS ∧ HWFS rs := by
  unfold HWFS; simp

theorem HWF_cons {r : HostRange} {rs : Hostlist} : HWF (r :: rs) ↔ (r.single = true ∨ r.lo ≤ r.hi) ∧ HWF rs := by
  unfold HWF; simp

/-- what `hostlist_delete_nth` leaves of the range holding position `n` (`n < r.cnt`) -/
def delHead (r : HostRange) (n : Nat) : Hostlist :=
  if r.single then []
  else if n = 0 then (if r.lo + 1 > r.hi then [] else [{ r with lo := r.lo + 1 }])
  else if r.lo + n = r.hi then [{ r with hi := r.hi - 1 }]
  else [{ r with hi := r.lo + n - 1 }, { r with lo := r.lo + n + 1 }]

theorem deleteNth_cons (r : HostRange) (rs : Hostlist) (n : Nat) :
    deleteNth (r :: rs) n = if n < r.cnt then delHead r n ++ rs else r :: deleteNth rs (n - r.cnt) := by
  rw [deleteNth]
  unfold delHead
  split
  · split
    · rfl
    · simp only
      by_cases h0 : n = 0
      · subst h0; simp only [Nat.add_zero, if_true]; split <;> rfl
      · have h1 : ¬ (r.lo + n = r.lo) := by omega
        simp only [h1, h0, if_false]; split <;> rfl
  · rfl

theorem delHead_WFS (r : HostRange) (n : Nat) (hr : r.WFS) (hn : n < r.cnt) : HWFS (delHead r n) := by
  unfold delHead
  unfold HostRange.WFS at hr
  unfold HostRange.cnt at hn
  intro t ht
  unfold HostRange.WFS
  split at ht
  · simp at ht
  · rename_i hs0
    have hs : r.single = false := by simpa using hs0
    simp [hs] at hn hr
    split at ht
    · split at ht
      · simp at ht
      · simp at ht; subst ht; simp [hs]; omega
    · split at ht
      · simp at ht; subst ht; simp [hs]; omega
      · simp at ht
        rcases ht with ht | ht <;> subst ht <;> simp [hs] <;> omega

theorem delHead_WF (r : HostRange) (n : Nat) (hr : r.single = true ∨ r.lo ≤ r.hi) (hn : n < r.cnt) : HWF (delHead r n) := by
  unfold delHead
  unfold HostRange.cnt at hn
  intro t ht
  split at ht
  · simp at ht
  · rename_i hs0
    have hs : r.single = false := by simpa using hs0
    simp [hs] at hn hr
    split at ht
    · split at ht
      · simp at ht
      · simp at ht; subst ht; simp [hs]; omega
    · split at ht
      · simp at ht; subst ht; simp [hs]; omega
      · simp at ht
        rcases ht with ht | ht <;> subst ht <;> simp [hs] <;> omega

theorem HWFS_append {a b : Hostlist} : HWFS (a ++ b) ↔ HWFS a ∧ HWFS b := by
  unfold HWFS; simp only [List.mem_append]
  constructor
  · intro h; exact ⟨fun t ht => h t (Or.inl ht), fun t ht => h t (Or.inr ht)⟩
  · rintro ⟨h1, h2⟩ t (ht | ht); exact h1 t ht; exact h2 t ht

theorem HWF_append {a b : Hostlist} : HWF (a ++ b) ↔ HWF a ∧ HWF b := by
  unfold HWF; simp only [List.mem_append]
  constructor
  · intro h; exact ⟨fun t ht => h t (Or.inl ht), fun t ht => h t (Or.inr ht)⟩
  · rintro ⟨h1, h2⟩ t (ht | ht); exact h1 t ht; exact h2 t ht

theorem deleteNth_HWFS : ∀ (hl : Hostlist) (n : Nat), HWFS hl → HWFS (deleteNth hl n)
  | [], _, h => by simpa [deleteNth] using h
  | r :: rs, n, h => by
    obtain ⟨hr, hrs⟩ := HWFS_cons.mp h
    have ih := deleteNth_HWFS rs (n - r.cnt) hrs
    rw [deleteNth_cons]
    split
    · rename_i hn
      exact HWFS_append.mpr ⟨delHead_WFS r n hr hn, hrs⟩
    · exact HWFS_cons.mpr ⟨hr, ih⟩

theorem deleteNth_HWF : ∀ (hl : Hostlist) (n : Nat), HWF hl → HWF (deleteNth hl n)
  | [], _, h => by simpa [deleteNth] using h
  | r :: rs, n, h => by
    obtain ⟨hr, hrs⟩ := HWF_cons.mp h
    have ih := deleteNth_HWF rs (n - r.cnt) hrs
    rw [deleteNth_cons]
    split
    · rename_i hn
      exact HWF_append.mpr ⟨delHead_WF r n hr hn, hrs⟩
    · exact HWF_cons.mpr ⟨hr, ih⟩

theorem deleteHost_HWFS (hl : Hostlist) (n : Name) (h : HWFS hl) : HWFS (deleteHost hl n).1 := by
  unfold deleteHost
  split
  · exact deleteNth_HWFS _ _ h
  · exact h

theorem deleteHost_HWF (hl : Hostlist) (n : Name) (h : HWF hl) : HWF (deleteHost hl n).1 := by
  unfold deleteHost
  split
  · exact deleteNth_HWF _ _ h
  · exact h

/-! ### `create` -/

theorem foldlM_except_inv {ε α β : Type} (P : β → Prop) (f : β → α → Except ε β)
    (hf : ∀ b a b', P b → f b a = .ok b' → P b') :
    ∀ (l : List α) (b b' : β), P b → l.foldlM f b = .ok b' → P b' := by
  intro l
  induction l with
  | nil => intro b b' hb h; simp [List.foldlM] at h; cases h; exact hb
  | cons a l ih =>
    intro b b' hb h
    rw [List.foldlM_cons] at h
    cases hfa : f b a with
    | error e => rw [hfa] at h; cases h
    | ok b1 =>
      rw [hfa] at h
      exact ih b1 b' (hf b a b1 hb hfa) h

theorem mapM_except_mem {ε α β : Type} (f : α → Except ε β) :
    ∀ (l : List α) (rs : List β), l.mapM f = .ok rs → ∀ r ∈ rs, ∃ x ∈ l, f x = .ok r := by
  intro l
  induction l with
  | nil => intro rs h r hr; simp [pure, Except.pure] at h; subst h; simp at hr
  | cons a l ih =>
    intro rs h r hr
    rw [List.mapM_cons] at h
    cases hfa : f a with
    | error e => rw [hfa] at h; cases h
    | ok b =>
      rw [hfa] at h
      cases hl : l.mapM f with
      | error e => rw [hl] at h; cases h
      | ok bs =>
        rw [hl] at h
        simp [pure, Except.pure, bind, Except.bind] at h
        subst h
        rcases List.mem_cons.mp hr with rfl | hr
        · exact ⟨a, by simp, hfa⟩
        · obtain ⟨x, hx, hfx⟩ := ih bs hl r hr
          exact ⟨x, by simp [hx], hfx⟩

theorem parseSingleRange_le (s : List Char) (r : RangeSpec) (h : parseSingleRange s = .ok r) : r.lo ≤ r.hi := by
  unfold parseSingleRange at h
  simp only at h
  split at h
  · cases h
  · split at h
    · cases h
    · split at h
      · cases h
      · split at h
        · cases h
        · split at h
          · cases h
          · cases h; simp; omega

theorem foldl_inv {α β : Type} (P : β → Prop) (f : β → α → β) (hf : ∀ b a, P b → P (f b a)) :
    ∀ (l : List α) (b : β), P b → P (l.foldl f b) := by
  intro l
  induction l with
  | nil => intro b hb; exact hb
  | cons a l ih => intro b hb; exact ih _ (hf b a hb)

theorem foldl_inv_mem {α β : Type} (P : β → Prop) (f : β → α → β) (l : List α)
    (hf : ∀ b a, a ∈ l → P b → P (f b a)) : ∀ (b : β), P b → P (l.foldl f b) := by
  induction l with
  | nil => intro b hb; exact hb
  | cons a l ih =>
    intro b hb
    exact ih (fun b x hx => hf b x (by simp [hx])) _ (hf b a (by simp) hb)

theorem pushSpec_HWFS (hl : Hostlist) (pfx : Name) (r : RangeSpec) (hr : r.lo ≤ r.hi) (h : HWFS hl) :
    HWFS (pushSpec hl pfx r) := by
  unfold pushSpec
  exact pushRange_HWFS _ _ (Or.inr ⟨rfl, hr⟩) h

theorem pushSpecSuffix_HWFS (hl : Hostlist) (pfx sfx : Name) (r : RangeSpec) (h : HWFS hl) :
    HWFS (pushSpecSuffix hl pfx sfx r) := by
  unfold pushSpecSuffix
  apply foldl_inv HWFS _ _ _ _ h
  intro b a hb
  exact pushRange_HWFS _ _ (Or.inl ⟨rfl, rfl, rfl⟩) hb

/-- one token of `_hostlist_create_bracketed` -/
def createTok (hl : Hostlist) (tok : List Char) : Except PErr Hostlist :=
  match splitOnFirst '[' tok with
  | (pfx, some rest) =>
    match splitOnFirst ']' rest with
    | (body, some sfx) =>
      match parseRangeList body with
      | .error e => .error e
      | .ok rs => if sfx.isEmpty then .ok (rs.foldl (fun h r => pushSpec h pfx r) hl)
                  else .ok (rs.foldl (fun h r => pushSpecSuffix h pfx sfx r) hl)
    | (_, none) => .error .einval
  | (_, none) => if tok.contains ']' then .error .einval else .ok (pushHost hl tok)

theorem create_eq (s : List Char) : create s = (tokens s).foldlM createTok [] := rfl

theorem createTok_HWFS (hl : Hostlist) (tok : List Char) (hl' : Hostlist) (h : HWFS hl)
    (hc : createTok hl tok = .ok hl') : HWFS hl' := by
  unfold createTok at hc
  split at hc
  · split at hc
    · split at hc
      · cases hc
      · rename_i rs hrs
        have hle : ∀ r ∈ rs, r.lo ≤ r.hi := by
          intro r hr
          obtain ⟨x, _, hx⟩ := mapM_except_mem _ _ _ hrs r hr
          exact parseSingleRange_le x r hx
        split at hc
        · cases hc
          exact foldl_inv_mem HWFS _ rs (fun b a ha hb => pushSpec_HWFS b _ a (hle a ha) hb) _ h
        · cases hc
          exact foldl_inv HWFS _ (fun b a hb => pushSpecSuffix_HWFS b _ _ a hb) _ _ h
    · cases hc
  · split at hc
    · cases hc
    · cases hc; exact pushHost_HWFS _ _ h

theorem create_HWFS (s : List Char) (hl : Hostlist) (h : create s = .ok hl) : HWFS hl := by
  rw [create_eq] at h
  exact foldlM_except_inv HWFS createTok (fun b a b' hb hc => createTok_HWFS b a b' hb hc) _ _ _ HWFS_nil h

theorem create_HWF (s : List Char) (hl : Hostlist) (h : create s = .ok hl) : HWF hl :=
  (create_HWFS s hl h).toHWF

/-! ## 2. count and nth agree with the expansion -/

theorem HostRange.expand_length (r : HostRange) : r.expand.length = r.cnt := by
  unfold HostRange.expand HostRange.cnt
  split <;> simp

theorem HostRange.count_eq_cnt (r : HostRange) (h : r.single = true ∨ r.lo ≤ r.hi) : r.count = r.cnt := by
  unfold HostRange.count HostRange.cnt
  split
  · rfl
  · rename_i hs; simp [hs] at h; omega

theorem expand_cons (r : HostRange) (rs : Hostlist) : expand (r :: rs) = r.expand ++ expand rs := by
  simp [expand]

theorem expand_nil : expand [] = [] := rfl

theorem expand_length_cnt : ∀ (hl : Hostlist), (expand hl).length = (hl.map HostRange.cnt).sum
  | [] => rfl
  | r :: rs => by
    rw [expand_cons, List.length_append, expand_length_cnt rs, HostRange.expand_length]
    simp

/-- `hostlist_count` (the `nhosts` field, kept as the sum of `hostrange_count`) is the length of the expansion -/
theorem count_expand : ∀ (hl : Hostlist), HWF hl → (hl.map HostRange.count).sum = (expand hl).length
  | [], _ => rfl
  | r :: rs, h => by
    obtain ⟨hr, hrs⟩ := HWF_cons.mp h
    rw [expand_cons, List.length_append, ← count_expand rs hrs, HostRange.expand_length,
      ← HostRange.count_eq_cnt r hr]
    simp

/-- `_hostrange_string(hr, depth)` -/
def hostrangeString (r : HostRange) (depth : Nat) : Name :=
  r.pfx ++ (if r.single then [] else fmtNum r.width (r.lo + depth))

/-- `hostlist_nth` as coded: walk the ranges keeping the running `count` of hosts passed -/
def nthGo : Hostlist → Nat → Nat → Option Name
  | [], _, _ => none
  | r :: rs, count, n =>
    if n ≤ r.count - 1 + count then some (hostrangeString r (n - count))
    else nthGo rs (count + r.count) n

/-- `hostlist_nth` as coded (the mirror `nth` in `Sort.lean` is *defined* as `(expand hl)[n]?`) -/
def nthC (hl : Hostlist) (n : Nat) : Option Name := nthGo hl 0 n

theorem HostRange.expand_get (r : HostRange) (k : Nat) (hk : k < r.cnt) :
    r.expand[k]? = some (hostrangeString r k) := by
  unfold HostRange.cnt at hk
  unfold hostrangeString
  by_cases hs : r.single = true
  · simp [hs] at hk ⊢
    subst hk
    simp [HostRange.expand, hs]
  · have hs' : r.single = false := by simpa using hs
    simp [hs'] at hk ⊢
    rw [HostRange.expand_nonsingle r hs', numExpand_get _ _ _ _ _ (by omega)]

theorem nthGo_spec : ∀ (hl : Hostlist) (count n : Nat), HWF hl → count ≤ n →
    nthGo hl count n = (expand hl)[n - count]?
  | [], _, _, _, _ => by simp [nthGo, expand_nil]
  | r :: rs, count, n, h, hcn => by
    obtain ⟨hr, hrs⟩ := HWF_cons.mp h
    have hc := HostRange.count_eq_cnt r hr
    have hl := HostRange.expand_length r
    have hpos : 0 < r.count := by unfold HostRange.count; split <;> omega
    rw [nthGo, expand_cons]
    split
    · rename_i hle
      have hk : n - count < r.cnt := by omega
      rw [List.getElem?_append_left (by omega), HostRange.expand_get r _ hk]
    · rename_i hle
      rw [nthGo_spec rs _ _ hrs (by omega), List.getElem?_append_right (by omega)]
      congr 1; omega

theorem nthC_spec (hl : Hostlist) (n : Nat) (h : HWF hl) : nthC hl n = (expand hl)[n]? := by
  unfold nthC; rw [nthGo_spec hl 0 n h (Nat.zero_le _)]; simp

theorem nthC_eq_nth (hl : Hostlist) (n : Nat) (h : HWF hl) : nthC hl n = nth hl n := nthC_spec hl n h

/-! ## numeric printing and parsing are inverse to each other -/

theorem parseNat_eq_ofDigitChars (l : List Char) : parseNat l = Nat.ofDigitChars 10 l 0 := by
  unfold parseNat Nat.ofDigitChars
  congr 1
  funext a c
  rw [Nat.mul_comm]; rfl

theorem parseNat_toDigits (n : Nat) : parseNat (Nat.toDigits 10 n) = n := by
  rw [parseNat_eq_ofDigitChars]; exact Nat.ofDigitChars_ten_toDigits

theorem parseNat_append (l m : List Char) : parseNat (l ++ m) = 10 ^ m.length * parseNat l + parseNat m := by
  rw [parseNat_eq_ofDigitChars, parseNat_eq_ofDigitChars, parseNat_eq_ofDigitChars,
    Nat.ofDigitChars_append, Nat.ofDigitChars_eq_ofDigitChars_zero]

theorem parseNat_replicate_zero (k : Nat) : parseNat (List.replicate k '0') = 0 := by
  rw [parseNat_eq_ofDigitChars, Nat.ofDigitChars_replicate_zero]; simp

/-- `strtoul` of what `%0*lu` printed is the number printed -/
theorem parseNat_fmtNum (w n : Nat) : parseNat (fmtNum w n) = n := by
  unfold fmtNum
  rw [parseNat_append, parseNat_replicate_zero, parseNat_toDigits]; simp

theorem fmtNum_digits (w n : Nat) : ∀ c ∈ fmtNum w n, c.isDigit = true := by
  intro c hc
  unfold fmtNum at hc
  rcases List.mem_append.mp hc with h | h
  · rw [List.mem_replicate] at h; rw [h.2]; rfl
  · exact Nat.isDigit_of_mem_toDigits (by decide) (by decide) h

theorem fmtNum_ne_nil (w n : Nat) : fmtNum w n ≠ [] := by
  unfold fmtNum
  intro h
  have := List.append_eq_nil_iff.mp h
  exact Nat.toDigits_ne_nil this.2

theorem fmtNum_length (w n : Nat) : (fmtNum w n).length = max w (ndig n) := by
  unfold fmtNum zeroPadded
  simp only [List.length_append, List.length_replicate]
  have : (Nat.toDigits 10 n).length = ndig n := rfl
  rw [this]
  split <;> omega

theorem fmtNum_inj {w x y : Nat} (h : fmtNum w x = fmtNum w y) : x = y := by
  have := congrArg parseNat h
  rwa [parseNat_fmtNum, parseNat_fmtNum] at this

/-- dropping leading characters of a digit string never increases its value -/
theorem parseNat_suffix_le (l m : List Char) : parseNat m ≤ parseNat (l ++ m) := by
  rw [parseNat_append]; omega

end Pm
