import Pm.WalkProof
/-! `tcp->cur != NULL` while the device is CONNECTING, and `tcp->cur` inside the address list: an invariant of every pass.
    Consequences: `tcp_finish_connect` never dereferences a NULL `tcp->cur` (the abort `tcp->cur == NULL in tcp_finish_connect`
    of the mirror is never reached), and the fuel of `connectWalk` is never used up before the list is. -/
namespace Pm.Dev2.Walk
open Pm.Dev2 Pm.Dev2.Fd

/-- CONNECTING: `tcp->cur` points into `tcp->addrs` -/
def CurInv (d : Dev) : Prop := d.conn = 1 → ∃ i, d.cur = some i ∧ i < d.naddr

theorem CurInv.of_not_connecting {d : Dev} (h : d.conn ≠ 1) : CurInv d := fun h1 => absurd h1 h

/-- what `CurInv` looks at -/
structure SameCur (d d' : Dev) : Prop where
  conn : d'.conn = d.conn
  cur : d'.cur = d.cur
  naddr : d'.naddr = d.naddr

theorem SameCur.rfl' (d : Dev) : SameCur d d := ⟨rfl, rfl, rfl⟩
theorem SameCur.trans {a b c : Dev} (h1 : SameCur a b) (h2 : SameCur b c) : SameCur a c :=
  ⟨h2.conn.trans h1.conn, h2.cur.trans h1.cur, h2.naddr.trans h1.naddr⟩
theorem SameCur.curInv {d d' : Dev} (s : SameCur d d') (h : CurInv d) : CurInv d' := by
  intro h1; rw [s.conn] at h1; rw [s.cur, s.naddr]; exact h h1

theorem stmtExpect_sameCur (d a o pat) : SameCur d (stmtExpect d a o pat).dev := by
  unfold stmtExpect; constructor <;> grind
theorem stmtSend_sameCur (d a o e fmt) : SameCur d (stmtSend d a o e fmt).dev := by
  unfold stmtSend; constructor <;> grind
theorem stmtDelay_sameCur (d a o e now us) : SameCur d (stmtDelay d a o e now us).dev := by
  unfold stmtDelay; constructor <;> grind
theorem stmtSetplugstate_sameCur (d a o e l p s i) : SameCur d (stmtSetplugstate d a o e l p s i).dev := by
  unfold stmtSetplugstate; constructor <;> grind [setArgs]
theorem stmtSetresult_sameCur (d a o p s i) : SameCur d (stmtSetresult d a o p s i).dev := by
  unfold stmtSetresult; constructor <;> grind [setArgs]
theorem stmtForeach_sameCur (d a o e b n) : SameCur d (stmtForeach d a o e b n).dev := by
  unfold stmtForeach; constructor <;> grind
theorem stmtIf_sameCur (d a o e b n) : SameCur d (stmtIf d a o e b n).dev := by
  unfold stmtIf; constructor <;> grind

theorem processStmt_sameCur (d : Dev) (a : Action) (o : Oracle) (now : Time) : SameCur d (processStmt d a o now).dev := by
  unfold processStmt
  dsimp only
  split
  · exact SameCur.rfl' d
  all_goals first
    | exact stmtExpect_sameCur _ _ _ _
    | exact stmtSend_sameCur _ _ _ _ _
    | exact stmtDelay_sameCur _ _ _ _ _ _
    | exact stmtSetplugstate_sameCur _ _ _ _ _ _ _ _
    | exact stmtSetresult_sameCur _ _ _ _ _ _
    | exact stmtForeach_sameCur _ _ _ _ _ _
    | exact stmtIf_sameCur _ _ _ _ _ _

theorem innerLoop_sameCur (now : Time) (fuel : Nat) (d : Dev) (a : Action) (o : Oracle) (acc : List Out) :
    SameCur d (innerLoop now fuel d a o acc).dev := by
  induction fuel generalizing d a o acc with
  | zero => simpa [innerLoop] using processStmt_sameCur d a o now
  | succ n ih =>
    unfold innerLoop; dsimp only
    have hp := processStmt_sameCur d a o now
    split
    · exact hp.trans (ih _ _ _ _)
    · simpa using hp

/-! ### the connection layer -/

theorem tcpConnect_curInv (c : CS) (h : CurInv c.dev) : CurInv (tcpConnect c).1.dev := by
  by_cases h0 : c.dev.conn = 0
  · cases hfd : c.dev.fd with
    | some x =>
      have : (tcpConnect c).1.dev = c.dev := by
        unfold tcpConnect; simp [h0, hfd]
      rw [this]; exact h
    | none =>
      by_cases hna : 0 < c.dev.naddr
      · have hn : (tcpConnect c).1.dev.naddr = c.dev.naddr := (tcpConnect_frame c).dev.naddr
        rcases tcpConnect_attempt c h0 hfd hna with ⟨a, _⟩ | ⟨j, b1, b2, _⟩
        · exact CurInv.of_not_connecting (by omega)
        · intro _; exact ⟨j, b2, by rw [hn]; exact b1⟩
      · have hz : c.dev.naddr = 0 := by omega
        have : (tcpConnect c).1.dev.conn = 0 := by
          unfold tcpConnect; simp [h0, hfd, hz, connectWalk]
        exact CurInv.of_not_connecting (by omega)
  · have : (tcpConnect c).1.dev = c.dev := by
      unfold tcpConnect
      have : (c.dev.conn != 0) = true := by simpa using h0
      simp [this]
    rw [this]; exact h

theorem pipeConnect_curInv (c : CS) (h : CurInv c.dev) : CurInv (pipeConnect c).1.dev := by
  unfold pipeConnect
  split
  · exact h
  · split
    · exact h
    · split
      · exact CurInv.of_not_connecting (by simp)
      · exact h

theorem connectDev_curInv (c : CS) (h : CurInv c.dev) : CurInv (connectDev c).dev := by
  rw [Fd.connectDev_eq]
  have hb : CurInv (Fd.bump c).dev := h
  generalize Fd.bump c = c1 at *
  have key : ∀ r : CS × Bool, CurInv r.1.dev → CurInv (Fd.connTail r).dev := by
    intro r hr; unfold Fd.connTail; split
    · exact hr
    · exact hr
  split
  · exact key _ (pipeConnect_curInv c1 hb)
  · exact key _ (tcpConnect_curInv c1 hb)

theorem reconnectDev_curInv (c : CS) (tmo : Option Time) (h : CurInv c.dev) : CurInv (reconnectDev c tmo).1.dev := by
  unfold reconnectDev
  dsimp only
  have h1 : CurInv (if (c.dev.conn != 0) = true then disconnectDev c else c).dev := by
    split
    · exact CurInv.of_not_connecting (by rw [(disconnectDev_link c).2]; simp)
    · exact h
  generalize (if (c.dev.conn != 0) = true then disconnectDev c else c) = c1 at *
  split
  · exact connectDev_curInv c1 h1
  · exact h1
  · exact h1

theorem hrWrite_sameCur (c : CS) : SameCur c.dev (Fd.hrWrite c).1.dev := by
  unfold Fd.hrWrite; split
  · exact SameCur.rfl' _
  · split
    · split <;> exact ⟨rfl, rfl, rfl⟩
    · exact SameCur.rfl' _

theorem telnetFilter_sameCur (d : Dev) (bs : Bytes) : SameCur d (telnetFilter d bs) := by
  unfold telnetFilter; exact ⟨rfl, rfl, rfl⟩

theorem hrIn_sameCur (f : Nat) (c : CS) : SameCur c.dev (Fd.hrIn f c).1.dev := by
  unfold Fd.hrIn
  split
  · have h1 : SameCur c.dev (clipRead c).dev := ⟨by simp, by simp, by simp⟩
    refine h1.trans ?_
    unfold Fd.hrRd
    split
    · split
      · exact SameCur.rfl' _
      · dsimp only; split
        · exact ⟨rfl, rfl, rfl⟩
        · exact telnetFilter_sameCur _ _
    · exact SameCur.rfl' _
    · exact SameCur.rfl' _
  · exact SameCur.rfl' _

theorem finishConnectOne_sameCur (c : CS) : (finishConnectOne c).1.dev.cur = c.dev.cur ∧
    (finishConnectOne c).1.dev.naddr = c.dev.naddr ∧
    ((finishConnectOne c).2 = true → (finishConnectOne c).1.dev.conn = 2) ∧
    ((finishConnectOne c).2 = false → (finishConnectOne c).1.dev.conn = c.dev.conn) := by
  obtain ⟨_, _, _, _, _, _, h1, h2, h3⟩ := finishConnectOne_shape c
  exact ⟨h1, (finishConnectOne_frame c).dev.naddr, h2, h3⟩

theorem finishConnectFail_curInv (c : CS) (h : CurInv c.dev) (h1 : c.dev.conn = 1) : CurInv (finishConnectFail c).dev := by
  obtain ⟨i, hi, hlt⟩ := h h1
  have hn : (finishConnectFail c).dev.naddr = c.dev.naddr := (finishConnectFail_frame c).dev.naddr
  rcases finishConnectFail_attempt c i hi hlt h1 with ⟨a, _⟩ | ⟨j, _, b2, b3, _⟩
  · exact CurInv.of_not_connecting (by omega)
  · intro _; exact ⟨j, b3, by rw [hn]; exact b2⟩

theorem hrFinish_curInv (c : CS) (h : CurInv c.dev) (h1 : c.dev.conn = 1) : CurInv (Fd.hrFinish c).1.dev := by
  unfold Fd.hrFinish
  obtain ⟨e1, e2, e3, e4⟩ := finishConnectOne_sameCur c
  dsimp only
  have key : ∀ c2 : CS, CurInv c2.dev → CurInv (if (c2.dev.conn == 0) = true then (c2, true, true)
      else if (c2.dev.conn == 2) = true then ({ c2 with dev := enqueueLogin c2.dev }, false, true) else (c2, false, true)).1.dev := by
    intro c2 h2
    split
    · exact h2
    · split
      · exact (⟨rfl, rfl, rfl⟩ : SameCur c2.dev (enqueueLogin c2.dev)).curInv h2
      · exact h2
  cases hb : (finishConnectOne c).2
  · simp only [Bool.false_eq_true, ↓reduceIte]
    apply key
    apply finishConnectFail_curInv
    · intro _; rw [e1, e2]; exact h h1
    · rw [e4 hb]; exact h1
  · simp only [↓reduceIte]
    apply key
    exact CurInv.of_not_connecting (by rw [e3 hb]; simp)

theorem handleReady_curInv (c : CS) (h : CurInv c.dev) : CurInv (handleReady c).1.dev := by
  rw [Fd.handleReady_eq]
  split
  · exact h
  · split
    · exact h
    · split
      · exact h
      · have h1 : CurInv (Fd.hrOut c.env.revents c).1.dev := by
          unfold Fd.hrOut
          split
          · split
            · rename_i hc1
              split
              · exact h
              · exact hrFinish_curInv c h (by simpa using hc1)
            · exact (hrWrite_sameCur c).curInv h
          · exact h
        have h2 := fun c' => hrIn_sameCur c.env.revents c'
        generalize Fd.hrOut c.env.revents c = r at *
        split
        · exact h1
        · split
          · exact h1
          · exact (h2 r.1).curInv h1

/-! ### `_process_action` and `dev_post_poll` -/

theorem failAll_curInv (rest : List Action) (c : CS) (a : Action) (o : Oracle) (out : List Out) (tmo : Option Time)
    (h : CurInv c.dev) : CurInv (failAll rest c a o out tmo).1.dev := by
  unfold failAll; dsimp only
  have h0 : CurInv ({ c with dev := { c.dev with acts := [], xmStr := none, xmResult := false, xmUsed := false } } : CS).dev := h
  split
  · exact reconnectDev_curInv _ _ h0
  · exact h0

theorem onTimeout_curInv (rest : List Action) (c : CS) (a : Action) (o : Oracle) (out : List Out) (tmo : Option Time)
    (h : CurInv c.dev) : CurInv (onTimeout rest c a o out tmo).1.dev := by
  unfold onTimeout; dsimp only
  generalize (if a.telemetry = true then
      (if (c.dev.conn != 2) = true then [Out.telemetry a.clientId (str "connect(dev): timeout")]
       else teleMem a.clientId "recv(dev): '" c.dev.fromBuf) else []) = tele
  cases hh : hasAbort tele
  · simp only [Bool.false_eq_true, ↓reduceIte]
    exact failAll_curInv _ _ _ _ _ _ h
  · simp only [↓reduceIte]
    exact h

theorem onRun_curInv (k : CS → Oracle → List Out → Option Time → PA)
    (rest : List Action) (c : CS) (a : Action) (o : Oracle) (out : List Out) (tmo : Option Time) (left : Time)
    (hk : ∀ c' o' out' tmo', CurInv c'.dev → CurInv (k c' o' out' tmo').1.dev) (h : CurInv c.dev) :
    CurInv (onRun k rest c a o out tmo left).1.dev := by
  unfold onRun; dsimp only
  have hS := innerLoop_sameCur c.env.now (loopBound a) { c.dev with wake := none } a o []
  generalize innerLoop c.env.now (loopBound a) { c.dev with wake := none } a o [] = r at *
  have hr : CurInv r.dev := (⟨hS.conn, hS.cur, hS.naddr⟩ : SameCur c.dev r.dev).curInv h
  split
  · exact hr
  · split
    · exact hr
    · split
      · split
        · exact hk _ _ _ _ hr
        · exact hk _ _ _ _ hr
      · exact failAll_curInv _ _ _ _ _ _ hr

theorem processActionF_curInv (fuel : Nat) (c : CS) (o : Oracle) (out : List Out)
    (tmo : Option Time) (h : CurInv c.dev) : CurInv (processActionF fuel c o out tmo).1.dev := by
  induction fuel generalizing c o out tmo with
  | zero => exact h
  | succ n ih =>
    unfold processActionF processActionBody
    split
    · exact h
    · split
      · exact h
      · dsimp only
        split
        · exact onTimeout_curInv _ _ _ _ _ _ h
        · split
          · exact h
          · exact onRun_curInv _ _ _ _ _ _ _ _ (fun c' o' out' tmo' => ih c' o' out' tmo') h

/-- **`tcp->cur` stays inside the address list while the device is CONNECTING: kept by a whole `dev_post_poll` pass** (any
    kernel answers, any regex answers, aborted or not) -/
theorem postPoll_curInv (d : Dev) (env : Env) (o : Oracle) (h : CurInv d) : CurInv (postPoll d env o).1.dev := by
  rw [Fd.postPoll_eq]
  have h1 : CurInv (Fd.ppReady d env).1.dev := by
    unfold Fd.ppReady; dsimp only
    cases hd : d.fd.isSome
    · simpa using h
    · simp only [↓reduceIte]
      split
      · exact handleReady_curInv { dev := d, env := _, sys := [] } h
      · exact h
  split
  · exact h1
  · unfold processAction
    apply processActionF_curInv
    have h2 : CurInv (Fd.ppReconnect (Fd.ppReady d env).1 (Fd.ppReady d env).2).1.dev := by
      unfold Fd.ppReconnect; split
      · exact reconnectDev_curInv _ _ h1
      · exact h1
    exact (⟨(ppPing_sameFd env _ _).1.conn, by unfold Fd.ppPing; split <;> (try split) <;> (try split) <;> rfl,
      by unfold Fd.ppPing; split <;> (try split) <;> (try split) <;> rfl⟩ : SameCur _ _).curInv h2

/-- in every state the daemon can bring a device to from `dev_create` -/
theorem Reach.curInv {d0 d : Dev} (h : Login2.Reach d0 d) (h0 : d0.conn = 0) : CurInv d := by
  induction h with
  | init => exact CurInv.of_not_connecting (by omega)
  | connect d env _ _ _ ih => exact connectDev_curInv _ ih
  | pass d env o _ _ ih => exact postPoll_curInv d env o ih
  | enqueue d com targets cid tele al _ ih =>
    exact (⟨(Login2.enqueue_appends d com targets cid tele al).choose_spec.2.1,
      by unfold Pm.Daemon.enqueue; dsimp only; split <;> rfl, by unfold Pm.Daemon.enqueue; dsimp only; split <;> rfl⟩ : SameCur _ _).curInv ih
  | store d s _ ih => exact ih
  | retry d _ ih => exact ih

/-- **`tcp_finish_connect` never dereferences a NULL `tcp->cur`**: under the invariant its failure path finds an address current -/
theorem finishConnectFail_cur_some (c : CS) (h : CurInv c.dev) (h1 : c.dev.conn = 1) : (closeFd c).dev.cur ≠ none := by
  obtain ⟨i, hi, _⟩ := h h1
  rw [(closeFd_shape c).2.2.2.2.2.1, hi]; simp

/-! ### the fuel of the walk is never used up before the address list is -/

/-- with `tcp->cur` inside the list (or NULL), more fuel than addresses left changes nothing: the last clause of `connectWalk`
    is reached only with `cur == NULL` already -/
theorem connectWalk_fuel (n k : Nat) (c : CS) (hin : ∀ i, c.dev.cur = some i → i < c.dev.naddr ∧ c.dev.naddr - i ≤ n) :
    connectWalk (n + k) c = connectWalk n c := by
  induction n generalizing c with
  | zero =>
    cases hc : c.dev.cur with
    | some i => have := hin i hc; omega
    | none =>
      have e0 : connectWalk 0 c = c := by
        obtain ⟨d, e, s, a⟩ := c
        simp only at hc
        cases d
        simp_all [connectWalk]
      rw [e0]
      cases k with
      | zero => exact e0
      | succ k => simp only [Nat.zero_add]; unfold connectWalk; simp [hc]
  | succ n ih =>
    have : n + 1 + k = (n + k) + 1 := by omega
    rw [this]
    unfold connectWalk
    cases hc : c.dev.cur with
    | none => rfl
    | some i =>
      simp only
      split
      · rfl
      · apply ih
        intro j hj
        have hn : (connectOne c).1.dev.naddr = c.dev.naddr := connectOne_naddr c
        obtain ⟨h1, h2⟩ := hin i hc
        simp only at hj ⊢
        unfold aiNext at hj
        split at hj
        · cases hj; rw [hn]; constructor <;> omega
        · cases hj

end Pm.Dev2.Walk

#print axioms Pm.Dev2.Walk.postPoll_curInv
#print axioms Pm.Dev2.Walk.Reach.curInv
#print axioms Pm.Dev2.Walk.connectWalk_fuel
