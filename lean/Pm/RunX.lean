import Pm.Daemon
/-! # Runs of passes that carry the answers of the regex engine — the ONE shared definition

In the model the answers of the regex oracle for the coming pass live in the field `pendingX` of the world.  `daemonPass`
hands them to the device phase and clears the field; the driver (`DmMain.lean`, the lines `X …`) *appends* the answers
recorded for the next pass **between** passes.  A plain fold of `daemonPass` over pass inputs (`Isolation.runPasses`,
`ClientPf.runPasses`) therefore describes only the runs in which, from the second pass on, every `expect` sees "no match".

* `PassX` — the input of one pass: the kernel's answers (`PassIn`) and the recorded `regexec` answers the device phase of
  that pass will consume;
* `feed w rx` — what the driver does between passes (it touches `pendingX` only);
* `stepX w q` — one pass: `feed`, then `daemonPass`;  `runX w qs` — the world after the passes `qs`;
* `runX_plain` — a run whose passes bring no answer is the plain fold of `daemonPass` (`runPasses`);
* `runX_inv`, `runX_rel`, `AlongX` — an invariant kept by `feed` and by a pass is kept by a run; the same for a relation
  between two runs whose passes satisfy per-pass hypotheses (`AlongX H w w' pp`).

Used by `Pm/StreamWhole.lean` (C15), `Pm/RunXE2E.lean` / `Pm/QueryRun.lean` (C02, C03), `Pm/RunXTwo.lean` (C11),
`Pm/RunXCli.lean` (C06), `Pm/RunXC05.lean` (C05). -/
namespace Pm.Daemon
open Pm.Dev2 (RxCall)

/-- the input of one pass of a run: the kernel's answers and the recorded `regexec` answers the device phase will consume -/
structure PassX where
  p : PassIn
  rx : List RxCall := []

/-- a pass that brings no regex answer: every `expect` of its device phase sees "no match" (unless answers are still pending) -/
def PassX.plain (p : PassIn) : PassX := ⟨p, []⟩

/-- the driver hands the recorded `regexec` answers to the daemon before the pass (`DmMain`: the `X` lines append to `pendingX`) -/
def feed (w : W) (rx : List RxCall) : W := { w with pendingX := w.pendingX ++ rx }

/-- one pass of a run: the answers are handed over, then the body of `_select_loop` runs -/
def stepX (w : W) (q : PassX) : W := (daemonPass (feed w q.rx) q.p).1

/-- the world after a run of passes, each with its own regex answers -/
def runX (w : W) (qs : List PassX) : W := qs.foldl stepX w

theorem feed_nil (w : W) : feed w [] = w := by cases w; simp [feed]

theorem feed_feed (w : W) (a b : List RxCall) : feed (feed w a) b = feed w (a ++ b) := by
  cases w; simp [feed, List.append_assoc]

/-- `feed` touches `pendingX` only -/
theorem feed_fields (w : W) (rx : List RxCall) :
    (feed w rx).cfg = w.cfg ∧ (feed w rx).clients = w.clients ∧ (feed w rx).devs = w.devs ∧ (feed w rx).specs = w.specs ∧
    (feed w rx).store = w.store ∧ (feed w rx).nextId = w.nextId ∧ (feed w rx).nacc = w.nacc ∧ (feed w rx).nsock = w.nsock ∧
    (feed w rx).npair = w.npair ∧ (feed w rx).nfork = w.nfork ∧ (feed w rx).alNext = w.alNext ∧ (feed w rx).sys = w.sys ∧
    (feed w rx).caps = w.caps ∧ (feed w rx).exited = w.exited ∧ (feed w rx).tmo = w.tmo ∧
    (feed w rx).pendingX = w.pendingX ++ rx :=
  ⟨rfl, rfl, rfl, rfl, rfl, rfl, rfl, rfl, rfl, rfl, rfl, rfl, rfl, rfl, rfl, rfl⟩

theorem runX_nil (w : W) : runX w [] = w := rfl
theorem runX_cons (w : W) (q : PassX) (qs : List PassX) : runX w (q :: qs) = runX (stepX w q) qs := rfl
theorem runX_append (w : W) (qs rs : List PassX) : runX w (qs ++ rs) = runX (runX w qs) rs := by
  unfold runX; rw [List.foldl_append]
theorem runX_snoc (w : W) (qs : List PassX) (q : PassX) : runX w (qs ++ [q]) = stepX (runX w qs) q := by
  rw [runX_append]; rfl

theorem stepX_plain (w : W) (p : PassIn) : stepX w (.plain p) = (daemonPass w p).1 := by
  unfold stepX PassX.plain; rw [feed_nil]

/-- **a run whose passes bring no regex answer is the plain fold of `daemonPass`** (`Isolation.runPasses`, `ClientPf.runPasses`) -/
theorem runX_plain (w : W) (ps : List PassIn) : runX w (ps.map PassX.plain) = ps.foldl (fun w p => (daemonPass w p).1) w := by
  induction ps generalizing w with
  | nil => rfl
  | cons p r ih => rw [List.map_cons, runX_cons, ih, stepX_plain]; rfl

/-- **an invariant kept by `feed` and by a pass is kept by a run** (`hpass` may use the regex answers: it is asked of the world
    the pass starts from, answers included) -/
theorem runX_inv_of (P : W → Prop) (hfeed : ∀ w rx, P w → P (feed w rx)) (hpass : ∀ w p, P w → P (daemonPass w p).1)
    (w : W) (qs : List PassX) (h : P w) : P (runX w qs) := by
  induction qs generalizing w with
  | nil => exact h
  | cons q r ih => rw [runX_cons]; exact ih _ (hpass _ _ (hfeed _ _ h))

/-! ### two runs side by side -/

/-- the per-pass hypotheses `H` hold along two runs: for every pair of pass inputs, on the worlds the two runs have reached -/
def AlongX (H : W → W → PassX → PassX → Prop) : W → W → List (PassX × PassX) → Prop
  | _, _, [] => True
  | w, w', x :: r => H w w' x.1 x.2 ∧ AlongX H (stepX w x.1) (stepX w' x.2) r

theorem AlongX.take {H : W → W → PassX → PassX → Prop} : ∀ (pp : List (PassX × PassX)) (n : Nat) (w w' : W),
    AlongX H w w' pp → AlongX H w w' (pp.take n) := by
  intro pp
  induction pp with
  | nil => intro n w w' h; simpa using h
  | cons x r ih =>
    intro n w w' h
    cases n with
    | zero => trivial
    | succ n => exact ⟨h.1, ih n _ _ h.2⟩

/-- the hypothesis about pass number `n`, stated on the worlds the two runs have reached by then -/
theorem AlongX.nth {H : W → W → PassX → PassX → Prop} : ∀ (pp : List (PassX × PassX)) (n : Nat) (w w' : W) (x : PassX × PassX),
    AlongX H w w' pp → pp[n]? = some x → H (runX w ((pp.take n).map (·.1))) (runX w' ((pp.take n).map (·.2))) x.1 x.2 := by
  intro pp
  induction pp with
  | nil => intro n w w' x _ hx; simp at hx
  | cons y r ih =>
    intro n w w' x h hx
    cases n with
    | zero =>
      simp only [List.getElem?_cons_zero, Option.some.injEq] at hx
      subst hx
      exact h.1
    | succ n =>
      simp only [List.getElem?_cons_succ] at hx
      rw [List.take_succ_cons, List.map_cons, List.map_cons, runX_cons, runX_cons]
      exact ih n _ _ x h.2 hx

theorem AlongX.append {H : W → W → PassX → PassX → Prop} : ∀ (pp qq : List (PassX × PassX)) (w w' : W),
    AlongX H w w' pp → AlongX H (runX w (pp.map (·.1))) (runX w' (pp.map (·.2))) qq → AlongX H w w' (pp ++ qq) := by
  intro pp
  induction pp with
  | nil => intro qq w w' _ h; exact h
  | cons x r ih => intro qq w w' h h2; exact ⟨h.1, ih qq _ _ h.2 h2⟩

theorem AlongX.mono {H H' : W → W → PassX → PassX → Prop} (hm : ∀ w w' q q', H w w' q q' → H' w w' q q') :
    ∀ (pp : List (PassX × PassX)) (w w' : W), AlongX H w w' pp → AlongX H' w w' pp := by
  intro pp
  induction pp with
  | nil => intro _ _ _; trivial
  | cons x r ih => intro w w' h; exact ⟨hm _ _ _ _ h.1, ih _ _ h.2⟩

/-- **a relation kept by one pass of the two runs under the per-pass hypotheses is kept by the two runs** -/
theorem runX_rel (R : W → W → Prop) (H : W → W → PassX → PassX → Prop)
    (hstep : ∀ w w' q q', R w w' → H w w' q q' → R (stepX w q) (stepX w' q')) :
    ∀ (pp : List (PassX × PassX)) (w w' : W), R w w' → AlongX H w w' pp → R (runX w (pp.map (·.1))) (runX w' (pp.map (·.2))) := by
  intro pp
  induction pp with
  | nil => intro w w' h _; exact h
  | cons x r ih =>
    intro w w' h hs
    rw [List.map_cons, List.map_cons, runX_cons, runX_cons]
    exact ih _ _ (hstep _ _ _ _ h hs.1) hs.2

/-- … and so it holds `n` passes into the two runs, for every `n` -/
theorem runX_rel_take (R : W → W → Prop) (H : W → W → PassX → PassX → Prop)
    (hstep : ∀ w w' q q', R w w' → H w w' q q' → R (stepX w q) (stepX w' q'))
    (pp : List (PassX × PassX)) (w w' : W) (hr : R w w') (hs : AlongX H w w' pp) (n : Nat) :
    R (runX w ((pp.take n).map (·.1))) (runX w' ((pp.take n).map (·.2))) :=
  runX_rel R H hstep (pp.take n) w w' hr (hs.take pp n w w')

end Pm.Daemon

section AxiomChecks
open Pm.Daemon
/-- info: 'Pm.Daemon.runX_plain' depends on axioms: [propext, Classical.choice, Quot.sound] -/
#guard_msgs in #print axioms runX_plain
/-- info: 'Pm.Daemon.runX_rel' depends on axioms: [propext, Classical.choice, Quot.sound] -/
#guard_msgs in #print axioms runX_rel
/-- info: 'Pm.Daemon.AlongX.nth' depends on axioms: [propext, Classical.choice, Quot.sound] -/
#guard_msgs in #print axioms AlongX.nth
end AxiomChecks
