import Pm.GrammarSem
import Pm.GrammarProof
import Pm.ConfigProof
import Pm.SpecCheck
/-! # What the actions add to what the grammar guarantees (C18, C17)

Helper module of `Pm/Props/C18.lean`: about `Pm/GrammarSem.lean` (the checks of the semantic actions of `parse_tab.y`, run over
the log of `Pm/Grammar.lean`).  Conversion of accepted statements to `SpecCheck.SStmt` / `SpecD` and of accepted lines to
`ConfigModel.Stmt`, its totality on accepted input, and the mandatory elements an accepted file has. -/
namespace Pm.Grammar.Proof
open Pm.Grammar Pm.LexModel

/-! ## 1. running a log without token limit -/

/-- every action of a log, in order (the lexer reached the end of input: no limit) -/
def runEvs (env : Env) : Sem → List Ev → Except (Diag × Nat) Sem
  | s, [] => .ok s
  | s, e :: es =>
    match semEv env s e with
    | .ok s' => runEvs env s' es
    | .error d => .error (d, e.rd)

theorem runLog_none (env : Env) : ∀ (evs : List Ev) (s : Sem),
    runLog env none s evs = (match runEvs env s evs with
      | .ok s' => (s', none, false)
      | .error e => ((runLog env none s evs).1, some e, false))
  | [], s => by simp [runLog, runEvs]
  | e :: es, s => by
    unfold runLog runEvs
    simp only [Bool.false_eq_true, if_false]
    cases h : semEv env s e with
    | ok s' => simp only []; exact runLog_none env es s'
    | error d => simp

theorem runEvs_append (env : Env) : ∀ (a b : List Ev) (s : Sem),
    runEvs env s (a ++ b) = (match runEvs env s a with | .ok s' => runEvs env s' b | .error e => .error e)
  | [], b, s => by simp [runEvs]
  | e :: es, b, s => by
    simp only [List.cons_append, runEvs]
    cases h : semEv env s e with
    | ok s' => simp only []; exact runEvs_append env es b s'
    | error d => simp

/-! ## 2. statements -/

def okE {ε α : Type} : Except ε α → Bool
  | .ok _ => true
  | .error _ => false

mutual
/-- every conversion `makePreStmt` makes in this statement and below succeeds -/
def stmtSemOK : PStmt → Bool
  | .block _ body => stmtsSemOK body
  | .expect _ => true
  | .send _ => true
  | .delay n _ => okE (tvCheck n)
  | .setplugstate _ mp1 mp2 _ _ => okE (mpOpt mp1) && okE (mpVal mp2)
  | .setresult mp1 mp2 _ _ => okE (mpVal mp1) && okE (mpVal mp2)
def stmtsSemOK : List PStmt → Bool
  | [] => true
  | s :: r => stmtSemOK s && stmtsSemOK r
end

theorem semStmt_ok_iff (s : PStmt) (h : ∀ k b, s ≠ .block k b) : okE (semStmt s) = stmtSemOK s := by
  cases s with
  | block k b => exact absurd rfl (h k b)
  | expect _ => simp [semStmt, stmtSemOK, okE]
  | send _ => simp [semStmt, stmtSemOK, okE]
  | delay n rd => simp [semStmt, stmtSemOK]
  | setplugstate p a b l rd =>
    simp only [semStmt, stmtSemOK]
    cases mpOpt a <;> cases mpVal b <;> simp [okE]
  | setresult a b l rd =>
    simp only [semStmt, stmtSemOK]
    cases mpVal a <;> cases mpVal b <;> simp [okE]

theorem runEvs_stmt1 (env : Env) (s : Sem) (st : PStmt) (rest : List Ev) :
    runEvs env s (.stmt st :: rest) = (if okE (semStmt st) then runEvs env s rest else .error ((match semStmt st with | .error d => d | .ok _ => .parseError), (Ev.stmt st).rd)) := by
  simp only [runEvs, semEv]
  cases semStmt st <;> simp [okE]

mutual
/-- the `makePreStmt` calls of a statement leave the state alone; they all succeed exactly if `stmtSemOK` -/
theorem runEvs_stmt (env : Env) : ∀ (st : PStmt) (s : Sem) (rest : List Ev),
    (stmtSemOK st = true → runEvs env s (evStmt st ++ rest) = runEvs env s rest) ∧
    (stmtSemOK st = false → ∃ e, runEvs env s (evStmt st ++ rest) = .error e)
  | .block k body, s, rest => by
    have ih := runEvs_stmts env body s ([.stmt (.block k body)] ++ rest)
    simp only [evStmt, List.append_assoc, stmtSemOK]
    refine ⟨fun h => ?_, fun h => ih.2 h⟩
    rw [ih.1 h]
    simp [runEvs, semEv, semStmt]
  | .expect x, s, rest => by simp [evStmt, stmtSemOK, runEvs, semEv, semStmt]
  | .send x, s, rest => by simp [evStmt, stmtSemOK, runEvs, semEv, semStmt]
  | .delay n rd, s, rest => by
    simp only [evStmt, List.singleton_append, runEvs_stmt1, ← semStmt_ok_iff (.delay n rd) (by simp)]
    constructor
    · intro h; simp [h]
    · intro h; simp [h]
  | .setplugstate p a b l rd, s, rest => by
    simp only [evStmt, List.singleton_append, runEvs_stmt1, ← semStmt_ok_iff (.setplugstate p a b l rd) (by simp)]
    constructor
    · intro h; simp [h]
    · intro h; simp [h]
  | .setresult a b l rd, s, rest => by
    simp only [evStmt, List.singleton_append, runEvs_stmt1, ← semStmt_ok_iff (.setresult a b l rd) (by simp)]
    constructor
    · intro h; simp [h]
    · intro h; simp [h]
theorem runEvs_stmts (env : Env) : ∀ (l : List PStmt) (s : Sem) (rest : List Ev),
    (stmtsSemOK l = true → runEvs env s (evStmts l ++ rest) = runEvs env s rest) ∧
    (stmtsSemOK l = false → ∃ e, runEvs env s (evStmts l ++ rest) = .error e)
  | [], s, rest => by simp [evStmts, stmtsSemOK]
  | st :: r, s, rest => by
    have h1 := runEvs_stmt env st s (evStmts r ++ rest)
    have h2 := runEvs_stmts env r s rest
    simp only [evStmts, List.append_assoc, stmtsSemOK, Bool.and_eq_true, Bool.and_eq_false_iff]
    constructor
    · intro h; rw [h1.1 h.1, h2.1 h.2]
    · intro h
      cases hs : stmtSemOK st with
      | false => exact h1.2 hs
      | true =>
        rw [h1.1 hs]
        rcases h with h | h
        · rw [hs] at h; cases h
        · exact h2.2 h
end

/-! ## 3. items: the invariant of the actions -/

theorem runEvs_cons {env : Env} {s s'' : Sem} {e : Ev} {rest : List Ev} (h : runEvs env s (e :: rest) = .ok s'') :
    ∃ s', semEv env s e = .ok s' ∧ runEvs env s' rest = .ok s'' := by
  simp only [runEvs] at h
  cases hs : semEv env s e with
  | ok s' => rw [hs] at h; exact ⟨s', rfl, h⟩
  | error d => rw [hs] at h; cases h

def siSemOK : SpecItem → Bool
  | .script _ body _ => stmtsSemOK body
  | _ => true

theorem runEvs_specItem {env : Env} {si : SpecItem} {s s'' : Sem} {rest : List Ev}
    (h : runEvs env s (evSpecItem si ++ rest) = .ok s'') :
    siSemOK si = true ∧ ∃ s', semSpecItem s si = .ok s' ∧ runEvs env s' rest = .ok s'' := by
  cases si with
  | script k body rd =>
    simp only [evSpecItem, List.append_assoc] at h
    have hb := runEvs_stmts env body s ([.specItem (.script k body rd)] ++ rest)
    cases hok : stmtsSemOK body with
    | false => obtain ⟨e, he⟩ := hb.2 hok; rw [he] at h; cases h
    | true =>
      rw [hb.1 hok] at h
      obtain ⟨s', h1, h2⟩ := runEvs_cons h
      exact ⟨by simp [siSemOK, hok], s', h1, h2⟩
  | timeout n rd => obtain ⟨s', h1, h2⟩ := runEvs_cons h; exact ⟨rfl, s', h1, h2⟩
  | pingPeriod n rd => obtain ⟨s', h1, h2⟩ := runEvs_cons h; exact ⟨rfl, s', h1, h2⟩
  | plugs l rd => obtain ⟨s', h1, h2⟩ := runEvs_cons h; exact ⟨rfl, s', h1, h2⟩

def hasLogin (scripts : List (Nat × List PStmt)) : Bool := scripts.any (·.1 == Pm.Generated.PM_LOG_IN)

/-- what holds of the state of the actions after any accepted prefix of a file -/
structure Inv (s : Sem) : Prop where
  /-- every completed specification has a login script, distinct script kinds, and only statements whose conversions succeeded -/
  specs : ∀ r ∈ s.specs, hasLogin r.scripts = true ∧ (∀ p ∈ r.scripts, stmtsSemOK p.2 = true) ∧ (r.scripts.map (·.1)).Nodup
  /-- the specification being read: distinct script kinds, converted statements -/
  cur : (∀ p ∈ s.cur.scripts, stmtsSemOK p.2 = true) ∧ (s.cur.scripts.map (·.1)).Nodup
  /-- every device was instantiated from a completed specification -/
  devs : ∀ d ∈ s.cfg.devs, ∃ r ∈ s.specs, toChars r.name = d.spec

theorem Inv_init : Inv {} := ⟨by simp, by simp, by simp [ConfigModel.empty]⟩

theorem semSpecItem_inv {s s' : Sem} {si : SpecItem} (hi : Inv s) (hok : siSemOK si = true) (h : semSpecItem s si = .ok s') : Inv s' := by
  cases si with
  | timeout n rd =>
    simp only [semSpecItem] at h
    split at h
    · cases h
    · cases h; exact ⟨hi.specs, hi.cur, hi.devs⟩
  | pingPeriod n rd =>
    simp only [semSpecItem] at h
    split at h
    · cases h
    · cases h; exact ⟨hi.specs, hi.cur, hi.devs⟩
  | plugs l rd =>
    simp only [semSpecItem] at h
    split at h
    · cases h
    · cases h; exact ⟨hi.specs, hi.cur, hi.devs⟩
  | script k body rd =>
    simp only [semSpecItem] at h
    split at h
    · cases h
    · rename_i hany
      cases h
      refine ⟨hi.specs, ⟨?_, ?_⟩, hi.devs⟩
      · intro p hp
        rcases List.mem_append.mp hp with hp | hp
        · exact hi.cur.1 p hp
        · simp at hp; subst hp; simpa [siSemOK] using hok
      · simp only [List.map_append, List.map_cons, List.map_nil]
        rw [List.nodup_append]
        refine ⟨hi.cur.2, by simp, ?_⟩
        intro a ha b hb
        simp at hb; subst hb
        intro heq; subst heq
        apply hany
        obtain ⟨p, hp, rfl⟩ := List.mem_map.mp ha
        exact List.any_eq_true.mpr ⟨p, hp, by simp⟩

open Pm.ConfigModel.Proof in
theorem semItem_inv {env : Env} {s s' : Sem} {it : Item} (hi : Inv s) (h : semItem env s it = .ok s') : Inv s' := by
  cases it with
  | listen x rd => simp only [semItem] at h; cases h; exact ⟨hi.specs, hi.cur, hi.devs⟩
  | plugLogLevel x rd =>
    simp only [semItem] at h
    split at h
    · cases h; exact ⟨hi.specs, hi.cur, hi.devs⟩
    · cases h
  | tcpWrappers v rd =>
    simp only [semItem] at h
    split at h
    · cases h
    · cases h; exact ⟨hi.specs, hi.cur, hi.devs⟩
  | alias name hosts rd =>
    simp only [semItem] at h
    split at h
    · cases h
    · rename_i c hc
      cases h
      unfold cfgErr at hc
      split at hc
      · rename_i c' hm
        cases hc
        obtain ⟨hl, _, _, rfl⟩ := makeAlias_ok hm
        exact ⟨hi.specs, hi.cur, hi.devs⟩
      · cases hc
  | spec name items rd =>
    simp only [semItem] at h
    split at h
    · cases h
    · rename_i hlog
      cases h
      refine ⟨?_, by simp, ?_⟩
      · intro r hr
        rcases List.mem_append.mp hr with hr | hr
        · exact hi.specs r hr
        · simp at hr; subst hr
          exact ⟨by simpa [hasLogin] using hlog, hi.cur.1, hi.cur.2⟩
      · intro d hd
        obtain ⟨r, hr, he⟩ := hi.devs d hd
        exact ⟨r, List.mem_append_left _ hr, he⟩
  | device name spec host flags rd =>
    simp only [semItem] at h
    split at h
    · cases h
    · rename_i r hfind
      split at h
      · cases h
      · split at h
        · cases h
        · rename_i c hc
          cases h
          unfold cfgErr at hc
          split at hc
          · rename_i c' hm
            cases hc
            obtain ⟨sp, _, rfl⟩ := makeDevice_ok hm
            refine ⟨hi.specs, hi.cur, ?_⟩
            intro d hd
            rcases List.mem_append.mp hd with hd | hd
            · exact hi.devs d hd
            · simp at hd; subst hd
              have := List.find?_some hfind
              exact ⟨r, List.mem_of_find?_eq_some hfind, by simp at this; simp [this]⟩
          · cases hc
  | node nodes dev plugs rd =>
    simp only [semItem] at h
    split at h
    · cases h
    · rename_i c hc
      cases h
      unfold cfgErr at hc
      split at hc
      · rename_i c' hm
        cases hc
        obtain ⟨devs, nhl, nds, hu, _, _, rfl⟩ := makeNode_ok hm
        obtain ⟨pre, d, d', post, e1, e2, _, _, hf⟩ := updDev_ok hu
        have hk := nodeOnDev_Keeps hf
        refine ⟨hi.specs, hi.cur, ?_⟩
        intro x hx
        simp only [e2] at hx
        rcases List.mem_append.mp hx with hx | hx
        · exact hi.devs x (by rw [e1]; exact List.mem_append_left _ hx)
        · rcases List.mem_cons.mp hx with rfl | hx
          · obtain ⟨r, hr, he⟩ := hi.devs d (by rw [e1]; simp)
            exact ⟨r, hr, he.trans hk.2.1.symm⟩
          · exact hi.devs x (by rw [e1]; simp [hx])
      · cases hc

theorem runEvs_specItems {env : Env} : ∀ (items : List SpecItem) {s s'' : Sem} {rest : List Ev}, Inv s →
    runEvs env s (evSpecItems items ++ rest) = .ok s'' → ∃ s', Inv s' ∧ runEvs env s' rest = .ok s''
  | [], s, s'', rest, hi, h => ⟨s, hi, by simpa [evSpecItems] using h⟩
  | si :: r, s, s'', rest, hi, h => by
    simp only [evSpecItems, List.append_assoc] at h
    obtain ⟨hok, s1, h1, h2⟩ := runEvs_specItem h
    exact runEvs_specItems r (semSpecItem_inv hi hok h1) h2

theorem runEvs_item {env : Env} {it : Item} {s s'' : Sem} {rest : List Ev} (hi : Inv s)
    (h : runEvs env s (evItem it ++ rest) = .ok s'') : ∃ s', Inv s' ∧ runEvs env s' rest = .ok s'' := by
  have one : ∀ {s0 : Sem}, Inv s0 → runEvs env s0 (.item it :: rest) = .ok s'' → ∃ s', Inv s' ∧ runEvs env s' rest = .ok s'' := by
    intro s0 hi0 h0
    obtain ⟨s1, h1, h2⟩ := runEvs_cons h0
    exact ⟨s1, semItem_inv hi0 (by simpa [semEv] using h1), h2⟩
  cases it with
  | spec name items rd =>
    simp only [evItem, List.append_assoc] at h
    obtain ⟨s1, hi1, h1⟩ := runEvs_specItems items hi h
    exact one hi1 h1
  | listen x rd => exact one hi (by simpa [evItem] using h)
  | tcpWrappers v rd => exact one hi (by simpa [evItem] using h)
  | plugLogLevel x rd => exact one hi (by simpa [evItem] using h)
  | device a b c d rd => exact one hi (by simpa [evItem] using h)
  | node a b c rd => exact one hi (by simpa [evItem] using h)
  | alias a b rd => exact one hi (by simpa [evItem] using h)

theorem runEvs_ast {env : Env} : ∀ (ast : Ast) {s s'' : Sem}, Inv s → runEvs env s (evAst ast) = .ok s'' → Inv s''
  | [], s, s'', hi, h => by simp [evAst, runEvs] at h; subst h; exact hi
  | it :: r, s, s'', hi, h => by
    simp only [evAst] at h
    obtain ⟨s1, hi1, h1⟩ := runEvs_item hi h
    exact runEvs_ast r hi1 h1

/-! ## 4. conversion to the inputs of `SpecCheck` and `ConfigModel` -/

open Pm.SpecCheck in
mutual
/-- an accepted statement as `SpecCheck` sees it (`u_specdump.c`'s view of the instantiated `Stmt`): `nsub` = `re_nsub` of the
    compiled pattern (an oracle: `regcomp`), `usOf` = the microseconds `_doubletotv` computes (not modelled arithmetic); a
    literal plug name makes the plug match position `-1` -/
def toSStmt (nsub usOf : Bytes → Nat) : PStmt → Option SStmt
  | .expect re => some (.expect (nsub re))
  | .send fmt => some (.send fmt)
  | .delay n _ => some (.delay (usOf n))
  | .setplugstate plug mp1 mp2 _ _ =>
    match mpOpt mp1, mpVal mp2 with
    | .ok a, .ok b => some (.setplugstate plug.isSome (if plug.isSome then -1 else a) b)
    | _, _ => none
  | .setresult mp1 mp2 _ _ =>
    match mpVal mp1, mpVal mp2 with
    | .ok a, .ok b => some (.setresult a b)
    | _, _ => none
  | .block k body =>
    match toSStmts nsub usOf body with
    | some b => some (match k with | .foreachplug => .foreachplug b | .foreachnode => .foreachnode b | .ifon => .ifon b | .ifoff => .ifoff b)
    | none => none
def toSStmts (nsub usOf : Bytes → Nat) : List PStmt → Option (List SStmt)
  | [] => some []
  | s :: r =>
    match toSStmt nsub usOf s, toSStmts nsub usOf r with
    | some a, some b => some (a :: b)
    | _, _ => none
end

mutual
/-- **the conversion is total on statements whose actions succeeded** -/
theorem toSStmt_total (nsub usOf : Bytes → Nat) : ∀ (s : PStmt), stmtSemOK s = true → (toSStmt nsub usOf s).isSome = true
  | .expect _, _ => by simp [toSStmt]
  | .send _, _ => by simp [toSStmt]
  | .delay _ _, _ => by simp [toSStmt]
  | .setplugstate p a b l rd, h => by
    simp only [stmtSemOK, Bool.and_eq_true] at h
    simp only [toSStmt]
    cases ha : mpOpt a <;> cases hb : mpVal b <;> simp_all [okE]
  | .setresult a b l rd, h => by
    simp only [stmtSemOK, Bool.and_eq_true] at h
    simp only [toSStmt]
    cases ha : mpVal a <;> cases hb : mpVal b <;> simp_all [okE]
  | .block k body, h => by
    simp only [stmtSemOK] at h
    have := toSStmts_total nsub usOf body h
    simp only [toSStmt]
    cases hb : toSStmts nsub usOf body with
    | none => rw [hb] at this; cases this
    | some b => simp
theorem toSStmts_total (nsub usOf : Bytes → Nat) : ∀ (l : List PStmt), stmtsSemOK l = true → (toSStmts nsub usOf l).isSome = true
  | [], _ => by simp [toSStmts]
  | s :: r, h => by
    simp only [stmtsSemOK, Bool.and_eq_true] at h
    have h1 := toSStmt_total nsub usOf s h.1
    have h2 := toSStmts_total nsub usOf r h.2
    simp only [toSStmts]
    cases ha : toSStmt nsub usOf s with
    | none => rw [ha] at h1; cases h1
    | some a =>
      cases hb : toSStmts nsub usOf r with
      | none => rw [hb] at h2; cases h2
      | some b => simp
end

/-- the scripts of a completed specification, converted (`none`: some conversion failed — excluded by `Inv`) -/
def toScripts (nsub usOf : Bytes → Nat) : List (Nat × List PStmt) → Option (List (Nat × List Pm.SpecCheck.SStmt))
  | [] => some []
  | p :: r =>
    match toSStmts nsub usOf p.2, toScripts nsub usOf r with
    | some b, some l => some ((p.1, b) :: l)
    | _, _ => none

theorem toScripts_total (nsub usOf : Bytes → Nat) : ∀ (l : List (Nat × List PStmt)), (∀ p ∈ l, stmtsSemOK p.2 = true) →
    ∃ r, toScripts nsub usOf l = some r ∧ r.map (·.1) = l.map (·.1)
  | [], _ => ⟨[], rfl, rfl⟩
  | p :: r, h => by
    have h1 := toSStmts_total nsub usOf p.2 (h p (by simp))
    obtain ⟨l, hl, hm⟩ := toScripts_total nsub usOf r (fun q hq => h q (by simp [hq]))
    cases hb : toSStmts nsub usOf p.2 with
    | none => rw [hb] at h1; cases h1
    | some b => exact ⟨(p.1, b) :: l, by simp [toScripts, hb, hl], by simp [hm]⟩

/-- a completed specification as `SpecCheck.SpecD` (what the translator emits for the shipped files, here from the model's own
    parse): no `timeout` statement gives `timeoutUs = 0` — nothing in the grammar or the actions supplies a default -/
def toSpecD (nsub usOf : Bytes → Nat) (r : SpecRec) : Option Pm.SpecCheck.SpecD :=
  match toScripts nsub usOf r.scripts with
  | some sc => some { name := String.ofList (toChars r.name), file := "", timeoutUs := (r.timeout.map usOf).getD 0,
                      pingUs := (r.ping.map usOf).getD 0, nplugs := (r.plugs.map (·.length)).getD 0, scripts := sc }
  | none => none

/-- an accepted line as `ConfigModel.Stmt` -/
def toCfgStmt : Item → Option ConfigModel.Stmt
  | .device name spec _ _ _ => some (.device (toChars name) (toChars spec))
  | .node nodes dev plugs _ => some (.node (toChars nodes) (toChars dev) (plugs.map toChars))
  | .alias name hosts _ => some (.alias (toChars name) (toChars hosts))
  | _ => none

/-! ## 5. the whole reader -/

theorem parseLog_none {toks : List Token} (h : (parseLog toks).2 = none) : ∃ ast, parseConfig toks = .ok ast := by
  unfold parseLog at h
  unfold parseConfig
  split at h
  · rename_i a c log he; exact ⟨a, by simp⟩
  · simp at h
  · simp at h

/-- the tokens the lexer delivers for a file -/
def tokensOf (fs : Bytes → Option Bytes) (main content : Bytes) : List Token := (lexFile fs main content).1.map (·.tok)

theorem runDead_final (env : Env) (ltoks : List LTok) (main : Bytes) (e : LexEnd) :
    ∃ d p, (runDead env ltoks main e).final = .err d p := by
  unfold runDead
  simp only []
  split
  · exact ⟨_, _, rfl⟩
  · split
    · split <;> exact ⟨_, _, rfl⟩
    · exact ⟨_, _, rfl⟩

theorem runOk_valid {env : Env} {ltoks : List LTok} {eofPos : Bytes × Nat} (h : (runOk env ltoks eofPos).final = .valid) :
    ∃ ast s, parseConfig (ltoks.map (·.tok)) = .ok ast ∧ runEvs env {} (evAst ast) = .ok s ∧
      (∃ c, ConfigModel.validate s.cfg s.nstmt = .ok c) ∧ (runOk env ltoks eofPos).out = s.out.reverse := by
  unfold runOk at h ⊢
  simp only [] at h ⊢
  split at h
  · simp at h
  · rename_i s cut hrun
    split at h
    · simp at h
    · simp at h
    · rename_i hpl
      split at h
      · rename_i c hv
        obtain ⟨ast, hast⟩ := parseLog_none hpl
        have hlog := parseLog_ok _ ast hast
        have hr := runLog_none env (parseLog (ltoks.map (·.tok))).1 {}
        rw [hrun] at hr
        rw [hlog] at hr
        refine ⟨ast, s, hast, ?_, ⟨c, hv⟩, ?_⟩
        · cases he : runEvs env {} (evAst ast) with
          | ok s' => rw [he] at hr; simp at hr; rw [hr.1]
          | error e => rw [he] at hr; simp at hr
        · rfl
      · simp at h

/-- **Accepted files.**  If the reader accepts a file (`yyparse` returns and `_validate_config` agrees), then: the lexer reached
    the end of input, the tokens are a sentence of the grammar, every action succeeded on the post-order walk of its tree, and
    the verdict of `_validate_config` on the resulting configuration was positive. -/
theorem runConfig_valid {env : Env} {fs : Bytes → Option Bytes} {main content : Bytes}
    (h : (runConfig env fs main content).final = .valid) :
    ∃ ast s, parseConfig (tokensOf fs main content) = .ok ast ∧ runEvs env {} (evAst ast) = .ok s ∧
      (∃ c, ConfigModel.validate s.cfg s.nstmt = .ok c) ∧ (runConfig env fs main content).out = s.out.reverse := by
  unfold runConfig at h ⊢
  unfold tokensOf
  split at h
  · rename_i ltoks f l hl
    rw [hl]
    exact runOk_valid h
  · rename_i ltoks e hne hl
    obtain ⟨d, p, hd⟩ := runDead_final env ltoks main e
    rw [hd] at h; cases h

/-- **Mandatory elements of an accepted file** (`runConfig … = valid`): the tokens form a sentence whose tree is well-formed
    (`astWF`: non-empty specifications, scripts and blocks); every completed specification has a login script, distinct script
    kinds, and statements that convert (`toScripts` is defined on them); every device names a completed specification; and at
    least one node is configured. -/
theorem accepted_mandatory {env : Env} {fs : Bytes → Option Bytes} {main content : Bytes}
    (h : (runConfig env fs main content).final = .valid) :
    ∃ ast s, parseConfig (tokensOf fs main content) = .ok ast ∧ astWF ast = true ∧ runEvs env {} (evAst ast) = .ok s ∧ Inv s ∧
      Pm.expand s.cfg.nodes ≠ [] := by
  obtain ⟨ast, s, hp, hr, ⟨c, hv⟩, _⟩ := runConfig_valid h
  exact ⟨ast, s, hp, parse_shape _ ast hp, hr, runEvs_ast ast Inv_init hr, (Pm.ConfigModel.Proof.validate_ok hv).2.2⟩

/-- on the specifications of such a state the conversion to `SpecCheck.SpecD` is total, and keeps the script kinds -/
theorem toSpecD_total (nsub usOf : Bytes → Nat) {s : Sem} (hi : Inv s) (r : SpecRec) (hr : r ∈ s.specs) :
    ∃ d, toSpecD nsub usOf r = some d ∧ d.scripts.map (·.1) = r.scripts.map (·.1) ∧ d.scripts.any (fun p => p.1 == 0) = true := by
  obtain ⟨hlogin, hok, _⟩ := hi.specs r hr
  obtain ⟨sc, hsc, hm⟩ := toScripts_total nsub usOf r.scripts hok
  refine ⟨{ name := String.ofList (toChars r.name), file := "", timeoutUs := (r.timeout.map usOf).getD 0,
            pingUs := (r.ping.map usOf).getD 0, nplugs := (r.plugs.map (·.length)).getD 0, scripts := sc }, by simp [toSpecD, hsc], hm, ?_⟩
  simp only [hasLogin, List.any_eq_true] at hlogin ⊢
  obtain ⟨p, hp, hk⟩ := hlogin
  have : p.1 ∈ sc.map (·.1) := by rw [hm]; exact List.mem_map.mpr ⟨p, hp, rfl⟩
  obtain ⟨q, hq, hqe⟩ := List.mem_map.mp this
  refine ⟨q, hq, ?_⟩
  have h0 : Pm.Generated.PM_LOG_IN = 0 := rfl
  simp only [beq_iff_eq] at hk ⊢
  rw [hqe, hk, h0]

#print axioms parse_total
#print axioms parse_shape
#print axioms parseLog_ok
#print axioms accepted_mandatory
#print axioms toSpecD_total
#print axioms toSStmts_total
