import Pm.SpecSound
import Pm.Generated.SpecsAll
import Pm.Daemon
/-! C17 soundness, continued: from the table of shipped specifications to the interpreter; the actions the daemon model
    creates satisfy the hypothesis on plugs; concrete runs on two shipped scripts (non-vacuity). -/
namespace Pm.Dev2.SpecSound
open Pm.SpecCheck Pm.Dev2 Pm.Dev2.Interp

/-! ## from `specOK` of a specification to `scriptOK` of one of its scripts -/

theorem lookup_mem {β} : ∀ (l : List (Nat × β)) (k : Nat) (v : β), l.lookup k = some v → (k, v) ∈ l
  | [], _, _, h => by simp [List.lookup] at h
  | (k', v') :: r, k, v, h => by
    by_cases hk : k = k'
    · subst hk
      simp [List.lookup] at h
      subst h; simp
    · have : (k == k') = false := by simpa using hk
      simp only [List.lookup, this] at h
      exact List.mem_cons_of_mem _ (lookup_mem r k v h)

theorem scriptOK_of_specOK (s : SpecD) (kind : Nat) (b : List SStmt) (h : specOK s = true)
    (hl : s.scripts.lookup kind = some b) : scriptOK kind b = true := by
  unfold specOK at h
  simp only [Bool.and_eq_true, List.all_eq_true] at h
  exact (h.2 (kind, b) (lookup_mem _ _ _ hl)).2

/-- **C17 carried to the interpreter**: a script of a specification that passes `specOK`, seen through the erasure, makes
    every configuration of every execution of an action of that kind safe -/
theorem spec_sound (s : SpecD) (hs : specOK s = true) (nsub : Nat → Nat) (kind : Nat) (script : List Stmt)
    (hl : s.scripts.lookup kind = some (eraseB nsub script)) (pl : Option (List Plug)) (hpl : KindPlugs kind pl)
    (d : Dev) (a : Action) (g : Option Nat) (h : Reach script pl d a g) : StmtSafe nsub kind d a g :=
  reach_safe nsub kind script pl (scriptOK_of_specOK s kind _ hs hl) hpl d a g h

/-! ## the actions `dev_enqueue_actions` creates carry the plugs their kind promises -/

theorem kindPlugs_single (kind : Nat) (p : Plug) : KindPlugs kind (some [p]) := by
  unfold KindPlugs CtxPlugs
  exact ⟨fun _ => ⟨p, rfl⟩, fun _ => ⟨p, [], rfl⟩⟩

theorem kindPlugs_none (k : Nat) (h1 : singletKinds.contains k = false) (h2 : plugArgKinds.contains k = false) :
    KindPlugs k none := by
  unfold KindPlugs CtxPlugs
  exact ⟨fun h => (by rw [h1] at h; cases h), fun h => (by rw [h2] at h; cases h)⟩

theorem kindPlugs_cons (k : Nat) (p : Plug) (l : List Plug) (h1 : singletKinds.contains k = false) :
    KindPlugs k (some (p :: l)) := by
  unfold KindPlugs CtxPlugs
  exact ⟨fun h => (by rw [h1] at h; cases h), fun _ => ⟨p, l, rfl⟩⟩

theorem kindPlugs_all (com k : Nat) (h : Pm.Daemon.allOf com = some k) : KindPlugs k none := by
  unfold Pm.Daemon.allOf at h
  split at h <;> first | (cases h; exact kindPlugs_none _ (by decide) (by decide)) | cases h

theorem kindPlugs_ranged (com k : Nat) (tp : List Plug) (htp : tp ≠ []) (h : Pm.Daemon.rangedOf com = some k) :
    KindPlugs k (some tp) := by
  cases tp with
  | nil => exact absurd rfl htp
  | cons p l =>
    unfold Pm.Daemon.rangedOf at h
    split at h <;> first | (cases h; exact kindPlugs_cons _ p l (by decide)) | cases h

/-- login, logout and ping actions (`_enqueue_actions`) run without plugs; their kinds promise none -/
theorem kindPlugs_login_ping : KindPlugs 0 none ∧ KindPlugs 1 none ∧ KindPlugs 6 none :=
  ⟨kindPlugs_none 0 (by decide) (by decide), kindPlugs_none 1 (by decide) (by decide), kindPlugs_none 6 (by decide) (by decide)⟩

theorem choose_acts {α} (P : α → Prop) (c1 c2 c3 : Bool) (S : List α) (A R : α) (hS : ∀ a ∈ S, P a)
    (hA : c2 = true → P A) (hR : c3 = true → P R) :
    ∀ a ∈ (if c1 then S else if c2 then [A] else if c3 then [R] else S), P a := by
  intro a ha
  cases c1 <;> cases c2 <;> cases c3 <;> simp at ha <;> first | exact hS a ha | (subst ha; first | exact hA rfl | exact hR rfl)

/-- every action the mirror of `dev_enqueue_actions` appends is a fresh action on the script of its kind, with plugs as
    `KindPlugs` demands: one plug for a singlet script, none for an `_all` script, the (non-empty) targeted plugs for a
    ranged one -/
theorem enqueue_kindPlugs (d : Dev) (com : Nat) (targets : List Bytes) (cid : Nat) (tele : Bool) (al : Nat) :
    ∃ new, (Pm.Daemon.enqueue d com targets cid tele al).1.acts = d.acts ++ new ∧
      ∀ a ∈ new, ∃ pl, a.exec = [bodyCtx ((d.scripts a.com).getD []) pl] ∧ KindPlugs a.com pl := by
  unfold Pm.Daemon.enqueue
  dsimp only
  generalize List.filter _ d.plugs = tp
  split
  · exact ⟨[], by simp, by simp⟩
  · rename_i hguard
    refine ⟨_, rfl, ?_⟩
    have htp : tp ≠ [] := by
      intro h0
      apply hguard
      rw [h0]; simp
    apply choose_acts
    · intro a ha
      split at ha
      · obtain ⟨p, _, rfl⟩ := List.mem_map.mp ha
        exact ⟨some [p], rfl, kindPlugs_single _ p⟩
      · cases ha
    · intro hall
      simp only [Bool.and_eq_true] at hall
      cases hk : Pm.Daemon.allOf com with
      | none => simp [hk] at hall
      | some k =>
        exact ⟨none, rfl, by simpa [Pm.Daemon.mkAction] using kindPlugs_all com k hk⟩
    · intro hr
      cases hk : Pm.Daemon.rangedOf com with
      | none => simp [hk] at hr
      | some k =>
        exact ⟨some _, rfl, by simpa [Pm.Daemon.mkAction] using kindPlugs_ranged com k _ htp hk⟩


/-! ## non-vacuity: two shipped scripts, and a concrete run -/
namespace Ex
open Pm.Generated.Specs

/-- `re_nsub` of the patterns of `t/etc/vpc.dev` as numbered here: 1, 2 the two prompts, 3 `([0-9]+): (OK|ERROR)\n`,
    4 `plug ([0-9]+): (ON|OFF|ERROR)\n` -/
def vpcNsub : Nat → Nat := fun p => if p == 3 || p == 4 then 2 else 0

/-- `script on_ranged` of vpc.dev as the interpreter holds it (`%s`, a `foreachplug` over the targeted plugs, `$1 $2`) -/
def vpcOnRanged : List Stmt :=
  [.send [111, 110, 32, 37, 115, 10], .foreachplug [.expect 3, .setresult 1 2 [(.success, 5)]], .expect 1, .expect 2]

/-- `script status_all` of vpc.dev -/
def vpcStatusAll : List Stmt :=
  [.send [115, 116, 97, 116, 32, 42, 10], .foreachplug [.expect 4, .setplugstate none 1 2 [(.on, 6), (.off, 7)]], .expect 1, .expect 2]

/-- their erasures are the entries of the generated table, which the real parser produced -/
theorem vpc_erasures : vpc.scripts.lookup 8 = some (eraseB vpcNsub vpcOnRanged) ∧
    vpc.scripts.lookup 3 = some (eraseB vpcNsub vpcStatusAll) := ⟨rfl, rfl⟩

/-- `spec_sound` on the ranged script of `vpc`, two targeted plugs: every reachable configuration is safe — the `%s` has
    its argument, the `$1 $2` of `setresult` are groups of the expect in the same loop body, the `foreachplug` runs in
    the outermost context -/
example (p q : Plug) (d : Dev) (a : Action) (g : Option Nat) (h : Reach vpcOnRanged (some [p, q]) d a g) :
    StmtSafe vpcNsub 8 d a g :=
  spec_sound vpc specOK_vpc vpcNsub 8 vpcOnRanged vpc_erasures.1 (some [p, q]) (kindPlugs_cons 8 p [q] (by decide)) d a g h

example (d : Dev) (a : Action) (g : Option Nat) (h : Reach vpcStatusAll none d a g) : StmtSafe vpcNsub 3 d a g :=
  spec_sound vpc specOK_vpc vpcNsub 3 vpcStatusAll vpc_erasures.2 none (kindPlugs_none 3 (by decide) (by decide)) d a g h

/-- `script on` of `etc/devices/cb-7050.dev`: literal plug names, `$1`/`$2`, and an `ifoff` block with `%s` inside.
    Patterns: 1 `!..(.)(.)00\r` (two groups), 2 `>\r`; 10… the on/off interpretations. -/
def cbNsub : Nat → Nat := fun p => if p == 1 then 2 else 0
def cbOn : List Stmt :=
  [.send [36, 48, 49, 54, 13], .expect 1,
   .setplugstate (some [48]) (-1) 2 [(.on, 10), (.off, 11)], .setplugstate (some [49]) (-1) 2 [(.on, 12), (.off, 13)],
   .setplugstate (some [50]) (-1) 2 [(.on, 14), (.off, 15)], .setplugstate (some [51]) (-1) 2 [(.on, 16), (.off, 17)],
   .setplugstate (some [52]) (-1) 1 [(.on, 18), (.off, 19)], .setplugstate (some [53]) (-1) 1 [(.on, 20), (.off, 21)],
   .setplugstate (some [54]) (-1) 1 [(.on, 22), (.off, 23)], .setplugstate (some [55]) (-1) 1 [(.off, 24)],
   .ifoff [.send [35, 48, 49, 65, 37, 115, 48, 49, 13], .expect 2, .delay 4000000,
           .send [35, 48, 49, 65, 37, 115, 48, 48, 13], .expect 2]]

theorem cbOn_erasure : cb7050.scripts.lookup 7 = some (eraseB cbNsub cbOn) := rfl

/-! a run of `cbOn` for plug `3` (node `n3`): the status query is sent and drains, the reply `!010800\r` arrives, the expect
    matches it — the action now stands at the first `setplugstate`, holding a match of pattern 1 -/
def p3 : Plug := ⟨[51], some [110, 51]⟩
def d0 : Dev :=
  { plugs := [p3], scripts := fun _ => none, timeout := 10000000, acts := [], toBuf := [], fromBuf := [], xmStr := none,
    xmOffs := [], xmResult := false, xmUsed := false, args := [(1, [⟨[110, 51], none, .unknown, .none⟩])], nextUid := 0,
    shortCircuitDelay := false }
def a0 : Action :=
  { uid := 1, com := 7, exec := [bodyCtx cbOn (some [p3])], clientId := 1, telemetry := false, errnum := .success,
    timeStamp := none, delayStart := 0, arglist := 1 }
def reply : Bytes := [33, 48, 49, 48, 56, 48, 48, 13]
def m1 : MR := mstep 0 d0 a0 ⟨[]⟩
def d1 : Dev := { m1.dev with toBuf := [], fromBuf := reply }
def m2 : MR := mstep 1 d1 m1.act ⟨[]⟩
def o2 : Oracle := ⟨[⟨1, reply, some [(0, 8), (3, 4), (4, 5)]⟩]⟩
def m3 : MR := mstep 1 m2.dev m2.act o2

theorem ne_nil_of_len {α} (l : List α) (h : 0 < l.length) : l ≠ [] := by
  intro h0; rw [h0] at h; cases h

theorem ex_reach : Reach cbOn (some [p3]) m3.dev m3.act (some 1) := by
  have r0 : Reach cbOn (some [p3]) d0 a0 none := Reach.start d0 a0 _ rfl rfl rfl rfl
  have r1 := Reach.step 0 d0 a0 ⟨[]⟩ none r0 (by simp [a0]) (Or.inr (by decide +kernel))
  have g1 : ghostNext 0 d0 a0 ⟨[]⟩ none = none := by decide +kernel
  rw [g1] at r1
  have r1' : Reach cbOn (some [p3]) d1 m1.act none := Reach.env _ d1 _ m1.act none r1 rfl (Or.inl rfl)
  have r2 := Reach.step 1 d1 m1.act ⟨[]⟩ none r1' (ne_nil_of_len _ (by decide +kernel)) (Or.inl (by decide +kernel))
  have g2 : ghostNext 1 d1 m1.act ⟨[]⟩ none = none := by decide +kernel
  rw [g2] at r2
  have r3 := Reach.step 1 m2.dev m2.act o2 none r2 (ne_nil_of_len _ (by decide +kernel)) (Or.inl (by decide +kernel))
  have g3 : ghostNext 1 m2.dev m2.act o2 none = some 1 := by decide +kernel
  rw [g3] at r3
  exact r3

/-- where the run stands: at the first `setplugstate` of the outermost block, with the plug of the action as context -/
theorem ex_stands : m3.act.exec =
    [{ block := cbOn, pos := 2, plugs := some [p3], plugItr := none, plugCopy := none, processing := false }] := rfl

/-- … and there `spec_sound` says: the match object holds a successful match — of pattern 1, two groups, made by this
    action — and the `$2` the statement is about to read is one of its groups and fits the match object -/
example : SetSafe cbNsub m3.dev (some 1) (some [p3]) (some [48]) (-1) 2 :=
  spec_sound cb7050 specOK_cb7050 cbNsub 7 cbOn cbOn_erasure (some [p3]) (kindPlugs_single 7 p3) _ _ _ ex_reach
    _ _ _ ex_stands rfl

/-- the hand-written script of the task: `ifon` around a `%s`, `foreachplug`, `$1`/`$2` — and what the theorem gives for
    it, in one line each: an `_all` kind for the loop, a singlet kind for the `ifon` -/
def exAll : List Stmt := [.send [115, 10], .foreachplug [.expect 4, .setplugstate none 1 2 [(.on, 6)], .ifon [.send [37, 115, 10]]]]
def exSinglet : List Stmt := [.expect 4, .setplugstate none (-1) 2 [(.on, 6)], .ifon [.send [111, 102, 102, 32, 37, 115, 10], .expect 1]]

example (d : Dev) (a : Action) (g : Option Nat) (h : Reach exAll none d a g) : StmtSafe vpcNsub 3 d a g :=
  reach_safe vpcNsub 3 exAll none (by decide +kernel) (kindPlugs_none 3 (by decide) (by decide)) d a g h

example (p : Plug) (d : Dev) (a : Action) (g : Option Nat) (h : Reach exSinglet (some [p]) d a g) : StmtSafe vpcNsub 10 d a g :=
  reach_safe vpcNsub 10 exSinglet (some [p]) (by decide +kernel) (kindPlugs_single 10 p) d a g h

/-- the static rules reject the same scripts under the wrong kind: the `ifon` needs the single plug an `_all` script lacks;
    the `foreachplug` must not run inside a singlet script -/
example : scriptOK 3 (eraseB vpcNsub exSinglet) = false ∧ scriptOK 10 (eraseB vpcNsub exAll) = false := by decide +kernel

end Ex

#print axioms spec_sound
#print axioms enqueue_kindPlugs
#print axioms Ex.ex_reach

end Pm.Dev2.SpecSound
