import Pm.LsdListBase
/-! # `list_node_create` and `list_node_destroy` on a represented list

`nodeCreate_spec` / `nodeDestroy_spec`: what the two node functions of `list.c` do to `Rep` (`Pm/LsdListBase.lean`): the
allocation from the free list (refilled in chunks), the pointer updates, `tail`, `count`, and the iterator loop with its
assertion — which holds for every iterator, so the functions never return `none`. -/
namespace Pm.LsdList
variable {α : Type}

theorem Chain.congr {l l' : LList α} {ns : List Nat} {items : List α} (h : Chain l ns items) (hc : l'.cells = l.cells)
    (hh : l'.head = l.head) : Chain l' ns items :=
  ⟨h.len, by rw [hh]; exact h.head, by rw [hc]; exact h.cell, h.inj⟩

theorem fixIters_eq (l : LList α) (fix : Iter → Iter) (its : List (Nat × Iter))
    (h : ∀ ki ∈ its, iterAssert l (fix ki.2) = true) :
    fixIters l fix its = some (its.map (fun ki => (ki.1, fix ki.2))) := by
  induction its with
  | nil => rfl
  | cons ki rest ih =>
    obtain ⟨k, i⟩ := ki
    have h1 := h (k, i) (by simp)
    simp only [] at h1
    simp [fixIters, h1, ih (fun ki hk => h ki (by simp [hk]))]

theorem range_map_nodup (n m : Nat) : ((List.range m).map (fun k => n + 1 + k)).Nodup := by
  have : (List.range m).map (fun k => n + 1 + k) = List.range' (n + 1) m := by
    rw [List.range'_eq_map_range]
  rw [this]; exact List.nodup_range'

theorem nodeAlloc_spec {l : LList α} {ns : List Nat} {items : List α} (h : Rep l ns items) :
    Rep (nodeAlloc l).2 ns items ∧ (∀ (k : Nat), ns[k]? ≠ some (nodeAlloc l).1) ∧
    (nodeAlloc l).1 < (nodeAlloc l).2.cells.size ∧ (nodeAlloc l).1 ∉ (nodeAlloc l).2.free ∧
    (nodeAlloc l).2.iters = l.iters ∧ (nodeAlloc l).2.fdel = l.fdel := by
  unfold nodeAlloc
  split
  · rename_i p rest hfree
    have hn := h.freeNodup
    have ho := h.freeOk
    rw [hfree] at hn ho
    have hn' := List.nodup_cons.mp hn
    refine ⟨⟨⟨h.len, h.head, h.cell, h.inj⟩, h.count, h.tail, hn'.2, ?_, h.keys, h.place⟩, ?_, ?_, hn'.1, rfl, rfl⟩
    · intro q hq; exact ho q (by simp [hq])
    · exact (ho p (by simp)).2
    · exact (ho p (by simp)).1
  · rename_i hfree
    have hlt : ∀ (k n : Nat), ns[k]? = some n → n < l.cells.size := fun k n hn => h.toChain.lt_size k n hn
    refine ⟨⟨⟨h.len, h.head, ?_, h.inj⟩, h.count, h.tail, range_map_nodup _ _, ?_, h.keys, h.place⟩, ?_, ?_, ?_, rfl, rfl⟩
    · intro k n hn
      simp only [Array.getElem?_append, hlt k n hn, if_true]
      exact h.cell k n hn
    · intro q hq
      simp only [List.mem_map, List.mem_range] at hq
      obtain ⟨a, ha, rfl⟩ := hq
      refine ⟨by simp [listAlloc] at ha ⊢; omega, ?_⟩
      intro k hk
      have := hlt k _ hk; omega
    · intro k hk
      have := hlt k _ hk
      simp only [] at this; omega
    · simp [listAlloc]
    · simp only [List.mem_map, List.mem_range]
      rintro ⟨a, _, ha⟩; omega

/-- `list_node_create` after the allocation of the node `p` -/
def nodeCreateAt (l1 : LList α) (p : Nat) (pp : Ref) (x : α) : Option (LList α) :=
  match load l1 pp with
  | none => none
  | some pnext =>
    let l2 := { l1 with cells := l1.cells.setIfInBounds p { data := some x, next := pnext } }
    let l3 := if pnext.isNone then { l2 with tail := .next p } else l2
    match store l3 pp (some p) with
    | none => none
    | some l4 =>
      let l5 := { l4 with count := l4.count + 1 }
      match fixIters l5 (fixCreate pp p pnext) l5.iters with
      | none => none
      | some its => some { l5 with iters := its }

theorem nodeCreate_eq (l : LList α) (pp : Ref) (x : α) :
    nodeCreate l pp x = nodeCreateAt (nodeAlloc l).2 (nodeAlloc l).1 pp x := by
  unfold nodeCreate nodeCreateAt
  rfl

/-- the state after the pointer updates of `list_node_create`, before the iterator loop -/
def linked (l1 : LList α) (p : Nat) (pp : Ref) (pnext : Option Nat) (x : α) : Option (LList α) :=
  let l2 := { l1 with cells := l1.cells.setIfInBounds p { data := some x, next := pnext } }
  let l3 := if pnext.isNone then { l2 with tail := .next p } else l2
  (store l3 pp (some p)).map (fun l4 => { l4 with count := l4.count + 1 })

theorem linked_eq (l1 : LList α) (p : Nat) (pp : Ref) (pnext : Option Nat) (x : α) :
    linked l1 p pp pnext x =
      (store { l1 with cells := l1.cells.setIfInBounds p { data := some x, next := pnext },
                       tail := if pnext = none then .next p else l1.tail } pp (some p)).map
        (fun l4 => { l4 with count := l4.count + 1 }) := by
  unfold linked; cases pnext <;> rfl

theorem linked_spec {l1 : LList α} {ns : List Nat} {items : List α} (h : Rep l1 ns items) (p f : Nat) (x : α)
    (hf : f ≤ ns.length) (hp : ∀ (k : Nat), ns[k]? ≠ some p) (hps : p < l1.cells.size) :
    ∃ l5, linked l1 p (fieldAt ns f) ns[f]? x = some l5 ∧ Chain l5 (ns.insertIdx f p) (items.insertIdx f x) ∧
      l5.count = l1.count + 1 ∧ l5.tail = fieldAt (ns.insertIdx f p) (ns.length + 1) ∧ l5.free = l1.free ∧
      l5.iters = l1.iters ∧ l5.fdel = l1.fdel ∧ l5.cells.size = l1.cells.size := by
  have hlen := h.len
  have htail : (if ns[f]? = none then Ref.next p else l1.tail) = fieldAt (ns.insertIdx f p) (ns.length + 1) := by
    rw [fieldAt_insertIdx ns f p _ hf]
    by_cases e : f = ns.length
    · subst e
      have h2 : ¬ ns.length + 1 ≤ ns.length := by omega
      simp [h2]
    · have h1 : f < ns.length := by omega
      have h2 : ¬ ns.length + 1 ≤ f := by omega
      have h3 : ¬ ns.length = f := by omega
      have h4 : ¬ ns.length ≤ f := by omega
      simp [h2, h3, h4, h.tail]
  rw [linked_eq, htail]
  cases f with
  | zero =>
    simp only [fieldAt, store, Option.map_some]
    refine ⟨_, rfl, ?_, rfl, rfl, rfl, rfl, rfl, by simp⟩
    refine h.toChain.insert 0 p x hf hp ?_ ?_ ?_ ?_
    · simp [hps]
    · simp
    · intro n h0; exact absurd rfl h0
    · intro k n hk _
      have hne : p ≠ n := fun e => hp k (e ▸ hk)
      simp [hne]
  | succ f' =>
    obtain ⟨n, hn⟩ : ∃ n, ns[f']? = some n := ⟨ns[f']'(by omega), by simp⟩
    have hne : p ≠ n := fun e => hp f' (e ▸ hn)
    have hcn := h.cell f' n hn
    have hcn' : (l1.cells.setIfInBounds p { data := some x, next := ns[f' + 1]? })[n]? = some ⟨items[f']?, ns[f' + 1]?⟩ := by
      simp [hne, hcn]
    simp only [fieldAt_succ ns f' n hn, store, hcn', Option.map_some]
    refine ⟨_, rfl, ?_, rfl, rfl, rfl, rfl, rfl, by simp⟩
    refine h.toChain.insert (f' + 1) p x hf hp ?_ ?_ ?_ ?_
    · simp [hps, Ne.symm hne]
    · simp
    · intro m _ hm
      simp at hm; rw [hn] at hm
      have : m = n := by simpa using hm.symm
      subst this
      have hs : m < l1.cells.size := h.toChain.lt_size f' m hn
      simp [hs]
    · intro k m hk hk1
      have hne1 : p ≠ m := fun e => hp k (e ▸ hk)
      have hne2 : n ≠ m := fun e => hk1 (by have := h.inj f' k n hn (e ▸ hk); omega)
      simp [hne1, hne2]

theorem nodeCreateAt_eq (l1 : LList α) (p : Nat) (pp : Ref) (x : α) :
    nodeCreateAt l1 p pp x =
      match load l1 pp with
      | none => none
      | some pnext =>
        match linked l1 p pp pnext x with
        | none => none
        | some l5 =>
          match fixIters l5 (fixCreate pp p pnext) l5.iters with
          | none => none
          | some its => some { l5 with iters := its } := by
  unfold nodeCreateAt linked
  cases load l1 pp with
  | none => rfl
  | some pnext =>
    simp only []
    cases store (if pnext.isNone = true then
        ({ l1 with cells := l1.cells.setIfInBounds p { data := some x, next := pnext }, tail := Ref.next p } : LList α)
        else { l1 with cells := l1.cells.setIfInBounds p { data := some x, next := pnext } }) pp (some p) <;> rfl

theorem mem_insertIdx_ne {ns : List Nat} {f p q : Nat} (_hf : f ≤ ns.length) (hq : ∀ (k : Nat), ns[k]? ≠ some q) (hpq : q ≠ p) :
    ∀ (k : Nat), (ns.insertIdx f p)[k]? ≠ some q := by
  intro k
  rw [List.getElem?_insertIdx]
  split
  · exact hq k
  · split
    · simp; omega
    · exact hq _

/-- **`list_node_create` at the `f`-th field**: a node `p` that was not on the chain is linked in at position `f`, the item
    is inserted at position `f`, every iterator is patched by `fixCreate`, and the result represents that list. -/
theorem nodeCreate_spec {l : LList α} {ns : List Nat} {items : List α} (h : Rep l ns items) (f : Nat) (x : α) (hf : f ≤ ns.length) :
    ∃ l' p, nodeCreate l (fieldAt ns f) x = some l' ∧ Rep l' (ns.insertIdx f p) (items.insertIdx f x) ∧
      l'.iters = l.iters.map (fun ki => (ki.1, fixCreate (fieldAt ns f) p ns[f]? ki.2)) ∧ l'.fdel = l.fdel := by
  obtain ⟨h1, hp, hps, hpf, hit, hfd⟩ := nodeAlloc_spec h
  rw [nodeCreate_eq, nodeCreateAt_eq, h1.toChain.load f hf]
  generalize (nodeAlloc l).1 = p at *
  generalize (nodeAlloc l).2 = l1 at *
  obtain ⟨l5, e5, hch, hcnt, htl, hfr, hits, hfdel, hsz⟩ := linked_spec h1 p f x hf hp hps
  simp only [e5]
  have hass : ∀ ki ∈ l5.iters, iterAssert l5 (fixCreate (fieldAt ns f) p ns[f]? ki.2) = true := by
    intro ki hki
    rw [hits] at hki
    obtain ⟨j, g, pl⟩ := h1.place ki hki
    exact (pl.create h1.inj f p hf).assert hch
  rw [fixIters_eq l5 _ _ hass]
  refine ⟨_, p, rfl, ⟨hch.congr rfl rfl, ?_, by simp [htl, List.length_insertIdx, hf], ?_, ?_, ?_, ?_⟩, by simp [hits, hit], by simp [hfdel, hfd]⟩
  · simp [hcnt, h1.count, List.length_insertIdx, hf]
  · simp only [hfr]; exact h1.freeNodup
  · simp only [hfr, hsz]
    intro q hq
    refine ⟨(h1.freeOk q hq).1, mem_insertIdx_ne hf (h1.freeOk q hq).2 ?_⟩
    intro e; subst e; exact hpf hq
  · simp only [List.map_map, hits]
    exact h1.keys
  · intro ki hki
    simp only [hits, List.mem_map] at hki
    obtain ⟨ki0, hk0, rfl⟩ := hki
    obtain ⟨j, g, pl⟩ := h1.place ki0 hk0
    exact ⟨_, _, pl.create h1.inj f p hf⟩

/-- the state after the pointer updates of `list_node_destroy`, before the iterator loop -/
def unlinked (l : LList α) (pp : Ref) (pnext : Option Nat) : Option (LList α) :=
  (store l pp pnext).map (fun l1 => { l1 with tail := if pnext = none then pp else l1.tail, count := l1.count - 1 })

theorem nodeDestroy_eq (l : LList α) (pp : Ref) :
    nodeDestroy l pp =
      match load l pp with
      | none => none
      | some none => some (none, l)
      | some (some p) =>
        match l.cells[p]? with
        | none => none
        | some c =>
          match unlinked l pp c.next with
          | none => none
          | some l3 =>
            match fixIters l3 (fixDestroy pp p c.next) l3.iters with
            | none => none
            | some its => some (c.data, nodeFree { l3 with iters := its } p) := by
  unfold nodeDestroy unlinked
  cases load l pp with
  | none => rfl
  | some a =>
    cases a with
    | none => rfl
    | some p =>
      simp only []
      cases l.cells[p]? with
      | none => rfl
      | some c =>
        simp only []
        cases store l pp c.next with
        | none => rfl
        | some l1 => cases c.next <;> rfl

theorem unlinked_spec {l : LList α} {ns : List Nat} {items : List α} (h : Rep l ns items) (f n : Nat) (hn : ns[f]? = some n) :
    ∃ l3, unlinked l (fieldAt ns f) ns[f + 1]? = some l3 ∧ Chain l3 (ns.eraseIdx f) (items.eraseIdx f) ∧
      l3.count = l.count - 1 ∧ l3.tail = fieldAt (ns.eraseIdx f) (ns.length - 1) ∧ l3.free = l.free ∧
      l3.iters = l.iters ∧ l3.fdel = l.fdel ∧ l3.cells.size = l.cells.size := by
  have hf : f < ns.length := by
    rcases Nat.lt_or_ge f ns.length with h1 | h1
    · exact h1
    · simp [List.getElem?_eq_none h1] at hn
  have htail : (if ns[f + 1]? = none then fieldAt ns f else l.tail) = fieldAt (ns.eraseIdx f) (ns.length - 1) := by
    rw [fieldAt_eraseIdx]
    by_cases e : f + 1 = ns.length
    · have h1 : ns[f + 1]? = none := by simp [e]
      have h2 : ns.length - 1 = f := by omega
      simp [h1, h2]
    · have h1 : ns[f + 1]? ≠ none := by simp; omega
      have h2 : ¬ ns.length - 1 ≤ f := by omega
      have h3 : ns.length - 1 + 1 = ns.length := by omega
      simp [h1, h2, h3, h.tail]
  unfold unlinked
  cases f with
  | zero =>
    simp only [fieldAt, store, Option.map_some] at htail ⊢
    refine ⟨_, rfl, ?_, rfl, htail, rfl, rfl, rfl, rfl⟩
    refine h.toChain.erase 0 hf ?_ ?_ ?_
    · simp
    · intro m h0; exact absurd rfl h0
    · intro k m _ _ _; rfl
  | succ f' =>
    obtain ⟨m, hm⟩ : ∃ m, ns[f']? = some m := ⟨ns[f']'(by omega), by simp⟩
    have hcm := h.cell f' m hm
    simp only [fieldAt_succ ns f' m hm, store, hcm, Option.map_some] at htail ⊢
    refine ⟨_, rfl, ?_, rfl, htail, rfl, rfl, rfl, by simp⟩
    refine h.toChain.erase (f' + 1) hf ?_ ?_ ?_
    · simp
    · intro m' _ hm'
      simp at hm'; rw [hm] at hm'
      have : m' = m := by simpa using hm'.symm
      subst this
      have hs : m' < l.cells.size := h.toChain.lt_size f' m' hm
      simp [hs]
    · intro k m' hk hk1 _
      have hne2 : m ≠ m' := fun e => hk1 (by have := h.inj f' k m hm (e ▸ hk); omega)
      simp [hne2]

theorem mem_eraseIdx_ne {ns : List Nat} {f q : Nat} (hq : ∀ (k : Nat), ns[k]? ≠ some q) :
    ∀ (k : Nat), (ns.eraseIdx f)[k]? ≠ some q := by
  intro k
  rw [List.getElem?_eraseIdx]
  split
  · exact hq k
  · exact hq _

theorem Inj.eraseIdx_ne {ns : List Nat} (hi : Inj ns) {f n : Nat} (hn : ns[f]? = some n) :
    ∀ (k : Nat), (ns.eraseIdx f)[k]? ≠ some n := by
  intro k
  rw [List.getElem?_eraseIdx]
  split
  · intro e; have := hi k f n e hn; omega
  · intro e; have := hi (k + 1) f n e hn; omega

/-- **`list_node_destroy` at the `f`-th field** when that field holds a node: the node is unlinked and put on the free list,
    its item is returned, every iterator is patched by `fixDestroy`, and the result represents the list without that item. -/
theorem nodeDestroy_spec {l : LList α} {ns : List Nat} {items : List α} (h : Rep l ns items) (f n : Nat) (hn : ns[f]? = some n) :
    ∃ l', nodeDestroy l (fieldAt ns f) = some (items[f]?, l') ∧ Rep l' (ns.eraseIdx f) (items.eraseIdx f) ∧
      l'.iters = l.iters.map (fun ki => (ki.1, fixDestroy (fieldAt ns f) n ns[f + 1]? ki.2)) ∧ l'.fdel = l.fdel := by
  have hf : f < ns.length := by
    rcases Nat.lt_or_ge f ns.length with h1 | h1
    · exact h1
    · simp [List.getElem?_eq_none h1] at hn
  rw [nodeDestroy_eq, h.toChain.load f (by omega), hn]
  simp only [h.cell f n hn]
  obtain ⟨l3, e3, hch, hcnt, htl, hfr, hits, hfdel, hsz⟩ := unlinked_spec h f n hn
  simp only [e3]
  have hass : ∀ ki ∈ l3.iters, iterAssert l3 (fixDestroy (fieldAt ns f) n ns[f + 1]? ki.2) = true := by
    intro ki hki
    rw [hits] at hki
    obtain ⟨j, g, pl⟩ := h.place ki hki
    exact (pl.destroy h.inj f n hn).assert hch
  rw [fixIters_eq l3 _ _ hass]
  have hlen : (ns.eraseIdx f).length = ns.length - 1 := by simp [List.length_eraseIdx, hf]
  refine ⟨_, rfl, ⟨hch.congr rfl rfl, ?_, by simp [nodeFree, htl, hlen], ?_, ?_, ?_, ?_⟩, by simp [nodeFree, hits], by simp [nodeFree, hfdel]⟩
  · simp [nodeFree, hcnt, h.count, hlen]
  · simp only [nodeFree, hfr]
    refine List.nodup_cons.mpr ⟨?_, h.freeNodup⟩
    intro hm; exact (h.freeOk n hm).2 f hn
  · simp only [nodeFree, hfr, hsz, List.mem_cons]
    intro q hq
    rcases hq with rfl | hq
    · exact ⟨h.toChain.lt_size f q hn, h.inj.eraseIdx_ne hn⟩
    · exact ⟨(h.freeOk q hq).1, mem_eraseIdx_ne (h.freeOk q hq).2⟩
  · simp only [nodeFree, List.map_map, hits]
    exact h.keys
  · intro ki hki
    simp only [nodeFree, hits, List.mem_map] at hki
    obtain ⟨ki0, hk0, rfl⟩ := hki
    obtain ⟨j, g, pl⟩ := h.place ki0 hk0
    exact ⟨_, _, pl.destroy h.inj f n hn⟩

/-- `list_node_destroy` at the last field (which holds `NULL`): nothing happens -/
theorem nodeDestroy_end {l : LList α} {ns : List Nat} {items : List α} (h : Rep l ns items) :
    nodeDestroy l (fieldAt ns ns.length) = some (none, l) := by
  rw [nodeDestroy_eq, h.toChain.load ns.length (Nat.le_refl _)]
  simp
end Pm.LsdList
