import Pm.LsdListSort
/-! # `valid`, every call, any sequence of calls

* `valid_iff`: the executable check `valid` of `Pm/LsdList.lean` is exactly the representation invariant `Valid`.
* `apply_refines` / `run_refines`: every call of the API, and any sequence of calls, on a represented list is the same call /
  sequence on the list with cursors (`Abs`, `Pm/LsdListAbs.lean`); the C code dies only where a handle is misused. -/
namespace Pm.LsdList
variable {α : Type}

/-! ## `valid` (the executable check) is `Valid` (the representation invariant) -/

theorem fieldsOf_getLast (ns : List Nat) : (fieldsOf ns).getLast! = fieldAt ns ns.length := by
  apply List.getLast!_of_getLast?
  rw [List.getLast?_eq_getElem?, fieldsOf_length]
  simp only [Nat.add_sub_cancel]
  exact fieldsOf_getElem? ns ns.length (Nat.le_refl _)

theorem Valid.valid {l : LList α} (h : Valid l) : valid l = true := by
  obtain ⟨ns, items, h⟩ := h
  unfold LsdList.valid
  rw [h.toChain.nodes]
  simp only [Bool.and_eq_true, beq_iff_eq, List.all_eq_true, decide_eq_true_eq, Bool.not_eq_true', Option.isSome_iff_exists]
  refine ⟨⟨⟨⟨⟨⟨h.count, ?_⟩, ?_⟩, h.freeNodup⟩, ?_⟩, h.keys⟩, ?_⟩
  · rw [fieldsOf_getLast]; exact h.tail
  · intro p hp
    obtain ⟨k, hk⟩ := List.mem_iff_getElem?.mp hp
    obtain ⟨d, hd⟩ := h.toChain.item k p hk
    exact ⟨d, by rw [h.toChain.dataOf k p hk, hd]⟩
  · intro p hp
    refine ⟨(h.freeOk p hp).1, ?_⟩
    cases hc : ns.contains p with
    | false => rfl
    | true =>
      obtain ⟨k, hk⟩ := List.mem_iff_getElem?.mp (List.contains_iff_mem.mp hc)
      exact absurd hk ((h.freeOk p hp).2 k)
  · intro ki hki
    obtain ⟨j, g, pl⟩ := h.place ki hki
    exact ⟨(j, g), pl.iterPlace h.inj⟩

theorem walk_spec (cells : Array (Cell α)) : ∀ (fuel : Nat) (s : Option Nat) (ns : List Nat), walk cells fuel s = some ns →
    s = ns[0]? ∧ ∀ (k n : Nat), ns[k]? = some n → ∃ c, cells[n]? = some c ∧ c.next = ns[k + 1]? := by
  intro fuel
  induction fuel with
  | zero =>
    intro s ns h
    cases s with
    | none => simp [walk] at h; subst h; simp
    | some p => simp [walk] at h
  | succ fuel ih =>
    intro s ns h
    cases s with
    | none => simp [walk] at h; subst h; simp
    | some p =>
      simp only [walk] at h
      cases hc : cells[p]? with
      | none => simp [hc] at h
      | some c =>
        simp only [hc] at h
        cases hw : walk cells fuel c.next with
        | none => simp [hw] at h
        | some rest =>
          simp only [hw, Option.map_some, Option.some.injEq] at h
          subst h
          obtain ⟨h1, h2⟩ := ih c.next rest hw
          refine ⟨by simp, ?_⟩
          intro k n hk
          cases k with
          | zero =>
            simp at hk; subst hk
            exact ⟨c, hc, by simpa using h1⟩
          | succ k' =>
            simp at hk
            simpa using h2 k' n hk

theorem inj_of_pointwise (cells : Array (Cell α)) (ns : List Nat)
    (hp : ∀ (k n : Nat), ns[k]? = some n → ∃ c, cells[n]? = some c ∧ c.next = ns[k + 1]?) : Inj ns := by
  have key : ∀ (a b n : Nat), ns[a]? = some n → ns[b]? = some n → ∀ d, ns[a + d]? = ns[b + d]? := by
    intro a b n ha hb d
    induction d with
    | zero => simp [ha, hb]
    | succ d ih =>
      cases hx : ns[a + d]? with
      | none =>
        have h1 : ns.length ≤ a + d := by simpa using hx
        have h2 : ns.length ≤ b + d := by rw [hx] at ih; simpa using ih.symm
        rw [List.getElem?_eq_none (by omega), List.getElem?_eq_none (by omega)]
      | some m =>
        obtain ⟨c, hc, hn⟩ := hp (a + d) m hx
        obtain ⟨c', hc', hn'⟩ := hp (b + d) m (by rw [← ih, hx])
        rw [hc] at hc'
        have : c = c' := by simpa using hc'
        subst this
        rw [Nat.add_succ, Nat.add_succ, ← hn, ← hn']
  have lt : ∀ (a b n : Nat), a < b → ns[a]? = some n → ns[b]? = some n → False := by
    intro a b n hab ha hb
    have hbl : b < ns.length := by
      rcases Nat.lt_or_ge b ns.length with h1 | h1
      · exact h1
      · simp [List.getElem?_eq_none h1] at hb
    have := key a b n ha hb (ns.length - b)
    rw [List.getElem?_eq_none (by omega : ns.length ≤ b + (ns.length - b))] at this
    have h2 : ns.length ≤ a + (ns.length - b) := by simpa using this
    omega
  intro a b n ha hb
  rcases Nat.lt_trichotomy a b with h | h | h
  · exact absurd (lt a b n h ha hb) id
  · exact h
  · exact absurd (lt b a n h hb ha) id

theorem exists_items (l : LList α) : ∀ (ns : List Nat), (∀ p ∈ ns, ∃ d, dataOf l p = some d) →
    ∃ items : List α, items.length = ns.length ∧ ∀ (k n : Nat), ns[k]? = some n → dataOf l n = items[k]? := by
  intro ns
  induction ns with
  | nil => intro _; exact ⟨[], rfl, by simp⟩
  | cons p ps ih =>
    intro h
    obtain ⟨d, hd⟩ := h p (by simp)
    obtain ⟨items, hl, hi⟩ := ih (fun q hq => h q (by simp [hq]))
    refine ⟨d :: items, by simp [hl], ?_⟩
    intro k n hk
    cases k with
    | zero => simp at hk; subst hk; simpa using hd
    | succ k' => simp at hk; simpa using hi k' n hk

theorem valid_Valid {l : LList α} (h : valid l = true) : Valid l := by
  unfold LsdList.valid at h
  cases hn : nodes l with
  | none => simp [hn] at h
  | some ns =>
    simp only [hn, Bool.and_eq_true, beq_iff_eq, List.all_eq_true, decide_eq_true_eq, Bool.not_eq_true',
      Option.isSome_iff_exists] at h
    obtain ⟨⟨⟨⟨⟨⟨hcount, htail⟩, hdata⟩, hfn⟩, hfree⟩, hkeys⟩, hplace⟩ := h
    obtain ⟨hhead, hpt⟩ := walk_spec l.cells _ _ _ hn
    have hinj := inj_of_pointwise l.cells ns hpt
    obtain ⟨items, hlen, hitems⟩ := exists_items l ns hdata
    refine ⟨ns, items, ⟨⟨hlen, hhead, ?_, hinj⟩, hcount, ?_, hfn, ?_, hkeys, ?_⟩⟩
    · intro k n hk
      obtain ⟨c, hc, hnx⟩ := hpt k n hk
      have := hitems k n hk
      simp only [LsdList.dataOf, hc] at this
      rw [hc, ← this, ← hnx]
    · rw [htail, fieldsOf_getLast]
    · intro p hp
      refine ⟨(hfree p hp).1, ?_⟩
      intro k hk
      have hm : p ∈ ns := List.mem_iff_getElem?.mpr ⟨k, hk⟩
      have := (hfree p hp).2
      rw [List.contains_iff_mem.mpr hm] at this
      exact absurd this (by simp)
    · intro ki hki
      obtain ⟨⟨j, g⟩, hjg⟩ := hplace ki hki
      unfold LsdList.iterPlace at hjg
      simp only [] at hjg
      split at hjg
      · rename_i hle
        have hlt : (fieldsOf ns).idxOf ki.2.prev < (fieldsOf ns).length := by rw [fieldsOf_length]; omega
        have hprev : ki.2.prev = fieldAt ns ((fieldsOf ns).idxOf ki.2.prev) := by
          have h1 := List.getElem_idxOf hlt
          have h2 := fieldsOf_getElem? ns _ hle
          rw [List.getElem?_eq_getElem hlt, h1] at h2
          exact Option.some.inj h2
        split at hjg
        · rename_i ht
          rw [targetsOf_getElem? ns _ hle] at ht
          refine ⟨_, false, ⟨by simpa using hle, hprev, ?_⟩⟩
          simpa using (Option.some.inj ht).symm
        · split at hjg
          · rename_i ht
            by_cases hlt2 : (fieldsOf ns).idxOf ki.2.prev + 1 ≤ ns.length
            · rw [targetsOf_getElem? ns _ hlt2] at ht
              refine ⟨_, true, ⟨by simpa using hlt2, hprev, ?_⟩⟩
              simpa using (Option.some.inj ht).symm
            · have : (targetsOf ns)[(fieldsOf ns).idxOf ki.2.prev + 1]? = none := by
                apply List.getElem?_eq_none; simp [targetsOf]; omega
              rw [this] at ht; simp at ht
          · simp at hjg
      · simp at hjg

theorem valid_iff (l : LList α) : valid l = true ↔ Valid l := ⟨valid_Valid, Valid.valid⟩

/-! ## every call, and any sequence of calls -/

/-- one call of the API on the list with cursors (`none`: an iterator handle that is not registered is used, or a handle is
    registered twice) -/
def Abs.apply (a : Abs α) : Op α → Option (Res α × Abs α)
  | .append x => some (.item (some x), a.append x)
  | .enqueue x => some (.item (some x), a.append x)
  | .prepend x => some (.item (some x), a.prepend x)
  | .push x => some (.item (some x), a.prepend x)
  | .pop => some (.item a.pop.1, a.pop.2)
  | .dequeue => some (.item a.pop.1, a.pop.2)
  | .peek => some (.item a.items[0]?, a)
  | .isEmpty => some (.flag a.items.isEmpty, a)
  | .count => some (.num a.items.length, a)
  | .findFirst f => some (.item (a.items.find? f), a)
  | .deleteAll f => (a.deleteAll f).map (fun r => (.deleted r.1 r.2.1, r.2.2))
  | .forEach f => some (.num (forEachAbs f a.items 0), a)
  | .sort cmp => some (.unit, a.sort cmp)
  | .itCreate k => if (a.curOf k).isSome then none else some (.unit, a.itCreate k)
  | .itReset k => (a.itReset k).map (.unit, ·)
  | .itDestroy k => (a.itDestroy k).map (.unit, ·)
  | .next k => (a.next k).map (fun r => (.item r.1, r.2))
  | .insert k x => (a.insert k x).map (.item (some x), ·)
  | .find k f => (a.findOp k f).map (fun r => (.item r.1, r.2))
  | .remove k => (a.remove k).map (fun r => (.item r.1, r.2))
  | .delete k => (a.delete k).map (fun r => (.deleted r.1 r.2.1, r.2.2))

/-- a sequence of calls on the list with cursors -/
def Abs.run (a : Abs α) : List (Op α) → Option (List (Res α) × Abs α)
  | [] => some ([], a)
  | op :: ops =>
    match a.apply op with
    | none => none
    | some (r, a') => (Abs.run a' ops).map (fun x => (r :: x.1, x.2))

theorem RepA.curOf_none {l : LList α} {ns : List Nat} {a : Abs α} (h : RepA l ns a) (k : Nat) (hk : iterOf l k = none) :
    a.curOf k = none := by rw [h.curOf, hk]; rfl

theorem Abs.find_none_of_curOf (f : α → Bool) (a : Abs α) (k : Nat) (h : a.curOf k = none) : ∀ fuel, Abs.find f fuel a k = none := by
  intro fuel
  cases fuel with
  | zero => rfl
  | succ fuel => simp [Abs.find, Abs.next, h]

/-- **every call refines the list with cursors**: the C function dies only where the abstract call is undefined (misuse of
    an iterator handle); otherwise it returns the abstract answer and the result stands for the abstract result -/
theorem apply_refines {l : LList α} {ns : List Nat} {a : Abs α} (h : RepA l ns a) (op : Op α) :
    (a.apply op = none → op.apply l = none) ∧
    (∀ r a', a.apply op = some (r, a') → ∃ l' ns', op.apply l = some (r, l') ∧ RepA l' ns' a') := by
  cases op with
  | append x =>
    obtain ⟨l', ns', e, hr⟩ := append_abs h x
    refine ⟨by simp [Abs.apply], ?_⟩
    intro r a' ha; simp only [Abs.apply, Option.some.injEq, Prod.mk.injEq] at ha
    rw [← ha.1, ← ha.2]; exact ⟨l', ns', by simp [Op.apply, e], hr⟩
  | enqueue x =>
    obtain ⟨l', ns', e, hr⟩ := append_abs h x
    refine ⟨by simp [Abs.apply], ?_⟩
    intro r a' ha; simp only [Abs.apply, Option.some.injEq, Prod.mk.injEq] at ha
    rw [← ha.1, ← ha.2]; have e' : enqueue l x = some l' := e
    exact ⟨l', ns', by simp [Op.apply, e'], hr⟩
  | prepend x =>
    obtain ⟨l', ns', e, hr⟩ := prepend_abs h x
    refine ⟨by simp [Abs.apply], ?_⟩
    intro r a' ha; simp only [Abs.apply, Option.some.injEq, Prod.mk.injEq] at ha
    rw [← ha.1, ← ha.2]; exact ⟨l', ns', by simp [Op.apply, e], hr⟩
  | push x =>
    obtain ⟨l', ns', e, hr⟩ := prepend_abs h x
    refine ⟨by simp [Abs.apply], ?_⟩
    intro r a' ha; simp only [Abs.apply, Option.some.injEq, Prod.mk.injEq] at ha
    rw [← ha.1, ← ha.2]; have e' : push l x = some l' := e
    exact ⟨l', ns', by simp [Op.apply, e'], hr⟩
  | pop =>
    obtain ⟨l', ns', e, hr⟩ := pop_abs h
    refine ⟨by simp [Abs.apply], ?_⟩
    intro r a' ha; simp only [Abs.apply, Option.some.injEq, Prod.mk.injEq] at ha
    rw [← ha.1, ← ha.2]; exact ⟨l', ns', by simp [Op.apply, e], hr⟩
  | dequeue =>
    obtain ⟨l', ns', e, hr⟩ := pop_abs h
    refine ⟨by simp [Abs.apply], ?_⟩
    intro r a' ha; simp only [Abs.apply, Option.some.injEq, Prod.mk.injEq] at ha
    rw [← ha.1, ← ha.2]; have e' : dequeue l = some (a.pop.1, l') := e
    exact ⟨l', ns', by simp [Op.apply, e'], hr⟩
  | peek =>
    refine ⟨by simp [Abs.apply], ?_⟩
    intro r a' ha; simp only [Abs.apply, Option.some.injEq, Prod.mk.injEq] at ha
    rw [← ha.1, ← ha.2]; exact ⟨l, ns, by simp [Op.apply, peek_abs h], h⟩
  | isEmpty =>
    refine ⟨by simp [Abs.apply], ?_⟩
    intro r a' ha; simp only [Abs.apply, Option.some.injEq, Prod.mk.injEq] at ha
    rw [← ha.1, ← ha.2]; exact ⟨l, ns, by simp [Op.apply, isEmpty_abs h], h⟩
  | count =>
    refine ⟨by simp [Abs.apply], ?_⟩
    intro r a' ha; simp only [Abs.apply, Option.some.injEq, Prod.mk.injEq] at ha
    rw [← ha.1, ← ha.2]; exact ⟨l, ns, by simp [Op.apply, count_abs h], h⟩
  | findFirst f =>
    refine ⟨by simp [Abs.apply], ?_⟩
    intro r a' ha; simp only [Abs.apply, Option.some.injEq, Prod.mk.injEq] at ha
    rw [← ha.1, ← ha.2]; exact ⟨l, ns, by simp [Op.apply, findFirst_abs h], h⟩
  | forEach f =>
    refine ⟨by simp [Abs.apply], ?_⟩
    intro r a' ha; simp only [Abs.apply, Option.some.injEq, Prod.mk.injEq] at ha
    rw [← ha.1, ← ha.2]; exact ⟨l, ns, by simp [Op.apply, forEach_abs h], h⟩
  | deleteAll f =>
    obtain ⟨l', ns', r0, a0, e1, e2, hr⟩ := deleteAll_abs h f
    refine ⟨by simp [Abs.apply, e2], ?_⟩
    intro r a' ha; simp only [Abs.apply, e2, Option.map_some, Option.some.injEq, Prod.mk.injEq] at ha
    rw [← ha.1, ← ha.2]; exact ⟨l', ns', by simp [Op.apply, e1], hr⟩
  | sort cmp =>
    obtain ⟨l', ns', e, hr⟩ := sort_abs h cmp
    refine ⟨by simp [Abs.apply], ?_⟩
    intro r a' ha; simp only [Abs.apply, Option.some.injEq, Prod.mk.injEq] at ha
    rw [← ha.1, ← ha.2]; exact ⟨l', ns', by simp [Op.apply, e], hr⟩
  | itCreate k =>
    cases hk : iterOf l k with
    | some i =>
      have : a.curOf k = some (cur ns i) := by rw [h.curOf, hk]; rfl
      simp [Abs.apply, Op.apply, hk, this]
    | none =>
      have hc := h.curOf_none k hk
      refine ⟨by simp [Abs.apply, hc], ?_⟩
      intro r a' ha; simp only [Abs.apply, hc, Option.isSome_none, Bool.false_eq_true, if_false, Option.some.injEq, Prod.mk.injEq] at ha
      rw [← ha.1, ← ha.2]; exact ⟨_, ns, by simp [Op.apply, hk], iteratorCreate_abs h k hk⟩
  | itReset k =>
    cases hk : iterOf l k with
    | some i =>
      obtain ⟨l', e1, e2, hr⟩ := iteratorReset_abs h k i hk
      refine ⟨by simp [Abs.apply, e2], ?_⟩
      intro r a' ha; simp only [Abs.apply, e2, Option.map_some, Option.some.injEq, Prod.mk.injEq] at ha
      rw [← ha.1, ← ha.2]; exact ⟨l', ns, by simp [Op.apply, e1], hr⟩
    | none =>
      have hc := h.curOf_none k hk
      simp [Abs.apply, Op.apply, Abs.itReset, hc, iteratorReset, hk]
  | itDestroy k =>
    cases hk : iterOf l k with
    | some i =>
      obtain ⟨l', a0, e1, e2, hr⟩ := iteratorDestroy_abs h k i hk
      refine ⟨by simp [Abs.apply, e2], ?_⟩
      intro r a' ha; simp only [Abs.apply, e2, Option.map_some, Option.some.injEq, Prod.mk.injEq] at ha
      rw [← ha.1, ← ha.2]; exact ⟨l', ns, by simp [Op.apply, e1], hr⟩
    | none =>
      have hc := h.curOf_none k hk
      simp [Abs.apply, Op.apply, Abs.itDestroy, hc, iteratorDestroy, hk]
  | next k =>
    cases hk : iterOf l k with
    | some i =>
      obtain ⟨l', r0, a0, e1, e2, hr⟩ := next_abs h k i hk
      refine ⟨by simp [Abs.apply, e2], ?_⟩
      intro r a' ha; simp only [Abs.apply, e2, Option.map_some, Option.some.injEq, Prod.mk.injEq] at ha
      rw [← ha.1, ← ha.2]; exact ⟨l', ns, by simp [Op.apply, e1], hr⟩
    | none =>
      have hc := h.curOf_none k hk
      simp [Abs.apply, Op.apply, Abs.next, hc, LsdList.next, hk]
  | insert k x =>
    cases hk : iterOf l k with
    | some i =>
      obtain ⟨l', ns', a0, e1, e2, hr⟩ := insert_abs h k i x hk
      refine ⟨by simp [Abs.apply, e2], ?_⟩
      intro r a' ha; simp only [Abs.apply, e2, Option.map_some, Option.some.injEq, Prod.mk.injEq] at ha
      rw [← ha.1, ← ha.2]; exact ⟨l', ns', by simp [Op.apply, e1], hr⟩
    | none =>
      have hc := h.curOf_none k hk
      simp [Abs.apply, Op.apply, Abs.insert, hc, LsdList.insert, hk]
  | find k f =>
    cases hk : iterOf l k with
    | some i =>
      obtain ⟨l', r0, a0, e1, e2, hr⟩ := findOp_abs h k f (by simp [hk])
      refine ⟨by simp [Abs.apply, e2], ?_⟩
      intro r a' ha; simp only [Abs.apply, e2, Option.map_some, Option.some.injEq, Prod.mk.injEq] at ha
      rw [← ha.1, ← ha.2]; exact ⟨l', ns, by simp [Op.apply, e1], hr⟩
    | none =>
      have hc := h.curOf_none k hk
      have h1 : LsdList.find f (l.cells.size + 2) l k = none := by simp [LsdList.find, LsdList.next, hk]
      simp [Abs.apply, Op.apply, Abs.findOp, Abs.find_none_of_curOf f a k hc, h1]
  | remove k =>
    cases hk : iterOf l k with
    | some i =>
      obtain ⟨l', ns', r0, a0, e1, e2, hr⟩ := remove_abs h k i hk
      refine ⟨by simp [Abs.apply, e2], ?_⟩
      intro r a' ha; simp only [Abs.apply, e2, Option.map_some, Option.some.injEq, Prod.mk.injEq] at ha
      rw [← ha.1, ← ha.2]; exact ⟨l', ns', by simp [Op.apply, e1], hr⟩
    | none =>
      have hc := h.curOf_none k hk
      simp [Abs.apply, Op.apply, Abs.remove, hc, LsdList.remove, hk]
  | delete k =>
    cases hk : iterOf l k with
    | some i =>
      obtain ⟨l', ns', r0, a0, e1, e2, hr⟩ := delete_abs h k i hk
      refine ⟨by simp [Abs.apply, e2], ?_⟩
      intro r a' ha; simp only [Abs.apply, e2, Option.map_some, Option.some.injEq, Prod.mk.injEq] at ha
      rw [← ha.1, ← ha.2]; exact ⟨l', ns', by simp [Op.apply, e1], hr⟩
    | none =>
      have hc := h.curOf_none k hk
      simp [Abs.apply, Op.apply, Abs.delete, Abs.remove, hc, LsdList.delete, LsdList.remove, hk]

theorem run_refines : ∀ (ops : List (Op α)) (l : LList α) (ns : List Nat) (a : Abs α), RepA l ns a →
    (a.run ops = none → run l ops = none) ∧
    (∀ rs a', a.run ops = some (rs, a') → ∃ l' ns', run l ops = some (rs, l') ∧ RepA l' ns' a') := by
  intro ops
  induction ops with
  | nil =>
    intro l ns a h
    refine ⟨by simp [Abs.run], ?_⟩
    intro rs a' e; simp only [Abs.run, Option.some.injEq, Prod.mk.injEq] at e
    rw [← e.1, ← e.2]; exact ⟨l, ns, rfl, h⟩
  | cons op ops ih =>
    intro l ns a h
    obtain ⟨h1, h2⟩ := apply_refines h op
    cases ha : a.apply op with
    | none => simp [Abs.run, run, ha, h1 ha]
    | some x =>
      obtain ⟨r, a1⟩ := x
      obtain ⟨l1, ns1, e1, hr1⟩ := h2 r a1 ha
      obtain ⟨i1, i2⟩ := ih l1 ns1 a1 hr1
      simp only [Abs.run, run, ha, e1]
      refine ⟨?_, ?_⟩
      · intro e
        have : a1.run ops = none := by simpa using e
        simp [i1 this]
      · intro rs a' e
        cases hrun : a1.run ops with
        | none => simp [hrun] at e
        | some y =>
          obtain ⟨rs1, a2⟩ := y
          simp only [hrun, Option.map_some, Option.some.injEq, Prod.mk.injEq] at e
          obtain ⟨l2, ns2, e2, hr2⟩ := i2 rs1 a2 hrun
          rw [← e.1, ← e.2]
          exact ⟨l2, ns2, by simp [e2], hr2⟩
end Pm.LsdList
