import Pm.LsdListRun
/-! # What the list with cursors does: the theorems a reader wants

On `Abs` (`Pm/LsdListAbs.lean`; the node-level model of `list.c` refines it: `Pm/LsdListRun.lean`), pure list reasoning:
what an iterator has still to return (`ahead`) under `list_next`, under insertions and removals at any place; what
`list_remove` would take (`removable`); `list_delete_all` is `filter`; `list_sort` is a permutation, sorted when the comparison
is a total preorder. -/
namespace Pm.LsdList
variable {α : Type}

theorem drop_insertIdx_lt (l : List α) (f p : Nat) (x : α) (h : f < p) : (l.insertIdx f x).drop p = l.drop (p - 1) := by
  apply List.ext_getElem?
  intro i
  simp only [List.getElem?_drop, List.getElem?_insertIdx]
  have h1 : ¬ p + i < f := by omega
  have h2 : ¬ p + i = f := by omega
  have h3 : p + i - 1 = p - 1 + i := by omega
  simp [h1, h2, h3]

theorem drop_insertIdx_ge (l : List α) (f p : Nat) (x : α) (h : p ≤ f) (hf : f ≤ l.length) :
    (l.insertIdx f x).drop p = (l.drop p).insertIdx (f - p) x := by
  apply List.ext_getElem?
  intro i
  simp only [List.getElem?_drop, List.getElem?_insertIdx, List.length_drop]
  by_cases h1 : p + i < f
  · have : i < f - p := by omega
    simp [h1, this]
  · by_cases h2 : p + i = f
    · have e : i = f - p := by omega
      have h3 : f - p ≤ l.length - p := by omega
      have h4 : ¬ f - p < f - p := by omega
      subst e
      simp [h2, hf, h3]
    · have h3 : ¬ i < f - p := by omega
      have h4 : ¬ i = f - p := by omega
      have h5 : p + i - 1 = p + (i - 1) := by omega
      simp [h1, h2, h3, h4, h5]

theorem drop_eraseIdx_lt (l : List α) (f p : Nat) (h : f < p) : (l.eraseIdx f).drop (p - 1) = l.drop p := by
  apply List.ext_getElem?
  intro i
  simp only [List.getElem?_drop, List.getElem?_eraseIdx]
  have h1 : ¬ p - 1 + i < f := by omega
  have h3 : p - 1 + i + 1 = p + i := by omega
  simp [h1, h3]

theorem drop_eraseIdx_ge (l : List α) (f p : Nat) (h : p ≤ f) : (l.eraseIdx f).drop p = (l.drop p).eraseIdx (f - p) := by
  apply List.ext_getElem?
  intro i
  simp only [List.getElem?_drop, List.getElem?_eraseIdx]
  by_cases h1 : p + i < f
  · have : i < f - p := by omega
    simp [h1, this]
  · have h2 : ¬ i < f - p := by omega
    have h3 : p + i + 1 = p + (i + 1) := by omega
    simp [h1, h2, h3]

theorem take_eraseIdx_self (l : List α) (k : Nat) : (l.eraseIdx k).take k = l.take k := by
  apply List.ext_getElem?
  intro i
  simp only [List.getElem?_take, List.getElem?_eraseIdx]
  by_cases h : i < k <;> simp [h]

/-! ## what an iterator has still to return -/

/-- the items the iterator with handle `k` has still to return, in order -/
def Abs.ahead (a : Abs α) (k : Nat) : List α :=
  match a.curOf k with
  | some c => a.items.drop (c.1 + c.2.toNat)
  | none => []

/-- the items behind the iterator (returned already, or put behind it) -/
def Abs.behind (a : Abs α) (k : Nat) : List α :=
  match a.curOf k with
  | some c => a.items.take (c.1 + c.2.toNat)
  | none => []

/-- the item `list_remove` / `list_delete` would take: the last one behind the cursor, when the cursor remembers it -/
def Abs.removable (a : Abs α) (k : Nat) : Option α :=
  match a.curOf k with
  | some c => if c.2 then a.items[c.1]? else none
  | none => none

theorem Abs.behind_append_ahead (a : Abs α) (k : Nat) (h : (a.curOf k).isSome) : a.behind k ++ a.ahead k = a.items := by
  obtain ⟨c, hc⟩ := Option.isSome_iff_exists.mp h
  simp [Abs.behind, Abs.ahead, hc]

theorem lookup_map_set_ne {β : Type} (k k' : Nat) (v : β) (hne : k' ≠ k) : ∀ (l : List (Nat × β)),
    (l.map (fun kc => if kc.1 = k then (k, v) else kc)).lookup k' = l.lookup k' := by
  intro l
  induction l with
  | nil => simp
  | cons a rest ih =>
    obtain ⟨k0, v0⟩ := a
    by_cases e : k0 = k
    · subst e
      have e1 : (k' == k0) = false := by simpa using hne
      simp only [List.map_cons, if_true, List.lookup_cons, e1, ih]
    · simp only [List.map_cons, e, if_false, List.lookup_cons, ih]

theorem Abs.curOf_setCur_ne (a : Abs α) (k k' : Nat) (c : Nat × Bool) (hne : k' ≠ k) : (a.setCur k c).curOf k' = a.curOf k' := by
  unfold Abs.curOf Abs.setCur
  exact lookup_map_set_ne k k' c hne a.curs

theorem Abs.curOf_createAt (a : Abs α) (f : Nat) (x : α) (k : Nat) : (a.createAt f x).curOf k = (a.curOf k).map (curCreate f) := by
  unfold Abs.curOf Abs.createAt
  exact lookup_map_snd (curCreate f) a.curs k

theorem Abs.curOf_destroyAt (a : Abs α) (f : Nat) (k : Nat) : (a.destroyAt f).curOf k = (a.curOf k).map (curDestroy f) := by
  unfold Abs.curOf Abs.destroyAt
  exact lookup_map_snd (curDestroy f) a.curs k

/-- **`list_next`** returns the first item the iterator has still to return (`NULL` when there is none), that item is then
    behind the iterator, the list is unchanged, and no other iterator moves. -/
theorem Abs.next_spec (a : Abs α) (k : Nat) (h : (a.curOf k).isSome) :
    ∃ a', a.next k = some ((a.ahead k).head?, a') ∧ a'.items = a.items ∧ a'.ahead k = (a.ahead k).tail ∧
      a'.removable k = (a.ahead k).head? ∧ ∀ k', k' ≠ k → a'.curOf k' = a.curOf k' := by
  obtain ⟨⟨j, g⟩, hc⟩ := Option.isSome_iff_exists.mp h
  have hcur := Abs.curOf_setCur a k (if g then j + 1 else j, decide (j + g.toNat < a.items.length)) h
  refine ⟨a.setCur k (if g then j + 1 else j, decide (j + g.toNat < a.items.length)),
    by simp [Abs.next, Abs.ahead, hc], rfl, ?_, ?_, fun k' hne => Abs.curOf_setCur_ne a k k' _ hne⟩
  · simp only [Abs.ahead, hcur, hc]
    show List.drop _ a.items = _
    by_cases hlt : j + g.toNat < a.items.length
    · have hd : decide (j + g.toNat < a.items.length) = true := by simpa using hlt
      simp only [hd, List.tail_drop]
      cases g <;> rfl
    · have hd : decide (j + g.toNat < a.items.length) = false := by simpa using hlt
      simp only [hd, List.tail_drop]
      rw [List.drop_eq_nil_of_le (by cases g <;> simp at hlt ⊢ <;> omega), List.drop_eq_nil_of_le (by omega)]
  · simp only [Abs.removable, Abs.ahead, hcur, hc]
    show (if decide (j + g.toNat < a.items.length) = true then a.items[if g = true then j + 1 else j]? else none) = _
    by_cases hlt : j + g.toNat < a.items.length
    · have hd : decide (j + g.toNat < a.items.length) = true := by simpa using hlt
      simp only [hd, if_true, List.head?_drop]
      cases g <;> rfl
    · have hd : decide (j + g.toNat < a.items.length) = false := by simpa using hlt
      simp only [hd, List.head?_drop]
      simp [List.getElem?_eq_none (Nat.le_of_not_lt hlt)]

/-- **insertion at gap `f`** (`list_append`: `f` = length, `list_prepend`: 0, `list_insert` by an iterator: that iterator's
    own gap), seen from an iterator with cursor `(j, g)`: when `f ≤ j` the new item is behind it and what it has still to
    return is unchanged; when `f > j` the new item is ahead, at its place. -/
theorem Abs.ahead_createAt (a : Abs α) (f : Nat) (x : α) (k j : Nat) (g : Bool) (hc : a.curOf k = some (j, g))
    (hf : f ≤ a.items.length) :
    (a.createAt f x).ahead k = if f ≤ j then a.ahead k else (a.ahead k).insertIdx (f - (j + g.toNat)) x := by
  have hg1 : g.toNat ≤ 1 := by cases g <;> simp
  simp only [Abs.ahead, Abs.curOf_createAt, hc, Option.map_some, curCreate]
  show List.drop _ (a.items.insertIdx f x) = _
  by_cases h : f ≤ j
  · simp only [h, if_true]
    rw [drop_insertIdx_lt _ _ _ _ (by omega)]; congr 1; omega
  · simp only [h, if_false]
    exact drop_insertIdx_ge _ _ _ _ (by omega) hf

/-- **removal of the item at index `f`** (`list_pop` / `list_dequeue`: 0, `list_remove` by an iterator, `list_delete_all`),
    seen from an iterator whose next item has index `p = j + g`: an item behind it (`f < p`) leaves what it has still to return
    unchanged; an item ahead of it disappears from there. -/
theorem Abs.ahead_destroyAt (a : Abs α) (f : Nat) (k j : Nat) (g : Bool) (hc : a.curOf k = some (j, g)) :
    (a.destroyAt f).ahead k = if f < j + g.toNat then a.ahead k else (a.ahead k).eraseIdx (f - (j + g.toNat)) := by
  have hg1 : g.toNat ≤ 1 := by cases g <;> simp
  simp only [Abs.ahead, Abs.curOf_destroyAt, hc, Option.map_some, curDestroy]
  show List.drop _ (a.items.eraseIdx f) = _
  by_cases h1 : j + g.toNat = f
  · simp only [h1, true_or, if_true]
    simpa using drop_eraseIdx_ge a.items f f (Nat.le_refl _)
  · by_cases h2 : j = f
    · subst h2
      have hg : g = true := by cases g <;> simp_all
      subst hg
      simp only [h1, or_true, if_true]
      simpa using drop_eraseIdx_lt a.items j (j + 1) (by omega)
    · simp only [h1, h2, or_self, if_false]
      by_cases h3 : f < j
      · have h4 : f < j + g.toNat := by omega
        simp only [h3, h4, if_true]
        have := drop_eraseIdx_lt a.items f (j + g.toNat) h4
        rw [← this]; congr 1; omega
      · have h4 : ¬ f < j + g.toNat := by omega
        simp only [h3, h4, if_false]
        exact drop_eraseIdx_ge _ _ _ (by omega)

/-- insertion never changes what `list_remove` would take -/
theorem Abs.removable_createAt (a : Abs α) (f : Nat) (x : α) (k : Nat) :
    (a.createAt f x).removable k = a.removable k := by
  simp only [Abs.removable, Abs.curOf_createAt]
  cases hc : a.curOf k with
  | none => rfl
  | some c =>
    obtain ⟨j, g⟩ := c
    simp only [Option.map_some, curCreate]
    cases g with
    | false => rfl
    | true =>
      show (a.items.insertIdx f x)[if f ≤ j then j + 1 else j]? = a.items[j]?
      rw [List.getElem?_insertIdx]
      by_cases h : f ≤ j
      · have h1 : ¬ j + 1 < f := by omega
        have h2 : ¬ j + 1 = f := by omega
        simp [h, h1, h2]
      · have h1 : j < f := by omega
        simp [h, h1]

/-- removal of the item at index `f` makes an iterator forget the item it returned last when that item is the one removed
    (`f = j`) — **and also when the item after it is removed** (`f = j + 1`); otherwise it is kept -/
theorem Abs.removable_destroyAt (a : Abs α) (f : Nat) (k j : Nat) (hc : a.curOf k = some (j, true)) :
    (a.destroyAt f).removable k = if f = j ∨ f = j + 1 then none else a.removable k := by
  simp only [Abs.removable, Abs.curOf_destroyAt, hc, Option.map_some, curDestroy]
  by_cases h1 : f = j
  · subst h1; simp
  · by_cases h2 : f = j + 1
    · subst h2; simp
    · have h3 : ¬ j + true.toNat = f := by simp; omega
      have h4 : ¬ j = f := fun e => h1 e.symm
      simp only [h3, h4, or_self, if_false, h1, h2]
      by_cases h5 : f < j
      · simp only [h5, if_true]
        show (a.items.eraseIdx f)[j - 1]? = a.items[j]?
        have h6 : ¬ j - 1 < f := by omega
        have h7 : j - 1 + 1 = j := by omega
        simp [List.getElem?_eraseIdx, h6, h7]
      · simp only [h5, if_false]
        show (a.items.eraseIdx f)[j]? = a.items[j]?
        have h6 : j < f := by omega
        simp [List.getElem?_eraseIdx, h6]

/-! ## `list_delete_all` on the list with cursors is `filter` -/

theorem Abs.deleteAllFrom_items (f : α → Bool) :
    ∀ (fuel : Nat) (a : Abs α) (k n : Nat) (del : List α) r, Abs.deleteAllFrom f fuel a k n del = some r →
      r.1 = n + (a.items.drop k).countP f ∧
      r.2.1 = del ++ (if a.fdel then (a.items.drop k).filter f else []) ∧
      r.2.2.items = a.items.take k ++ (a.items.drop k).filter (fun x => !f x) ∧ r.2.2.fdel = a.fdel := by
  intro fuel
  induction fuel with
  | zero => intro a k n del r h; simp [Abs.deleteAllFrom] at h
  | succ fuel ih =>
    intro a k n del r h
    rw [Abs.deleteAllFrom] at h
    cases hd : a.items[k]? with
    | none =>
      simp only [hd, Option.some.injEq] at h
      have hk : a.items.length ≤ k := by simpa using hd
      subst h
      simp [List.drop_eq_nil_of_le hk, List.take_of_length_le hk]
    | some d =>
      have hk : k < a.items.length := by
        rcases Nat.lt_or_ge k a.items.length with h1 | h1
        · exact h1
        · simp [List.getElem?_eq_none h1] at hd
      have hdk : a.items[k] = d := by simpa [List.getElem?_eq_getElem hk] using hd
      simp only [hd] at h
      rw [List.drop_eq_getElem_cons hk, hdk]
      by_cases hf : f d = true
      · simp only [hf, if_true] at h
        obtain ⟨h1, h2, h3, h4⟩ := ih _ _ _ _ _ h
        have e1 : (a.destroyAt k).items.drop k = a.items.drop (k + 1) := by
          simpa [Abs.destroyAt] using drop_eraseIdx_lt a.items k (k + 1) (by omega)
        have e2 : (a.destroyAt k).items.take k = a.items.take k := take_eraseIdx_self a.items k
        have e3 : (a.destroyAt k).fdel = a.fdel := rfl
        rw [e1] at h1 h2 h3; rw [e2] at h3; rw [e3] at h2 h4
        refine ⟨by rw [h1]; simp [hf]; omega, ?_, by rw [h3]; simp [hf], h4⟩
        rw [h2]; cases a.fdel <;> simp [hf]
      · have hf' : f d = false := by simpa using hf
        simp only [hf', Bool.false_eq_true, if_false] at h
        obtain ⟨h1, h2, h3, h4⟩ := ih _ _ _ _ _ h
        refine ⟨by rw [h1]; simp [hf'], ?_, ?_, h4⟩
        · rw [h2]; cases a.fdel <;> simp [hf']
        · rw [h3, List.take_succ_eq_append_getElem hk, hdk]; simp [hf']

/-- **`list_delete_all (l, f, key)`** removes exactly the items `f` accepts, keeps the others in order, returns their number,
    and calls the deletion function (when there is one) on exactly the removed items, in order. -/
theorem Abs.deleteAll_spec (a : Abs α) (f : α → Bool) :
    ∃ a', a.deleteAll f = some (a.items.countP f, if a.fdel then a.items.filter f else [], a') ∧
      a'.items = a.items.filter (fun x => !f x) ∧ a'.fdel = a.fdel := by
  obtain ⟨⟨n, del, a'⟩, hr⟩ := Abs.deleteAllFrom_some f (a.items.length + 1) a 0 0 [] (by omega)
  obtain ⟨h1, h2, h3, h4⟩ := Abs.deleteAllFrom_items f _ a 0 0 [] _ hr
  simp only [List.drop_zero, Nat.zero_add, List.nil_append, List.take_zero] at h1 h2 h3
  refine ⟨a', ?_, h3, h4⟩
  unfold Abs.deleteAll; rw [hr, ← h1, ← h2]

/-! ## `list_sort` on a plain list: a permutation, sorted when the comparison is a total preorder -/

theorem insBefore_perm (f : α → α → Int) (x : α) : ∀ (done : List α), (insBefore f x done).Perm (x :: done) := by
  intro done
  induction done with
  | nil => simp [insBefore]
  | cons y ys ih =>
    simp only [insBefore]
    split
    · exact (List.Perm.cons y ih).trans (List.Perm.swap x y ys)
    · exact List.Perm.refl _

theorem insLast_perm (f : α → α → Int) (x : α) (done : List α) : (insLast f x done).Perm (x :: done) := by
  unfold insLast
  split
  · split
    · exact insBefore_perm f x done
    · exact List.perm_append_comm
  · exact List.perm_append_comm

theorem sortAux_perm (f : α → α → Int) : ∀ (rest done : List α), (sortAux f done rest).Perm (done ++ rest) := by
  intro rest
  induction rest with
  | nil => intro done; simp [sortAux]
  | cons x rest ih =>
    intro done
    simp only [sortAux]
    refine (ih (insLast f x done)).trans ?_
    refine ((insLast_perm f x done).append_right rest).trans ?_
    simpa using (List.perm_middle (l₁ := done) (l₂ := rest) (a := x)).symm

/-- `list_sort` keeps exactly the items it was given — whatever the comparison function answers -/
theorem sortList_perm (f : α → α → Int) (l : List α) : (sortList f l).Perm l := by
  cases l with
  | nil => simp [sortList]
  | cons x rest => simpa [sortList] using sortAux_perm f rest [x]

/-- ascending in the sense of the comparison: no item is followed (anywhere later) by a smaller one -/
def SortedBy (f : α → α → Int) (l : List α) : Prop := l.Pairwise (fun a b => f a b ≤ 0)

theorem insBefore_sorted (f : α → α → Int) (hanti : ∀ a b, 0 ≤ f a b → f b a ≤ 0)
    (htrans : ∀ a b c, f a b ≤ 0 → f b c ≤ 0 → f a c ≤ 0) (x : α) :
    ∀ (done : List α), SortedBy f done → SortedBy f (insBefore f x done) := by
  intro done
  induction done with
  | nil => intro _; simp [insBefore, SortedBy]
  | cons y ys ih =>
    intro h
    have h' := List.pairwise_cons.mp h
    simp only [insBefore]
    split
    · rename_i hf
      refine List.pairwise_cons.mpr ⟨?_, ih h'.2⟩
      intro z hz
      rcases List.mem_cons.mp ((insBefore_perm f x ys).mem_iff.mp hz) with rfl | hz'
      · exact hanti _ _ hf
      · exact h'.1 z hz'
    · rename_i hf
      have hxy : f x y ≤ 0 := by omega
      refine List.pairwise_cons.mpr ⟨?_, h⟩
      intro z hz
      simp only [List.mem_cons] at hz
      rcases hz with rfl | hz
      · exact hxy
      · exact htrans _ _ _ hxy (h'.1 z hz)

theorem insLast_sorted (f : α → α → Int) (hanti : ∀ a b, 0 ≤ f a b → f b a ≤ 0)
    (htrans : ∀ a b c, f a b ≤ 0 → f b c ≤ 0 → f a c ≤ 0) (x : α) (done : List α) (h : SortedBy f done) :
    SortedBy f (insLast f x done) := by
  unfold insLast
  split
  · rename_i y hy
    split
    · exact insBefore_sorted f hanti htrans x done h
    · rename_i hf
      obtain ⟨init, rfl⟩ := List.getLast?_eq_some_iff.mp hy
      have h' := List.pairwise_append.mp h
      have hyx : f y x ≤ 0 := hanti _ _ (by omega)
      refine List.pairwise_append.mpr ⟨h, by simp, ?_⟩
      intro a ha b hb
      simp only [List.mem_singleton] at hb; subst hb
      simp only [List.mem_append, List.mem_singleton] at ha
      rcases ha with ha | rfl
      · exact htrans _ _ _ (h'.2.2 a ha y (by simp)) hyx
      · exact hyx
  · rename_i hn
    have : done = [] := by simpa using hn
    subst this; simp [SortedBy]

theorem sortAux_sorted (f : α → α → Int) (hanti : ∀ a b, 0 ≤ f a b → f b a ≤ 0)
    (htrans : ∀ a b c, f a b ≤ 0 → f b c ≤ 0 → f a c ≤ 0) :
    ∀ (rest done : List α), SortedBy f done → SortedBy f (sortAux f done rest) := by
  intro rest
  induction rest with
  | nil => intro done h; simpa [sortAux] using h
  | cons x rest ih => intro done h; exact ih _ (insLast_sorted f hanti htrans x done h)

/-- when the comparison is a total preorder (`x ≥ y` implies `y ≤ x`; `≤` is transitive), `list_sort` sorts -/
theorem sortList_sorted (f : α → α → Int) (hanti : ∀ a b, 0 ≤ f a b → f b a ≤ 0)
    (htrans : ∀ a b c, f a b ≤ 0 → f b c ≤ 0 → f a c ≤ 0) (l : List α) : SortedBy f (sortList f l) := by
  cases l with
  | nil => simp [sortList, SortedBy]
  | cons x rest => exact sortAux_sorted f hanti htrans rest [x] (by simp [SortedBy])
end Pm.LsdList
