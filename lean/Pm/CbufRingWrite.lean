import Pm.CbufRingGrow
/-! Refinement proof of the index-level cbuf model, part 2b (the write side): sources, the copy loop of `cbuf_writer` as
byte-wise writes, the metadata update, `cbuf_writer`, `cbuf_write`, `cbuf_write_from_fd`. -/
namespace Pm.CbufRing

/-! ### sources -/

/-- what a `getf` call does: either nothing is stored (return value `≤ 0`) and the source is as before, or the return
    value `m ≤ n` is positive, exactly the next `m` bytes of the source were stored and the source has moved on by `m` -/
theorem get_spec (g : Getter) (n : Nat) :
    ((g.get n).1 ≤ 0 ∧ (g.get n).2.1 = [] ∧ (g.get n).2.2.pending = g.pending) ∨
    (0 < (g.get n).1 ∧ (g.get n).1.toNat ≤ n ∧ (g.get n).2.1 = g.pending.take (g.get n).1.toNat ∧
      (g.get n).1.toNat ≤ g.pending.length ∧ (g.get n).2.2.pending = g.pending.drop (g.get n).1.toNat) := by
  cases g with
  | mem src =>
    simp only [Getter.get, Getter.pending]
    by_cases h0 : min n src.length = 0
    · left
      have : src.take n = [] := by
        rcases Nat.eq_zero_or_pos n with h | h
        · simp [h]
        · have : src.length = 0 := by omega
          simp [List.length_eq_zero_iff.mp this]
      refine ⟨by simp [List.length_take, h0], this, ?_⟩
      rcases Nat.eq_zero_or_pos n with h | h
      · simp [h]
      · have : src.length = 0 := by omega
        simp [List.length_eq_zero_iff.mp this]
    · right
      simp only [List.length_take, Int.toNat_natCast]
      refine ⟨by omega, by omega, ?_, by omega, ?_⟩
      · rw [List.take_eq_take_min]
      · by_cases hn : n ≤ src.length
        · rw [Nat.min_eq_left hn]
        · rw [Nat.min_eq_right (by omega), List.drop_eq_nil_of_le (by omega), List.drop_eq_nil_of_le (by omega)]
  | fd s =>
    simp only [Getter.get]
    generalize hk : min n (match s.caps with | [] => s.avail.length | c :: _ => min c s.avail.length) = k
    have hk1 : k ≤ n := by omega
    have hk2 : k ≤ s.avail.length := by
      rw [← hk]; split <;> omega
    by_cases h0 : k = 0
    · left
      simp only [h0, ↓reduceIte, Getter.pending]
      exact ⟨by split <;> omega, by trivial, by trivial⟩
    · right
      simp only [h0, ↓reduceIte, Getter.pending, Int.toNat_natCast]
      exact ⟨by omega, hk1, by trivial, hk2, by trivial⟩

/-- a descriptor stays a descriptor -/
theorem get_fd (s : Src) (n : Nat) : ∃ s', ((Getter.fd s).get n).2.2 = .fd s' := by
  simp only [Getter.get]
  generalize min n (match s.caps with | [] => s.avail.length | c :: _ => min c s.avail.length) = k
  by_cases h0 : k = 0
  · simp only [h0, ↓reduceIte]; exact ⟨_, rfl⟩
  · simp only [h0, ↓reduceIte]; exact ⟨_, rfl⟩

/-! ### the copy loop of `cbuf_writer` -/

/-- from slot `i_dst` with `nleft` bytes to go the loop stores some `d ≤ nleft` bytes, exactly the next `d` bytes of the
    source, byte after byte modulo the array length, whatever the source hands out per call -/
theorem writerLoop_spec (fuel size : Nat) (s : WLoop)
    (hl : s.data.length = size + 1) (hi : s.i_dst ≤ size) (hf : s.nleft ≤ fuel) :
    ∃ d, d ≤ s.nleft ∧ d ≤ s.g.pending.length ∧ (writerLoop fuel size s).nleft = s.nleft - d ∧
      (writerLoop fuel size s).data = pokes s.data (size + 1) s.i_dst (s.g.pending.take d) ∧
      (writerLoop fuel size s).i_dst = (s.i_dst + d) % (size + 1) ∧
      (writerLoop fuel size s).g.pending = s.g.pending.drop d ∧
      (d = 0 → (writerLoop fuel size s).m ≤ 0 ∨ (writerLoop fuel size s).m = s.m) := by
  induction fuel generalizing s with
  | zero =>
    refine ⟨0, Nat.zero_le _, Nat.zero_le _, ?_, ?_, ?_, ?_, fun _ => Or.inr rfl⟩ <;>
      simp [writerLoop, pokes, Nat.mod_eq_of_lt (Nat.lt_succ_of_le hi)]
  | succ fuel ih =>
    unfold writerLoop
    by_cases hn : s.nleft > 0
    · simp only [hn, ↓reduceIte]
      generalize hnn : min s.nleft (size + 1 - s.i_dst) = n
      have hn1 : 0 < n := by omega
      have hn2 : n ≤ s.nleft := by omega
      have hn3 : s.i_dst + n ≤ size + 1 := by omega
      have hg := get_spec s.g n
      generalize s.g.get n = gr at hg
      rcases hg with ⟨g1, g2, g3⟩ | ⟨g1, g2, g3, g4, g5⟩
      · -- nothing came: the loop ends
        have hne : (n : Int) ≠ gr.1 := by omega
        have hm0 : ¬ gr.1 > 0 := by omega
        simp only [hm0, hne, ↓reduceIte, ne_eq, not_false_eq_true, g2, blit_nil]
        refine ⟨0, Nat.zero_le _, Nat.zero_le _, rfl, ?_, ?_, ?_, fun _ => Or.inl g1⟩
        · simp [pokes]
        · simp [Nat.mod_eq_of_lt (Nat.lt_succ_of_le hi)]
        · simp [g3]
      · have hm0 : gr.1 > 0 := g1
        have hbl : gr.2.1.length = gr.1.toNat := by rw [g3, List.length_take]; omega
        have hpk : blit s.data s.i_dst gr.2.1 = pokes s.data (size + 1) s.i_dst gr.2.1 :=
          blit_eq_pokes _ _ _ _ (by omega) hl
        simp only [hm0, ↓reduceIte, hpk]
        by_cases hne : (n : Int) ≠ gr.1
        · -- a short read: the loop ends
          simp only [hne, ↓reduceIte, ne_eq, not_false_eq_true]
          exact ⟨gr.1.toNat, by omega, g4, rfl, by rw [g3], rfl, g5, fun h => by omega⟩
        · have he : (n : Int) = gr.1 := by omega
          have het : gr.1.toNat = n := by omega
          simp only [he, ne_eq, not_true_eq_false, ↓reduceIte]
          obtain ⟨d, d1, d2, d3, d4, d5, d6, _⟩ := ih
            { data := pokes s.data (size + 1) s.i_dst gr.2.1, i_dst := (s.i_dst + gr.1.toNat) % (size + 1),
              nleft := s.nleft - gr.1.toNat, m := gr.1, g := gr.2.2 }
            (by simp [hl]) (by have := Nat.mod_lt (s.i_dst + gr.1.toNat) (by omega : 0 < size + 1); simp only; omega)
            (by simp only [het]; omega)
          simp only [het, g5] at d1 d2 d3 d4 d5 d6
          simp only [List.length_drop] at d2
          refine ⟨n + d, by omega, by omega, ?_, ?_, ?_, ?_, fun h => by omega⟩
          · simp only [het]; rw [d3]; omega
          · simp only [het]; rw [d4, List.take_add, pokes_append _ _ _ _ _ (Nat.lt_succ_of_le hi), g3, het]
            congr 2
            rw [List.length_take]; omega
          · simp only [het]; rw [d5, mod_add_mod', Nat.add_assoc]
          · simp only [het]; rw [d6, List.drop_drop]
    · refine ⟨0, Nat.zero_le _, Nat.zero_le _, ?_, ?_, ?_, ?_, fun _ => Or.inr ?_⟩ <;>
        simp [hn, pokes, Nat.mod_eq_of_lt (Nat.lt_succ_of_le hi)]

/-! ### the metadata update of `cbuf_writer` -/

theorem writerUpdate_fields (r : Ring) (i n nfree : Nat) :
    (writerUpdate r i n nfree).1.size = r.size ∧ (writerUpdate r i n nfree).1.maxsize = r.maxsize ∧
    (writerUpdate r i n nfree).1.minsize = r.minsize ∧ (writerUpdate r i n nfree).1.overwrite = r.overwrite ∧
    (writerUpdate r i n nfree).1.used = min (r.used + n) r.size ∧ (writerUpdate r i n nfree).1.data = r.data ∧
    (writerUpdate r i n nfree).1.alloc = r.alloc ∧ (writerUpdate r i n nfree).1.i_in = i := by
  unfold writerUpdate
  dsimp only
  split <;> split <;> simp

/-- the free-space assertion after `n ≤ nfree` bytes were added -/
theorem upd_nfree (S i o u n : Nat) (hi : i ≤ S) (ho : o ≤ S)
    (hc : (o ≤ i ∧ u + o = i) ∨ (i < o ∧ u + o = i + (S + 1))) (c1 : n + u ≤ S) :
    S - min (u + n) S = (o + (S + 1) - (i + n) % (S + 1) - 1) % (S + 1) := by
  have hin := mod2 (i + n) (S + 1) (by omega)
  have hnf := mod2 (o + (S + 1) - (i + n) % (S + 1) - 1) (S + 1) (by omega)
  rcases hc with ⟨hc1, hc2⟩ | ⟨hc1, hc2⟩ <;> rcases hin with ⟨hi1, hi2⟩ | ⟨hi1, hi2⟩ <;>
    rw [hi2] at hnf ⊢ <;> rcases hnf with ⟨hn1, hn2⟩ | ⟨hn1, hn2⟩ <;> rw [hn2] <;> omega

/-- the replay-position assertions when the write stays clear of the replay region -/
theorem upd_rep3 (S i o p u n : Nat) (hi : i ≤ S) (ho : o ≤ S) (hp : p ≤ S)
    (hc : (o ≤ i ∧ u + o = i) ∨ (i < o ∧ u + o = i + (S + 1)))
    (r1 : o ≤ i → p > i ∨ p ≤ o) (r2 : i < o → p > i ∧ p ≤ o)
    (c2 : n + (o + (S + 1) - p) % (S + 1) + u ≤ S) :
    (o ≤ (i + n) % (S + 1) → p > (i + n) % (S + 1) ∨ p ≤ o) ∧
    ((i + n) % (S + 1) < o → p > (i + n) % (S + 1) ∧ p ≤ o) := by
  have hin := mod2 (i + n) (S + 1) (by omega)
  have hrp := mod2 (o + (S + 1) - p) (S + 1) (by omega)
  rcases hc with ⟨hc1, hc2⟩ | ⟨hc1, hc2⟩ <;> rcases hin with ⟨hi1, hi2⟩ | ⟨hi1, hi2⟩ <;>
    rcases hrp with ⟨hr1, hr2⟩ | ⟨hr1, hr2⟩ <;> rw [hi2] <;> rw [hr2] at c2 <;> omega

/-- the replay-position assertions when the write runs into the replay region: `i_rep` follows the write position -/
theorem upd_rep2 (S i o u n : Nat) (hi : i ≤ S) (ho : o ≤ S) (hn : 0 < n)
    (hc : (o ≤ i ∧ u + o = i) ∨ (i < o ∧ u + o = i + (S + 1))) (c1 : n + u ≤ S) :
    ((i + n) % (S + 1) + 1) % (S + 1) ≤ S ∧
    (o ≤ (i + n) % (S + 1) → ((i + n) % (S + 1) + 1) % (S + 1) > (i + n) % (S + 1) ∨ ((i + n) % (S + 1) + 1) % (S + 1) ≤ o) ∧
    ((i + n) % (S + 1) < o → ((i + n) % (S + 1) + 1) % (S + 1) > (i + n) % (S + 1) ∧ ((i + n) % (S + 1) + 1) % (S + 1) ≤ o) := by
  have hin := mod2 (i + n) (S + 1) (by omega)
  have hx := mod2 ((i + n) % (S + 1) + 1) (S + 1) (by omega)
  rcases hc with ⟨hc1, hc2⟩ | ⟨hc1, hc2⟩ <;> rcases hin with ⟨hi1, hi2⟩ | ⟨hi1, hi2⟩ <;>
    rw [hi2] at hx ⊢ <;> rcases hx with ⟨hx1, hx2⟩ | ⟨hx1, hx2⟩ <;> rw [hx2] <;> omega

/-- everything after a write that overwrites unread bytes: `i_out = i_rep = X + 1` -/
theorem upd_full (S X : Nat) (hX : X ≤ S) (hS : 0 < S) :
    (X + 1) % (S + 1) ≤ S ∧
    ((X + 1) % (S + 1) ≤ X → (X + 1) % (S + 1) > X ∨ (X + 1) % (S + 1) ≤ (X + 1) % (S + 1)) ∧
    (X < (X + 1) % (S + 1) → (X + 1) % (S + 1) > X ∧ (X + 1) % (S + 1) ≤ (X + 1) % (S + 1)) ∧
    S - S = ((X + 1) % (S + 1) + (S + 1) - X - 1) % (S + 1) := by
  have hx := mod2 (X + 1) (S + 1) (by omega)
  rcases hx with ⟨hx1, hx2⟩ | ⟨hx1, hx2⟩ <;> rw [hx2]
  · have := mod2 (X + 1 + (S + 1) - X - 1) (S + 1) (by omega); omega
  · have := mod2 (X + 1 - (S + 1) + (S + 1) - X - 1) (S + 1) (by omega); omega

/-- the index part of the update: the ring stays valid -/
theorem writerUpdate_valid (r : Ring) (n : Nat) (data' : List UInt8) (h : ValidP r) (hn : 0 < n)
    (hl : data'.length = r.size + 1) :
    ValidP (writerUpdate { r with data := data' } ((r.i_in + n) % (r.size + 1)) n (r.size - r.used)).1 := by
  have ⟨h1, h2, h5, h6, h7, h8, h9, h10, h11, h12, h13, h14, h15, h16⟩ := h
  have hc := h.used_cases
  have hX : (r.i_in + n) % (r.size + 1) ≤ r.size := Nat.le_of_lt_succ (Nat.mod_lt _ (by omega))
  unfold writerUpdate
  dsimp only
  by_cases c1 : n > r.size - r.used
  · -- unread bytes are overwritten: i_out and i_rep follow the write position
    have c2 : n + (r.i_out + (r.size + 1) - r.i_rep) % (r.size + 1) > r.size - r.used := by omega
    simp only [c1, c2, ↓reduceIte]
    obtain ⟨f1, f2, f3, f4⟩ := upd_full r.size ((r.i_in + n) % (r.size + 1)) hX h5
    have hmin : min (r.used + n) r.size = r.size := by omega
    exact ⟨hl, h2, h5, h6, h7, h8, by dsimp only; omega, Or.inl rfl, hX, f1, f1, f2, f3, by dsimp only; rw [hmin]; exact f4⟩
  · by_cases c2 : n + (r.i_out + (r.size + 1) - r.i_rep) % (r.size + 1) > r.size - r.used
    · -- only replay data is overwritten: i_rep follows the write position
      simp only [c1, c2, ↓reduceIte]
      obtain ⟨f1, f2, f3⟩ := upd_rep2 r.size r.i_in r.i_out r.used n h11 h12 hn hc (by omega)
      exact ⟨hl, h2, h5, h6, h7, h8, by dsimp only; omega, Or.inl rfl, hX, h12, f1, f2, f3,
        upd_nfree r.size r.i_in r.i_out r.used n h11 h12 hc (by omega)⟩
    · simp only [c1, c2, ↓reduceIte]
      obtain ⟨f2, f3⟩ := upd_rep3 r.size r.i_in r.i_out r.i_rep r.used n h11 h12 h13 hc h14 h15 (by omega)
      exact ⟨hl, h2, h5, h6, h7, h8, by dsimp only; omega, h10, hX, h12, h13, f2, f3,
        upd_nfree r.size r.i_in r.i_out r.used n h11 h12 hc (by omega)⟩

theorem writerUpdate_i_out (r : Ring) (i n nfree : Nat) :
    (writerUpdate r i n nfree).1.i_out = if n > nfree then (i + 1) % (r.size + 1) else r.i_out := by
  unfold writerUpdate
  dsimp only
  by_cases c1 : n > nfree
  · have c2 : n + (r.i_out + (r.size + 1) - r.i_rep) % (r.size + 1) > nfree := by omega
    simp only [c1, c2, ↓reduceIte]
  · simp only [c1, ↓reduceIte]
    split <;> rfl

theorem writerUpdate_ok (r : Ring) (n nfree : Nat) :
    (writerUpdate r ((r.i_in + n) % (r.size + 1)) n nfree).2 = true := by
  simp [writerUpdate]

/-- the update after the bytes `bs` were stored byte-wise from `i_in`: what is unread afterwards is the old unread bytes
    followed by `bs`, minus as many of the oldest as do not fit into `size` -/
theorem writerUpdate_contents (r : Ring) (bs : List UInt8) (h : ValidP r) (hn : 0 < bs.length) :
    (writerUpdate { r with data := pokes r.data (r.size + 1) r.i_in bs } ((r.i_in + bs.length) % (r.size + 1)) bs.length
        (r.size - r.used)).1.contents =
      (r.contents ++ bs).drop (r.used + bs.length - min (r.used + bs.length) r.size) := by
  have hv := writerUpdate_valid r bs.length (pokes r.data (r.size + 1) r.i_in bs) h hn (by simp [h.len])
  have hf := writerUpdate_fields { r with data := pokes r.data (r.size + 1) r.i_in bs } ((r.i_in + bs.length) % (r.size + 1))
    bs.length (r.size - r.used)
  have ho := writerUpdate_i_out { r with data := pokes r.data (r.size + 1) r.i_in bs } ((r.i_in + bs.length) % (r.size + 1))
    bs.length (r.size - r.used)
  rw [hv.contents_eq, hf.1, hf.2.2.2.2.1, hf.2.2.2.2.2.1, ho]
  dsimp only
  have hinv : AR.Inv (r.size + 1) ⟨r.data, r.i_out, r.used⟩ :=
    ⟨h.len, Nat.lt_succ_of_le h.out_le, by simp; exact h.used_le, by have := h.size_pos; omega⟩
  obtain ⟨s1, s2, s3, s4, s5, s6⟩ := AR.steps_spec (r.size + 1) ⟨r.data, r.i_out, r.used⟩ bs hinv
  simp only [AR.cont, Nat.add_sub_cancel] at s2 s3 s4 s5 s6
  rw [← h.in_eq] at s4 s5
  rw [← h.contents_eq] at s2
  rw [← s2, s4, s3]
  congr 1
  by_cases c1 : bs.length > r.size - r.used
  · simp only [c1, ↓reduceIte]
    have hu : (AR.steps (r.size + 1) ⟨r.data, r.i_out, r.used⟩ bs).u = r.size := by rw [s3]; have := h.used_le; omega
    rw [hu] at s5
    have ho1 := s1.o_lt
    generalize (AR.steps (r.size + 1) ⟨r.data, r.i_out, r.used⟩ bs).o = o' at s5 ho1
    have hX : (r.i_in + bs.length) % (r.size + 1) < r.size + 1 := Nat.mod_lt _ (by omega)
    generalize (r.i_in + bs.length) % (r.size + 1) = X at s5 hX
    have m1 := mod2 (o' + r.size) (r.size + 1) (by omega)
    have m2 := mod2 (X + 1) (r.size + 1) (by omega)
    omega
  · simp only [c1, ↓reduceIte]
    exact (s6 (by have := h.used_le; omega)).symm

/-! ### `cbuf_writer` -/

/-- the size after the "attempt to grow" step of `cbuf_writer` asked for `len` bytes -/
def sizeAfter (r : Ring) (len : Nat) : Nat :=
  if len > r.size - r.used ∧ r.size < r.maxsize then grownSize r (len - (r.size - r.used)) else r.size

/-- the growth step of `cbuf_writer` -/
def growStep (r : Ring) (len : Nat) : Ring × Nat × Bool :=
  if len > r.size - r.used ∧ r.size < r.maxsize then grow r (len - (r.size - r.used)) else (r, 0, true)

/-- `cbuf_writer` after the growth step -/
def writerTail (r1 : Ring) (nfree : Nat) (ok : Bool) (len : Nat) (g : Getter) : WOut :=
  match clipLen r1 len with
  | none => { rc := -1, ndropped := 0, ring := r1, g := g, ok := ok }
  | some len =>
    let s := writerLoop len r1.size { data := r1.data, i_dst := r1.i_in, nleft := len, m := 0, g := g }
    if len - s.nleft = 0 then
      { rc := s.m, ndropped := 0, ring := { r1 with data := s.data }, g := s.g, ok := ok && decide (s.nleft ≤ len) }
    else
      { rc := ((len - s.nleft : Nat) : Int), ndropped := len - s.nleft - nfree,
        ring := (writerUpdate { r1 with data := s.data } s.i_dst (len - s.nleft) nfree).1, g := s.g,
        ok := ok && decide (s.nleft ≤ len) && (writerUpdate { r1 with data := s.data } s.i_dst (len - s.nleft) nfree).2 }

theorem writer_eq (r : Ring) (len : Nat) (g : Getter) :
    writer r len g =
      writerTail (growStep r len).1 (r.size - r.used + (growStep r len).2.1) (decide (len > 0) && (growStep r len).2.2) len g := by
  unfold writer writerTail growStep
  rfl

theorem growStep_spec (r : Ring) (len : Nat) (h : ValidP r) :
    ValidP (growStep r len).1 ∧ (growStep r len).2.2 = true ∧ (growStep r len).1.contents = r.contents ∧
    (growStep r len).1.size = sizeAfter r len ∧
    r.size - r.used + (growStep r len).2.1 = (growStep r len).1.size - (growStep r len).1.used ∧
    (growStep r len).1.used = r.used ∧ (growStep r len).1.maxsize = r.maxsize ∧ (growStep r len).1.minsize = r.minsize ∧
    (growStep r len).1.overwrite = r.overwrite ∧ r.size ≤ sizeAfter r len ∧ sizeAfter r len ≤ r.maxsize := by
  unfold growStep sizeAfter
  by_cases c : len > r.size - r.used ∧ r.size < r.maxsize
  · rw [if_pos c, if_pos c]
    have hg := grow_spec r (len - (r.size - r.used)) h (by omega)
    have hb := grownSize_bounds r (len - (r.size - r.used)) h (by omega) (by omega)
    obtain ⟨g1, g2, g3, g4, g5, g6, g7, g8, g9, _⟩ := hg
    have := h.used_le
    exact ⟨g1, g2, g3, g4, by rw [g5, g4, g6]; omega, g6, g7, g8, g9, by omega, hb.2⟩
  · rw [if_neg c, if_neg c]
    exact ⟨h, rfl, rfl, rfl, rfl, rfl, rfl, rfl, rfl, Nat.le_refl _, h.le_max⟩

/-- what `cbuf_writer` does to a valid ring that has already been grown (`nfree = size - used`) -/
theorem writerTail_spec (r1 : Ring) (len : Nat) (g : Getter) (h : ValidP r1) :
    ValidP (writerTail r1 (r1.size - r1.used) true len g).ring ∧
    (writerTail r1 (r1.size - r1.used) true len g).ok = true ∧
    (writerTail r1 (r1.size - r1.used) true len g).ring.size = r1.size ∧
    (writerTail r1 (r1.size - r1.used) true len g).ring.maxsize = r1.maxsize ∧
    (writerTail r1 (r1.size - r1.used) true len g).ring.minsize = r1.minsize ∧
    (writerTail r1 (r1.size - r1.used) true len g).ring.overwrite = r1.overwrite ∧
    ((writerTail r1 (r1.size - r1.used) true len g).rc ≤ 0 →
      (writerTail r1 (r1.size - r1.used) true len g).ring = r1 ∧
      (writerTail r1 (r1.size - r1.used) true len g).g.pending = g.pending ∧
      (writerTail r1 (r1.size - r1.used) true len g).ndropped = 0) ∧
    (0 < (writerTail r1 (r1.size - r1.used) true len g).rc →
      ∃ n, (writerTail r1 (r1.size - r1.used) true len g).rc = (n : Nat) ∧ 0 < n ∧ n ≤ len ∧ n ≤ g.pending.length ∧
        clipLen r1 len ≠ none ∧ n ≤ (clipLen r1 len).getD 0 ∧
        (writerTail r1 (r1.size - r1.used) true len g).ring.contents =
          (r1.contents ++ g.pending.take n).drop (r1.used + n - min (r1.used + n) r1.size) ∧
        (writerTail r1 (r1.size - r1.used) true len g).g.pending = g.pending.drop n ∧
        (writerTail r1 (r1.size - r1.used) true len g).ndropped = r1.used + n - r1.size ∧
        (writerTail r1 (r1.size - r1.used) true len g).ring.used = min (r1.used + n) r1.size) := by
  unfold writerTail
  cases hcl : clipLen r1 len with
  | none =>
    dsimp only
    exact ⟨h, rfl, rfl, rfl, rfl, rfl, fun _ => ⟨rfl, rfl, rfl⟩, fun hh => by omega⟩
  | some l =>
    dsimp only
    have hll : l ≤ len := by
      unfold clipLen at hcl
      split at hcl
      · dsimp only at hcl; split at hcl
        · cases hcl
        · injection hcl with hcl; omega
      · injection hcl with hcl; omega
      · injection hcl with hcl; omega
    obtain ⟨d, d1, d2, d3, d4, d5, d6, d7⟩ := writerLoop_spec l r1.size
      { data := r1.data, i_dst := r1.i_in, nleft := l, m := 0, g := g } h.len h.in_le (Nat.le_refl _)
    dsimp only at d1 d2 d3 d4 d5 d6 d7
    generalize writerLoop l r1.size { data := r1.data, i_dst := r1.i_in, nleft := l, m := 0, g := g } = s at d3 d4 d5 d6 d7
    have hn : l - s.nleft = d := by omega
    rw [hn]
    by_cases hd0 : d = 0
    · rw [if_pos hd0]
      dsimp only
      subst hd0
      have hdata : s.data = r1.data := by rw [d4]; simp [pokes]
      have hm : s.m ≤ 0 := by rcases d7 rfl with h1 | h1 <;> omega
      rw [hdata]
      refine ⟨h, by simp; omega, rfl, rfl, rfl, rfl, fun _ => ⟨rfl, by rw [d6]; simp, rfl⟩, fun hh => by omega⟩
    · rw [if_neg hd0]
      dsimp only
      have hlen : (g.pending.take d).length = d := by rw [List.length_take]; omega
      have hdpos : 0 < d := by omega
      rw [d4, d5]
      have hi : (r1.i_in + d) % (r1.size + 1) = (r1.i_in + (g.pending.take d).length) % (r1.size + 1) := by rw [hlen]
      have hv := writerUpdate_valid r1 d (pokes r1.data (r1.size + 1) r1.i_in (g.pending.take d)) h hdpos (by simp [h.len])
      have hf := writerUpdate_fields { r1 with data := pokes r1.data (r1.size + 1) r1.i_in (g.pending.take d) }
        ((r1.i_in + d) % (r1.size + 1)) d (r1.size - r1.used)
      have hc := writerUpdate_contents r1 (g.pending.take d) h (by omega)
      rw [hlen] at hc
      have hok := writerUpdate_ok { r1 with data := pokes r1.data (r1.size + 1) r1.i_in (g.pending.take d) } d (r1.size - r1.used)
      refine ⟨hv, ?_, hf.1, hf.2.1, hf.2.2.1, hf.2.2.2.1, fun hh => by omega,
        fun _ => ⟨d, rfl, hdpos, by omega, d2, by simp, by simp; omega, hc, d6, ?_, hf.2.2.2.2.1⟩⟩
      · dsimp only at hok
        simp only [hok, Bool.and_true, Bool.true_and, decide_eq_true_eq]; omega
      · have := h.used_le; omega

/-- "compute number of bytes to write" as a function of the overwrite mode, the size, the fill level and the request -/
def clipOf (o : Ovw) (size used len : Nat) : Option Nat :=
  match o with
  | .noDrop => if min len (size - used) = 0 then none else some (min len (size - used))
  | .wrapOnce => some (min len size)
  | .wrapMany => some len

theorem clipLen_eq (r : Ring) (len : Nat) : clipLen r len = clipOf r.overwrite r.size r.used len := by
  unfold clipLen clipOf; rfl

/-- `cbuf_writer (dst, len, getf, src, &ndropped)` on a valid ring with `len > 0`, any source.
    The ring stays valid, no assertion fires; the size afterwards is `sizeAfter` (the buffer grows *before* anything is
    read, whatever the source then delivers); limits and mode do not change.
    Return value `≤ 0` (source empty / error, or `ENOSPC` in mode `NO_DROP`): the unread bytes, the source and the fill
    level are as before and nothing is reported dropped.
    Return value `n > 0`: `n` is at most the request as clipped by the overwrite mode, exactly the next `n` bytes of the
    source were consumed, the unread bytes are the old ones followed by these `n`, minus as many of the *oldest* as do not
    fit into the new size, and that number is what is reported as dropped. -/
theorem writer_spec (r : Ring) (len : Nat) (g : Getter) (h : ValidP r) (hl : 0 < len) :
    ValidP (writer r len g).ring ∧ (writer r len g).ok = true ∧
    (writer r len g).ring.size = sizeAfter r len ∧ (writer r len g).ring.maxsize = r.maxsize ∧
    (writer r len g).ring.minsize = r.minsize ∧ (writer r len g).ring.overwrite = r.overwrite ∧
    ((writer r len g).rc ≤ 0 →
      (writer r len g).ring.contents = r.contents ∧ (writer r len g).g.pending = g.pending ∧
      (writer r len g).ndropped = 0 ∧ (writer r len g).ring.used = r.used) ∧
    (0 < (writer r len g).rc →
      ∃ n, (writer r len g).rc = (n : Nat) ∧ 0 < n ∧ n ≤ len ∧ n ≤ g.pending.length ∧
        clipOf r.overwrite (sizeAfter r len) r.used len ≠ none ∧
        n ≤ (clipOf r.overwrite (sizeAfter r len) r.used len).getD 0 ∧
        (writer r len g).ring.contents =
          (r.contents ++ g.pending.take n).drop (r.used + n - min (r.used + n) (sizeAfter r len)) ∧
        (writer r len g).g.pending = g.pending.drop n ∧
        (writer r len g).ndropped = r.used + n - sizeAfter r len ∧
        (writer r len g).ring.used = min (r.used + n) (sizeAfter r len)) := by
  rw [writer_eq]
  obtain ⟨g1, g2, g3, g4, g5, g6, g7, g8, g9, _, _⟩ := growStep_spec r len h
  rw [g5, g2]
  simp only [hl, decide_true, Bool.and_self]
  have ht := writerTail_spec (growStep r len).1 len g g1
  generalize growStep r len = gs at g1 g2 g3 g4 g5 g6 g7 g8 g9 ht
  generalize writerTail gs.1 (gs.1.size - gs.1.used) true len g = w at ht
  obtain ⟨t1, t2, t3, t4, t5, t6, t7, t8⟩ := ht
  refine ⟨t1, t2, by rw [t3, g4], by rw [t4, g7], by rw [t5, g8], by rw [t6, g9], fun hh => ?_, fun hh => ?_⟩
  · obtain ⟨u1, u2, u3⟩ := t7 hh
    rw [u1]
    exact ⟨g3, u2, u3, g6⟩
  · obtain ⟨n, n1, n2, n3, n4, n5, n6, n7, n8, n9, n10⟩ := t8 hh
    rw [clipLen_eq, g9, g4, g6] at n5 n6
    rw [g3, g6, g4] at n7
    rw [g6, g4] at n9 n10
    exact ⟨n, n1, n2, n3, n4, n5, n6, n7, n8, n9, n10⟩

/-! ### sources that never answer short: memory, and a descriptor without scripted short reads -/

def Getter.full : Getter → Prop
  | .mem _ => True
  | .fd s => s.caps = []

theorem get_full (g : Getter) (n : Nat) (hg : g.full) :
    (g.get n).2.2.full ∧
    (((g.get n).1 ≤ 0 ∧ min n g.pending.length = 0) ∨ ((g.get n).1 = (min n g.pending.length : Nat) ∧ 0 < min n g.pending.length)) := by
  cases g with
  | mem src =>
    simp only [Getter.get, Getter.pending, Getter.full, List.length_take, true_and]
    by_cases h0 : min n src.length = 0
    · left; exact ⟨by omega, h0⟩
    · right; first | exact ⟨rfl, Nat.pos_of_ne_zero h0⟩ | exact Nat.pos_of_ne_zero h0
  | fd s =>
    simp only [Getter.full] at hg
    simp only [Getter.get, hg, Getter.pending]
    by_cases h0 : min n s.avail.length = 0
    · simp only [h0, ↓reduceIte, Getter.full, List.tail_nil, true_and]
      left; exact ⟨by split <;> omega, trivial⟩
    · simp only [h0, ↓reduceIte, Getter.full, List.tail_nil, true_and]
      right; first | exact ⟨trivial, Nat.pos_of_ne_zero h0⟩ | exact Nat.pos_of_ne_zero h0

/-- with such a source the loop stops only when the request is met or the source is empty -/
theorem writerLoop_full (fuel size : Nat) (s : WLoop) (hi : s.i_dst ≤ size) (hf : s.nleft ≤ fuel) (hg : s.g.full) :
    (writerLoop fuel size s).nleft = s.nleft - min s.nleft s.g.pending.length := by
  induction fuel generalizing s with
  | zero => simp [writerLoop]; omega
  | succ fuel ih =>
    unfold writerLoop
    by_cases hn : s.nleft > 0
    · simp only [hn, ↓reduceIte]
      generalize hnn : min s.nleft (size + 1 - s.i_dst) = n
      have hn1 : 0 < n := by omega
      have hn2 : n ≤ s.nleft := by omega
      have hgf := get_full s.g n hg
      have hgs := get_spec s.g n
      generalize s.g.get n = gr at hgf hgs
      obtain ⟨f1, f2⟩ := hgf
      rcases f2 with ⟨f2, f3⟩ | ⟨f2, f3⟩
      · have hne : (n : Int) ≠ gr.1 := by omega
        have hm0 : ¬ gr.1 > 0 := by omega
        simp only [hm0, hne, ↓reduceIte, ne_eq, not_false_eq_true]
        omega
      · have hm0 : gr.1 > 0 := by omega
        simp only [hm0, ↓reduceIte]
        by_cases hne : (n : Int) ≠ gr.1
        · simp only [hne, ↓reduceIte, ne_eq, not_false_eq_true]
          omega
        · have he : (n : Int) = gr.1 := by omega
          simp only [he, ne_eq, not_true_eq_false, ↓reduceIte]
          rcases hgs with ⟨g1, _, _⟩ | ⟨g1, g2, g3, g4, g5⟩
          · omega
          · rw [ih _ (by have := Nat.mod_lt (s.i_dst + gr.1.toNat) (by omega : 0 < size + 1); simp only; omega)
              (by simp only; omega) f1]
            simp only [g5, List.length_drop]
            omega
    · simp only [hn, ↓reduceIte]; omega

/-- with such a source `cbuf_writer` stores the clipped request or everything the source has, whichever is less; the
    return value is `≤ 0` exactly when that is nothing -/
theorem writer_full (r : Ring) (len : Nat) (g : Getter) (h : ValidP r) (hl : 0 < len) (hg : g.full) (l : Nat)
    (hc : clipOf r.overwrite (sizeAfter r len) r.used len = some l) :
    (0 < min l g.pending.length → (writer r len g).rc = (min l g.pending.length : Nat)) ∧
    (min l g.pending.length = 0 → (writer r len g).rc ≤ 0) := by
  rw [writer_eq]
  obtain ⟨g1, g2, g3, g4, g5, g6, g7, g8, g9, _, _⟩ := growStep_spec r len h
  rw [← g9, ← g4, ← g6, ← clipLen_eq] at hc
  generalize growStep r len = gs at g1 hc
  generalize r.size - r.used + gs.2.1 = nfree
  generalize (decide (len > 0) && gs.2.2) = ok
  unfold writerTail
  rw [hc]
  dsimp only
  have hfull := writerLoop_full l gs.1.size { data := gs.1.data, i_dst := gs.1.i_in, nleft := l, m := 0, g := g }
    g1.in_le (Nat.le_refl _) hg
  obtain ⟨d, d1, d2, d3, d4, d5, d6, d7⟩ := writerLoop_spec l gs.1.size
      { data := gs.1.data, i_dst := gs.1.i_in, nleft := l, m := 0, g := g } g1.len g1.in_le (Nat.le_refl _)
  dsimp only at hfull d1 d2 d3 d7
  generalize writerLoop l gs.1.size { data := gs.1.data, i_dst := gs.1.i_in, nleft := l, m := 0, g := g } = s at hfull d3 d7
  have hn : l - s.nleft = min l g.pending.length := by omega
  rw [hn]
  constructor
  · intro hp
    rw [if_neg (by omega)]
  · intro hz
    rw [if_pos hz]
    dsimp only
    rcases d7 (by omega) with h1 | h1 <;> omega

theorem writer_enospc (r : Ring) (len : Nat) (g : Getter)
    (hc : clipLen (growStep r len).1 len = none) : (writer r len g).rc = -1 := by
  rw [writer_eq]
  unfold writerTail
  rw [hc]

theorem clipOf_pos (o : Ovw) (size used len l : Nat) (hs : 0 < size) (hl : 0 < len) (h : clipOf o size used len = some l) :
    0 < l ∧ l ≤ len := by
  unfold clipOf at h
  cases o with
  | noDrop => dsimp only at h; split at h; cases h; injection h with h; omega
  | wrapOnce => dsimp only at h; injection h with h; omega
  | wrapMany => dsimp only at h; injection h with h; omega

/-! ### `cbuf_write` -/

/-- `cbuf_write (dst, srcbuf, len, &ndropped)` on a valid ring, for every byte string and every overwrite mode.
    The ring stays valid and no assertion fires; the buffer first grows to `sizeAfter` (= `Pm.Cbuf.growTo`, capped at
    `maxsize`).  With `l` the length as clipped by the mode (`WRAP_MANY`: all of it; `WRAP_ONCE`: at most `size`;
    `NO_DROP`: at most the free space — and -1/`ENOSPC` if that is nothing), exactly the first `l` bytes are appended to
    the unread bytes, after which the oldest `used + l - size` of them are gone, and that number is reported. -/
theorem write_spec (r : Ring) (src : List UInt8) (h : ValidP r) :
    ValidP (write r src).ring ∧ (write r src).ok = true ∧
    (write r src).ring.size = sizeAfter r src.length ∧ (write r src).ring.maxsize = r.maxsize ∧
    (write r src).ring.minsize = r.minsize ∧ (write r src).ring.overwrite = r.overwrite ∧
    (src ≠ [] → clipOf r.overwrite (sizeAfter r src.length) r.used src.length = none →
      (write r src).rc = -1 ∧ (write r src).ring.contents = r.contents ∧ (write r src).ndropped = 0) ∧
    (∀ l, clipOf r.overwrite (sizeAfter r src.length) r.used src.length = some l →
      (write r src).rc = (l : Nat) ∧
      (write r src).ring.contents =
        (r.contents ++ src.take l).drop (r.used + l - min (r.used + l) (sizeAfter r src.length)) ∧
      (write r src).ndropped = r.used + l - sizeAfter r src.length ∧
      (write r src).ring.used = min (r.used + l) (sizeAfter r src.length)) := by
  have hv := (valid_iff r).mpr h
  unfold write
  by_cases h0 : src.length = 0
  · rw [if_pos h0]
    have hnil : src = [] := List.length_eq_zero_iff.mp h0
    have hsz : sizeAfter r src.length = r.size := by unfold sizeAfter; rw [h0]; simp
    dsimp only
    refine ⟨h, rfl, hsz.symm, rfl, rfl, rfl, fun hh => absurd hnil hh, fun l hl => ?_⟩
    have hl0 : l = 0 := by
      unfold clipOf at hl
      rw [h0] at hl
      cases ho : r.overwrite <;> rw [ho] at hl <;> simp at hl <;> omega
    subst hl0
    have := h.used_le
    rw [hsz]
    refine ⟨rfl, ?_, by omega, by omega⟩
    have : r.used - min r.used r.size = 0 := by omega
    simp [this]
  · rw [if_neg h0]
    dsimp only
    have hl : 0 < src.length := by omega
    obtain ⟨w1, w2, w3, w4, w5, w6, w7, w8⟩ := writer_spec r src.length (.mem src) h hl
    refine ⟨w1, by simp [hv, w2, (valid_iff _).mpr w1], w3, w4, w5, w6, fun _ hc => ?_, fun l hc => ?_⟩
    · have hrc : (writer r src.length (.mem src)).rc = -1 := by
        apply writer_enospc
        obtain ⟨g1, g2, g3, g4, g5, g6, g7, g8, g9, _, _⟩ := growStep_spec r src.length h
        rw [clipLen_eq, g9, g4, g6]; exact hc
      obtain ⟨u1, u2, u3, u4⟩ := w7 (by omega)
      exact ⟨hrc, u1, u3⟩
    · have hsp := (growStep_spec r src.length h)
      have hpos := clipOf_pos _ _ _ _ _ (by have := h.size_pos; omega) hl hc
      have hf := (writer_full r src.length (.mem src) h hl trivial l hc).1
      simp only [Getter.pending] at hf
      have hmin : min l src.length = l := by omega
      rw [hmin] at hf
      have hrc := hf hpos.1
      obtain ⟨n, n1, n2, n3, n4, n5, n6, n7, n8, n9, n10⟩ := w8 (by omega)
      have hnl : n = l := by omega
      subst hnl
      simp only [Getter.pending] at n7
      exact ⟨hrc, n7, n9, n10⟩

/-! ### `cbuf_write_from_fd` -/

/-- the number of bytes `cbuf_write_from_fd` asks the descriptor for: the free space, a chunk when there is none (`len`
    = -1), or `len` -/
def fdLen (r : Ring) (len : Int) : Nat :=
  if len = -1 then (if r.size - r.used = 0 then chunk else r.size - r.used) else len.toNat

theorem writer_fd (r : Ring) (len : Nat) (s : Src) : ∃ s', (writer r len (.fd s)).g = .fd s' := by
  rw [writer_eq]
  unfold writerTail
  split
  · exact ⟨s, rfl⟩
  · rename_i l _
    have key : ∀ (fuel size : Nat) (st : WLoop), (∃ s0, st.g = .fd s0) → ∃ s', (writerLoop fuel size st).g = .fd s' := by
      intro fuel
      induction fuel with
      | zero => intro size st hs; simpa [writerLoop] using hs
      | succ fuel ih =>
        intro size st hs
        obtain ⟨s0, hs0⟩ := hs
        unfold writerLoop
        by_cases hn : st.nleft > 0
        · simp only [hn, ↓reduceIte]
          obtain ⟨s1, hs1⟩ := get_fd s0 (min st.nleft (size + 1 - st.i_dst))
          rw [← hs0] at hs1
          split
          · split <;> exact ⟨s1, hs1⟩
          · apply ih
            split <;> exact ⟨s1, hs1⟩
        · simp only [hn, ↓reduceIte]; exact ⟨s0, hs0⟩
    obtain ⟨s', hs'⟩ := key l (growStep r len).1.size
      { data := (growStep r len).1.data, i_dst := (growStep r len).1.i_in, nleft := l, m := 0, g := .fd s } ⟨s, rfl⟩
    dsimp only
    split <;> exact ⟨s', hs'⟩

/-- `cbuf_write_from_fd (dst, fd, len, &ndropped)` on a valid ring, whatever the descriptor hands out per `read` call
    (short reads, `EAGAIN`, end of file).  The ring stays valid, no assertion fires; `len < -1` is refused.  Otherwise the
    buffer grows to `sizeAfter r (fdLen r len)` *before* the first `read`; with a return value `≤ 0` the unread bytes and
    the descriptor's pending bytes are untouched; with a return value `n > 0`, `n ≤ fdLen`, exactly the next `n` bytes of
    the descriptor were consumed and appended, after which the oldest `used + n - size` unread bytes are gone, and that
    number is reported as dropped. -/
theorem writeFromFd_spec (r : Ring) (len : Int) (s : Src) (h : ValidP r) :
    ValidP (writeFromFd r len s).ring ∧ (writeFromFd r len s).ok = true ∧
    (len < -1 → (writeFromFd r len s).rc = -1 ∧ (writeFromFd r len s).ring = r ∧ (writeFromFd r len s).g = .fd s) ∧
    (-1 ≤ len →
      (writeFromFd r len s).ring.size = sizeAfter r (fdLen r len) ∧ (writeFromFd r len s).ring.maxsize = r.maxsize ∧
      (writeFromFd r len s).ring.minsize = r.minsize ∧ (writeFromFd r len s).ring.overwrite = r.overwrite ∧
      ((writeFromFd r len s).rc ≤ 0 →
        (writeFromFd r len s).ring.contents = r.contents ∧ (writeFromFd r len s).g.pending = s.avail ∧
        (writeFromFd r len s).ndropped = 0) ∧
      (0 < (writeFromFd r len s).rc →
        ∃ n, (writeFromFd r len s).rc = (n : Nat) ∧ 0 < n ∧ n ≤ fdLen r len ∧ n ≤ s.avail.length ∧
          n ≤ (clipOf r.overwrite (sizeAfter r (fdLen r len)) r.used (fdLen r len)).getD 0 ∧
          (writeFromFd r len s).ring.contents =
            (r.contents ++ s.avail.take n).drop (r.used + n - min (r.used + n) (sizeAfter r (fdLen r len))) ∧
          (writeFromFd r len s).g.pending = s.avail.drop n ∧
          (writeFromFd r len s).ndropped = r.used + n - sizeAfter r (fdLen r len))) := by
  have hv := (valid_iff r).mpr h
  unfold writeFromFd fdLen
  by_cases h1 : len < -1
  · rw [if_pos h1]
    exact ⟨h, rfl, fun _ => ⟨rfl, rfl, rfl⟩, fun hh => by omega⟩
  · rw [if_neg h1]
    dsimp only
    generalize hn : (if len = -1 then if r.size - r.used = 0 then chunk else r.size - r.used else len.toNat) = n
    by_cases h2 : n > 0
    · rw [if_pos h2]
      dsimp only
      obtain ⟨w1, w2, w3, w4, w5, w6, w7, w8⟩ := writer_spec r n (.fd s) h h2
      refine ⟨w1, by simp [hv, w2, (valid_iff _).mpr w1], fun hh => absurd hh h1, fun _ => ⟨w3, w4, w5, w6, fun hh => ?_, fun hh => ?_⟩⟩
      · obtain ⟨u1, u2, u3, _⟩ := w7 hh
        exact ⟨u1, u2, u3⟩
      · obtain ⟨k, n1, n2, n3, n4, n5, n6, n7, n8, n9, n10⟩ := w8 hh
        exact ⟨k, n1, n2, n3, n4, n6, n7, n8, n9⟩
    · rw [if_neg h2]
      have hn0 : n = 0 := by omega
      subst hn0
      have hsz : sizeAfter r 0 = r.size := by unfold sizeAfter; simp
      refine ⟨h, by simp [hv], fun hh => absurd hh h1, fun _ => ⟨hsz.symm, rfl, rfl, rfl, fun _ => ⟨rfl, rfl, rfl⟩, fun hh => by simp at hh⟩⟩

/-- The tie to the abstract sizing rule of the daemon model (`Pm.Cbuf.readPlan`): for the call the daemon makes,
    `cbuf_write_from_fd (cb, fd, -1, &dropped)` in the default mode `CBUF_WRAP_MANY`, on a descriptor that hands out what it
    has (`avail` bytes, no scripted short reads), the ring's size afterwards, the number of bytes read and the number
    reported dropped are exactly `readPlan size used maxsize |avail|`. -/
theorem writeFromFd_readPlan (r : Ring) (s : Src) (h : ValidP r) (hm : r.overwrite = .wrapMany) (hc : s.caps = []) :
    (writeFromFd r (-1) s).ring.size = (Pm.Cbuf.readPlan r.size r.used r.maxsize s.avail.length).2.1 ∧
    (0 < (Pm.Cbuf.readPlan r.size r.used r.maxsize s.avail.length).1 →
      (writeFromFd r (-1) s).rc = ((Pm.Cbuf.readPlan r.size r.used r.maxsize s.avail.length).1 : Nat) ∧
      (writeFromFd r (-1) s).ndropped = (Pm.Cbuf.readPlan r.size r.used r.maxsize s.avail.length).2.2) ∧
    ((Pm.Cbuf.readPlan r.size r.used r.maxsize s.avail.length).1 = 0 →
      (writeFromFd r (-1) s).rc ≤ 0 ∧ (writeFromFd r (-1) s).ndropped = 0) := by
  obtain ⟨_, _, _, f4⟩ := writeFromFd_spec r (-1) s h
  obtain ⟨f1, _, _, _, f5, f6⟩ := f4 (by omega)
  have hlen : fdLen r (-1) = (if r.size - r.used = 0 then chunk else r.size - r.used) := by unfold fdLen; simp
  have hlpos : 0 < fdLen r (-1) := by
    rw [hlen]; split
    · decide
    · omega
  have hplan : Pm.Cbuf.readPlan r.size r.used r.maxsize s.avail.length =
      (min (fdLen r (-1)) s.avail.length, sizeAfter r (fdLen r (-1)),
        min (fdLen r (-1)) s.avail.length - (sizeAfter r (fdLen r (-1)) - r.used)) := by
    unfold Pm.Cbuf.readPlan sizeAfter
    dsimp only
    have hch : Pm.Cbuf.chunk = chunk := rfl
    rw [hlen, hch]
    simp only [grownSize_eq_growTo r _ h]
    by_cases hz : r.size - r.used = 0
    · simp [hz]
    · simp [hz]
  rw [hplan]
  dsimp only
  have hfull : (Getter.fd s).full := hc
  have hcl : clipOf r.overwrite (sizeAfter r (fdLen r (-1))) r.used (fdLen r (-1)) = some (fdLen r (-1)) := by
    rw [hm]; rfl
  have hw : writeFromFd r (-1) s = { (writer r (fdLen r (-1)) (.fd s)) with ok := r.valid && (writer r (fdLen r (-1)) (.fd s)).ok && (writer r (fdLen r (-1)) (.fd s)).ring.valid } := by
    unfold writeFromFd
    have : ¬ ((-1 : Int) < -1) := by omega
    rw [if_neg this]
    dsimp only
    rw [← hlen] 
    simp only [↓reduceIte, hlpos]
  have hrc : (writeFromFd r (-1) s).rc = (writer r (fdLen r (-1)) (.fd s)).rc := by rw [hw]
  obtain ⟨q1, q2⟩ := writer_full r (fdLen r (-1)) (.fd s) h hlpos hfull _ hcl
  simp only [Getter.pending] at q1 q2
  have hsp := (growStep_spec r (fdLen r (-1)) h)
  refine ⟨f1, fun hp => ?_, fun hz => ?_⟩
  · have hrc' := q1 hp
    rw [← hrc] at hrc'
    obtain ⟨n, n1, n2, n3, n4, n5, n6, n7, n8⟩ := f6 (by omega)
    have : n = min (fdLen r (-1)) s.avail.length := by omega
    subst this
    refine ⟨hrc', ?_⟩
    rw [n8]
    have := h.used_le
    have := hsp.2.2.2.2.2.2.2.2.2.1
    omega
  · have hrc' := q2 hz
    rw [← hrc] at hrc'
    exact ⟨hrc', (f5 hrc').2.2⟩

end Pm.CbufRing
