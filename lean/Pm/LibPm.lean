/- pilot for C16: libpowerman.c reply scanner -/
namespace Pm.LibPm

def promptLen : Nat := 10          -- strlen("powerman> ")

/-- first index `_strncmpend(buf, CP_PROMPT, count)` dereferences: `buf + count - strlen(prompt)` -/
def firstRead (count : Nat) : Int := (count : Int) - promptLen

/-- as coded the compare runs after *every* successful read, whatever `count` is -/
def recvCounts (reads : List Nat) : List Nat := (reads.foldl (fun (acc : List Nat × Nat) n => (acc.1 ++ [acc.2 + n], acc.2 + n)) ([], 0)).1

def inBounds (guarded : Bool) (reads : List Nat) : Bool :=
  (recvCounts reads).all fun c => (guarded && c < promptLen) || decide (0 ≤ firstRead c)

/-- server sends its banner in a first segment of 3 bytes: the scanner reads 7 bytes before the buffer -/
theorem C16_recv_bounds_counterexample : inBounds false [3, 17] = false := by decide
example : firstRead 3 = -7 := by decide

theorem C16_recv_bounds_fixed (reads : List Nat) : inBounds true reads = true := by
  unfold inBounds
  apply List.all_eq_true.mpr
  intro c _
  by_cases h : c < promptLen
  · simp [h]
  · have : (0 : Int) ≤ firstRead c := by unfold firstRead; omega
    simp [this]

/-! `_server_retcode`: last assignment wins while walking the (reversed) line list -/
inductive Rc where
  | success | code (n : Nat) | parse
deriving DecidableEq, Repr

def classify (code : Option Int) : Option Rc :=
  match code with
  | some 1 | some 101 | some 102 | some 103 | some 104 | some 105 => some .success
  | some 201 => some (.code 201) | some 202 => some (.code 202) | some 203 => some (.code 203)
  | some 204 => some (.code 204) | some 205 => some (.code 205) | some 208 => some (.code 208)
  | some 209 => some (.code 209) | some 210 => some (.code 210) | some 211 => some (.code 211)
  | some 213 => some (.code 213)
  | _ => none

/-- lines in the order the C loop visits them -/
def retcode (lines : List (Option Int)) : Rc :=
  lines.foldl (fun err l => (classify l).getD err) .parse

theorem retcode_append_ignored (pre post : List (Option Int)) (x : Option Int)
    (hpost : ∀ l ∈ post, classify l = none) (r : Rc) (hx : classify x = some r) :
    retcode (pre ++ x :: post) = r := by
  unfold retcode
  rw [List.foldl_append, List.foldl_cons]
  simp only [hx, Option.getD_some]
  induction post generalizing r with
  | nil => rfl
  | cons p ps ih =>
    rw [List.foldl_cons, hpost p (by simp)]
    simp only [Option.getD_none]
    exact ih (fun l hl => hpost l (by simp [hl])) r hx

/-- a conforming reply has exactly one line the switch recognises; every other line (3xx, text) is
    ignored, wherever it stands — the call returns that line's meaning -/
theorem C16_retcode_spec (pre post : List (Option Int)) (x : Option Int) (r : Rc)
    (hpre : ∀ l ∈ pre, classify l = none) (hpost : ∀ l ∈ post, classify l = none)
    (hx : classify x = some r) : retcode (pre ++ x :: post) = r :=
  retcode_append_ignored pre post x hpost r hx

/-- CLI: `exit(res)` keeps only the low 8 bits -/
def cliExit (terminal : Nat) : Nat := if 200 ≤ terminal ∧ terminal < 300 then terminal % 256 else 0
theorem C16_cli_exit_counterexample : cliExit 256 = 0 := by decide
theorem C16_cli_exit_documented (t : Nat) (h : t ∈ [201,202,203,204,205,208,209,210,211,213]) : cliExit t ≠ 0 := by
  simp only [List.mem_cons, List.mem_nil_iff, or_false] at h
  rcases h with rfl | rfl | rfl | rfl | rfl | rfl | rfl | rfl | rfl | rfl <;> decide

end Pm.LibPm

