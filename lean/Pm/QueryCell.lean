import Pm.QueryEv
/-! # What a history of writes leaves in an arglist (pure list facts; used by `Pm/QueryRun.lean`, `Props/C03`)

`lastState H n`, `lastResult H n`, `lastText H n`: the state / result / text of the last write of the history `H` (a list of
write events, oldest first) that concerns node `n`.  An arglist that starts fresh (`freshArgs`) and undergoes the writes
`H` in order holds, for every node, exactly these (`foldl_applyEv_fresh`); and the entries the reply functions read off
it (`entriesOf`) are, target by target, `entryOf H n` (`entriesOf_hist`). -/
namespace Pm.Dev2.QEv
open Pm.Dev2
open Pm Pm.Client Pm.Daemon
open Pm.Daemon.Reply (freshArgs distinctOf entriesOf ByteName)

/-! ## the store, cell by cell -/

theorem cell_applyStore (s : Store) (ev : WEv) (A : Nat) :
    cell (applyStore s ev) A = if ev.al = A then applyEv (cell s A) ev else cell s A := by
  unfold applyStore
  by_cases h : ev.al = A
  · subst h
    simp [cell]
  · rw [if_neg h]
    have hA : A ≠ ev.al := fun e => h e.symm
    have : (A == ev.al) = false := by simp [hA]
    unfold cell
    rw [List.lookup_cons, this]
    exact congrArg (fun o => Option.getD o []) (lookup_filter_ne s ev.al A hA)

/-- the arglist `A` after a sequence of writes to the store: only the writes to `A` count, in order -/
theorem cell_foldl_applyStore (evs : List WEv) (s : Store) (A : Nat) :
    cell (evs.foldl applyStore s) A = (evs.filter (fun ev => ev.al == A)).foldl applyEv (cell s A) := by
  induction evs generalizing s with
  | nil => rfl
  | cons ev r ih =>
    rw [List.foldl_cons, ih, cell_applyStore, List.filter_cons]
    by_cases h : ev.al = A
    · simp [h]
    · simp [h]

/-- the device name an event carries plays no part in the write -/
theorem applyStore_dev (s : Store) (ev : WEv) (n : Bytes) : applyStore s { ev with dev := n } = applyStore s ev := rfl

theorem foldl_applyStore_dev (evs : List WEv) (s : Store) (n : Bytes) :
    (evs.map fun ev => { ev with dev := n }).foldl applyStore s = evs.foldl applyStore s := by
  induction evs generalizing s with
  | nil => rfl
  | cons ev r ih => rw [List.map_cons, List.foldl_cons, List.foldl_cons, ih]; rfl

/-! ## the last write decides -/

/-- the state an event writes for node `n`, if it writes one -/
def stateOn (n : Bytes) (ev : WEv) : Option PState :=
  if ev.node == n then (match ev.kind with | .state st => some st | .result _ => none) else none
/-- the result an event writes for node `n`, if it writes one -/
def resultOn (n : Bytes) (ev : WEv) : Option PResult :=
  if ev.node == n then (match ev.kind with | .result r => some r | .state _ => none) else none
/-- the text an event stores as the value of node `n`'s cell (both kinds of write do) -/
def textOn (n : Bytes) (ev : WEv) : Option Bytes := if ev.node == n then some ev.text else none

/-- the state written by the last `setplugstate` write of the history that concerns node `n` -/
def lastState (H : List WEv) (n : Bytes) : Option PState := (H.filterMap (stateOn n)).getLast?
/-- the result written by the last `setresult` write of the history that concerns node `n` -/
def lastResult (H : List WEv) (n : Bytes) : Option PResult := (H.filterMap (resultOn n)).getLast?
/-- the text of the last write (of either kind) of the history that concerns node `n` -/
def lastText (H : List WEv) (n : Bytes) : Option Bytes := (H.filterMap (textOn n)).getLast?

/-- the arglist element for node `n` after the history `H`, starting from a fresh element -/
def cellOf (H : List WEv) (n : Bytes) : Arg :=
  { node := n, val := lastText H n, state := (lastState H n).getD .unknown, result := (lastResult H n).getD .none }

theorem getLast?_filterMap_cons {α β : Type} (f : α → Option β) (x : α) (l : List α) :
    ((x :: l).filterMap f).getLast? = (l.filterMap f).getLast?.or (f x) := by
  rw [List.filterMap_cons]
  cases hf : f x with
  | none => simp
  | some y =>
    simp only
    rw [List.getLast?_cons]
    cases (l.filterMap f).getLast? <;> rfl

/-- one element through a whole history -/
def fin (g : Arg) (H : List WEv) : Arg := H.foldl (fun g ev => upd ev g) g

theorem fin_node (g : Arg) (H : List WEv) : (fin g H).node = g.node := by
  induction H generalizing g with
  | nil => rfl
  | cons ev r ih => unfold fin at ih ⊢; rw [List.foldl_cons, ih, upd_node]

theorem foldl_applyEv (as : List Arg) (H : List WEv) : H.foldl applyEv as = as.map fun g => fin g H := by
  induction H generalizing as with
  | nil => simp [fin]
  | cons ev r ih =>
    rw [List.foldl_cons, ih]
    unfold applyEv fin
    rw [List.map_map]
    rfl

theorem upd_state (ev : WEv) (g : Arg) : (upd ev g).state = (stateOn g.node ev).getD g.state := by
  unfold upd stateOn
  by_cases h : g.node = ev.node
  · have h' : (ev.node == g.node) = true := by simp [h]
    have h'' : (g.node == ev.node) = true := by simp [h]
    rw [if_pos h'', if_pos h']
    cases ev.kind <;> rfl
  · have h' : (ev.node == g.node) = false := by simpa using fun e => h e.symm
    have h'' : (g.node == ev.node) = false := by simpa using h
    simp [h', h'']

theorem upd_result (ev : WEv) (g : Arg) : (upd ev g).result = (resultOn g.node ev).getD g.result := by
  unfold upd resultOn
  by_cases h : g.node = ev.node
  · have h' : (ev.node == g.node) = true := by simp [h]
    have h'' : (g.node == ev.node) = true := by simp [h]
    rw [if_pos h'', if_pos h']
    cases ev.kind <;> rfl
  · have h' : (ev.node == g.node) = false := by simpa using fun e => h e.symm
    have h'' : (g.node == ev.node) = false := by simpa using h
    simp [h', h'']

theorem upd_val (ev : WEv) (g : Arg) : (upd ev g).val = (textOn g.node ev).or g.val := by
  unfold upd textOn
  by_cases h : g.node = ev.node
  · have h' : (ev.node == g.node) = true := by simp [h]
    have h'' : (g.node == ev.node) = true := by simp [h]
    rw [if_pos h'', if_pos h']
    cases ev.kind <;> rfl
  · have h' : (ev.node == g.node) = false := by simpa using fun e => h e.symm
    have h'' : (g.node == ev.node) = false := by simpa using h
    simp [h', h'']

/-- **the last write decides**: after the history, an element holds the state of the last state write for its node (its
    old state if there is none), the result of the last result write, and the text of the last write of either kind -/
theorem fin_spec (g : Arg) (H : List WEv) :
    (fin g H).state = (lastState H g.node).getD g.state ∧ (fin g H).result = (lastResult H g.node).getD g.result ∧
    (fin g H).val = (lastText H g.node).or g.val := by
  induction H generalizing g with
  | nil => simp [fin, lastState, lastResult, lastText]
  | cons ev r ih =>
    have h := ih (upd ev g)
    rw [upd_node] at h
    have e : fin g (ev :: r) = fin (upd ev g) r := rfl
    rw [e, h.1, h.2.1, h.2.2, upd_state, upd_result, upd_val]
    unfold lastState lastResult lastText
    rw [getLast?_filterMap_cons, getLast?_filterMap_cons, getLast?_filterMap_cons]
    refine ⟨?_, ?_, ?_⟩
    · cases (r.filterMap (stateOn g.node)).getLast? <;> cases stateOn g.node ev <;> rfl
    · cases (r.filterMap (resultOn g.node)).getLast? <;> cases resultOn g.node ev <;> rfl
    · cases (r.filterMap (textOn g.node)).getLast? <;> cases textOn g.node ev <;> rfl

/-- **a fresh arglist after a history of writes** holds, for each of its nodes, exactly what the last writes for that node
    left: nothing from before (there is no before), nothing from a write for another node -/
theorem foldl_applyEv_fresh (bn : List Bytes) (H : List WEv) :
    H.foldl applyEv (freshArgs bn) = (distinctOf bn).map (cellOf H) := by
  rw [foldl_applyEv]
  unfold freshArgs
  rw [List.map_map]
  apply List.map_congr_left
  intro n _
  have h := fin_spec { node := n, val := none, state := .unknown, result := .none } H
  have hn := fin_node { node := n, val := none, state := .unknown, result := .none } H
  simp only [Function.comp_apply]
  generalize fin { node := n, val := none, state := .unknown, result := .none } H = x at *
  obtain ⟨n', v, s, r⟩ := x
  simp only at h hn
  obtain ⟨h1, h2, h3⟩ := h
  subst hn h1 h2 h3
  simp [cellOf]

/-! ## reading the history back: a write that shows was made -/

theorem mem_of_getLast?_filterMap {α β : Type} {f : α → Option β} {l : List α} {y : β} (h : (l.filterMap f).getLast? = some y) :
    ∃ x ∈ l, f x = some y := by
  have := List.mem_of_getLast? h
  exact List.mem_filterMap.mp this

/-- a state that shows was written: by an event of the history, for that very node, with that very state; and no later
    event of the history wrote a state for the node -/
theorem lastState_some {H : List WEv} {n : Bytes} {st : PState} (h : lastState H n = some st) :
    ∃ pre ev post, H = pre ++ ev :: post ∧ ev.node = n ∧ ev.kind = .state st ∧ ∀ x ∈ post, stateOn n x = none := by
  induction H with
  | nil => simp [lastState] at h
  | cons ev r ih =>
    unfold lastState at h ih
    rw [getLast?_filterMap_cons] at h
    cases hr : (r.filterMap (stateOn n)).getLast? with
    | some y =>
      rw [hr] at h
      simp only [Option.some_or, Option.some.injEq] at h
      subst h
      obtain ⟨pre, e, post, h1, h2, h3, h4⟩ := ih hr
      exact ⟨ev :: pre, e, post, by rw [h1]; rfl, h2, h3, h4⟩
    | none =>
      rw [hr] at h
      simp only [Option.none_or] at h
      refine ⟨[], ev, r, rfl, ?_, ?_, ?_⟩
      · unfold stateOn at h
        split at h
        · rename_i hn; simpa using hn
        · cases h
      · unfold stateOn at h
        split at h
        · cases hk : ev.kind with
          | state s => rw [hk] at h; simp only [Option.some.injEq] at h; rw [h]
          | result _ => rw [hk] at h; cases h
        · cases h
      · intro x hx
        cases hs : stateOn n x with
        | none => rfl
        | some z =>
          exfalso
          have hm : z ∈ r.filterMap (stateOn n) := List.mem_filterMap.mpr ⟨x, hx, hs⟩
          have hne : r.filterMap (stateOn n) ≠ [] := List.ne_nil_of_mem hm
          rw [List.getLast?_eq_none_iff] at hr
          exact hne hr

/-- no state write for the node in the history: nothing shows -/
theorem lastState_none {H : List WEv} {n : Bytes} (h : ∀ ev ∈ H, stateOn n ev = none) : lastState H n = none := by
  unfold lastState
  rw [List.getLast?_eq_none_iff, List.filterMap_eq_nil_iff]
  exact h

/-- a text that shows was written: it is the captured text of an event of the history for that very node, and no later
    event of the history concerns the node -/
theorem lastText_some {H : List WEv} {n : Bytes} {v : Bytes} (h : lastText H n = some v) :
    ∃ pre ev post, H = pre ++ ev :: post ∧ ev.node = n ∧ ev.text = v ∧ ∀ x ∈ post, x.node ≠ n := by
  induction H with
  | nil => simp [lastText] at h
  | cons ev r ih =>
    unfold lastText at h ih
    rw [getLast?_filterMap_cons] at h
    cases hr : (r.filterMap (textOn n)).getLast? with
    | some y =>
      rw [hr] at h
      simp only [Option.some_or, Option.some.injEq] at h
      subst h
      obtain ⟨pre, e, post, h1, h2, h3, h4⟩ := ih hr
      exact ⟨ev :: pre, e, post, by rw [h1]; rfl, h2, h3, h4⟩
    | none =>
      rw [hr] at h
      simp only [Option.none_or] at h
      unfold textOn at h
      split at h
      · rename_i hn
        simp only [Option.some.injEq] at h
        refine ⟨[], ev, r, rfl, by simpa using hn, h, ?_⟩
        intro x hx hxn
        have hs : textOn n x = some x.text := by unfold textOn; simp [hxn]
        have hm : x.text ∈ r.filterMap (textOn n) := List.mem_filterMap.mpr ⟨x, hx, hs⟩
        have hne : r.filterMap (textOn n) ≠ [] := List.ne_nil_of_mem hm
        rw [List.getLast?_eq_none_iff] at hr
        exact hne hr
      · cases h

theorem lastText_none {H : List WEv} {n : Bytes} (h : ∀ ev ∈ H, ev.node ≠ n) : lastText H n = none := by
  unfold lastText
  rw [List.getLast?_eq_none_iff, List.filterMap_eq_nil_iff]
  intro ev hev
  unfold textOn
  simp [h ev hev]

/-! ## the entries the reply reads -/

theorem ofChars_toChars (b : Bytes) : ofChars (toChars b) = b := by
  unfold toChars ofChars
  rw [List.map_map]
  conv => rhs; rw [← List.map_id b]
  apply List.map_congr_left
  intro x _
  simp only [Function.comp_apply, id]
  rw [Pm.Daemon.Reply.toNat_ofNat_small _ x.toNat_lt]
  exact UInt8.ofNat_toNat

/-- what the reply shows for target `n` after the history `H` -/
def entryOf (H : List WEv) (n : Name) : ArgC := argC (cellOf H (ofChars n))

theorem find_cells (H : List WEv) (l : List Bytes) (n : Name) (hn : ByteName n) (hm : ofChars n ∈ l) :
    ((l.map (cellOf H)).map argC).find? (·.node == n) = some (entryOf H n) := by
  induction l with
  | nil => cases hm
  | cons b r ih =>
    rw [List.map_cons, List.map_cons, List.find?_cons]
    by_cases hb : toChars b = n
    · have : ((argC (cellOf H b)).node == n) = true := by simp [argC, cellOf, hb]
      rw [this]
      have hb' : b = ofChars n := by rw [← hb, ofChars_toChars]
      rw [hb', entryOf]
    · have : ((argC (cellOf H b)).node == n) = false := by simp [argC, cellOf, hb]
      rw [this]
      apply ih
      rcases List.mem_cons.mp hm with h | h
      · exfalso; apply hb; rw [← h]; exact Pm.Daemon.Reply.toChars_ofChars n hn
      · exact h

/-- **the entries of the reply, target by target**: for a command whose arglist started fresh for its own target list and
    underwent the history `H`, the entries `arglist_next` yields are `entryOf H n` for the targets `n` in order
    (repetitions included) — every target has one, and it shows what the last writes of `H` for that node left -/
theorem entriesOf_hist (k : CmdC) (H : List WEv) (e : Bool) (hb : ∀ n ∈ k.names, ByteName n) :
    entriesOf { k with error := e, args := (H.foldl applyEv (freshArgs (k.names.map ofChars))).map argC } = k.names.map (entryOf H) := by
  unfold entriesOf
  rw [foldl_applyEv_fresh]
  simp only
  conv => rhs; rw [← List.filterMap_eq_map]
  apply Pm.Daemon.filterMap_congr'
  intro n hn
  simp only [Function.comp_apply]
  exact find_cells H _ n (hb n hn) ((Pm.Daemon.Reply.mem_distinctOf _ _).mpr (List.mem_map.mpr ⟨n, hn, rfl⟩))

end Pm.Dev2.QEv

section AxiomChecks
open Pm.Dev2.QEv
/-- info: 'Pm.Dev2.QEv.entriesOf_hist' depends on axioms: [propext, Classical.choice, Quot.sound] -/
#guard_msgs in #print axioms entriesOf_hist
/-- info: 'Pm.Dev2.QEv.foldl_applyEv_fresh' depends on axioms: [propext, Classical.choice, Quot.sound] -/
#guard_msgs in #print axioms foldl_applyEv_fresh
/-- info: 'Pm.Dev2.QEv.lastState_some' depends on axioms: [propext, Quot.sound] -/
#guard_msgs in #print axioms lastState_some
end AxiomChecks
