import Pm.ConfigProof
import Pm.AliasProof
import Pm.ClientProof
/-! Alias expansion on an accepted configuration: the alias table of `Pm.ConfigModel` handed to `Pm.Daemon.expAliases`.
    Helper lemmas for `C13_alias_expansion`. -/
namespace Pm.ConfigModel.AliasCfg
open Pm Pm.ConfigModel Pm.ConfigModel.Proof
open Pm.Daemon (aliasOf expAliases)
open Pm.Daemon.AliasPf (isAlias membersOf standsFor)

/-- `conf_aliases` as the request path sees it: name and hosts (in iteration order) of every alias, in list order -/
def aliasTable (cfg : Cfg) : List (Name × List Name) := cfg.aliases.map fun a => (a.name, expand a.hl)

/-! ### alias names are pairwise distinct -/

theorem steps_alias_names_nodup {specs : List Spec} : ∀ (stmts : List Stmt) (c c' : Cfg) (i : Nat),
    (c.aliases.map (·.name)).Nodup → steps specs c i stmts = .ok c' → (c'.aliases.map (·.name)).Nodup
  | [], c, c', i, hc, h => by simp only [steps] at h; cases h; exact hc
  | s :: rest, c, c', i, hc, h => by
    simp only [steps] at h
    cases hs : step specs c i s with
    | error e => rw [hs] at h; cases h
    | ok c1 =>
      rw [hs] at h
      refine steps_alias_names_nodup rest c1 c' (i + 1) ?_ h
      cases s with
      | device name spec => obtain ⟨s, _, rfl⟩ := makeDevice_ok hs; exact hc
      | node nodestr dev plugstr => obtain ⟨devs, nhl, nodes, _, _, _, rfl⟩ := makeNode_ok hs; exact hc
      | alias name hosts =>
        obtain ⟨hl', _, hne, rfl⟩ := makeAlias_ok hs
        simp only [List.map_cons, List.nodup_cons]
        refine ⟨?_, hc⟩
        intro hm
        obtain ⟨a, ha, hn⟩ := List.mem_map.mp hm
        exact hne a ha hn

theorem alias_names_nodup {specs : List Spec} {stmts : List Stmt} {cfg : Cfg} (h : build specs stmts = .ok cfg) :
    (cfg.aliases.map (·.name)).Nodup :=
  steps_alias_names_nodup stmts empty cfg 0 (by simp [empty]) (build_ok h).1

/-! ### looking a name up in the table -/

theorem aliasOf_table_some {cfg : Cfg} {n : Name} {hs : List Name} (h : aliasOf (aliasTable cfg) n = some hs) :
    ∃ a ∈ cfg.aliases, a.name = n ∧ expand a.hl = hs := by
  unfold aliasOf aliasTable at h
  cases hf : (cfg.aliases.map fun a => (a.name, expand a.hl)).find? (·.1 == n) with
  | none => rw [hf] at h; cases h
  | some p =>
    rw [hf] at h
    simp only [Option.map_some, Option.some.injEq] at h
    have hp := List.find?_some hf
    have hm := List.mem_of_find?_eq_some hf
    obtain ⟨a, ha, rfl⟩ := List.mem_map.mp hm
    exact ⟨a, ha, by simpa using hp, h⟩

theorem find_first_of_nodup : ∀ (l : List Alias) (a : Alias), (l.map (·.name)).Nodup → a ∈ l →
    (l.map fun a => (a.name, expand a.hl)).find? (·.1 == a.name) = some (a.name, expand a.hl) := by
  intro l; induction l with
  | nil => intro a _ h; cases h
  | cons b r ih =>
    intro a hnd ha
    simp only [List.map_cons, List.nodup_cons] at hnd
    rw [List.map_cons]
    rcases List.mem_cons.mp ha with rfl | har
    · rw [List.find?_cons_of_pos (by simp)]
    · have hne : b.name ≠ a.name := by
        intro he; exact hnd.1 (he ▸ List.mem_map.mpr ⟨a, har, rfl⟩)
      rw [List.find?_cons_of_neg (by simpa using hne)]
      exact ih a hnd.2 har

/-- in an accepted configuration a name is looked up unambiguously: the table answers with the hosts of THE alias of that name -/
theorem aliasOf_table_iff {specs : List Spec} {stmts : List Stmt} {cfg : Cfg} (h : build specs stmts = .ok cfg)
    (n : Name) (hs : List Name) :
    aliasOf (aliasTable cfg) n = some hs ↔ ∃ a ∈ cfg.aliases, a.name = n ∧ expand a.hl = hs := by
  refine ⟨aliasOf_table_some, ?_⟩
  rintro ⟨a, ha, rfl, rfl⟩
  unfold aliasOf aliasTable
  rw [find_first_of_nodup cfg.aliases a (alias_names_nodup h) ha]; rfl

/-! ### every host of every alias is a configured node -/

theorem validate_alias_find {c : Cfg} (hf : c.aliases.find? (aliasBad c.nodes) = none) :
    ∀ a ∈ c.aliases, ∀ h ∈ expand a.hl, (find c.nodes h).isSome = true := by
  intro a ha h hh
  have hb := List.find?_eq_none.mp hf a ha
  simp only [aliasBad, List.any_eq_true, Bool.not_eq_true', not_exists, not_and, Bool.not_eq_false] at hb
  exact hb h hh

theorem table_hosts_exist {specs : List Spec} {stmts : List Stmt} {cfg : Cfg} (h : build specs stmts = .ok cfg)
    {n : Name} {hs : List Name} (ha : aliasOf (aliasTable cfg) n = some hs) :
    ∀ x ∈ hs, (find cfg.nodes x).isSome = true ∧ x ∈ expand cfg.nodes := by
  obtain ⟨a, hmem, _, rfl⟩ := aliasOf_table_some ha
  intro x hx
  exact ⟨validate_alias_find (build_ok h).2.1 a hmem x hx, validate_alias (build_ok h).2.1 a hmem x hx⟩

theorem filter_nil_of_all {α} {p : α → Bool} {l : List α} (h : ∀ x ∈ l, p x = false) : l.filter p = [] := by
  apply List.filter_eq_nil_iff.mpr
  intro x hx; simp [h x hx]

/-- the names `_hostlist_create_validated` reports as unknown (`209`) are the typed names that are neither alias names nor
    nodes, in the order typed: the hosts of aliases never appear there.  `known` is the daemon's node test. -/
theorem bad_names {specs : List Spec} {stmts : List Stmt} {cfg : Cfg} (h : build specs stmts = .ok cfg)
    (known : Name → Bool) (hk : ∀ x, (find cfg.nodes x).isSome = true → known x = true) (names : List Name) :
    (expAliases (aliasTable cfg) names).filter (fun n => !known n) =
      (names.filter (fun n => !isAlias (aliasTable cfg) n)).filter (fun n => !known n) := by
  rw [Pm.Daemon.AliasPf.expAliases_spec, List.filter_append]
  have : (names.flatMap (membersOf (aliasTable cfg))).filter (fun n => !known n) = [] := by
    apply filter_nil_of_all
    intro x hx
    obtain ⟨a, _, hxa⟩ := List.mem_flatMap.mp hx
    obtain ⟨hs, hal, hxs⟩ := Pm.Daemon.AliasPf.mem_membersOf.mp hxa
    simp [hk x (table_hosts_exist h hal x hxs).1]
  rw [this, List.append_nil]

/-- the same with the daemon's test `(find nodes n).isNone` on a node list `nodes` that knows (at least) the configured nodes -/
theorem bad_names_find {specs : List Spec} {stmts : List Stmt} {cfg : Cfg} (h : build specs stmts = .ok cfg)
    (nodes : Hostlist) (hk : ∀ x, (find cfg.nodes x).isSome = true → (find nodes x).isSome = true) (names : List Name) :
    (expAliases (aliasTable cfg) names).filter (fun n => (find nodes n).isNone) =
      (names.filter (fun n => !isAlias (aliasTable cfg) n)).filter (fun n => (find nodes n).isNone) := by
  have := bad_names h (fun x => (find nodes x).isSome) hk names
  simpa [Option.not_isSome] using this

/-- every name of the expansion of a list of alias names is a configured node -/
theorem only_aliases_all_nodes {specs : List Spec} {stmts : List Stmt} {cfg : Cfg} (h : build specs stmts = .ok cfg)
    (names : List Name) (hal : ∀ n ∈ names, isAlias (aliasTable cfg) n = true) :
    ∀ x ∈ expAliases (aliasTable cfg) names, (find cfg.nodes x).isSome = true ∧ x ∈ expand cfg.nodes := by
  intro x hx
  rcases Pm.Daemon.AliasPf.mem_expAliases.mp hx with ⟨hm, hn⟩ | ⟨a, _, hs, ha, hxs⟩
  · have := hal x hm; simp [isAlias, hn] at this
  · exact table_hosts_exist h ha x hxs

/-! ### the request path of the daemon model -/

open Pm.Daemon Pm.Daemon.ClientPf in
/-- `_parse_input` on a command with an argument (`plCmd`, the branch of `parseLine` for `on <arg>` … `beacon <arg>`), in a daemon
    whose alias table is the one of the accepted configuration and whose node test accepts (at least) its nodes: when the
    expression is well formed and expands to alias names only, there is no `209`: the request goes to `install`, with the hosts
    of the aliases as targets -/
theorem plCmd_only_aliases {specs : List Spec} {stmts : List Stmt} {cfg : Cfg} (h : build specs stmts = .ok cfg)
    (w : W) (c : Cli) (com : Pm.Client.Com) (arg : Pm.Client.Bytes) (hl : Hostlist)
    (hals : w.cfg.aliases = aliasTable cfg)
    (hnodes : ∀ x, (find cfg.nodes x).isSome = true → (find w.cfg.nodes x).isSome = true)
    (hc : createR (toChars arg) = .ok hl) (hal : ∀ n ∈ expand hl, isAlias (aliasTable cfg) n = true) :
    plCmd w c com arg = install w c com (expAliases (aliasTable cfg) (expand hl)) := by
  unfold plCmd
  rw [hc]
  dsimp only
  rw [hals]
  have hnil : (expAliases (aliasTable cfg) (expand hl)).filter (fun n => (find w.cfg.nodes n).isNone) = [] := by
    apply filter_nil_of_all
    intro x hx
    have := hnodes x (only_aliases_all_nodes h _ hal x hx).1
    cases hf : find w.cfg.nodes x with
    | none => rw [hf] at this; cases this
    | some i => rfl
  rw [hnil]; rfl

end Pm.ConfigModel.AliasCfg

section AxiomChecks
open Pm.ConfigModel.AliasCfg
#print axioms alias_names_nodup
#print axioms aliasOf_table_iff
#print axioms bad_names
#print axioms bad_names_find
#print axioms only_aliases_all_nodes
#print axioms plCmd_only_aliases
end AxiomChecks
