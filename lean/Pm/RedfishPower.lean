import Pm.RedfishStat
import Pm.RedfishClosed
/-! helper lemmas for C19, part 11: `on` / `off` — the invariant relating the machine to the closed form of `specPower` -/
namespace Pm.Redfish

/-- plugs whose simulated state a power command on the targets `T` may change -/
def touched (c : Cfg) (C : Cmd) (T : List Nat) (x : Nat) : Prop := ∃ t ∈ T, x = t ∨ (C = .off ∧ t ∈ ancUp c x)

/-- a parent query: silent, and (for `off`) about a plug that is not a target unless that target is already dealt with -/
def IsQuery (c : Cfg) (C : Cmd) (T : List Nat) (st : St) (i : PM) : Prop :=
  i.cmd = .stat ∧ i.output = false ∧
    (i.plug ∉ T ∨ (C = .off ∧ (isOn st i.plug = false ∨ hostFails c i.plug = true)))

/-- the operator's command on a target -/
def IsPower (C : Cmd) (T : List Nat) (st : St) (i : PM) : Prop :=
  i.cmd = C ∧ i.output = true ∧ i.plug ∈ T ∧ (i.waitState = true → isOn st i.plug = (C == .on))

/-- not yet "sent" -/
def pendB (i : PM) : Bool := decide (i.cmd ≠ .stat) && !i.waitState

/-- plugs whose power command has not been "sent" yet -/
def pend (rest new : List PM) (m : M) : List Nat := (m.waiting ++ (rest ++ new).filter pendB).map (·.plug)

/-- the final plug states, computed from the current ones and the commands still to be sent -/
def curOn (c : Cfg) (st0 : St) (C : Cmd) (T : List Nat) (st : St) (L : List Nat) (x : Nat) : Bool :=
  if C == .on then isOn st x || L.any (fun t => succeeds c st0 C T t && x == t)
  else isOn st x && !(L.any fun t => succeeds c st0 C T t && (x == t || isDesc c x t))

theorem finalOn_eq_curOn (c : Cfg) (st0 : St) (C : Cmd) (T L : List Nat) (x : Nat) :
    finalOn c st0 C T L x = curOn c st0 C T st0 L x := rfl

/-- only the succeeding plugs in the list matter, and only as a set -/
theorem curOn_congr {c : Cfg} {st0 : St} {C : Cmd} {T : List Nat} {st : St} {L L' : List Nat}
    (h : ∀ t, succeeds c st0 C T t = true → (t ∈ L ↔ t ∈ L')) (x : Nat) :
    curOn c st0 C T st L x = curOn c st0 C T st L' x := by
  have key : ∀ f : Nat → Bool, (L.any fun t => succeeds c st0 C T t && f t) = (L'.any fun t => succeeds c st0 C T t && f t) := by
    intro f
    rw [Bool.eq_iff_iff, List.any_eq_true, List.any_eq_true]
    constructor
    · rintro ⟨t, ht, hh⟩
      simp only [Bool.and_eq_true] at hh
      exact ⟨t, (h t hh.1).1 ht, by simp [hh.1, hh.2]⟩
    · rintro ⟨t, ht, hh⟩
      simp only [Bool.and_eq_true] at hh
      exact ⟨t, (h t hh.1).2 ht, by simp [hh.1, hh.2]⟩
  unfold curOn
  rw [key, key]

structure PInv (c : Cfg) (st0 : St) (C : Cmd) (T : List Nat) (_d : Nat) (P rest new : List PM) (m : M) : Prop where
  act : m.active = P ++ rest ++ new
  items : ∀ i ∈ rest ++ new ++ m.delayed, (IsQuery c C T m.st i ∨ IsPower C T m.st i) ∧ known c i.plug = true ∧
    clearPath c (effStat c st0 C T) i.plug
  dl : ∀ i ∈ m.delayed, i.cmd ≠ .stat ∧ i.waitState = true
  waiters : ∀ w ∈ m.waiting, w.cmd = C ∧ w.output = true ∧ w.waitState = false ∧ w.plug ∈ T
  sd : ∀ x, isOn m.st x ≠ isOn st0 x → touched c C T x
  sb : ∀ x, curOn c st0 C T st0 T x = curOn c st0 C T m.st (pend rest new m) x
  nr : C = .on → ∀ t ∈ T, ∀ a ∈ ancUp c t, a ∉ T
  rr : C = .off → ∀ t ∈ T, (parentOf c t).isSome = true →
    (∃ w ∈ m.waiting, w.plug = t) ∨ (∃ b ∈ ancUp c t, effStat c st0 C T b ≠ .on) ∨
    (∃ i ∈ m.active, i.plug = t ∧ i.cmd = .off) ∨ isOn m.st t = false ∨ hostFails c t = true
  pdone : C = .off → ∀ i ∈ P, i.cmd = .off → isOn m.st i.plug = false ∨ hostFails c i.plug = true
  kn : ∀ t ∈ T, known c t = true
  cne : C ≠ .stat

/-- with a clear path a plug's state is still the initial one, unless it is a target -/
theorem untouched {c : Cfg} {st0 : St} {C : Cmd} {T : List Nat} {st : St} {a : Nat}
    (sd : ∀ x, isOn st x ≠ isOn st0 x → touched c C T x) (hT : a ∉ T)
    (hcp : clearPath c (effStat c st0 C T) a) : isOn st a = isOn st0 a := by
  by_cases h : isOn st a = isOn st0 a
  · exact h
  · exfalso
    obtain ⟨t, ht, hh⟩ := sd a h
    rcases hh with rfl | ⟨hC, hta⟩
    · exact hT ht
    · have := hcp t hta
      unfold effStat at this
      by_cases hf : hostFails c t = true
      · simp [hf, statOf_fail hf] at this
      · simp [hC, ht, hf] at this

theorem effStat_fail {c : Cfg} {st0 : St} {C : Cmd} {T : List Nat} {a : Nat} (h : hostFails c a = true) :
    effStat c st0 C T a = .error := by
  simp [effStat, h, statOf_fail h]

theorem effStat_nontarget {c : Cfg} {st0 : St} {C : Cmd} {T : List Nat} {a : Nat} (h : a ∉ T) :
    effStat c st0 C T a = statOf c st0 a := by
  simp [effStat, h]

theorem effStat_off_target {c : Cfg} {st0 : St} {T : List Nat} {a : Nat} (h : a ∈ T) (hf : hostFails c a = false) :
    effStat c st0 .off T a = .off := by
  simp [effStat, h, hf]

/-- what a completing message reports about its plug is the closed-form status — whenever someone below may care -/
theorem res_eq_eff {c : Cfg} {st0 : St} {C : Cmd} {T : List Nat} {m : M} {i : PM}
    (sd : ∀ x, isOn m.st x ≠ isOn st0 x → touched c C T x)
    (hi : IsQuery c C T m.st i ∨ IsPower C T m.st i) (hcp : clearPath c (effStat c st0 C T) i.plug)
    (hwt : hostFails c i.plug = false → i.cmd ≠ .stat → i.waitState = true) (hon : C = .on → i.cmd = .stat)
    (hne : C ≠ .stat) :
    resStat c m i = effStat c st0 C T i.plug := by
  rw [resStat_eq]
  by_cases hf : hostFails c i.plug = true
  · rw [effStat_fail hf, statOf_fail hf]
  · have hf' : hostFails c i.plug = false := by simpa using hf
    rcases hi with ⟨_, _, hq⟩ | ⟨hc, _, hT, hg⟩
    · rcases hq with hq | ⟨hC, hq | hq⟩
      · rw [effStat_nontarget hq]
        unfold statOf
        rw [untouched sd hq hcp]
      · by_cases hT : i.plug ∈ T
        · subst hC; rw [effStat_off_target hT hf']; simp [statOf, hf', hq]
        · rw [effStat_nontarget hT]; unfold statOf; rw [untouched sd hT hcp]
      · exact absurd hq hf
    · cases C with
      | stat => exact absurd rfl hne
      | on => rw [hon rfl] at hc; cases hc
      | off =>
        rw [effStat_off_target hT hf']
        have := hg (hwt hf' (by rw [hc]; decide))
        simp [statOf, hf', this]

theorem blk_at {c : Cfg} (hw : WF c = true) {st0 : St} {C : Cmd} {T : List Nat} {t a : Nat} (ha : a ∈ ancUp c t)
    (hoff : effStat c st0 C T a ≠ .on) (hcp : clearPath c (effStat c st0 C T) a) :
    blk c st0 C T t = some (a, effStat c st0 C T a) := firstOff_at hw _ ha hoff hcp

theorem blk_clear {c : Cfg} {st0 : St} {C : Cmd} {T : List Nat} {t : Nat}
    (hcp : clearPath c (effStat c st0 C T) t) : blk c st0 C T t = none :=
  firstOff_none.2 (by unfold clearPath at hcp; simpa using hcp)

theorem not_succeeds_below {c : Cfg} (hw : WF c = true) {st0 : St} {C : Cmd} {T : List Nat} {t a : Nat}
    (ha : a ∈ ancUp c t) (hoff : effStat c st0 C T a ≠ .on) (hcp : clearPath c (effStat c st0 C T) a) :
    succeeds c st0 C T t = false := by
  simp [succeeds, blk_at hw ha hoff hcp]

theorem PInv_congr {c : Cfg} {st0 : St} {C : Cmd} {T : List Nat} {d : Nat} {P rest new : List PM} {m m' : M}
    (h : PInv c st0 C T d P rest new m) (e1 : m'.active = m.active) (e2 : m'.delayed = m.delayed)
    (e3 : m'.waiting = m.waiting) (e4 : m'.st = m.st) : PInv c st0 C T d P rest new m' := by
  constructor
  · rw [e1]; exact h.act
  · rw [e2, e4]; exact h.items
  · rw [e2]; exact h.dl
  · rw [e3]; exact h.waiters
  · rw [e4]; exact h.sd
  · rw [e4]; unfold pend; rw [e3]; exact h.sb
  · exact h.nr
  · rw [e1, e3, e4]; exact h.rr
  · rw [e4]; exact h.pdone
  · exact h.kn
  · exact h.cne

theorem pendB_waiter {C : Cmd} (hne : C ≠ .stat) {w : PM} (h1 : w.cmd = C) (h2 : w.waitState = false) : pendB w = true := by
  simp [pendB, h1, h2, hne]

/-- `process_waiters` on behalf of the head `i` of the unprocessed messages keeps the invariant -/
theorem PInv_pw {c : Cfg} (hw : WF c = true) {st0 : St} {C : Cmd} {T : List Nat} {d : Nat} {P rest new : List PM}
    {i : PM} {m : M} {s : Stat} (h : PInv c st0 C T d P (i :: rest) new m)
    (hs : ∀ w ∈ m.waiting, i.plug ∈ ancUp c w.plug → s = effStat c st0 C T i.plug)
    (hpi : pendB i = true → succeeds c st0 C T i.plug = false)
    (hpd : C = .off → i.cmd = .off → isOn m.st i.plug = false ∨ hostFails c i.plug = true) :
    ∃ new', PInv c st0 C T d (P ++ [i]) rest new' (processWaiters c m i.plug s) := by
  obtain ⟨added, e1, e2, e3, _, e5, e6⟩ := pw_shape' c m i.plug s
  have hi := h.items i (by simp)
  have hcp := hi.2.2
  have hne := h.cne
  -- a waiter that leaves the waiting list without moving has a blocker
  have hkeep : ∀ w ∈ m.waiting, w ∉ keepF c i.plug s m.waiting →
      (s ≠ .on ∧ i.plug ∈ ancUp c w.plug ∧ effStat c st0 C T i.plug ≠ .on) ∨
      (s = .on ∧ w ∈ added ∧ i.plug ∈ ancUp c w.plug) := by
    intro w hwm hnk
    by_cases hson : s = .on
    · subst hson
      right
      have : i.plug ∈ ancUp c w.plug ∧ parentOf c w.plug = some i.plug := by
        by_cases ha : i.plug ∈ ancUp c w.plug
        · by_cases hp : parentOf c w.plug = some i.plug
          · exact ⟨ha, hp⟩
          · exact absurd (mem_keepF_on.2 ⟨hwm, fun _ => hp⟩) hnk
        · exact absurd (mem_keepF_on.2 ⟨hwm, fun h' => absurd h' ha⟩) hnk
      refine ⟨rfl, ?_, this.1⟩
      have hmv : w ∈ movedF c i.plug .on m.waiting := mem_movedF_on.2 ⟨hwm, this.1, this.2⟩
      have hact : (processWaiters c m i.plug .on).active = m.active ++ added := e1
      rw [processWaiters_eq'] at hact
      simp only [ne_eq, not_true_eq_false, if_false] at hact
      obtain ⟨qs, e, _, _⟩ := pass2_fold c i.plug (keepF c i.plug .on m.waiting) (afterPass1 c m i.plug .on)
      rw [e] at hact
      simp only [afterPass1, List.append_assoc] at hact
      have := List.append_cancel_left hact
      rw [← this]; simp [hmv]
    · left
      have ha : i.plug ∈ ancUp c w.plug := by
        by_cases ha : i.plug ∈ ancUp c w.plug
        · exact ha
        · exact absurd ((mem_keepF_off hson).2 ⟨hwm, ha⟩) hnk
      exact ⟨hson, ha, by rw [← hs w hwm ha]; exact hson⟩
  have hkeep_sub : ∀ w ∈ keepF c i.plug s m.waiting, w ∈ m.waiting := by
    intro w hwk
    by_cases hson : s = .on
    · subst hson; exact (mem_keepF_on.1 hwk).1
    · exact ((mem_keepF_off hson).1 hwk).1
  -- the added messages
  have hadded : ∀ j ∈ added, (IsQuery c C T m.st j ∨ IsPower C T m.st j) ∧ known c j.plug = true ∧
      clearPath c (effStat c st0 C T) j.plug ∧ (pendB j = true → j ∈ m.waiting) ∧ (j ∈ m.waiting → j.cmd = C) := by
    intro j hj
    obtain ⟨hson, hj⟩ := e6 j hj
    rcases hj with ⟨hjw, hp⟩ | ⟨w, hwm, ha, hnd, rfl, hpa⟩
    · have hwt := h.waiters j hjw
      have hE : effStat c st0 C T i.plug = .on := by rw [← hs j hjw (anc_of_parent hw hp)]; exact hson
      exact ⟨Or.inr ⟨hwt.1, hwt.2.1, hwt.2.2.2, fun hh => by rw [hwt.2.2.1] at hh; cases hh⟩, h.kn _ hwt.2.2.2,
        clearPath_child hw hp hcp hE, fun _ => hjw, fun _ => hwt.1⟩
    · have hwt := h.waiters w hwm
      have hE : effStat c st0 C T i.plug = .on := by rw [← hs w hwm ha]; exact hson
      have hx := childOf_spec hw ha
      have hxw := childOf_proper hw ha hnd
      have hcpx := clearPath_child hw hx.1 hcp hE
      refine ⟨Or.inl ⟨rfl, rfl, ?_⟩, parentOf_known hx.1, hcpx, fun hh => by simp [pendB, query] at hh,
        fun hh => by have := (h.waiters _ hh).2.1; simp [query] at this⟩
      by_cases hxT : childOf c w.plug i.plug ∈ T
      · right
        cases hC : C with
        | stat => exact absurd hC hne
        | on => exact absurd hxT (h.nr hC _ hwt.2.2.2 _ hxw)
        | off =>
          refine ⟨rfl, ?_⟩
          have hwc : w.cmd = .off := by rw [hwt.1, hC]
          rcases h.rr hC _ hxT (by rw [hx.1]; rfl) with ⟨w', hw'm, hw'p⟩ | ⟨b, hb, hbE⟩ | ⟨j, hjm, hjp, hjc⟩ | hh
          · exfalso
            have hw'mv : w' ∈ movedF c i.plug .on m.waiting :=
              mem_movedF_on.2 ⟨hw'm, by rw [hw'p]; exact anc_of_parent hw hx.1, by rw [hw'p]; exact hx.1⟩
            have : plugActive { m with active := m.active ++ movedF c i.plug .on m.waiting }
                (childOf c w.plug i.plug) w.cmd = true := by
              unfold plugActive
              rw [List.any_eq_true]
              refine ⟨w', by simp [hw'mv], ?_⟩
              have : w'.cmd = .off := by rw [(h.waiters w' hw'm).1, hC]
              simp [hw'p, hwc, this]
            rw [this] at hpa; cases hpa
          · exact absurd (hcpx b hb) hbE
          · exfalso
            have : plugActive { m with active := m.active ++ movedF c i.plug .on m.waiting }
                (childOf c w.plug i.plug) w.cmd = true := by
              unfold plugActive
              rw [List.any_eq_true]
              exact ⟨j, by simp [hjm], by simp [hjp, hwc, hjc]⟩
            rw [this] at hpa; cases hpa
          · exact hh
      · exact Or.inl hxT
  refine ⟨new ++ added, ?_⟩
  constructor
  · rw [e1, h.act]; simp
  · rw [e2, e3]
    intro j hj
    simp only [List.mem_append] at hj
    rcases hj with (hj | hj | hj) | hj
    · exact h.items j (by simp [hj])
    · exact h.items j (by simp [hj])
    · have := hadded j hj; exact ⟨this.1, this.2.1, this.2.2.1⟩
    · exact h.items j (by simp [hj])
  · rw [e2]; exact h.dl
  · rw [e5]; intro w hwk; exact h.waiters w (hkeep_sub w hwk)
  · rw [e3]; exact h.sd
  · intro x
    rw [h.sb x, e3]
    apply curOn_congr
    intro t hsucc
    unfold pend
    rw [e5]
    simp only [List.mem_map, List.mem_append, List.mem_filter, List.mem_cons]
    constructor
    · rintro ⟨j, hj, rfl⟩
      rcases hj with hj | ⟨(hj | hj) | hj, hpb⟩
      · by_cases hk : j ∈ keepF c i.plug s m.waiting
        · exact ⟨j, Or.inl hk, rfl⟩
        · rcases hkeep j hj hk with ⟨_, ha, hE⟩ | ⟨_, hadd, _⟩
          · rw [not_succeeds_below hw ha hE hcp] at hsucc; cases hsucc
          · have hwt := h.waiters j hj
            exact ⟨j, Or.inr ⟨Or.inr (Or.inr hadd), pendB_waiter hne hwt.1 hwt.2.2.1⟩, rfl⟩
      · subst hj; rw [hpi hpb] at hsucc; cases hsucc
      · exact ⟨j, Or.inr ⟨Or.inl hj, hpb⟩, rfl⟩
      · exact ⟨j, Or.inr ⟨Or.inr (Or.inl hj), hpb⟩, rfl⟩
    · rintro ⟨j, hj, rfl⟩
      rcases hj with hj | ⟨hj | hj | hj, hpb⟩
      · exact ⟨j, Or.inl (hkeep_sub j hj), rfl⟩
      · exact ⟨j, Or.inr ⟨Or.inl (Or.inr hj), hpb⟩, rfl⟩
      · exact ⟨j, Or.inr ⟨Or.inr hj, hpb⟩, rfl⟩
      · exact ⟨j, Or.inl ((hadded j hj).2.2.2.1 hpb), rfl⟩
  · exact h.nr
  · intro hC t ht hpar
    rw [e1, e3, e5]
    rcases h.rr hC t ht hpar with ⟨w, hwm, hwp⟩ | hh | ⟨j, hjm, hj⟩ | hh
    · by_cases hk : w ∈ keepF c i.plug s m.waiting
      · exact Or.inl ⟨w, hk, hwp⟩
      · rcases hkeep w hwm hk with ⟨_, ha, hE⟩ | ⟨_, hadd, _⟩
        · exact Or.inr (Or.inl ⟨i.plug, hwp ▸ ha, hE⟩)
        · refine Or.inr (Or.inr (Or.inl ⟨w, by simp [hadd], hwp, ?_⟩))
          rw [(h.waiters w hwm).1, hC]
    · exact Or.inr (Or.inl hh)
    · exact Or.inr (Or.inr (Or.inl ⟨j, by simp [hjm], hj⟩))
    · exact Or.inr (Or.inr (Or.inr hh))
  · intro hC j hj hjc
    rw [e3]
    rcases List.mem_append.1 hj with hj | hj
    · exact h.pdone hC j hj hjc
    · simp at hj; subst hj; exact hpd hC hjc
  · exact h.kn
  · exact h.cne

theorem isOn_powerSt_off_mono {c : Cfg} {st : St} {p x : Nat} (h : isOn st x = false) :
    isOn (powerSt c st .off p) x = false := by
  rw [isOn_powerSt_off _ _ _ _ _ (by decide), h]; rfl

theorem IsQuery_mono {c : Cfg} {C : Cmd} {T : List Nat} {st : St} {j : PM} (p : Nat) (h : IsQuery c C T st j) :
    IsQuery c C T (powerSt c st C p) j := by
  obtain ⟨h1, h2, h3⟩ := h
  refine ⟨h1, h2, ?_⟩
  rcases h3 with h3 | ⟨hC, h3 | h3⟩
  · exact Or.inl h3
  · subst hC; exact Or.inr ⟨rfl, Or.inl (isOn_powerSt_off_mono h3)⟩
  · exact Or.inr ⟨hC, Or.inr h3⟩

theorem IsPower_mono {c : Cfg} {C : Cmd} {T : List Nat} {st : St} {j : PM} (p : Nat) (h : IsPower C T st j) :
    IsPower C T (powerSt c st C p) j := by
  obtain ⟨h1, h2, h3, h4⟩ := h
  refine ⟨h1, h2, h3, fun hwt => ?_⟩
  have := h4 hwt
  cases C with
  | stat => rw [isOn_powerSt_off _ _ _ _ _ (by decide), this]; rfl
  | on => rw [isOn_powerSt_on, this]; simp
  | off => rw [isOn_powerSt_off _ _ _ _ _ (by decide), this]; rfl

/-- "sending" the power command of the head message keeps the invariant -/
theorem PInv_fresh {c : Cfg} (hw : WF c = true) {st0 : St} {C : Cmd} {T : List Nat} {d : Nat} {P rest new : List PM}
    {i i' : PM} {m : M} (h : PInv c st0 C T d P (i :: rest) new m) (hc : i.cmd ≠ .stat) (hwt : i.waitState = false)
    (hf : hostFails c i.plug = false) (hi' : i' = { i with output := true, waitState := true }) :
    PInv c st0 C T d (P ++ [i]) rest new
      { m with st := powerSt c m.st i.cmd i.plug, delayed := m.delayed ++ [i'] } := by
  have hi := h.items i (by simp)
  have hne := h.cne
  obtain ⟨hC, _, hT, _⟩ : IsPower C T m.st i := by
    rcases hi.1 with hq | hp
    · exact absurd hq.1 hc
    · exact hp
  have hsucc : succeeds c st0 C T i.plug = true := by simp [succeeds, blk_clear hi.2.2, hf]
  have hpl : i'.plug = i.plug := by simp [hi']
  rw [hC]
  constructor
  · simp [h.act]
  · intro j hj
    simp only [List.mem_append, List.mem_singleton] at hj
    have old : ∀ j, j ∈ (i :: rest) ++ new ++ m.delayed →
        (IsQuery c C T (powerSt c m.st C i.plug) j ∨ IsPower C T (powerSt c m.st C i.plug) j) ∧ known c j.plug = true ∧
        clearPath c (effStat c st0 C T) j.plug := by
      intro j hj
      have := h.items j hj
      exact ⟨this.1.elim (fun q => Or.inl (IsQuery_mono _ q)) (fun q => Or.inr (IsPower_mono _ q)), this.2⟩
    rcases hj with (hj | hj) | hj | hj
    · exact old j (by simp [hj])
    · exact old j (by simp [hj])
    · exact old j (by simp [hj])
    · subst hj
      rw [hpl]
      refine ⟨Or.inr ⟨by simp [hi', hC], by simp [hi'], by rw [hpl]; exact hT, fun _ => ?_⟩, hi.2⟩
      rw [hpl]
      cases C with
      | stat => exact absurd rfl hne
      | on => rw [isOn_powerSt_on]; simp
      | off => rw [isOn_powerSt_off _ _ _ _ _ (by decide)]; simp
  · intro j hj
    simp only [List.mem_append, List.mem_singleton] at hj
    rcases hj with hj | hj
    · exact h.dl j hj
    · subst hj; exact ⟨by simp [hi', hc], by simp [hi']⟩
  · exact h.waiters
  · intro x hx
    by_cases hsame : isOn (powerSt c m.st C i.plug) x = isOn m.st x
    · exact h.sd x (by rw [← hsame]; exact hx)
    · cases C with
      | stat => exact absurd rfl hne
      | on =>
        rw [isOn_powerSt_on] at hsame
        by_cases hxp : x = i.plug
        · exact ⟨i.plug, hT, Or.inl hxp⟩
        · simp [hxp] at hsame
      | off =>
        rw [isOn_powerSt_off _ _ _ _ _ (by decide)] at hsame
        by_cases hxp : x = i.plug
        · exact ⟨i.plug, hT, Or.inl hxp⟩
        · by_cases hd : isDesc c x i.plug = true
          · exact ⟨i.plug, hT, Or.inr ⟨rfl, isDesc_iff.1 hd⟩⟩
          · simp [hxp, hd] at hsame
  · intro x
    rw [h.sb x]
    have hpb : pendB i = true := by simp [pendB, hc, hwt]
    have e1 : pend (i :: rest) new m = m.waiting.map (·.plug) ++ i.plug :: ((rest ++ new).filter pendB).map (·.plug) := by
      simp [pend, List.filter_cons, hpb]
    have e2 : pend rest new { m with st := powerSt c m.st C i.plug, delayed := m.delayed ++ [i'] }
        = m.waiting.map (·.plug) ++ ((rest ++ new).filter pendB).map (·.plug) := by
      simp [pend]
    rw [e1, e2]
    unfold curOn
    cases C with
    | stat => exact absurd rfl hne
    | on =>
      simp only [beq_self_eq_true, if_true, isOn_powerSt_on, List.any_append, List.any_cons, hsucc, Bool.true_and]
      by_cases hxp : x = i.plug
      · simp [hxp]
      · have : (x == i.plug) = false := by simp [hxp]
        simp [hxp, this]
    | off =>
      have hb : (Cmd.off == Cmd.on) = false := rfl
      simp only [hb, Bool.false_eq_true, if_false, isOn_powerSt_off _ _ _ _ _ (show Cmd.off ≠ Cmd.on by decide),
        List.any_append, List.any_cons, hsucc, Bool.true_and]
      by_cases hxp : x = i.plug
      · simp [hxp]
      · have : (x == i.plug) = false := by simp [hxp]
        simp only [this, Bool.false_or, hxp, decide_false, Bool.not_false, Bool.and_true]
        cases isOn m.st x <;> cases isDesc c x i.plug <;> simp
  · exact h.nr
  · intro hC' t ht hpar
    subst hC'
    rcases h.rr rfl t ht hpar with hh | hh | hh | hh | hh
    · exact Or.inl hh
    · exact Or.inr (Or.inl hh)
    · exact Or.inr (Or.inr (Or.inl hh))
    · exact Or.inr (Or.inr (Or.inr (Or.inl (isOn_powerSt_off_mono hh))))
    · exact Or.inr (Or.inr (Or.inr (Or.inr hh)))
  · intro hC' j hj hjc
    subst hC'
    rcases List.mem_append.1 hj with hj | hj
    · rcases h.pdone rfl j hj hjc with hh | hh
      · exact Or.inl (isOn_powerSt_off_mono hh)
      · exact Or.inr hh
    · simp at hj; subst hj
      left; rw [isOn_powerSt_off _ _ _ _ _ (by decide)]; simp
  · exact h.kn
  · exact h.cne

theorem PInv_again_false {c : Cfg} {st0 : St} {C : Cmd} {T : List Nat} {d : Nat} {P rest new : List PM} {i : PM} {m : M}
    (h : PInv c st0 C T d P (i :: rest) new m) : isAgain c m i = false := by
  have hi := h.items i (by simp)
  unfold isAgain
  by_cases hf : hostFails c i.plug = true
  · simp [hf]
  · by_cases hc : i.cmd = .stat
    · simp [hc]
    · cases hwt : i.waitState
      · simp
      · rcases hi.1 with hq | ⟨hC, _, _, hg⟩
        · exact absurd hq.1 hc
        · have := hg hwt
          unfold statStr
          rw [this, hC]
          cases C <;> simp <;> intro _ <;> decide

theorem PInv_justifies {c : Cfg} (hw : WF c = true) (st0 : St) (C : Cmd) (T : List Nat) :
    Justifies (powLine c st0 C T) (fun l => l) c (PInv c st0 C T) where
  act := fun _ _ _ _ _ h => h.act
  outp := by
    intro d P i rest new m h hc
    rcases (h.items i (by simp)).1 with hq | hp
    · exact absurd hq.1 hc
    · exact hp.2.1
  own := by
    intro d P i rest new m h _ _ ho
    have hi := h.items i (by simp)
    rcases hi.1 with hq | ⟨hC, _, _, _⟩
    · rw [hq.2.1] at ho; cases ho
    · have hcs : i.cmd ≠ .stat := by rw [hC]; exact h.cne
      unfold powLine ownLine
      rw [blk_clear hi.2.2]
      simp [hcs]
  waiters := by
    intro d P i rest new m h hfr _ hs w hwm ha _
    have hi := h.items i (by simp)
    have hwt := h.waiters w hwm
    have hE : resStat c m i = effStat c st0 C T i.plug := by
      apply res_eq_eff h.sd hi.1 hi.2.2
      · intro hf hc
        cases hh : i.waitState
        · simp [isFresh, hf, hc, hh] at hfr
        · rfl
      · intro hC
        by_cases hc : i.cmd = .stat
        · exact hc
        · rcases hi.1 with hq | hp
          · exact hq.1
          · exact absurd hp.2.2.1 (h.nr hC _ hwt.2.2.2 _ ha)
      · exact h.cne
    rw [hE] at hs ⊢
    unfold powLine
    rw [blk_at hw ha hs hi.2.2]
    have hne := h.cne
    unfold wline1
    rw [hwt.1]
    cases C <;> simp_all
  step := by
    intro d P i rest new m h
    have hi := h.items i (by simp)
    have ho : i.cmd ≠ .stat → i.output = true := by
      intro hc
      rcases hi.1 with hq | hp
      · exact absurd hq.1 hc
      · exact hp.2.1
    rw [processOne_shape c m i ho]
    by_cases hfr : isFresh c i = true
    · simp only [hfr, if_true]
      simp only [isFresh, Bool.and_eq_true, Bool.not_eq_true', decide_eq_true_eq] at hfr
      exact ⟨new, PInv_fresh hw h hfr.1.2 hfr.2 hfr.1.1 rfl⟩
    · have hfr : isFresh c i = false := by simpa using hfr
      simp only [hfr, PInv_again_false h, Bool.false_eq_true, if_false]
      obtain ⟨f1, f2, f3, f4⟩ := outIf_fields m i.output (ownLine c m i)
      have h' : PInv c st0 C T d P (i :: rest) new (outIf m i.output (ownLine c m i)) := PInv_congr h f1 f2 f3 f4
      have hwtS : hostFails c i.plug = false → i.cmd ≠ .stat → i.waitState = true := by
        intro hf hc
        cases hh : i.waitState
        · simp [isFresh, hf, hc, hh] at hfr
        · rfl
      apply PInv_pw hw h'
      · intro w hwm ha
        rw [f3] at hwm
        have hwt := h.waiters w hwm
        apply res_eq_eff h.sd hi.1 hi.2.2 hwtS
        · intro hC
          by_cases hc : i.cmd = .stat
          · exact hc
          · rcases hi.1 with hq | hp
            · exact hq.1
            · exact absurd hp.2.2.1 (h.nr hC _ hwt.2.2.2 _ ha)
        · exact h.cne
      · intro hpb
        simp only [pendB, Bool.and_eq_true, decide_eq_true_eq, Bool.not_eq_true'] at hpb
        cases hf : hostFails c i.plug
        · have := hwtS hf hpb.1; rw [hpb.2] at this; cases this
        · simp [succeeds, hf]
      · intro hC hc
        rw [f4]
        cases hf : hostFails c i.plug
        · left
          have hcs : i.cmd ≠ .stat := by rw [hc]; decide
          rcases hi.1 with hq | hp
          · exact absurd hq.1 hcs
          · rw [hp.2.2.2 (hwtS hf hcs), hC]; rfl
        · exact Or.inr rfl
  turn := by
    intro d P new m h
    have hfil : ∀ j ∈ m.delayed, pendB j = false := by
      intro j hj; simp [pendB, (h.dl j hj).2]
    constructor
    · simp
    · intro j hj
      simp only [List.append_nil, List.mem_append] at hj
      exact h.items j (by
        simp only [List.nil_append, List.mem_append]
        rcases hj with hj | hj
        · exact Or.inl hj
        · exact Or.inr hj)
    · intro j hj; simp at hj
    · exact h.waiters
    · exact h.sd
    · intro x
      rw [h.sb x]
      apply curOn_congr
      intro t _
      unfold pend
      simp only [List.nil_append, List.append_nil, List.mem_map, List.mem_append, List.mem_filter]
      constructor
      · rintro ⟨j, hj, rfl⟩
        rcases hj with hj | ⟨hj, hpb⟩
        · exact ⟨j, Or.inl hj, rfl⟩
        · exact ⟨j, Or.inr ⟨Or.inl hj, hpb⟩, rfl⟩
      · rintro ⟨j, hj, rfl⟩
        rcases hj with hj | ⟨hj | hj, hpb⟩
        · exact ⟨j, Or.inl hj, rfl⟩
        · exact ⟨j, Or.inr ⟨hj, hpb⟩, rfl⟩
        · rw [hfil j hj] at hpb; cases hpb
    · exact h.nr
    · intro hC t ht hpar
      rcases h.rr hC t ht hpar with hh | hh | ⟨j, hjm, hjp, hjc⟩ | hh
      · exact Or.inl hh
      · exact Or.inr (Or.inl hh)
      · rw [h.act] at hjm
        simp only [List.append_nil, List.mem_append] at hjm
        rcases hjm with hjm | hjm
        · have := h.pdone hC j hjm hjc
          rw [hjp] at this
          exact Or.inr (Or.inr (Or.inr this))
        · exact Or.inr (Or.inr (Or.inl ⟨j, by simp [hjm], hjp, hjc⟩))
      · exact Or.inr (Or.inr (Or.inr hh))
    · intro _ j hj; simp at hj
    · exact h.kn
    · exact h.cne

end Pm.Redfish
