import Pm.Dev2Count
import Pm.FrameDev
/-! Helper lemmas for C15 over whole runs, part 7 (device half of the ledger): **a telemetry or diagnostic callback for a
    client comes before the last completion that the device still owes that client**.

    `Fwd cid q out`: before every callback in `out` that carries text for client `cid` (`305`/`309`), fewer than `q`
    completions for `cid` have been reported.  With `q` the number of `cid`'s actions queued when `dev_post_poll` begins,
    this holds of everything one device's share of the pass reports: the text is produced while the action it belongs to
    is still at the head of the queue.  Together with the conservation of completions (`Dev2Count`) it gives the daemon the
    fact that such a line reaches only a client whose command is still in progress. -/
namespace Pm.Dev2

/-- the callback carries a telemetry or diagnostic text for client `cid` -/
def isStray (cid : Nat) : Out → Bool
  | .telemetry c _ => c == cid
  | .diag c _ => c == cid
  | _ => false

/-- before every text callback for `cid` in `out`, fewer than `q` completions for `cid` were reported -/
def Fwd (cid q : Nat) (out : List Out) : Prop :=
  ∀ pre x post, out = pre ++ x :: post → isStray cid x = true → fcount cid pre < q

theorem Fwd.nil (cid q : Nat) : Fwd cid q [] := by
  intro pre x post h; simp at h

theorem split_append {α} {a b pre post : List α} {x : α} (h : a ++ b = pre ++ x :: post) :
    (∃ post', a = pre ++ x :: post' ∧ post = post' ++ b) ∨ (∃ pre', b = pre' ++ x :: post ∧ pre = a ++ pre') := by
  induction a generalizing pre with
  | nil => exact Or.inr ⟨pre, by simpa using h, by simp⟩
  | cons y r ih =>
    cases pre with
    | nil =>
      simp only [List.cons_append, List.nil_append, List.cons.injEq] at h
      obtain ⟨rfl, h⟩ := h
      exact Or.inl ⟨r, rfl, h.symm⟩
    | cons z pre =>
      simp only [List.cons_append, List.cons.injEq] at h
      obtain ⟨rfl, h⟩ := h
      rcases ih h with ⟨post', h1, h2⟩ | ⟨pre', h1, h2⟩
      · exact Or.inl ⟨post', by rw [h1]; rfl, h2⟩
      · exact Or.inr ⟨pre', h1, by rw [h2]; rfl⟩

/-- appending callbacks none of which carries text for `cid` -/
theorem Fwd.append_noStray {cid q : Nat} {out new : List Out} (h : Fwd cid q out) (hn : ∀ x ∈ new, isStray cid x = false) :
    Fwd cid q (out ++ new) := by
  intro pre x post e hx
  rcases split_append e with ⟨post', h1, _⟩ | ⟨pre', h1, _⟩
  · exact h pre x post' h1 hx
  · have := hn x (by rw [h1]; simp)
    rw [this] at hx; cases hx

/-- appending callbacks none of which is a completion, while fewer than `q` completions have been reported -/
theorem Fwd.append_noFinish {cid q : Nat} {out new : List Out} (h : Fwd cid q out) (hn : ∀ x ∈ new, isFinish x = false)
    (hq : (∃ x ∈ new, isStray cid x = true) → fcount cid out < q) : Fwd cid q (out ++ new) := by
  intro pre x post e hx
  rcases split_append e with ⟨post', h1, _⟩ | ⟨pre', h1, h2⟩
  · exact h pre x post' h1 hx
  · rw [h2, fcount_append]
    have : fcount cid pre' = 0 := fcount_noFinish cid pre' (fun y hy => hn y (by rw [h1]; simp [hy]))
    rw [this, Nat.add_zero]
    exact hq ⟨x, by rw [h1]; simp, hx⟩

theorem isStray_finish (cid : Nat) (l : List Out) (h : ∀ x ∈ l, ∃ c e, x = Out.finish c e) : ∀ x ∈ l, isStray cid x = false := by
  intro x hx; obtain ⟨c, e, rfl⟩ := h x hx; rfl

/-- a text callback addressed to somebody else is not one for `cid` -/
theorem isStray_addr {cid a : Nat} {l : List Out} (h : ∀ x ∈ l, ∀ c, outCid x = some c → c = a) (hne : a ≠ cid) :
    ∀ x ∈ l, isStray cid x = false := by
  intro x hx
  cases x with
  | telemetry c t =>
    have := h _ hx c rfl
    simp only [isStray]; rw [this]; simpa using hne
  | diag c t =>
    have := h _ hx c rfl
    simp only [isStray]; rw [this]; simpa using hne
  | _ => rfl

theorem failFin_finish (a : Action) (rest : List Action) (res : ActErr) :
    ∀ x ∈ (if a.clientId != 0 then [Out.finish a.clientId res] else []) ++
      (rest.filter (·.clientId != 0)).map (fun b => Out.finish b.clientId (if res == .expfail then .abort else res)),
      ∃ c e, x = Out.finish c e := by
  intro x hx
  rcases List.mem_append.mp hx with hx | hx
  · split at hx
    · simp at hx; exact ⟨_, _, hx⟩
    · cases hx
  · simp only [List.mem_map] at hx
    obtain ⟨b, _, rfl⟩ := hx
    exact ⟨_, _, rfl⟩

theorem failAll_fwd (rest : List Action) (c : CS) (a : Action) (o : Oracle) (out : List Out) (tmo : Option Time)
    (cid q : Nat) (h : Fwd cid q out) : Fwd cid q (failAll rest c a o out tmo).2.2.1 := by
  have hfin := isStray_finish cid _ (failFin_finish a rest a.errnum)
  unfold failAll
  dsimp only
  split
  · generalize reconnectDev _ tmo = r
    exact h.append_noStray hfin
  · exact h.append_noStray hfin

theorem onTimeout_fwd (rest : List Action) (c : CS) (a : Action) (o : Oracle) (out : List Out) (tmo : Option Time)
    (cid q : Nat) (h : Fwd cid q out) (hq : a.clientId = cid → fcount cid out < q) :
    Fwd cid q (onTimeout rest c a o out tmo).2.2.1 := by
  unfold onTimeout
  dsimp only
  have hT := teleMem_noFinish a.clientId "recv(dev): '" c.dev.fromBuf
  have hA := teleMem_addr a.clientId "recv(dev): '" c.dev.fromBuf
  generalize htele : (if a.telemetry = true then
      (if (c.dev.conn != 2) = true then [Out.telemetry a.clientId (str "connect(dev): timeout")]
       else teleMem a.clientId "recv(dev): '" c.dev.fromBuf) else []) = tele
  have hnt : ∀ x ∈ tele, isFinish x = false := by
    subst htele; intro x hx
    split at hx
    · split at hx
      · simp at hx; subst hx; rfl
      · exact hT x hx
    · simp at hx
  have haddr : ∀ x ∈ tele, ∀ c', outCid x = some c' → c' = a.clientId := by
    subst htele; intro x hx c' hc'
    split at hx
    · split at hx
      · simp at hx; subst hx; simp [outCid] at hc'; exact hc'.symm
      · exact hA x hx c' hc'
    · simp at hx
  have hf : Fwd cid q (out ++ tele) := by
    refine h.append_noFinish hnt ?_
    rintro ⟨x, hx, hs⟩
    by_cases hc : a.clientId = cid
    · exact hq hc
    · rw [isStray_addr haddr hc x hx] at hs; cases hs
  split
  · exact hf
  · exact failAll_fwd rest c _ o _ tmo cid q hf

theorem onRun_fwd (k : CS → Oracle → List Out → Option Time → PA) (rest : List Action) (c : CS) (a : Action) (o : Oracle)
    (out : List Out) (tmo : Option Time) (left : Time) (cid q : Nat) (hc : cid ≠ 0)
    (h : Fwd cid q out) (hcons : fcount cid out + qcount cid (a :: rest) = q)
    (hk : ∀ c' o' out' tmo', fcount cid out' + qcount cid c'.dev.acts = q → Fwd cid q out' → Fwd cid q (k c' o' out' tmo').2.2.1) :
    Fwd cid q (onRun k rest c a o out tmo left).2.2.1 := by
  unfold onRun
  dsimp only
  have hIL := innerLoop_noFinish c.env.now (loopBound a) { c.dev with wake := none } a o [] (by simp)
  have hIC := innerLoop_clientId c.env.now (loopBound a) { c.dev with wake := none } a o []
  have hfr := innerLoop_frame (fun _ => false) c.env.now (loopBound a) { c.dev with wake := none } a o [] (fun _ _ _ _ => rfl) (by simp)
  generalize innerLoop c.env.now (loopBound a) { c.dev with wake := none } a o [] = r at *
  have hadv := advance_clientId r.act
  generalize advance r.act = a' at *
  have h0 := fcount_noFinish cid r.out hIL
  have hra : qcount cid (r.act :: rest) = qcount cid (a :: rest) := qcount_cons_congr _ _ _ _ hIC
  have ha' : qcount cid (a' :: rest) = qcount cid (a :: rest) := qcount_cons_congr _ _ _ _ (by rw [hadv, hIC])
  have hf : Fwd cid q (out ++ r.out) := by
    refine h.append_noFinish hIL ?_
    rintro ⟨x, hx, hs⟩
    by_cases hca : a.clientId = cid
    · rw [qcount_cons] at hcons
      have : (a.clientId == cid) = true := by simpa using hca
      simp only [this, if_true] at hcons
      omega
    · rw [isStray_addr hfr.addr hca x hx] at hs; cases hs
  split
  · exact hf
  · split
    · exact hf
    · split
      · split
        · refine hk _ _ _ _ ?_ (hf.append_noStray (isStray_finish cid _ (by
            intro x hx
            split at hx
            · simp at hx; exact ⟨_, _, hx⟩
            · cases hx)))
          simp only [fcount_append, h0, fcount_headFin cid hc]
          rw [← hcons, ← ha', qcount_cons]; simp; omega
        · refine hk _ _ _ _ ?_ hf
          simp only [fcount_append, h0]
          rw [← hcons, ← ha']; simp
      · exact failAll_fwd rest _ r.act r.oracle _ tmo cid q hf

/-- **`_process_action`**: if `q` is the number of completions reported so far plus the number of `cid`'s actions queued, every
    text callback for `cid` comes while fewer than `q` completions for `cid` have been reported -/
theorem processActionF_fwd (fuel : Nat) (c : CS) (o : Oracle) (out : List Out) (tmo : Option Time) (cid q : Nat) (hc : cid ≠ 0)
    (hcons : fcount cid out + qcount cid c.dev.acts = q) (h : Fwd cid q out) :
    Fwd cid q (processActionF fuel c o out tmo).2.2.1 := by
  induction fuel generalizing c o out tmo with
  | zero =>
    unfold processActionF
    exact h.append_noStray (by intro x hx; simp at hx; subst hx; rfl)
  | succ n ih =>
    unfold processActionF processActionBody
    split
    · exact h
    · split
      · exact h
      · rename_i a0 rest hacts
        dsimp only
        have hs := stamp_clientId c.env.now a0
        generalize stamp c.env.now a0 = a at *
        have hq : qcount cid c.dev.acts = qcount cid (a :: rest) := by
          rw [hacts]; exact qcount_cons_congr _ _ _ _ hs.symm
        split
        · refine onTimeout_fwd rest c a o out tmo cid q h ?_
          intro hca
          rw [hq, qcount_cons] at hcons
          have : (a.clientId == cid) = true := by simpa using hca
          simp only [this, if_true] at hcons
          omega
        · split
          · exact h
          · exact onRun_fwd _ rest c a o out tmo _ cid q hc h (by rw [← hq]; exact hcons)
              (fun c' o' out' tmo' h1 h2 => ih c' o' out' tmo' h1 h2)

/-! ### the connection layer only loses actions of clients (never: it drops login actions), and gains none -/

/-- no client has more actions queued in `d'` than in `d` -/
def QLe (d d' : Dev) : Prop := ∀ cid, cid ≠ 0 → qcount cid d'.acts ≤ qcount cid d.acts

theorem QLe.rfl' (d : Dev) : QLe d d := fun _ _ => Nat.le_refl _
theorem QLe.trans {a b c : Dev} (h1 : QLe a b) (h2 : QLe b c) : QLe a c := fun cid hc => Nat.le_trans (h2 cid hc) (h1 cid hc)

theorem QLe.of_acts {d d' : Dev} (h : d'.acts = d.acts) : QLe d d' := by intro cid _; rw [h]; exact Nat.le_refl _

theorem QLe.of_core {d d' : Dev} (h : core d' = core d) : QLe d d' := by
  simp only [core, Prod.mk.injEq] at h
  exact QLe.of_acts h.2.2.2

theorem rewind_clientId' (a : Action) : (rewind a).clientId = a.clientId := by
  unfold rewind; split <;> rfl

theorem enqueueLogin_qle (d : Dev) : QLe d (enqueueLogin d) := by
  intro cid hc
  unfold enqueueLogin
  have hl : ((loginAction d).clientId == cid) = false := by simp [loginAction]; omega
  cases hq : d.acts with
  | nil => simp [qcount_cons, hl]
  | cons a r =>
    simp only [qcount_cons, hl, rewind_clientId']
    simp

theorem QLe.of_core_login {d d' : Dev} (h : core d' = core d ∨ core d' = core (enqueueLogin d)) : QLe d d' := by
  rcases h with h | h
  · exact QLe.of_core h
  · exact (enqueueLogin_qle d).trans (QLe.of_core h)

theorem connectDev_qle (c : CS) : QLe c.dev (connectDev c).dev := by
  unfold connectDev
  dsimp only
  have h1 := tcpConnect_core { c with dev := { c.dev with lastRetry := c.env.now, retryCount := c.dev.retryCount + 1 } }
  have h2 := pipeConnect_core { c with dev := { c.dev with lastRetry := c.env.now, retryCount := c.dev.retryCount + 1 } }
  have h0 : QLe c.dev { c.dev with lastRetry := c.env.now, retryCount := c.dev.retryCount + 1 } := QLe.of_acts rfl
  split
  · generalize pipeConnect _ = r at *
    have hr : QLe c.dev r.1.dev := h0.trans (QLe.of_core h2)
    split
    · exact hr.trans (enqueueLogin_qle _)
    · exact hr
  · generalize tcpConnect _ = r at *
    have hr : QLe c.dev r.1.dev := h0.trans (QLe.of_core h1)
    split
    · exact hr.trans (enqueueLogin_qle _)
    · exact hr

theorem disconnectDev_qle (c : CS) : QLe c.dev (disconnectDev c).dev := by
  intro cid _
  have : (disconnectDev c).dev.acts = (match c.dev.acts with | a :: r => if a.com == 0 then r else a :: r | [] => []) := by
    unfold disconnectDev; grind
  rw [this]
  cases c.dev.acts with
  | nil => exact Nat.le_refl _
  | cons a r =>
    dsimp only
    split
    · rw [qcount_cons]; omega
    · exact Nat.le_refl _

theorem reconnectDev_qle (c : CS) (tmo : Option Time) : QLe c.dev (reconnectDev c tmo).1.dev := by
  unfold reconnectDev
  dsimp only
  have hd := disconnectDev_qle c
  have hc := connectDev_qle
  split <;> split <;> first
    | exact hd.trans (hc _)
    | exact hc _
    | exact hd
    | exact QLe.rfl' _

theorem handleReady_qle (c : CS) : QLe c.dev (handleReady c).1.dev := by
  rw [handleReady_eq]
  unfold handleReady'
  have hw := QLe.of_core_login (hrWrite_core c)
  have hr := fun c => QLe.of_core (hrRead_core c)
  dsimp only
  split
  · exact QLe.rfl' _
  split
  · exact QLe.rfl' _
  split
  · exact QLe.rfl' _
  split
  · generalize hrWrite c = w at *
    split
    · exact hw
    split
    · exact hw
    split
    · exact hw.trans (hr _)
    · exact hw
  · dsimp only
    split
    · exact QLe.rfl' _
    split
    · exact hr _
    · exact QLe.rfl' _

theorem ppReady_qle (d : Dev) (env : Env) : QLe d (ppReady d env).1.dev := by
  unfold ppReady
  dsimp only
  generalize (if d.fd.isSome = true then env.revents else 0) = flags
  split
  · exact handleReady_qle { dev := d, env := { env with revents := flags }, sys := [] }
  · exact QLe.rfl' _

theorem ppReconnect_qle (c : CS) (ioerr : Bool) : QLe c.dev (ppReconnect c ioerr).1.dev := by
  unfold ppReconnect
  split
  · exact reconnectDev_qle _ _
  · exact QLe.rfl' _

theorem ppPing_qle (c : CS) (now : Time) (tmo : Option Time) : QLe c.dev (ppPing c now tmo).1.dev := by
  intro cid hc
  rcases (ppPing_frame c now tmo).2.2.2 with h | h
  · rw [h]; exact Nat.le_refl _
  · rw [h]
    have : ((pingAction c.dev).clientId == cid) = false := by simp [pingAction, loginAction]; omega
    simp [qcount, List.countP_append, this]

/-- **one device's share of `dev_post_poll`**: with `q` the number of `cid`'s actions queued before, the completions
    reported plus the actions still queued do not exceed `q`, and every text callback for `cid` comes while fewer than
    `q` completions for `cid` have been reported -/
theorem postPoll_ledger (d : Dev) (env : Env) (o : Oracle) (cid : Nat) (hc : cid ≠ 0) :
    fcount cid (postPoll d env o).2.2.1 + qcount cid (postPoll d env o).1.dev.acts ≤ qcount cid d.acts ∧
    Fwd cid (qcount cid d.acts) (postPoll d env o).2.2.1 := by
  rw [postPoll_eq]
  unfold postPoll'
  have h1 := ppReady_qle d env
  generalize ppReady d env = r at *
  dsimp only
  split
  · exact ⟨by simpa using h1 cid hc, Fwd.nil _ _⟩
  · have h2 := ppReconnect_qle r.1 r.2
    generalize ppReconnect r.1 r.2 = r2 at *
    have h3 := ppPing_qle r2.1 env.now r2.2
    generalize ppPing r2.1 env.now r2.2 = r3 at *
    have hle : qcount cid r3.1.dev.acts ≤ qcount cid d.acts := ((h1.trans h2).trans h3) cid hc
    unfold processAction
    have hcons := completions_conserved (passFuel r3.1.dev) r3.1 o [] r3.2 cid hc
    have hfwd := processActionF_fwd (passFuel r3.1.dev) r3.1 o [] r3.2 cid (qcount cid r3.1.dev.acts) hc (by simp) (Fwd.nil _ _)
    refine ⟨by rw [hcons]; simpa using hle, ?_⟩
    intro pre x post e hx
    exact Nat.lt_of_lt_of_le (hfwd pre x post e hx) hle

end Pm.Dev2

/-! axiom audit (expected: at most `propext`, `Classical.choice`, `Quot.sound`) -/
#print axioms Pm.Dev2.postPoll_ledger
#print axioms Pm.Dev2.processActionF_fwd
