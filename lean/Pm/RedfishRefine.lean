import Pm.RedfishPower
/-! helper lemmas for C19, part 12: `on` / `off` — the machine prints the lines of `specPower` and reaches its states -/
namespace Pm.Redfish

theorem mem_knownT {c : Cfg} {ts : List Nat} {t : Nat} : t ∈ knownT c ts ↔ t ∈ ts ∧ known c t = true := by
  simp [knownT, known]

theorem len_gt_one {α : Type} {l : List α} {x y : α} (hx : x ∈ l) (hy : y ∈ l) (hne : x ≠ y) : 1 < l.length := by
  match l, hx, hy with
  | [], hx, _ => simp at hx
  | [z], hx, hy => simp at hx hy; exact absurd (hx.trans hy.symm) hne
  | _ :: _ :: _, _, _ => simp

theorem mem_all_iff {c : Cfg} {cmd : Cmd} {ts : List Nat} {pm : PM} :
    pm ∈ (ts.filter (isRootT c)).map (mk cmd) ++ (ts.filter (isChildT c)).map (mk cmd) ↔
      ∃ t, t ∈ ts ∧ known c t = true ∧ pm = mk cmd t := by
  simp only [List.mem_append, List.mem_map, List.mem_filter]
  constructor
  · rintro (⟨t, ⟨h1, h2⟩, rfl⟩ | ⟨t, ⟨h1, h2⟩, rfl⟩)
    · refine ⟨t, h1, ?_, rfl⟩
      simp only [isRootT, Bool.and_eq_true] at h2; exact h2.1
    · refine ⟨t, h1, ?_, rfl⟩
      rcases classes c t with ⟨_, _, h⟩ | ⟨_, _, h⟩ | ⟨h, _, _⟩
      · rw [h] at h2; cases h2
      · rw [h] at h2; cases h2
      · exact h
  · rintro ⟨t, h1, h2, rfl⟩
    rcases classes c t with ⟨h, _, _⟩ | ⟨_, h, _⟩ | ⟨_, _, h⟩
    · rw [h] at h2; cases h2
    · exact Or.inl ⟨t, ⟨h1, h⟩, rfl⟩
    · exact Or.inr ⟨t, ⟨h1, h⟩, rfl⟩

/-- the machine's and the rules' "parent and child together" tests agree -/
theorem phased_iff {c : Cfg} (hw : WF c = true) (st : St) (cmd : Cmd) (ts : List Nat) :
    phasedT c st cmd ts = specPhased c cmd ts := by
  rw [Bool.eq_iff_iff]
  unfold phasedT phasedB specPhased
  rw [enq_eq]
  simp only [Bool.and_eq_true, Bool.not_eq_true', decide_eq_true_eq, List.any_eq_true]
  constructor
  · rintro ⟨_, ⟨hc, _⟩, pa, hpa, pb, hpb, hd⟩
    obtain ⟨a, ha1, ha2, rfl⟩ := mem_all_iff.1 hpa
    obtain ⟨b, hb1, hb2, rfl⟩ := mem_all_iff.1 hpb
    exact ⟨hc, a, mem_knownT.2 ⟨ha1, ha2⟩, b, mem_knownT.2 ⟨hb1, hb2⟩, hd⟩
  · rintro ⟨hc, a, ha, b, hb, hd⟩
    have ha' := mem_knownT.1 ha
    have hb' := mem_knownT.1 hb
    have hpa : mk cmd a ∈ (ts.filter (isRootT c)).map (mk cmd) ++ (ts.filter (isChildT c)).map (mk cmd) :=
      mem_all_iff.2 ⟨a, ha'.1, ha'.2, rfl⟩
    have hpb : mk cmd b ∈ (ts.filter (isRootT c)).map (mk cmd) ++ (ts.filter (isChildT c)).map (mk cmd) :=
      mem_all_iff.2 ⟨b, hb'.1, hb'.2, rfl⟩
    have hne : mk cmd a ≠ mk cmd b := by
      intro e
      have : a = b := by simpa [mk] using e
      subst this
      exact anc_irrefl hw a (isDesc_iff.1 hd)
    obtain ⟨q, hq⟩ := anc_nonempty_parent (isDesc_iff.1 hd)
    have hch : isChildT c a = true := by simp [isChildT, hq]
    refine ⟨?_, ⟨hc, len_gt_one hpa hpb hne⟩, mk cmd a, hpa, mk cmd b, hpb, hd⟩
    cases he : ((ts.filter (isChildT c)).map (mk cmd)).isEmpty
    · rfl
    · rw [List.isEmpty_iff, List.map_eq_nil_iff, List.filter_eq_nil_iff] at he
      exact absurd hch (he a ha'.1)

theorem count_known (c : Cfg) (f : Nat → Bool) (ts : List Nat) :
    (knownT c ts).countP f = (ts.filter (isRootT c)).countP f + (ts.filter (isChildT c)).countP f := by
  unfold knownT
  induction ts with
  | nil => rfl
  | cons t ts ih =>
    have hk : (lookup c t).isSome = known c t := rfl
    rcases classes c t with ⟨h1, h2, h3⟩ | ⟨h1, h2, h3⟩ | ⟨h1, h2, h3⟩ <;>
      simp [List.filter_cons, List.countP_cons, hk, h1, h2, h3, ih] <;> omega

theorem unknownLines_eq (c : Cfg) (ts : List Nat) :
    unknownLines c ts = (ts.filter (fun t => !known c t)).map Line.unknown := by
  unfold unknownLines
  congr 1
  apply List.filter_congr
  intro t _
  unfold known
  cases lookup c t <;> rfl

theorem plugActive_off_mem {m : M} {r : Nat} (h : mk .off r ∈ m.active) : plugActive m r .off = true := by
  unfold plugActive
  rw [List.any_eq_true]
  exact ⟨mk .off r, h, by simp [mk]⟩

/-- the invariant holds when the loop starts -/
theorem PInv_init {c : Cfg} (hw : WF c = true) (st : St) {cmd : Cmd} (hne : cmd ≠ .stat) (ts : List Nat)
    (hph : phasedT c st cmd ts = false) :
    PInv c st cmd (knownT c ts) 0 []
      ((setup c cmd (enq c st cmd ts)).active ++ (setup c cmd (enq c st cmd ts)).delayed) []
      { setup c cmd (enq c st cmd ts) with
        active := (setup c cmd (enq c st cmd ts)).active ++ (setup c cmd (enq c st cmd ts)).delayed, delayed := [] } := by
  have hsp : specPhased c cmd ts = false := by rw [← phased_iff hw st]; exact hph
  have hnr : cmd = .on → ∀ t ∈ knownT c ts, ∀ a ∈ ancUp c t, a ∉ knownT c ts := by
    intro e t ht a ha haT
    subst e
    unfold specPhased at hsp
    simp only [beq_self_eq_true, Bool.true_and] at hsp
    rw [List.any_eq_false] at hsp
    have := hsp t ht
    simp only [Bool.not_eq_true] at this
    rw [List.any_eq_false] at this
    exact this a haT (isDesc_iff.2 ha)
  obtain ⟨qs, e, hq⟩ := setup_plain' hph
  rw [e, enq_eq] at *
  simp only [List.append_nil] at *
  have hchild : ∀ t, t ∈ ts → isChildT c t = true → t ∈ knownT c ts ∧ ∃ q, parentOf c t = some q := by
    intro t ht hc
    have hq : ∃ q, parentOf c t = some q := by
      unfold isChildT at hc
      cases hp : parentOf c t with
      | none => simp [hp] at hc
      | some q => exact ⟨q, rfl⟩
    obtain ⟨q, hq'⟩ := hq
    exact ⟨mem_knownT.2 ⟨ht, parentOf_known hq'⟩, q, hq'⟩
  have hroot : ∀ t, t ∈ ts → isRootT c t = true → t ∈ knownT c ts ∧ parentOf c t = none := by
    intro t ht hr
    simp only [isRootT, Bool.and_eq_true, Option.isNone_iff_eq_none] at hr
    exact ⟨mem_knownT.2 ⟨ht, hr.1⟩, hr.2⟩
  have hqs : ∀ q ∈ qs, ∃ t, t ∈ ts ∧ isChildT c t = true ∧ q = query (rootOf c t) ∧ rootOf c t ∉ knownT c ts := by
    intro q hqm
    obtain ⟨w, hwm, rfl, hpa⟩ := hq q hqm
    simp only [List.mem_map, List.mem_filter] at hwm
    obtain ⟨t, ⟨ht1, ht2⟩, rfl⟩ := hwm
    refine ⟨t, ht1, ht2, rfl, ?_⟩
    intro hrT
    have hc := hchild t ht1 ht2
    have hr := rootOf_spec hw t hc.2
    cases hC : cmd with
    | stat => exact absurd hC hne
    | on => exact hnr hC t hc.1 _ hr.1 hrT
    | off =>
      have hrr : isRootT c (rootOf c t) = true := by
        simp [isRootT, (mem_knownT.1 hrT).2, hr.2]
      rw [hC] at hpa
      unfold plugActive at hpa
      rw [List.any_eq_false] at hpa
      have := hpa (mk .off (rootOf c t)) (by
        simp only [List.mem_map, List.mem_filter]
        exact ⟨rootOf c t, ⟨(mem_knownT.1 hrT).1, hrr⟩, rfl⟩)
      simp [mk] at this
  constructor
  · simp
  · intro j hj
    simp only [List.append_nil, List.mem_append, List.mem_map, List.mem_filter, List.not_mem_nil, or_false] at hj
    rcases hj with ⟨t, ⟨ht1, ht2⟩, rfl⟩ | hj
    · have := hroot t ht1 ht2
      refine ⟨Or.inr ⟨rfl, rfl, this.1, fun hh => by simp [mk] at hh⟩, (mem_knownT.1 this.1).2, ?_⟩
      intro b hb; rw [show (mk cmd t).plug = t from rfl, ancUp_root this.2] at hb; simp at hb
    · obtain ⟨t, ht1, ht2, rfl, hnT⟩ := hqs j hj
      have hc := hchild t ht1 ht2
      have hr := rootOf_spec hw t hc.2
      refine ⟨Or.inl ⟨rfl, rfl, Or.inl hnT⟩, anc_known hw _ _ hr.1, ?_⟩
      intro b hb; rw [show (query (rootOf c t)).plug = rootOf c t from rfl, ancUp_root hr.2] at hb; simp at hb
  · intro j hj; simp at hj
  · intro w hwm
    simp only [List.mem_map, List.mem_filter] at hwm
    obtain ⟨t, ⟨ht1, ht2⟩, rfl⟩ := hwm
    exact ⟨rfl, rfl, rfl, (hchild t ht1 ht2).1⟩
  · intro x hx; exact absurd rfl hx
  · intro x
    apply curOn_congr
    intro t _
    unfold pend
    simp only [List.append_nil, List.mem_map, List.mem_append, List.mem_filter]
    constructor
    · intro htT
      have := mem_knownT.1 htT
      rcases classes c t with ⟨h, _, _⟩ | ⟨_, h, _⟩ | ⟨_, _, h⟩
      · rw [h] at this; cases this.2
      · exact ⟨mk cmd t, Or.inr ⟨Or.inl ⟨t, ⟨this.1, h⟩, rfl⟩, by simp [pendB, mk, hne]⟩, rfl⟩
      · exact ⟨mk cmd t, Or.inl ⟨t, ⟨this.1, h⟩, rfl⟩, rfl⟩
    · rintro ⟨j, hj, rfl⟩
      rcases hj with ⟨t, ⟨ht1, ht2⟩, rfl⟩ | ⟨⟨t, ⟨ht1, ht2⟩, rfl⟩ | hj, hpb⟩
      · exact (hchild t ht1 ht2).1
      · exact (hroot t ht1 ht2).1
      · obtain ⟨t, _, _, rfl, _⟩ := hqs j hj
        simp [pendB, query] at hpb
  · exact hnr
  · intro _ t ht hpar
    left
    have := mem_knownT.1 ht
    refine ⟨mk cmd t, ?_, rfl⟩
    simp only [List.mem_map, List.mem_filter]
    exact ⟨t, ⟨this.1, by simpa [isChildT] using hpar⟩, rfl⟩
  · intro _ j hj; simp at hj
  · intro t ht; exact (mem_knownT.1 ht).2
  · exact hne

/-- `on` / `off`: the machine's lines are the specification's lines, and it reaches the specification's plug states -/
theorem runCmd_power {c : Cfg} (hw : WF c = true) (st : St) {cmd : Cmd} (hne : cmd ≠ .stat) (ts : List Nat) :
    (runCmd c st cmd ts).1.Perm (specPower c st cmd ts).1 ∧
    ∀ x, isOn (runCmd c st cmd ts).2.1 x = isOn (specPower c st cmd ts).2 x := by
  have hdone := runCmd_done hw st cmd ts
  rw [runCmd_eq] at hdone ⊢
  simp only at hdone ⊢
  by_cases hph : phasedT c st cmd ts = true
  · -- refused
    have hsp : specPhased c cmd ts = true := by rw [← phased_iff hw st]; exact hph
    rw [setup_phased hph, runLoop_idle _ _ _ (by simp [isDone, (enq_props c st cmd ts).2.1])]
    rw [specPower_eq, hsp, enq_eq]
    simp only [if_true]
    refine ⟨?_, fun _ => trivial⟩
    rw [unknownLines_eq]
    apply List.Perm.append_left
    rw [List.perm_iff_count]
    intro x
    rw [List.count_eq_countP, List.count_eq_countP, List.countP_map, List.countP_map, List.countP_append,
      List.countP_map, List.countP_map, count_known]
    rfl
  · have hph : phasedT c st cmd ts = false := by simpa using hph
    have hsp : specPhased c cmd ts = false := by rw [← phased_iff hw st]; exact hph
    have h0 := PInv_init hw st hne ts hph
    obtain ⟨hl, hs⟩ := specPower_closed hw st hne ts hsp
    have hperm : (specOrder c ts).Perm (knownT c ts) := List.mergeSort_perm _ _
    constructor
    · rw [hl, List.perm_iff_count]
      intro x
      have hb := loop_books (powLine c st cmd (knownT c ts)) (fun l => l) (PInv_justifies hw st cmd (knownT c ts)) x
        (fuelOf c ts) 0 _ h0
      rw [done_TT _ _ _ _ hdone, setup_TT_plain _ _ hph] at hb
      rw [List.count_eq_countP, List.count_eq_countP, List.countP_append, List.countP_map, unknownLines_eq,
        (hperm.countP_eq _), count_known]
      simp only [lc] at hb
      rw [hb]
      simp only [Function.comp_def, Nat.add_assoc]
    · intro x
      obtain ⟨d', hfin⟩ := loop_inv (powLine c st cmd (knownT c ts)) (fun l => l)
        (PInv_justifies hw st cmd (knownT c ts)) (fuelOf c ts) 0 _ h0
      have hsb := hfin.sb x
      simp only [isDone, Bool.and_eq_true, List.isEmpty_iff] at hdone
      rw [hs x, finalOn_eq_curOn, curOn_congr (L' := knownT c ts) (fun t _ => hperm.mem_iff) x, hsb]
      simp [pend, hdone.1.1, hdone.1.2, hdone.2, curOn]

end Pm.Redfish
