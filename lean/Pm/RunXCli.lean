import Pm.RunX
import Pm.ClientStream
/-! `ClientPf.runPasses_exited` (C06) for runs that carry regex answers (`runX`, `Pm/RunX.lean`). -/
namespace Pm.Daemon.ClientPf
open Pm Pm.Client Pm.Daemon

/-- a run whose passes bring no regex answer is `ClientPf.runPasses` -/
theorem runX_runPasses (w : W) (ps : List PassIn) : runX w (ps.map PassX.plain) = runPasses w ps := runX_plain w ps

/-- **no run leaves the process, whatever the regex engine answers in every pass** (under `NoSortAbort`, as `runPasses_exited`):
    `feed` does not touch the flag, the device half of a pass never sets it, the client half only through the sort assertion -/
theorem runX_exited (hs : NoSortAbort) (w : W) (qs : List PassX) : (runX w qs).exited = w.exited := by
  induction qs generalizing w with
  | nil => rfl
  | cons q r ih =>
    rw [runX_cons, ih]
    show (daemonPass (feed w q.rx) q.p).1.exited = _
    rw [daemonPass_exited, cliPostPoll_exited hs]
    rfl

/-- `runPasses_exited` from `runX_exited` -/
theorem runPasses_exited_plain (hs : NoSortAbort) (w : W) (ps : List PassIn) : (runPasses w ps).exited = w.exited := by
  rw [← runX_runPasses]; exact runX_exited hs w _

end Pm.Daemon.ClientPf

section AxiomChecks
open Pm.Daemon.ClientPf
/-- info: 'Pm.Daemon.ClientPf.runX_exited' depends on axioms: [propext, Classical.choice, Quot.sound] -/
#guard_msgs in #print axioms runX_exited
end AxiomChecks
