import Pm.StreamDev
import Pm.StreamCount
import Pm.RunX
/-! Helper lemmas for C15 over whole runs, part 5: **the callbacks of the device phase, a whole pass, any number of passes**. -/
namespace Pm.Daemon.StreamPf
open Pm Pm.Client Pm.Daemon Pm.Daemon.ClientPf Pm.Daemon.Isolation
open Pm.Dev2 (Dev ActErr fcount qcount Fwd isStray)

/-! ### the final reply is clean when the target names are -/

theorem entriesOf_node (k : CmdC) : ∀ a ∈ entriesOf k, a.node ∈ k.names := by
  intro a ha
  unfold entriesOf at ha
  simp only [List.mem_filterMap] at ha
  obtain ⟨n, hn, hf⟩ := ha
  have := List.find?_some hf
  have : a.node = n := by simpa using this
  rw [this]; exact hn

theorem stateName_clean (st : Nat) : cleanText (bstr (stateName st)) = true := by
  unfold stateName
  split
  · decide +kernel
  · split <;> decide +kernel

theorem finalInfos_clean (ex : Bool) (k : CmdC) (infos : List Item) (h : finalInfos ex k = some infos)
    (hn : ∀ n ∈ k.names, cleanName n = true) : ∀ i ∈ infos, i.clean = true := by
  have hent : ∀ a ∈ entriesOf k, cleanName a.node = true := fun a ha => hn _ (entriesOf_node k a ha)
  have hsr : ∀ (p : ArgC → Bool) (r : Bytes), sortedRanged (((entriesOf k).filter p).map (·.node)) = some r → cleanText r = true := by
    intro p r hr
    apply sortedRanged_clean _ _ r hr
    intro n hn'
    simp only [List.mem_map, List.mem_filter] at hn'
    obtain ⟨a, ⟨ha, _⟩, rfl⟩ := hn'
    exact hent a ha
  cases hcom : k.com
  case temp =>
    exact finalInfos_temp_clean ex k infos hcom h (fun a ha => by rw [cleanText_ofChars]; exact hent a ha) (fun r hr => hsr _ r hr)
  case status | beacon =>
    unfold finalInfos at h
    simp only [hcom] at h
    split at h
    · cases h
      intro i hi
      simp only [List.mem_map] at hi
      obtain ⟨a, ha, rfl⟩ := hi
      simp only [Item.clean, cleanText_append, cleanText_ofChars, hent a ha, bstr_colon_clean, stateName_clean, Bool.and_self]
    · simp only [Option.bind_eq_bind, Option.pure_def, Option.bind_eq_some_iff] at h
      obtain ⟨unk, hu, on, ho, off, hf, h⟩ := h
      cases h
      have c1 : cleanText (bstr "on:      ") = true := by decide +kernel
      have c2 : cleanText (bstr "off:     ") = true := by decide +kernel
      have c3 : cleanText (bstr "unknown: ") = true := by decide +kernel
      intro i hi
      simp only [List.mem_cons, List.not_mem_nil, or_false] at hi
      rcases hi with rfl | rfl | rfl
      · simp only [Item.clean, cleanText_append, c1, hsr _ _ ho, Bool.and_self]
      · simp only [Item.clean, cleanText_append, c2, hsr _ _ hf, Bool.and_self]
      · simp only [Item.clean, cleanText_append, c3, hsr _ _ hu, Bool.and_self]
  all_goals
    unfold finalInfos at h
    simp only [hcom] at h
    cases h
    intro i hi; cases hi

theorem finishText_clean (err : ActErr) (name : Bytes) (h : cleanText name = true) : cleanText (finishText err name) = true := by
  unfold finishText
  cases err <;> simp only [cleanText_append, h, Bool.true_and] <;> decide +kernel

theorem finishPre_clean (err : ActErr) (name : Bytes) (h : cleanText name = true) : ∀ i ∈ finishPre err name, i.clean = true := by
  unfold finishPre
  split
  · intro i hi; simp only [List.mem_singleton] at hi; subst hi; exact finishText_clean err name h
  · intro i hi; cases hi

/-! ### callbacks as extensions of the clients' streams -/

/-- `w'` is `w` with every client's record extended by an `Ext` step (descriptor, id, flags kept); `n cid` bounds the number
    of completions by which `pending` of client `cid` went down -/
def CliExt (cl : Prop) (n : Nat → Nat) (w w' : W) : Prop :=
  { w' with clients := w.clients } = w ∧
  ∃ G : Cli → Cli, w'.clients = w.clients.map G ∧
    ∀ x ∈ w.clients, ∃ items, Appends x (G x) items ∧ Ext cl x (G x) items ∧ pend x ≤ pend (G x) + n x.id

theorem CliExt.refl (cl : Prop) (n : Nat → Nat) (w : W) : CliExt cl n w w :=
  ⟨rfl, id, by simp, fun x _ => ⟨[], .refl x, Ext.refl cl x, Nat.le_add_right _ _⟩⟩

theorem CliExt.trans {cl : Prop} {n1 n2 : Nat → Nat} {a b c : W} (h1 : CliExt cl n1 a b) (h2 : CliExt cl n2 b c) :
    CliExt cl (fun cid => n1 cid + n2 cid) a c := by
  obtain ⟨e1, G1, hg1, hG1⟩ := h1
  obtain ⟨e2, G2, hg2, hG2⟩ := h2
  refine ⟨by rw [← e1, ← e2], G2 ∘ G1, by rw [hg2, hg1, List.map_map], fun x hx => ?_⟩
  obtain ⟨i1, a1, c1, p1⟩ := hG1 x hx
  obtain ⟨i2, a2, c2, p2⟩ := hG2 (G1 x) (by rw [hg1]; exact List.mem_map_of_mem hx)
  refine ⟨i1 ++ i2, a1.trans a2, c1.trans c2, ?_⟩
  rw [a1.id] at p2
  show pend x ≤ pend (G2 (G1 x)) + (n1 x.id + n2 x.id)
  omega

theorem CliExt.unique {cl : Prop} {n : Nat → Nat} {w w' : W} (h : CliExt cl n w w') (hu : UniqueIds w.clients) : UniqueIds w'.clients := by
  obtain ⟨_, G, hg, hG⟩ := h
  rw [hg]
  intro x hx y hy hxy
  simp only [List.mem_map] at hx hy
  obtain ⟨x0, hx0, rfl⟩ := hx
  obtain ⟨y0, hy0, rfl⟩ := hy
  obtain ⟨_, ax, _⟩ := hG x0 hx0
  obtain ⟨_, ay, _⟩ := hG y0 hy0
  rw [hu x0 hx0 y0 hy0 (by rw [← ax.id, ← ay.id]; exact hxy)]

theorem updCli_ext (cl : Prop) (n : Nat → Nat) (w : W) (id : Nat) (f : Cli → Cli) (items : List Item)
    (hf : ∀ x ∈ w.clients, x.id = id → Appends x (f x) items ∧ Ext cl x (f x) items ∧ pend x ≤ pend (f x) + n id) :
    CliExt cl n w (updCli w id f) := by
  refine ⟨rfl, fun x => if x.id == id then f x else x, rfl, fun x hx => ?_⟩
  dsimp only
  split
  · rename_i h
    have hid : x.id = id := by simpa using h
    obtain ⟨a, b, c⟩ := hf x hx hid
    exact ⟨items, a, b, by rw [hid]; exact c⟩
  · exact ⟨[], .refl x, Ext.refl cl x, Nat.le_add_right _ _⟩

/-- a `308` line of `_act_finish` while more actions are outstanding: the command stays -/
theorem Ext.busy (cl : Prop) (x y : Cli) (items : List Item) (hp : Progress items) (hq : y.quit = x.quit)
    (hcmd : y.cmd.isSome = true) (hnames : ∀ k, y.cmd = some k → ∃ k0, x.cmd = some k0 ∧ k.names = k0.names)
    (hclean : cl → ∀ i ∈ items, LineOK i) : Ext cl x y items where
  lax := fun s hs => srun_progress s hs items hp
  strict := fun _ => trun_progress items hp
  quit := fun h => by rw [hq]; exact h
  prompted := by intro items0 _ hc; rw [hc] at hcmd; cases hcmd
  clean := by
    intro hcl hcc
    refine ⟨hclean hcl, ?_⟩
    intro k hk n hn
    obtain ⟨k0, hk0, e⟩ := hnames k hk
    exact hcc k0 hk0 n (e ▸ hn)

/-- the final reply: `308? (302|303)* terminal prompt`, the command is gone -/
theorem Ext.final (cl : Prop) (x y : Cli) (items : List Item) (hf : FinalReply items) (hq : y.quit = x.quit) (hcmd : y.cmd = none)
    (hclean : cl → CmdClean x → ∀ i ∈ items, i.clean = true) : Ext cl x y items where
  lax := fun s hs => ⟨.noPrompt, srun_final s hs items hf, rfl⟩
  strict := fun _ => trun_final items hf
  quit := fun h => by rw [hq]; exact h
  prompted := by
    intro items0 _
    obtain ⟨pre, infos, code, text, rfl, _⟩ := hf
    exact AtPrompt.of_last items0 _ (by simp)
  clean := fun hcl hcc => ⟨fun i hi => LineOK.of_clean (hclean hcl hcc i hi), fun k hk => by rw [hcmd] at hk; cases hk⟩

theorem fcount_one (id cid : Nat) (e : ActErr) : fcount cid [Pm.Dev2.Out.finish id e] = if id = cid then 1 else 0 := by
  by_cases h : id = cid <;> simp [fcount, h]

/-- **`_act_finish`** as an extension of the clients' streams (ids being pairwise distinct, the callback reaches one record) -/
theorem actFinish_ext (cl : Prop) (w : W) (id : Nat) (err : ActErr) (name : Bytes) (hu : UniqueIds w.clients)
    (hname : cl → cleanText name = true) :
    CliExt cl (fun cid => fcount cid [Pm.Dev2.Out.finish id err]) w (actFinish w id err name).1 := by
  rw [actFinish_eq]
  cases hf : List.find? (fun x => x.id == id) w.clients with
  | none => exact .refl cl _ w
  | some c =>
    have hid : c.id = id := by have := List.find?_some hf; simpa using this
    have hc : c ∈ w.clients := List.mem_of_find?_eq_some hf
    have hn1 : fcount c.id [Pm.Dev2.Out.finish id err] = 1 := by rw [fcount_one, if_pos hid.symm]
    dsimp only
    cases hk : c.cmd with
    | none => exact .refl cl _ w
    | some k =>
      dsimp only
      split
      · rename_i hp1
        have hp1 : k.pending = 1 := by simpa using hp1
        cases hi : finalInfos c.exprange (finishCmd w k err) with
        | none => exact .refl cl _ w
        | some infos =>
          dsimp only
          obtain ⟨code, text, ht, hcode, hclean⟩ := finalTerm_spec (finishCmd w k err)
          apply updCli_ext cl _ w c.id _ (finishPre err name ++ infos ++ [finalTerm (finishCmd w k err), Item.prompt])
          intro x hx hxid
          have hxc : x = c := hu x hx c hc hxid
          subst hxc
          refine ⟨put_appends x _ _, Ext.final cl x _ _ ?_ rfl rfl ?_, ?_⟩
          · exact ⟨finishPre err name, infos, code, text, by rw [← ht], finishPre_308 err name, finalInfos_info _ _ _ hi, hcode, hclean⟩
          · intro hcl hcc i hi'
            simp only [List.mem_append, List.mem_cons, List.not_mem_nil, or_false] at hi'
            rcases hi' with (hi' | hi') | rfl | rfl
            · exact finishPre_clean err name (hname hcl) i hi'
            · exact finalInfos_clean _ _ infos hi (hcc k hk) i hi'
            · rw [ht]; exact hclean
            · rfl
          · rw [hn1]; simp [pend, hk, hp1, put]
      · apply updCli_ext cl _ w c.id _ (finishPre err name)
        intro x hx hxid
        have hxc : x = c := hu x hx c hc hxid
        subst hxc
        refine ⟨put_appends x _ _, Ext.busy cl x _ _ ?_ rfl rfl ?_ ?_, ?_⟩
        · exact fun i hi => lineIn_mono (by decide) i (finishPre_308 err name i hi)
        · intro k' hk'
          simp only [put, Option.some.injEq] at hk'
          exact ⟨k, hk, by rw [← hk']⟩
        · exact fun hcl i hi => LineOK.of_clean (finishPre_clean err name (hname hcl) i hi)
        · rw [hn1]; simp only [pend, hk, put]; omega

/-- a telemetry or diagnostic line for a client whose command is in progress -/
theorem stray_ext (cl : Prop) (x : Cli) (i : Item) (hi : i.lineIn strayCodes = true) (hcmd : x.cmd.isSome = true)
    (hclean : cl → LineOK i) : Ext cl x (put x (render [i])) [i] :=
  Ext.busy cl x _ [i] (by intro j hj; simp only [List.mem_singleton] at hj; subst hj; exact lineIn_mono (by decide) _ hi) rfl hcmd
    (fun k hk => ⟨k, hk, rfl⟩) (fun hcl j hj => by simp only [List.mem_singleton] at hj; subst hj; exact hclean hcl)

/-- one callback.  `hs`: a telemetry / diagnostic callback is addressed to clients whose command is in progress (the
    ledger provides this) -/
theorem outStep_ext (cl : Prop) (name : Bytes) (acc : W × List String) (o : Pm.Dev2.Out) (hu : UniqueIds acc.1.clients)
    (hname : cl → cleanText name = true) (ho : cl → OutClean o)
    (hs : ∀ cid, isStray cid o = true → ∀ x ∈ acc.1.clients, x.id = cid → x.cmd.isSome = true) :
    CliExt cl (fun cid => fcount cid [o]) acc.1 (outStep name acc o).1 := by
  cases o with
  | finish cid e => exact actFinish_ext cl acc.1 cid e name hu hname
  | telemetry cid t =>
    apply updCli_ext cl _ acc.1 cid _ [Item.line 305 (teleText name t)]
    intro x hx hxid
    exact ⟨put_appends x x.cmd _, stray_ext cl x _ rfl (hs cid (by simp [isStray]) x hx hxid)
      (fun hcl => LineOK.tele (fun hrep => hrep name t (hname hcl) (ho hcl))), Nat.le_add_right _ _⟩
  | diag cid t =>
    apply updCli_ext cl _ acc.1 cid _ [Item.line 309 t]
    intro x hx hxid
    exact ⟨put_appends x x.cmd _, stray_ext cl x _ rfl (hs cid (by simp [isStray]) x hx hxid)
      (fun hcl => LineOK.of_clean (ho hcl)), Nat.le_add_right _ _⟩
  | _ => exact .refl cl _ _

theorem pend_pos_isSome (x : Cli) (h : 0 < pend x) : x.cmd.isSome = true := by
  unfold pend at h
  cases hc : x.cmd with
  | none => rw [hc] at h; cases h
  | some k => rfl

/-- **the callbacks of one device's share of a pass** extend every client's stream grammatically (and cleanly).  `q cid`:
    a number of completions for `cid` that `pending` covers and before which every text callback for `cid` comes (`Fwd`) -/
theorem applyOuts_ext (cl : Prop) (w : W) (name : Bytes) (outs : List Pm.Dev2.Out) (hu : UniqueIds w.clients)
    (hname : cl → cleanText name = true) (houts : cl → OutsClean outs)
    (q : Nat → Nat) (hq : ∀ x ∈ w.clients, q x.id ≤ pend x) (hfwd : ∀ x ∈ w.clients, Fwd x.id (q x.id) outs) :
    CliExt cl (fun cid => fcount cid outs) w (applyOuts w name outs).1 := by
  rw [ClientPf.applyOuts_eq]
  have : ∀ (l pre : List Pm.Dev2.Out) (acc : W × List String), outs = pre ++ l → UniqueIds acc.1.clients →
      (∀ x ∈ acc.1.clients, q x.id ≤ pend x + fcount x.id pre) → (∀ x ∈ acc.1.clients, Fwd x.id (q x.id) outs) →
      (cl → OutsClean l) → CliExt cl (fun cid => fcount cid l) acc.1 (l.foldl (outStep name) acc).1 := by
    intro l; induction l with
    | nil => intro pre acc _ _ _ _ _; exact .refl cl _ _
    | cons o r ih =>
      intro pre acc he hu hq hf hl
      have h1 := outStep_ext cl name acc o hu hname (fun hcl => hl hcl o (by simp)) (by
        intro cid hst x hx hxid
        subst hxid
        have h1 := hf x hx pre o r he hst
        have h2 := hq x hx
        exact pend_pos_isSome x (by omega))
      obtain ⟨_, G, hG, hGx⟩ := h1
      have h1 : CliExt cl (fun cid => fcount cid [o]) acc.1 (outStep name acc o).1 := ⟨by assumption, G, hG, hGx⟩
      have h2 := ih (pre ++ [o]) (outStep name acc o) (by rw [he]; simp) (h1.unique hu) (by
          intro y hy
          rw [hG] at hy
          simp only [List.mem_map] at hy
          obtain ⟨x, hx, rfl⟩ := hy
          obtain ⟨_, a, _, p⟩ := hGx x hx
          have p : pend x ≤ pend (G x) + fcount x.id [o] := p
          have := hq x hx
          rw [a.id, Pm.Dev2.fcount_append]
          omega) (by
          intro y hy
          rw [hG] at hy
          simp only [List.mem_map] at hy
          obtain ⟨x, hx, rfl⟩ := hy
          obtain ⟨_, a, _, _⟩ := hGx x hx
          rw [a.id]; exact hf x hx) (fun hcl x hx => hl hcl x (by simp [hx]))
      have h3 := h1.trans h2
      have e : (fun cid => fcount cid [o] + fcount cid r) = fun cid => fcount cid (o :: r) := by
        funext cid
        rw [← Pm.Dev2.fcount_append]; rfl
      rw [e] at h3
      exact h3
  exact this outs [] (w, []) rfl hu (by intro x hx; simpa using hq x hx) hfwd houts

/-! ### the device phase of a pass -/

/-- the invariant survives a step that extends the clients' records and otherwise leaves log, descriptor counter and
    (up to `Good`) the static data alone -/
theorem RunInv.step {cl : Prop} {H : Hist} {w w' : W} (h : RunInv cl H w) (hids : IdsFresh w') (G : Cli → Cli)
    (hcl : w'.clients = w.clients.map G) (hG : ∀ x ∈ w.clients, ∃ items, Appends x (G x) items ∧ Ext cl x (G x) items)
    (hs : w'.sys = w.sys) (hn : w'.nacc = w.nacc) (hg : cl → Good w → Good w')
    (hl : ∀ y ∈ w'.clients, queued w'.devs y.id ≤ pend y) : RunInv cl H w' := by
  have hfd : w'.clients.map (·.fd) = w.clients.map (·.fd) := by
    rw [hcl, List.map_map]
    apply List.map_congr_left
    intro x hx
    obtain ⟨_, a, _⟩ := hG x hx
    exact a.fd
  refine ⟨hids, by rw [hfd]; exact h.fds, ?_, ?_, fun c => hg c (h.good c), ?_, ?_, hl⟩
  · intro y hy
    rw [hcl] at hy
    simp only [List.mem_map] at hy
    obtain ⟨x, hx, rfl⟩ := hy
    obtain ⟨_, a, _⟩ := hG x hx
    rw [a.fd, hn]; exact h.fdFresh x hx
  · intro fd hfd'
    rw [hn] at hfd'
    rw [hs]; exact h.histFresh fd hfd'
  · intro y hy
    rw [hcl] at hy
    simp only [List.mem_map] at hy
    obtain ⟨x, hx, rfl⟩ := hy
    obtain ⟨items, a, e⟩ := hG x hx
    have : total H w' (G x) = total H w x ++ render items := by
      simp only [total, outOf, a.fd, a.buf, hs, List.append_assoc]
    rw [this]
    exact (h.cli x hx).ext e
  · intro fd h1 h2 h3
    rw [hn] at h2
    obtain ⟨c, rest, hsv⟩ := h.gone fd h1 h2 (by
      intro x hx e
      have : x.fd ∈ w'.clients.map (·.fd) := by rw [hfd]; exact List.mem_map_of_mem hx
      simp only [List.mem_map] at this
      obtain ⟨y, hy, hyx⟩ := this
      exact h3 y hy (hyx.trans e))
    exact ⟨c, rest, by rw [hs]; exact hsv⟩

theorem goodDevs_replace (pre rest : List (Bytes × Dev)) (nd : Bytes × Dev) (d' : Dev) (hp : d'.plugs = nd.2.plugs)
    (h : GoodDevs (pre ++ nd :: rest)) : GoodDevs (pre ++ (nd.1, d') :: rest) := by
  constructor
  · intro x hx
    rcases List.mem_append.mp hx with hx | hx
    · exact h.1 x (List.mem_append_left _ hx)
    · rcases List.mem_cons.mp hx with rfl | hx
      · exact h.1 nd (by simp)
      · exact h.1 x (by simp [hx])
  · intro x hx p hpp n hn
    rcases List.mem_append.mp hx with hx | hx
    · exact h.2 x (List.mem_append_left _ hx) p hpp n hn
    · rcases List.mem_cons.mp hx with rfl | hx
      · exact h.2 nd (by simp) p (hp ▸ hpp) n hn
      · exact h.2 x (by simp [hx]) p hpp n hn

/-- **one device's share of `dev_post_poll`**, callbacks delivered, keeps the invariant -/
theorem RunInv.ofDevPass {cl : Prop} {H : Hist} (p : PassIn) (a : DevAcc) (nd : Bytes × Dev) (rest : List (Bytes × Dev))
    (h : RunInv cl H (worldAt a (nd :: rest))) : RunInv cl H (worldAt (devPass p a nd) rest) := by
  have hids := devPass_idsFresh p a nd rest h.ids
  cases hd : a.dead with
  | true =>
    have : worldAt (devPass p a nd) rest = worldAt a (nd :: rest) := by
      rw [devPass_dead _ _ _ hd]; simp [worldAt]
    rw [this]; exact h
  | false =>
    have hgd : cl → GoodDevs (a.devs ++ nd :: rest) := fun hcl => (h.good hcl).devs
    have hpl := fun hcl => postPoll_clean { nd.2 with args := a.w.store } (devEnv p a.w nd) a.oracle
      (fun pl hpl n hn => (hgd hcl).2 nd (by simp) pl hpl n hn)
    have hpos : ∀ x ∈ a.w.clients, x.id ≠ 0 := fun x hx => Nat.pos_iff_ne_zero.mp (h.ids.pos x.id (List.mem_map.mpr ⟨x, hx, rfl⟩))
    have hled : ∀ x ∈ a.w.clients, queued a.devs x.id + qcount x.id nd.2.acts + queued rest x.id ≤ pend x := by
      intro x hx
      have := h.ledger x hx
      have e : queued (worldAt a (nd :: rest)).devs x.id = queued a.devs x.id + qcount x.id nd.2.acts + queued rest x.id := by
        show queued (a.devs ++ nd :: rest) x.id = _
        simp [queued, Nat.add_assoc]
      rw [e] at this; exact this
    have hpp := fun cid hc => Pm.Dev2.postPoll_ledger { nd.2 with args := a.w.store } (devEnv p a.w nd) a.oracle cid hc
    have hext := applyOuts_ext cl (afterStep a.w (devStep p a.w a.oracle nd).1) nd.1 (devStep p a.w a.oracle nd).2.2.1
      h.ids.unique (fun hcl => (hgd hcl).1 nd (by simp)) (fun hcl => (hpl hcl).2)
      (fun cid => qcount cid nd.2.acts) (fun x hx => by have := hled x hx; omega)
      (fun x hx => (hpp x.id (hpos x hx)).2)
    have hw := devPass_w p a nd hd
    obtain ⟨hsame, G, hG, hGx⟩ := hext
    rw [← hw] at hsame hG
    have hdevs : (worldAt (devPass p a nd) rest).devs = a.devs ++ (nd.1, (devStep p a.w a.oracle nd).1.dev) :: rest := by
      rw [worldAt_devPass_devs]; simp [stepped, hd]
    refine h.step hids G hG (fun x hx => by obtain ⟨i, a1, a2, _⟩ := hGx x hx; exact ⟨i, a1, a2⟩) ?_ ?_ ?_ ?_
    · have := congrArg W.sys hsame; exact this
    · have := congrArg W.nacc hsame; exact this
    · intro hcl g
      have e1 := congrArg W.cfg hsame
      have e2 := congrArg W.specs hsame
      refine ⟨?_, ?_, ?_, ?_, ?_, ?_⟩
      · have := g.version; rwa [show (worldAt (devPass p a nd) rest).cfg = a.w.cfg from e1]
      · have := g.nodesWF; rwa [show (worldAt (devPass p a nd) rest).cfg = a.w.cfg from e1]
      · have := g.nodes; rwa [show (worldAt (devPass p a nd) rest).cfg = a.w.cfg from e1]
      · have := g.aliases; rwa [show (worldAt (devPass p a nd) rest).cfg = a.w.cfg from e1]
      · rw [hdevs]; exact goodDevs_replace a.devs rest nd _ (hpl hcl).1 (hgd hcl)
      · have := g.specs; rwa [show (worldAt (devPass p a nd) rest).specs = a.w.specs from e2]
    · intro y hy
      have hy : y ∈ (devPass p a nd).w.clients := hy
      rw [hG] at hy
      simp only [List.mem_map] at hy
      obtain ⟨x, hx, rfl⟩ := hy
      obtain ⟨_, a1, _, pp⟩ := hGx x hx
      have pp : pend x ≤ pend (G x) + fcount x.id (devStep p a.w a.oracle nd).2.2.1 := pp
      have h1 := hled x hx
      have h2 := (hpp x.id (hpos x hx)).1
      have h2 : fcount x.id (devStep p a.w a.oracle nd).2.2.1 + qcount x.id (devStep p a.w a.oracle nd).1.dev.acts ≤ qcount x.id nd.2.acts := h2
      rw [hdevs, a1.id]
      have e : queued (a.devs ++ (nd.1, (devStep p a.w a.oracle nd).1.dev) :: rest) x.id =
          queued a.devs x.id + qcount x.id (devStep p a.w a.oracle nd).1.dev.acts + queued rest x.id := by
        simp [queued, Nat.add_assoc]
      rw [e]
      omega

theorem RunInv.ofFoldlDevPass {cl : Prop} {H : Hist} (p : PassIn) (l : List (Bytes × Dev)) (a : DevAcc)
    (h : RunInv cl H (worldAt a l)) : RunInv cl H (worldAt (l.foldl (Pm.Daemon.devPass p) a) []) := by
  induction l generalizing a with
  | nil => exact h
  | cons nd r ih => rw [List.foldl_cons]; exact ih _ (h.ofDevPass p a nd r)

/-- the invariant does not look at the timeout, the pending oracle answers … -/
theorem RunInv.congr {cl : Prop} {H : Hist} {w w' : W} (h : RunInv cl H w) (h1 : w'.clients = w.clients) (h2 : w'.devs = w.devs)
    (h3 : w'.nextId = w.nextId) (h4 : w'.nacc = w.nacc) (h5 : w'.sys = w.sys) (h6 : w'.cfg = w.cfg) (h7 : w'.specs = w.specs) :
    RunInv cl H w' :=
  ⟨h.ids.congr h1 h3 h2, h1 ▸ h.fds, fun c hc => by rw [h4]; exact h.fdFresh c (h1 ▸ hc),
   fun fd hfd => by rw [h5]; exact h.histFresh fd (h4 ▸ hfd), fun hcl => (h.good hcl).congr h6 h2 h7,
   fun c hc => by
     have := h.cli c (h1 ▸ hc)
     simpa [total, outOf, h5] using this,
   fun fd a b c => by
     obtain ⟨cc, rest, hs⟩ := h.gone fd a (h4 ▸ b) (fun x hx => c x (h1 ▸ hx))
     exact ⟨cc, rest, by rw [h5]; exact hs⟩,
   fun c hc => by rw [h2]; exact h.ledger c (h1 ▸ hc)⟩

/-- **a whole pass of the daemon loop keeps the invariant**, the history taking in the log that the pass discards -/
theorem RunInv.ofDaemonPass {cl : Prop} {H : Hist} {w : W} (h : RunInv cl H w) (p : PassIn) :
    RunInv cl (histNext H w) (Pm.Daemon.daemonPass w p).1 := by
  rw [daemonPass_fst]
  have h0 := h.cliPostPoll p.acc p.envs
  dsimp only
  split
  · exact h0
  · have := RunInv.ofFoldlDevPass p (Pm.Daemon.cliPostPoll w p.acc p.envs).devs (acc0 (Pm.Daemon.cliPostPoll w p.acc p.envs))
      (by rw [worldAt_acc0]; exact h0)
    exact this.congr rfl (by simp [worldAt]) rfl rfl rfl rfl rfl

/-! ### any number of passes -/

/-- what the world gets before a pass: the kernel's answers for the pass, and the regex engine's answers to the calls the pass
    will make (the `X` lines of the driver: appended to the pending oracle answers).  This is the shared `Pm.Daemon.PassX` of
    `Pm/RunX.lean`; `runX` below is the shared `Pm.Daemon.runX` (one definition for C02, C03, C05, C06, C11, C15). -/
abbrev Step := PassX

/-- the answers are supplied, the pass runs (`Pm.Daemon.stepX`) -/
abbrev passX (w : W) (s : Step) : W := stepX w s

/-- without regex answers this is `runPasses` -/
theorem runX_runPasses (w : W) (ps : List PassIn) : runX w (ps.map PassX.plain) = ClientPf.runPasses w ps :=
  Pm.Daemon.runX_plain w ps

/-- a run with its ghost history -/
def runHist : W × Hist → List Step → W × Hist
  | s, [] => s
  | (w, H), st :: ss => runHist (passX w st, histNext H w) ss

theorem runHist_fst (w : W) (H : Hist) (ss : List Step) : (runHist (w, H) ss).1 = runX w ss := by
  induction ss generalizing w H with
  | nil => rfl
  | cons p r ih => simp only [runHist, runX, List.foldl_cons]; exact ih _ _

theorem RunInv.passX {cl : Prop} {H : Hist} {w : W} (h : RunInv cl H w) (st : Step) : RunInv cl (histNext H w) (passX w st) := by
  have h' : RunInv cl H (feed w st.rx) := h.congr rfl rfl rfl rfl rfl rfl rfl
  exact h'.ofDaemonPass st.p

theorem RunInv.run {cl : Prop} (ss : List Step) : ∀ (w : W) (H : Hist), RunInv cl H w →
    RunInv cl (runHist (w, H) ss).2 (runHist (w, H) ss).1 := by
  induction ss with
  | nil => intro w H h; exact h
  | cons p r ih => intro w H h; exact ih _ _ (h.passX p)

/-- the invariant holds at start-up: no client yet, no client's action queued, the id counter positive -/
theorem RunInv.init (cl : Prop) (w : W) (hc : w.clients = []) (hq : ∀ nd ∈ w.devs, ∀ a ∈ nd.2.acts, a.clientId = 0) (hn : 0 < w.nextId)
    (hs : w.sys = []) (ha : w.nacc = 0) (hg : cl → Good w) : RunInv cl (fun _ => []) w := by
  have hids : Isolation.ids w = [] := by unfold Isolation.ids; rw [hc]; rfl
  have hi : IdsFresh w := by
    refine ⟨?_, ?_, ?_, ?_, hn⟩
    · rw [hids]; exact List.nodup_nil
    · intro i hi; rw [hids] at hi; cases hi
    · intro i hi; rw [hids] at hi; cases hi
    · intro nd hnd a ha; rw [hq nd hnd a ha]; exact hn
  refine ⟨hi, by simp [hc], by simp [hc], fun _ _ => ⟨rfl, by rw [hs]; rfl⟩, hg, by simp [hc], ?_, by simp [hc]⟩
  intro fd h1 h2 _
  rw [ha] at h2; omega

theorem runHist_snoc (s : W × Hist) (ss : List Step) (p : Step) :
    runHist s (ss ++ [p]) = (passX (runHist s ss).1 p, histNext (runHist s ss).2 (runHist s ss).1) := by
  induction ss generalizing s with
  | nil => obtain ⟨w, H⟩ := s; rfl
  | cons q r ih => obtain ⟨w, H⟩ := s; simp only [List.cons_append, runHist]; exact ih _

/-- the daemon at start-up: no client, no client's action queued (at most the login actions of `dev_initial_connect`), the
    id counter positive, an empty system-call log, no connection accepted yet -/
structure Startup (w0 : W) : Prop where
  clients : w0.clients = []
  acts : ∀ nd ∈ w0.devs, ∀ a ∈ nd.2.acts, a.clientId = 0
  nextId : 0 < w0.nextId
  sys : w0.sys = []
  nacc : w0.nacc = 0

theorem foldl_icStep_frame (now : Nat) (con soe : List Nat) (l : List (Bytes × Dev)) (acc : W × List String × List (Bytes × Dev))
    (hl : GoodDevs l → GoodDevs acc.2.2 → True) :
    (l.foldl (icStep now con soe) acc).1.sys = acc.1.sys ∧ (l.foldl (icStep now con soe) acc).1.nacc = acc.1.nacc ∧
    (l.foldl (icStep now con soe) acc).1.cfg = acc.1.cfg ∧ (l.foldl (icStep now con soe) acc).1.specs = acc.1.specs ∧
    (GoodDevs l → GoodDevs acc.2.2 → GoodDevs (l.foldl (icStep now con soe) acc).2.2) := by
  induction l generalizing acc with
  | nil => exact ⟨rfl, rfl, rfl, rfl, fun _ h => h⟩
  | cons nd r ih =>
    rw [List.foldl_cons]
    obtain ⟨w, lines, devs⟩ := acc
    obtain ⟨a, b, c, d, e⟩ := ih (icStep now con soe (w, lines, devs) nd) (fun _ _ => trivial)
    refine ⟨a, b, c, d, ?_⟩
    intro h1 h2
    refine e ⟨fun x hx => h1.1 x (by simp [hx]), fun x hx => h1.2 x (by simp [hx])⟩ ?_
    have hp := (Pm.Dev2.connectDev_devFrame { dev := nd.2, env := mkDevEnv w nd.2 now con soe [], sys := [] }).plugs
    constructor
    · intro x hx
      simp only [icStep, List.mem_append, List.mem_singleton] at hx
      rcases hx with hx | rfl
      · exact h2.1 x hx
      · exact h1.1 nd (by simp)
    · intro x hx pl hpl n hn
      simp only [icStep, List.mem_append, List.mem_singleton] at hx
      rcases hx with hx | rfl
      · exact h2.2 x hx pl hpl n hn
      · exact h1.2 nd (by simp) pl (hp ▸ hpl) n hn

/-- `dev_initial_connect` keeps the start-up conditions: it only queues login actions -/
theorem Startup.initialConnect {w : W} (h : Startup w) (now : Nat) (con soe : List Nat) : Startup (Pm.Daemon.initialConnect w now con soe).1 := by
  rw [initialConnect_eq]
  obtain ⟨h1, h2, _, h4⟩ := foldl_icStep (fun cid _ => cid = 0) rfl now con soe w.devs (w, [], [])
    (fun nd hnd a ha => h.acts nd hnd a ha) (by intro nd hnd; cases hnd)
  obtain ⟨f1, f2, _, _, _⟩ := foldl_icStep_frame now con soe w.devs (w, [], []) (fun _ _ => trivial)
  exact ⟨h1.trans h.clients, fun nd hnd a ha => h4 nd hnd a ha, by rw [show _ = w.nextId from h2]; exact h.nextId,
    f1.trans h.sys, f2.trans h.nacc⟩

/-- … and the static data -/
theorem Good.initialConnect {w : W} (h : Good w) (now : Nat) (con soe : List Nat) : Good (Pm.Daemon.initialConnect w now con soe).1 := by
  rw [initialConnect_eq]
  obtain ⟨_, _, f3, f4, f5⟩ := foldl_icStep_frame now con soe w.devs (w, [], []) (fun _ _ => trivial)
  have hnil : GoodDevs ([] : List (Bytes × Dev)) := by
    constructor
    · intro x hx; cases hx
    · intro x hx; cases hx
  have hd := f5 h.devs hnil
  obtain ⟨a, b, c, d, _, f⟩ := h
  have f3 : (w.devs.foldl (icStep now con soe) (w, [], [])).1.cfg = w.cfg := f3
  have f4 : (w.devs.foldl (icStep now con soe) (w, [], [])).1.specs = w.specs := f4
  exact ⟨f3 ▸ a, f3 ▸ b, f3 ▸ c, f3 ▸ d, hd, f4 ▸ f⟩

/-- ghost record: the bytes handed to `write(2)` on descriptor `fd` during the passes `ss` *before the last one* (the log of
    the last pass is still in the world: `written w.sys fd`) -/
def histOf (w0 : W) (ss : List Step) : Hist := (runHist (w0, fun _ => []) ss).2

theorem histOf_nil (w0 : W) (fd : Nat) : histOf w0 [] fd = [] := rfl

/-- the history grows by what the log of the world says was written, at the moment the next pass discards that log -/
theorem histOf_snoc (w0 : W) (ss : List Step) (p : Step) (fd : Nat) :
    histOf w0 (ss ++ [p]) fd = histOf w0 ss fd ++ written (runX w0 ss).sys fd := by
  unfold histOf
  rw [runHist_snoc]
  simp only [histNext, runHist_fst]

/-- everything ever queued for client `c` in the run `ss` from `w0` -/
def streamOf (w0 : W) (ss : List Step) (c : Cli) : Bytes := histOf w0 ss c.fd ++ outOf (runX w0 ss) c

/-- **C15 over whole runs**: from start-up, after any number of passes with any inputs, every client's cumulative output
    satisfies the per-client invariant -/
theorem stream_run (cl : Prop) (w0 : W) (hs : Startup w0) (hg : cl → Good w0) (ss : List Step) :
    ∀ c ∈ (runX w0 ss).clients, SInv cl (streamOf w0 ss c) c := by
  have h := RunInv.run ss w0 (fun _ => []) (RunInv.init cl w0 hs.clients hs.acts hs.nextId hs.sys hs.nacc hg)
  rw [runHist_fst] at h
  intro c hc
  exact h.cli c hc

/-- **the ledger over whole runs**: no client has more actions queued on the devices than its command waits for — in
    particular an idle client has none, so no device callback is addressed to it -/
theorem ledger_run (w0 : W) (hs : Startup w0) (ss : List Step) :
    ∀ c ∈ (runX w0 ss).clients, queued (runX w0 ss).devs c.id ≤ pend c := by
  have h := RunInv.run (cl := False) ss w0 (fun _ => []) (RunInv.init False w0 hs.clients hs.acts hs.nextId hs.sys hs.nacc (fun h => h.elim))
  rw [runHist_fst] at h
  exact h.ledger

/-- everything ever written to descriptor `fd` in the run `ss` from `w0` -/
def writtenOf (w0 : W) (ss : List Step) (fd : Nat) : Bytes := histOf w0 ss fd ++ written (runX w0 ss).sys fd

/-- … and for a descriptor whose client is gone: what was written to it is the beginning of a stream that satisfies the
    per-client invariant — the rest is what the client had not been sent when it was destroyed -/
theorem departed_run (cl : Prop) (w0 : W) (hs : Startup w0) (hg : cl → Good w0) (ss : List Step) (fd : Nat) (h1 : 1000 ≤ fd)
    (h2 : fd < 1000 + (runX w0 ss).nacc) (h3 : ∀ c ∈ (runX w0 ss).clients, c.fd ≠ fd) :
    ∃ (c : Cli) (rest : Bytes), SInv cl (writtenOf w0 ss fd ++ rest) c := by
  have h := RunInv.run ss w0 (fun _ => []) (RunInv.init cl w0 hs.clients hs.acts hs.nextId hs.sys hs.nacc hg)
  rw [runHist_fst] at h
  exact h.gone fd h1 h2 h3

/-- `Good` from the names the node list stands for (instead of the stored prefixes) -/
theorem Good.of_names (w : W) (hv : cleanText w.cfg.version = true) (hwf : HWFS w.cfg.nodes)
    (hn : ∀ n ∈ expand w.cfg.nodes, cleanName n = true) (ha : ∀ a ∈ w.cfg.aliases, ∀ n ∈ a.2, cleanName n = true)
    (hd : GoodDevs w.devs) (hs : ∀ p ∈ w.specs, cleanText p.2 = true) : Good w :=
  ⟨hv, hwf, HLClean_of_expand _ hwf.toHWF hn, ha, hd, hs⟩


/-- `Good` for a node list built the way the configuration parser builds it (`hostlist_push_host` / `hostlist_delete_host`
    from the empty list: `Built`, `ConfigProof.Inv.built`) -/
theorem Good.of_built (w : W) (hv : cleanText w.cfg.version = true) (hb : Built w.cfg.nodes)
    (hn : ∀ n ∈ expand w.cfg.nodes, cleanName n = true) (ha : ∀ a ∈ w.cfg.aliases, ∀ n ∈ a.2, cleanName n = true)
    (hd : GoodDevs w.devs) (hs : ∀ p ∈ w.specs, cleanText p.2 = true) : Good w :=
  Good.of_names w hv hb.inv.1 hn ha hd hs

/-! ### a concrete run for the non-vacuity examples in `Props/C15` -/
namespace Ex
open Pm.Daemon.Isolation

/-- the start-up world of `IsolationProof.Two`: one device `A`, plug `1` ↦ node `a1`, a `status` script -/
abbrev w0 : W := Two.w0
/-- pass 1: client 1 connects -/
abbrev p1 : PassIn := Two.p1
/-- pass 2: client 2 connects; client 1 is writable (the banner goes out) and sends `nodes` and `help` in one read -/
def p2 : PassIn :=
  { now := 2000, acc := 1, con := [0], soe := [0], envs := [{ fd := 1000, rev := 3, rk := 0, data := bstr "nodes\nhelp\n", cap := 100 }] }
/-- pass 3: client 1's replies go out; client 2 — whose descriptor takes 7 bytes only — sends `status a1`, `quit`, `nodes` -/
def p3 : PassIn :=
  { now := 3000, acc := 0, con := [0], soe := [0],
    envs := [{ fd := 1000, rev := 2, rk := 0, data := [], cap := 1000 },
             { fd := 1001, rev := 3, rk := 0, data := bstr "status a1\nquit\nnodes\n", cap := 7 }] }

def run : List Step := [⟨p1, []⟩, ⟨p2, []⟩, ⟨p3, []⟩]

/-- the run of `IsolationProof.Two`: both clients ask `status a1`; in pass 4 the device answers client 1's action and the
    regex engine's answers make the `expect` and the `setplugstate` succeed -/
def run2 : List Step := [⟨Two.p1, []⟩, ⟨Two.p2, []⟩, ⟨Two.p3, []⟩, ⟨Two.p4, Two.xs4⟩]

/-- instead of pass 2: client 1 is writable and sends `nodes`, `quit` and once more `nodes` in one read -/
def pq : PassIn :=
  { now := 2000, acc := 0, con := [0], soe := [0], envs := [{ fd := 1000, rev := 3, rk := 0, data := bstr "nodes\nquit\nnodes\n", cap := 1000 }] }

theorem startup : Startup w0 :=
  ⟨rfl, (by
    intro nd hnd a ha
    simp [w0, Two.w0] at hnd; subst hnd
    simp [Two.devA] at ha), by decide, rfl, rfl⟩

theorem good : Good w0 := by
  refine ⟨by decide, pushHost_HWFS [] ['a', '1'] HWFS_nil, pushHost_clean [] ['a', '1'] (by decide) HLClean_nil, ?_, ⟨?_, ?_⟩, ?_⟩
  · intro a ha; cases ha
  · intro nd hnd; simp [w0, Two.w0] at hnd; subst hnd; decide
  · intro nd hnd p hp n hn
    simp [w0, Two.w0] at hnd; subst hnd
    simp [Two.devA] at hp; subst hp
    simp [Two.plugA] at hn; subst hn; decide
  · intro p hp; cases hp

end Ex

end Pm.Daemon.StreamPf

/-! axiom audit (expected: at most `propext`, `Classical.choice`, `Quot.sound`) -/
section AxiomChecks
open Pm.Daemon.StreamPf
#print axioms stream_run
#print axioms ledger_run
#print axioms departed_run
#print axioms RunInv.ofDaemonPass
#print axioms RunInv.cliPostPoll
#print axioms applyOuts_ext
#print axioms postPoll_clean
#print axioms parseLine_out
#print axioms histOf_snoc
#print axioms Ex.good
#print axioms Ex.startup
end AxiomChecks
