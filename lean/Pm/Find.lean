import Pm.HLProof
namespace Pm

/-- `hostrange_hn_within` on a host name already split as `pfx ++ ds` (ds = digit suffix).
    Recursion mirrors the "shift one digit into the prefix" retry of the C code. -/
def hnWithin (r : HostRange) (full : Name) : Name → Name → Option Nat
  | pfx, ds =>
    if r.single then (if full = r.pfx then some 0 else none)
    else if ds.isEmpty || !(parseNat ds ≤ MAX_HOST_SUFFIX) then none       -- no valid numeric suffix
    else if !(pfx.length ≤ r.pfx.length && r.pfx.take pfx.length == pfx) then none   -- strncmp(hr->prefix, hn->prefix, len_hn)
    else
      match ds with
      | [] => none
      | d :: ds' =>
        if pfx.length < r.pfx.length && 1 < (d :: ds').length
            && (r.pfx.getLast?.map Char.isDigit).getD false && r.pfx[pfx.length]? == some d then
          hnWithin r full (pfx ++ [d]) ds'
        else if pfx.length = r.pfx.length ∧ pfx = r.pfx ∧ parseNat (d :: ds') ≤ r.hi ∧ r.lo ≤ parseNat (d :: ds') then
          match widthEquiv r.lo r.width (parseNat (d :: ds')) (d :: ds').length with
          | some _ => some (parseNat (d :: ds') - r.lo)
          | none => none
        else none

theorem numExpand_get (pfx : Name) (w lo hi k : Nat) (h : lo + k ≤ hi) :
    (numExpand pfx w lo hi)[k]? = some (pfx ++ fmtNum w (lo + k)) := by
  unfold numExpand
  rw [List.getElem?_map, List.getElem?_range (by omega)]
  rfl

/-- soundness of `find` on one range: an offset is only ever returned for the name that
    really sits at that offset of the expansion.  No bound on the numeric part is needed. -/
theorem hnWithin_sound (r : HostRange) (full : Name) :
    ∀ (ds pfx : Name) (k : Nat), pfx ++ ds = full → (∀ c ∈ ds, c.isDigit = true) →
      hnWithin r full pfx ds = some k → r.expand[k]? = some full := by
  intro ds
  induction ds with
  | nil =>
    intro pfx k hcat hdig h
    unfold hnWithin at h
    by_cases hs : r.single = true
    · simp only [hs, if_true] at h
      split at h
      · rename_i he; cases h; simp [HostRange.expand, hs, he]
      · cases h
    · simp [hs] at h
  | cons d ds' ih =>
    intro pfx k hcat hdig h
    unfold hnWithin at h
    by_cases hs : r.single = true
    · simp only [hs, if_true] at h
      split at h
      · rename_i he; cases h; simp [HostRange.expand, hs, he]
      · cases h
    · have hs' : r.single = false := by simpa using hs
      simp only [hs', Bool.false_eq_true, if_false] at h
      split at h
      · cases h
      · split at h
        · cases h
        · split at h
          · -- shifted retry
            exact ih (pfx ++ [d]) k (by rw [← hcat]; simp) (fun c hc => hdig c (by simp [hc])) h
          · split at h
            · rename_i hc
              obtain ⟨_, hp, hhi, hlo⟩ := hc
              cases hwe : widthEquiv r.lo r.width (parseNat (d :: ds')) (d :: ds').length with
              | none => rw [hwe] at h; cases h
              | some p =>
                rw [hwe] at h
                obtain ⟨w1, w2⟩ := p
                simp only at h
                cases h
                obtain ⟨hEq, hT, hR⟩ := widthEquiv_sound hwe
                rw [HostRange.expand_nonsingle r hs']
                rw [numExpand_get _ _ _ _ _ (by omega)]
                congr 1
                rw [← hcat, hp]
                congr 1
                have e1 : r.lo + (parseNat (d :: ds') - r.lo) = parseNat (d :: ds') := by omega
                rw [e1]
                rw [← hT _ hlo, hEq, hR _ (Nat.le_refl _)]
                exact fmtNum_parse (d :: ds') (by simp) hdig
            · cases h

end Pm

namespace Pm

/-- `hostlist_find`: first range that contains the name; index = hosts before it + offset -/
def findGo (full : Name) : Hostlist → Nat → Option Nat
  | [], _ => none
  | r :: rs, acc =>
    match hnWithin r full (splitDigits full).1 (splitDigits full).2 with
    | some k => some (acc + k)
    | none => findGo full rs (acc + r.expand.length)

def find (hl : Hostlist) (full : Name) : Option Nat := findGo full hl 0

theorem findGo_sound (full : Name) : ∀ (hl : Hostlist) (acc i : Nat) (pre : List Name),
    pre.length = acc → findGo full hl acc = some i → (pre ++ expand hl)[i]? = some full := by
  intro hl
  induction hl with
  | nil => intro acc i pre _ h; simp [findGo] at h
  | cons r rs ih =>
    intro acc i pre hpre h
    unfold findGo at h
    obtain ⟨hcat, hdig⟩ := splitDigits_spec full
    cases hw : hnWithin r full (splitDigits full).1 (splitDigits full).2 with
    | some k =>
      rw [hw] at h
      simp only [Option.some.injEq] at h
      subst h
      have hs := hnWithin_sound r full _ _ k hcat hdig hw
      have hk : k < r.expand.length := by
        rcases Nat.lt_or_ge k r.expand.length with h | h
        · exact h
        · rw [List.getElem?_eq_none h] at hs; cases hs
      have : expand (r :: rs) = r.expand ++ expand rs := by simp [expand]
      rw [this, ← hpre, List.getElem?_append_right (by omega)]
      simp only [Nat.add_sub_cancel_left]
      rw [List.getElem?_append_left hk]
      exact hs
    | none =>
      rw [hw] at h
      simp only at h
      have := ih (acc + r.expand.length) i (pre ++ r.expand) (by simp [hpre]) h
      have e : expand (r :: rs) = r.expand ++ expand rs := by simp [expand]
      rw [e, ← List.append_assoc]
      exact this

/-- C01/C13/C14 key lemma: whatever `hostlist_find` returns is the position of that very name -/
theorem find_sound (hl : Hostlist) (full : Name) (i : Nat) (h : find hl full = some i) :
    (expand hl)[i]? = some full := by
  have := findGo_sound full hl 0 i [] rfl h
  simpa using this

theorem find_mem (hl : Hostlist) (full : Name) (i : Nat) (h : find hl full = some i) : full ∈ expand hl :=
  List.mem_of_getElem? (find_sound hl full i h)

end Pm

