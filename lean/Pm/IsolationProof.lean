import Pm.FrameEx
import Pm.ClientStream
import Pm.ReplyProof
import Pm.EnqProof
/-! Helper lemmas for C11 (clients are isolated from one another).

    1. routing, client half: `applyOuts` delivers a callback to the client whose id it carries and to nobody else, and what
       that client gets is a function of the callbacks carrying its id, its own record and its own arglist;
    2. the id discipline (`IdsFresh`);
    3. one command per client;
    4. the scope of a result (arglists);
    5. departure;
    6. the frame of one client's share of `cli_post_poll`. -/
namespace Pm.Daemon.Isolation
open Pm Pm.Client Pm.Daemon
open Pm.Dev2 (Dev Action ActErr Oracle outCid cell)
abbrev DOut := Pm.Dev2.Out

/-! ## 1. routing, client half -/

/-- the callback is addressed to client `g` -/
def mine (g : Nat) (o : DOut) : Bool := outCid o == some g

theorem mine_iff (g : Nat) (o : DOut) : mine g o = true ↔ outCid o = some g := by simp [mine]

/-- what `applyOuts` reads on behalf of client `g`: its record and, when it has a command, the arglist of that command -/
def OwnView (g : Nat) (w w' : W) : Prop :=
  cliRec w g = cliRec w' g ∧ ∀ c k, cliRec w g = some c → c.cmd = some k → storeArgs w k.al = storeArgs w' k.al

theorem OwnView.refl (g : Nat) (w : W) : OwnView g w w := ⟨rfl, fun _ _ _ _ => rfl⟩

theorem OwnView.symm {g : Nat} {w w' : W} (h : OwnView g w w') : OwnView g w' w :=
  ⟨h.1.symm, fun c k hc hk => (h.2 c k (h.1 ▸ hc) hk).symm⟩

theorem OwnView.trans {g : Nat} {a b c : W} (h1 : OwnView g a b) (h2 : OwnView g b c) : OwnView g a c :=
  ⟨h1.1.trans h2.1, fun x k hx hk => (h1.2 x k hx hk).trans (h2.2 x k (h1.1 ▸ hx) hk)⟩

/-- a world that differs only in the records of other clients and in other arglists looks the same to `g` -/
theorem OwnView.of_other {g : Nat} {w w' : W} (hc : cliRec w' g = cliRec w g) (hs : w'.store = w.store) : OwnView g w' w :=
  ⟨hc, fun _ _ _ _ => by simp [storeArgs, hs]⟩

/-- one callback addressed to somebody else: invisible to `g` -/
theorem applyOut_skip (name : Bytes) (acc : W × List String) (o : DOut) (g : Nat) (h : outCid o ≠ some g) :
    OwnView g (applyOut name acc o).1 acc.1 :=
  OwnView.of_other (applyOut_other name acc o g h) (applyOut_store name acc o)

theorem updCli_own (w w' : W) (g : Nat) (f : Cli → Cli) (hf : ∀ c, (f c).id = c.id) (hc : cliRec w g = cliRec w' g)
    (hcmd : ∀ c k', cliRec w g = some c → (f c).cmd = some k' → storeArgs w k'.al = storeArgs w' k'.al) :
    OwnView g (updCli w g f) (updCli w' g f) := by
  refine ⟨updCli_rel _ _ _ _ _ hf hc, ?_⟩
  intro c' k' hc' hk'
  rw [updCli_self _ _ _ hf] at hc'
  cases hq : cliRec w g with
  | none => rw [hq] at hc'; cases hc'
  | some c =>
    rw [hq] at hc'
    simp only [Option.map_some, Option.some.injEq] at hc'
    subst hc'
    exact hcmd c k' hq hk'

/-- `_act_finish` for client `g` itself reads `g`'s record and `g`'s arglist only -/
theorem actFinish_own (w w' : W) (g : Nat) (e : ActErr) (name : Bytes) (h : OwnView g w w') :
    OwnView g (actFinish w g e name).1 (actFinish w' g e name).1 := by
  obtain ⟨hc, hs⟩ := h
  have e1 : w.clients.find? (·.id == g) = cliRec w g := rfl
  have e2 : w'.clients.find? (·.id == g) = cliRec w' g := rfl
  unfold actFinish
  rw [e1, e2, ← hc]
  cases hq : cliRec w g with
  | none => exact ⟨hc, fun c k hcc => by rw [hq] at hcc; cases hcc⟩
  | some c =>
    have hid : c.id = g := by
      have : w.clients.find? (·.id == g) = some c := hq
      simpa using List.find?_some this
    dsimp only
    cases hk : c.cmd with
    | none => exact ⟨hc, fun c' k hcc hk' => hs c' k hcc hk'⟩
    | some k =>
      dsimp only
      have hst : storeArgs w k.al = storeArgs w' k.al := hs c k hq hk
      rw [← hst]
      split
      · split
        · rw [hid]
          refine updCli_own _ _ _ _ (fun _ => rfl) hc ?_
          intro c0 k' _ hk'
          simp [put] at hk'
        · exact ⟨hc, fun c' k' hcc hk' => hs c' k' hcc hk'⟩
      · rw [hid]
        refine updCli_own _ _ _ _ (fun _ => rfl) hc ?_
        intro c0 k' hc0 hk'
        rw [hq] at hc0
        cases hc0
        simp only [put, Option.some.injEq] at hk'
        subst hk'
        exact hst

/-- one callback, two worlds that look the same to `g`: they still do afterwards -/
theorem applyOut_same (name : Bytes) (acc acc' : W × List String) (o : DOut) (g : Nat) (h : OwnView g acc.1 acc'.1) :
    OwnView g (applyOut name acc o).1 (applyOut name acc' o).1 := by
  by_cases hm : outCid o = some g
  · obtain ⟨w, msgs⟩ := acc
    obtain ⟨w', msgs'⟩ := acc'
    cases o with
    | finish cid e =>
      have : cid = g := by simpa [outCid] using hm
      subst this
      exact actFinish_own w w' cid e name h
    | telemetry cid t =>
      have : cid = g := by simpa [outCid] using hm
      subst this
      exact updCli_own _ _ _ _ (fun _ => rfl) h.1 (fun c k' hc hk' => h.2 c k' hc hk')
    | diag cid t =>
      have : cid = g := by simpa [outCid] using hm
      subst this
      exact updCli_own _ _ _ _ (fun _ => rfl) h.1 (fun c k' hc hk' => h.2 c k' hc hk')
    | sent _ => exact h
    | rxMismatch _ _ => exact h
    | abortAssert _ => exact h
  · exact ((applyOut_skip name acc o g hm).trans h).trans (applyOut_skip name acc' o g hm).symm

/-- a run of callbacks against the run of only those addressed to `g` -/
theorem foldl_applyOut_filter (name : Bytes) (g : Nat) (outs : List DOut) (acc acc' : W × List String)
    (h : OwnView g acc.1 acc'.1) :
    OwnView g (outs.foldl (applyOut name) acc).1 ((outs.filter (mine g)).foldl (applyOut name) acc').1 := by
  induction outs generalizing acc acc' with
  | nil => exact h
  | cons o r ih =>
    rw [List.foldl_cons, List.filter_cons]
    by_cases hm : outCid o = some g
    · rw [if_pos ((mine_iff g o).mpr hm), List.foldl_cons]
      exact ih _ _ (applyOut_same name acc acc' o g h)
    · rw [if_neg (fun hh => hm ((mine_iff g o).mp hh))]
      exact ih _ _ ((applyOut_skip name acc o g hm).trans h)

/-- **client half of the routing invariant.**  Two runs of `applyOuts` for the same device: the worlds look the same to
    client `g` (same record of `g`, same arglist of `g`'s command) and the two callback lists contain the same callbacks
    addressed to `g`, in the same order — whatever else they contain, and whatever the other clients' records and
    arglists are.  Then `g`'s record is the same afterwards, and the worlds still look the same to `g`. -/
theorem applyOuts_own (w w' : W) (name : Bytes) (outs outs' : List DOut) (g : Nat) (hv : OwnView g w w')
    (hf : outs.filter (mine g) = outs'.filter (mine g)) :
    OwnView g (applyOuts w name outs).1 (applyOuts w' name outs').1 := by
  rw [Pm.Daemon.applyOuts_eq, Pm.Daemon.applyOuts_eq]
  have h1 := foldl_applyOut_filter name g outs (w, []) (w', []) hv
  have h2 := foldl_applyOut_filter name g outs' (w', []) (w', []) (OwnView.refl g w')
  rw [hf] at h1
  exact h1.trans h2.symm

/-- no callback carries `g`'s id: `g`'s record is not touched (and nothing but client records ever is) -/
theorem applyOuts_untouched (w : W) (name : Bytes) (outs : List DOut) (g : Nat) (h : ∀ x ∈ outs, outCid x ≠ some g) :
    cliRec (applyOuts w name outs).1 g = cliRec w g ∧ sansClients (applyOuts w name outs).1 = sansClients w :=
  ⟨applyOuts_other w name outs g h, applyOuts_sans w name outs⟩

/-! ### the same, position by position in the client table (so that it does not depend on ids being distinct) -/

theorem updCli_get (w : W) (id : Nat) (f : Cli → Cli) (i : Nat) :
    (updCli w id f).clients[i]? = (w.clients[i]?).map fun c => if c.id == id then f c else c := by
  simp [updCli]

theorem updCli_absent (w : W) (id : Nat) (f : Cli → Cli) (h : cliRec w id = none) : updCli w id f = w := by
  have hn : ∀ c ∈ w.clients, ¬ c.id = id := by
    intro c hc
    have := List.find?_eq_none.mp h c hc
    simpa using this
  unfold updCli
  have : (w.clients.map fun c => if c.id == id then f c else c) = w.clients := by
    conv => rhs; rw [← List.map_id w.clients]
    apply List.map_congr_left
    intro c hc
    simp [hn c hc]
  rw [this]

/-- `_act_finish` rewrites at most the records whose id it was called with, and keeps their id -/
theorem actFinish_upd (w : W) (id : Nat) (e : ActErr) (name : Bytes) :
    ∃ f : Cli → Cli, (∀ c, (f c).id = c.id) ∧ (actFinish w id e name).1 = updCli w id f := by
  have hidf : updCli w id (fun c => c) = w := by
    unfold updCli
    have : (w.clients.map fun c => if c.id == id then c else c) = w.clients := by
      conv => rhs; rw [← List.map_id w.clients]
      apply List.map_congr_left
      intro c _
      split <;> rfl
    rw [this]
  unfold actFinish
  split
  · exact ⟨fun c => c, fun _ => rfl, hidf.symm⟩
  · rename_i c hc
    have hid : c.id = id := by simpa using List.find?_some hc
    split
    · exact ⟨fun c => c, fun _ => rfl, hidf.symm⟩
    · dsimp only
      split
      · split
        · rw [hid]; refine ⟨_, ?_, rfl⟩; intro _; rfl
        · exact ⟨fun c => c, fun _ => rfl, hidf.symm⟩
      · rw [hid]; refine ⟨_, ?_, rfl⟩; intro _; rfl

theorem applyOut_upd (name : Bytes) (acc : W × List String) (o : DOut) :
    (applyOut name acc o).1 = acc.1 ∨
    ∃ id f, outCid o = some id ∧ (∀ c, (f c).id = c.id) ∧ (applyOut name acc o).1 = updCli acc.1 id f := by
  obtain ⟨w, msgs⟩ := acc
  cases o with
  | finish cid e =>
    obtain ⟨f, hf, h⟩ := actFinish_upd w cid e name
    exact Or.inr ⟨cid, f, rfl, hf, h⟩
  | telemetry cid t => refine Or.inr ⟨cid, _, rfl, ?_, rfl⟩; intro _; rfl
  | diag cid t => refine Or.inr ⟨cid, _, rfl, ?_, rfl⟩; intro _; rfl
  | sent _ => exact Or.inl rfl
  | rxMismatch _ _ => exact Or.inl rfl
  | abortAssert _ => exact Or.inl rfl

/-- the client table after a run of callbacks: same length, same ids position by position, and a record whose id no
    callback carries is exactly what it was -/
theorem foldl_applyOut_table (name : Bytes) (outs : List DOut) (acc : W × List String) (i : Nat) (c : Cli)
    (h : acc.1.clients[i]? = some c) :
    ∃ c', (outs.foldl (applyOut name) acc).1.clients[i]? = some c' ∧ c'.id = c.id ∧
      ((∀ x ∈ outs, outCid x ≠ some c.id) → c' = c) := by
  induction outs generalizing acc c with
  | nil => exact ⟨c, h, rfl, fun _ => rfl⟩
  | cons o r ih =>
    rw [List.foldl_cons]
    rcases applyOut_upd name acc o with e | ⟨id, f, ho, hf, e⟩
    · obtain ⟨c', h1, h2, h3⟩ := ih (applyOut name acc o) c (by rw [e]; exact h)
      exact ⟨c', h1, h2, fun hx => h3 (fun x hx' => hx x (by simp [hx']))⟩
    · have hget : (applyOut name acc o).1.clients[i]? = some (if c.id == id then f c else c) := by
        rw [e, updCli_get, h]; rfl
      obtain ⟨c', h1, h2, h3⟩ := ih (applyOut name acc o) _ hget
      have hid : (if c.id == id then f c else c).id = c.id := by split <;> simp [hf]
      refine ⟨c', h1, h2.trans hid, ?_⟩
      intro hx
      have hne : ¬ c.id = id := by
        intro hh
        exact hx o (by simp) (by rw [ho, hh])
      have hcc : (if c.id == id then f c else c) = c := by simp [hne]
      rw [hcc] at h3
      exact h3 (fun x hx' => hx x (by simp [hx']))

theorem applyOuts_table (w : W) (name : Bytes) (outs : List DOut) (i : Nat) (c : Cli) (h : w.clients[i]? = some c) :
    ∃ c', (applyOuts w name outs).1.clients[i]? = some c' ∧ c'.id = c.id ∧
      ((∀ x ∈ outs, outCid x ≠ some c.id) → c' = c) := by
  rw [Pm.Daemon.applyOuts_eq]
  exact foldl_applyOut_table name outs (w, []) i c h

theorem applyOuts_length (w : W) (name : Bytes) (outs : List DOut) :
    (applyOuts w name outs).1.clients.length = w.clients.length := by
  rw [Pm.Daemon.applyOuts_eq]
  have : ∀ (acc : W × List String), (outs.foldl (applyOut name) acc).1.clients.length = acc.1.clients.length := by
    induction outs with
    | nil => intro acc; rfl
    | cons o r ih =>
      intro acc
      rw [List.foldl_cons, ih]
      rcases applyOut_upd name acc o with e | ⟨id, f, _, _, e⟩
      · rw [e]
      · rw [e]; simp [updCli]
  exact this _

/-- callbacks for clients that are gone are dropped without touching anything -/
theorem applyOuts_absent (w : W) (name : Bytes) (outs : List DOut)
    (h : ∀ x ∈ outs, ∀ id, outCid x = some id → cliRec w id = none) : (applyOuts w name outs).1 = w := by
  rw [Pm.Daemon.applyOuts_eq]
  have : ∀ (acc : W × List String), acc.1 = w → (outs.foldl (applyOut name) acc).1 = w := by
    induction outs with
    | nil => intro acc ha; exact ha
    | cons o r ih =>
      intro acc ha
      rw [List.foldl_cons]
      apply ih (fun x hx => h x (by simp [hx]))
      rcases applyOut_upd name acc o with e | ⟨id, f, ho, _, e⟩
      · rw [e, ha]
      · rw [e, ha]; exact updCli_absent w id f (h o (by simp) id ho)
  exact this _ rfl

/-! ### routing through one device's share of the pass -/

theorem applyOuts_store (w : W) (name : Bytes) (outs : List DOut) : (applyOuts w name outs).1.store = w.store := by
  have := congrArg W.store (applyOuts_sans w name outs)
  simpa [sansClients] using this

/-- device half (all three callbacks): whatever `dev_post_poll` reports for device `nd` carries the client id of an action
    that was in `nd`'s queue when the pass began, or `0` (the internal login/ping actions, which belong to no client) -/
theorem devStep_addr (p : PassIn) (w : W) (o : Oracle) (nd : Bytes × Dev) :
    ∀ x ∈ (devStep p w o nd).2.2.1, ∀ cid, outCid x = some cid → cid = 0 ∨ ∃ a ∈ nd.2.acts, a.clientId = cid :=
  (devStep_frame (fun _ => false) (fun cid => cid = 0 ∨ ∃ a ∈ nd.2.acts, a.clientId = cid) (fun _ => True) p w o nd
    (fun _ _ _ _ => rfl) ⟨Or.inl rfl, trivial⟩ (fun a ha => ⟨Or.inr ⟨a, ha, rfl⟩, trivial⟩)).addr

theorem devPass_w (p : PassIn) (a : DevAcc) (nd : Bytes × Dev) (hd : a.dead = false) :
    (devPass p a nd).w =
      (applyOuts (afterStep a.w (devStep p a.w a.oracle nd).1) nd.1 (devStep p a.w a.oracle nd).2.2.1).1 := by
  rw [devPass_eq]; unfold devPass'; simp only [hd, Bool.false_eq_true, ↓reduceIte]

/-- both halves: after `devPass`, client `g`'s record is what `applyOuts` makes of the callbacks carrying `g`'s id alone -/
theorem devPass_routing (p : PassIn) (a : DevAcc) (nd : Bytes × Dev) (g : Nat) (hd : a.dead = false) :
    cliRec (devPass p a nd).w g =
      cliRec (applyOuts (afterStep a.w (devStep p a.w a.oracle nd).1) nd.1
        ((devStep p a.w a.oracle nd).2.2.1.filter (mine g))).1 g := by
  rw [devPass_w p a nd hd]
  exact (applyOuts_own _ _ nd.1 _ _ g (OwnView.refl g _) (by rw [List.filter_filter]; simp)).1

/-- two runs of one device's share of the pass from accumulators that differ in the *other* clients (their number, their
    records, their commands): client `g` ends with the same record -/
theorem devPass_own (p : PassIn) (a a' : DevAcc) (nd : Bytes × Dev) (g : Nat) (hd : a.dead = false) (hd' : a'.dead = false)
    (hc : cliRec a.w g = cliRec a'.w g) (hs : a.w.store = a'.w.store)
    (h1 : a.w.nsock = a'.w.nsock) (h2 : a.w.npair = a'.w.npair) (h3 : a.w.nfork = a'.w.nfork) (ho : a.oracle = a'.oracle) :
    cliRec (devPass p a nd).w g = cliRec (devPass p a' nd).w g ∧ (devPass p a nd).w.store = (devPass p a' nd).w.store := by
  rw [devPass_w p a nd hd, devPass_w p a' nd hd']
  have hstep : devStep p a.w a.oracle nd = devStep p a'.w a'.oracle nd := by
    rw [ho]; exact devStep_reads p p a.w a'.w a'.oracle nd hs h1 h2 h3 rfl rfl rfl (fun _ _ => rfl)
  rw [hstep]
  constructor
  · have hv : OwnView g (afterStep a.w (devStep p a'.w a'.oracle nd).1) (afterStep a'.w (devStep p a'.w a'.oracle nd).1) :=
      ⟨hc, fun _ _ _ _ => rfl⟩
    exact (applyOuts_own _ _ nd.1 _ _ g hv rfl).1
  · rw [applyOuts_store, applyOuts_store]; rfl

/-! ## the frame of one client's share of `cli_post_poll` (used by 2–6) -/

/-- the fields of the world that one client's share of `cli_post_poll` never writes (in particular the client table: the
    record being served is held outside the table and written back by the loop of `cli_post_poll`) -/
def kept (w : W) : List Cli × List (Bytes × Bytes) × Nat × Nat × Nat × Nat × Nat × Option Nat × List Pm.Dev2.RxCall :=
  (w.clients, w.specs, w.nextId, w.nacc, w.nsock, w.npair, w.nfork, w.tmo, w.pendingX)

/-- the descriptor a logged system call is about -/
def sysFd : Sys → Option Nat
  | .accept _ => none
  | .close fd => some fd
  | .read fd _ => some fd
  | .write fd _ _ _ => some fd

def isWrite : Sys → Bool
  | .write _ _ _ _ => true
  | _ => false

/-- what one client's request processing may do to the queues and the arglist store: nothing (and the client's command is
    what it was), or — only when the client had no command — one `install`: every device gets its share of actions stamped
    with this client's id and the fresh arglist id `w.alNext`, the arglist is opened under that id, the counter is
    incremented, and the client now has the command that refers to it -/
def Enq (cid : Nat) (w w' : W) (cmd cmd' : Option CmdC) : Prop :=
  (w'.devs = w.devs ∧ w'.store = w.store ∧ w'.alNext = w.alNext ∧ cmd' = cmd) ∨
  (cmd = none ∧ ∃ (k : CmdC) (args : List Pm.Dev2.Arg) (com : Nat) (bn : List Bytes) (tele : Bool),
      cmd' = some k ∧ k.al = w.alNext ∧ w'.alNext = w.alNext + 1 ∧ w'.store = (w.alNext, args) :: w.store ∧
      w'.devs = w.devs.map (Enq.installDev com bn cid tele w.alNext))

theorem Enq.same {cid : Nat} {w w' : W} {cmd cmd' : Option CmdC} (h1 : w'.devs = w.devs) (h2 : w'.store = w.store)
    (h3 : w'.alNext = w.alNext) (h4 : cmd' = cmd) : Enq cid w w' cmd cmd' := Or.inl ⟨h1, h2, h3, h4⟩

theorem Enq.trans {cid : Nat} {w w' w'' : W} {cmd cmd' cmd'' : Option CmdC} (h1 : Enq cid w w' cmd cmd')
    (h2 : Enq cid w' w'' cmd' cmd'') : Enq cid w w'' cmd cmd'' := by
  rcases h1 with ⟨a1, a2, a3, a4⟩ | ⟨hc, k, args, com, bn, tele, b1, b2, b3, b4, b5⟩
  · rcases h2 with ⟨c1, c2, c3, c4⟩ | ⟨hc', k, args, com, bn, tele, d1, d2, d3, d4, d5⟩
    · exact Or.inl ⟨c1.trans a1, c2.trans a2, c3.trans a3, c4.trans a4⟩
    · refine Or.inr ⟨a4 ▸ hc', k, args, com, bn, tele, d1, ?_, ?_, ?_, ?_⟩
      · rw [d2, a3]
      · rw [d3, a3]
      · rw [d4, a3, a2]
      · rw [d5, a3, a1]
  · rcases h2 with ⟨c1, c2, c3, c4⟩ | ⟨hc', _⟩
    · exact Or.inr ⟨hc, k, args, com, bn, tele, c4.trans b1, b2, c3.trans b3, c2.trans b4, c1.trans b5⟩
    · rw [b1] at hc'; cases hc'

/-- one stage of a client's share of the pass, from world `w` and record `c` to `r`, logging the system calls `ext` -/
structure CliIso (w : W) (c : Cli) (r : W × Cli) (ext : List Sys) : Prop where
  kept : kept r.1 = kept w
  id : r.2.id = c.id
  fd : r.2.fd = c.fd
  quit : c.quit = true → r.2.quit = true
  enq : Enq c.id w r.1 c.cmd r.2.cmd
  sys : r.1.sys = w.sys ++ ext
  sysfd : ∀ s ∈ ext, sysFd s = some c.fd
  caps : ∀ fd, fd ≠ c.fd → capOf r.1 fd = capOf w fd
  buf : (∃ b, r.2.toBuf = c.toBuf ++ b) ∨ ∃ s ∈ ext, isWrite s = true

theorem CliIso.refl (w : W) (c : Cli) : CliIso w c (w, c) [] :=
  ⟨rfl, rfl, rfl, fun h => h, Enq.same rfl rfl rfl rfl, by simp, by simp, fun _ _ => rfl, Or.inl ⟨[], by simp⟩⟩

theorem CliIso.trans {w : W} {c : Cli} {r r' : W × Cli} {e e' : List Sys} (h1 : CliIso w c r e) (h2 : CliIso r.1 r.2 r' e') :
    CliIso w c r' (e ++ e') where
  kept := h2.kept.trans h1.kept
  id := h2.id.trans h1.id
  fd := h2.fd.trans h1.fd
  quit := fun h => h2.quit (h1.quit h)
  enq := h1.enq.trans (h1.id ▸ h2.enq)
  sys := by rw [h2.sys, h1.sys, List.append_assoc]
  sysfd := by
    intro s hs
    rcases List.mem_append.mp hs with hs | hs
    · exact h1.sysfd s hs
    · rw [h2.sysfd s hs, h1.fd]
  caps := fun fd hfd => (h2.caps fd (by rw [h1.fd]; exact hfd)).trans (h1.caps fd hfd)
  buf := by
    rcases h1.buf with ⟨b, hb⟩ | ⟨s, hs, hw⟩
    · rcases h2.buf with ⟨b', hb'⟩ | ⟨s, hs, hw⟩
      · exact Or.inl ⟨b ++ b', by rw [hb', hb, List.append_assoc]⟩
      · exact Or.inr ⟨s, List.mem_append_right _ hs, hw⟩
    · exact Or.inr ⟨s, List.mem_append_left _ hs, hw⟩

/-- a stage that only touches the record: flags, appended output, consumed input -/
theorem CliIso.record (w : W) (c c' : Cli) (hid : c'.id = c.id) (hfd : c'.fd = c.fd) (hq : c.quit = true → c'.quit = true)
    (hcmd : c'.cmd = c.cmd) (hb : ∃ b, c'.toBuf = c.toBuf ++ b) : CliIso w c (w, c') [] :=
  ⟨rfl, hid, hfd, hq, Enq.same rfl rfl rfl hcmd, by simp, by simp, fun _ _ => rfl, Or.inl hb⟩

theorem capOf_setCap_ne (w : W) (fd fd' : Nat) (v : Int) (h : fd' ≠ fd) : capOf (setCap w fd v) fd' = capOf w fd' := by
  unfold capOf setCap
  dsimp only
  have hb : (fd' == fd) = false := by simpa using h
  rw [List.lookup_cons, hb]
  congr 1
  induction w.caps with
  | nil => rfl
  | cons x r ih =>
    obtain ⟨k, v⟩ := x
    by_cases hk : k = fd
    · subst hk
      have : (fd' == k) = false := by simpa using h
      simp [List.lookup_cons, this, ih]
    · by_cases hak : fd' = k
      · subst hak; simp [hk]
      · have : (fd' == k) = false := by simpa using hak
        simp [hk, List.lookup_cons, this, ih]

/-- a stage that logs one system call on the client's own descriptor and touches the record -/
theorem CliIso.sysOnly (w : W) (c c' : Cli) (s : Sys) (hs : sysFd s = some c.fd) (hid : c'.id = c.id) (hfd : c'.fd = c.fd)
    (hq : c.quit = true → c'.quit = true) (hcmd : c'.cmd = c.cmd)
    (hb : (∃ b, c'.toBuf = c.toBuf ++ b) ∨ isWrite s = true) : CliIso w c ({ w with sys := w.sys ++ [s] }, c') [s] :=
  ⟨rfl, hid, hfd, hq, Enq.same rfl rfl rfl hcmd, rfl, by simpa using hs, fun _ _ => rfl,
    hb.elim Or.inl (fun h => Or.inr ⟨s, by simp, h⟩)⟩

theorem hwCore_iso (w : W) (c : Cli) : ∃ ext, CliIso w c (ClientPf.hwCore w c) ext := by
  unfold ClientPf.hwCore
  split
  · exact ⟨[], CliIso.refl w c⟩
  · dsimp only
    split
    · exact ⟨_, CliIso.sysOnly w c _ _ rfl rfl rfl (fun _ => rfl) rfl (Or.inr rfl)⟩
    · split
      · exact ⟨_, CliIso.sysOnly w c _ _ rfl rfl rfl (fun h => h) rfl (Or.inr rfl)⟩
      · split
        · exact ⟨_, CliIso.sysOnly w c _ _ rfl rfl rfl (fun _ => rfl) rfl (Or.inr rfl)⟩
        · have h := CliIso.sysOnly w c { c with toBuf := c.toBuf.drop (min (capOf w c.fd).toNat c.toBuf.length) }
            (Sys.write c.fd (c.toBuf.take (min (capOf w c.fd).toNat c.toBuf.length)) false false) rfl rfl rfl (fun h => h) rfl (Or.inr rfl)
          refine ⟨_, h.kept, h.id, h.fd, h.quit, h.enq, h.sys, h.sysfd, ?_, h.buf⟩
          intro fd hfd
          exact capOf_setCap_ne _ _ _ _ hfd

theorem handleWrite_iso (w : W) (c : Cli) : ∃ ext, CliIso w c (handleWrite w c) ext := by
  rw [ClientPf.handleWrite_eq]
  obtain ⟨ext, h⟩ := hwCore_iso w (if c.quit then { c with blocking := true } else c)
  have h0 : CliIso w c (w, if c.quit then { c with blocking := true } else c) [] := by
    apply CliIso.record
    · split <;> rfl
    · split <;> rfl
    · intro hq; rw [if_pos hq]; exact hq
    · split <;> rfl
    · exact ⟨[], by split <;> simp⟩
  exact ⟨[] ++ ext, h0.trans h⟩

theorem cpRead_iso (w : W) (c : Cli) (e : Option FdEnv) : ∃ ext, CliIso w c (ClientPf.cpRead w c e) ext := by
  unfold ClientPf.cpRead
  split
  · split
    · exact ⟨_, CliIso.sysOnly w c _ _ rfl rfl rfl (fun _ => rfl) rfl (Or.inl ⟨[], by simp⟩)⟩
    · split
      · exact ⟨_, CliIso.sysOnly w c _ _ rfl rfl rfl (fun _ => rfl) rfl (Or.inl ⟨[], by simp⟩)⟩
      · split
        · exact ⟨_, CliIso.sysOnly w c _ _ rfl rfl rfl (fun _ => rfl) rfl (Or.inl ⟨[], by simp⟩)⟩
        · exact ⟨_, CliIso.sysOnly w c _ _ rfl rfl rfl (fun h => h) rfl (Or.inl ⟨[], by simp⟩)⟩
  · exact ⟨[], CliIso.refl w c⟩

/-! ### `_parse_input`, branch by branch -/

theorem plFin_iso (w : W) (c : Cli) (b : Bytes) : CliIso w c (ClientPf.plFin w c b) [] :=
  CliIso.record w c _ rfl rfl (fun h => h) rfl ⟨_, rfl⟩

theorem plNodes_iso (w : W) (c : Cli) : CliIso w c (ClientPf.plNodes w c) [] := by
  unfold ClientPf.plNodes
  split
  · exact ⟨rfl, rfl, rfl, fun h => h, Enq.same rfl rfl rfl rfl, by simp, by simp, fun _ _ => rfl, Or.inl ⟨[], by simp⟩⟩
  · exact ⟨rfl, rfl, rfl, fun h => h, Enq.same rfl rfl rfl rfl, by simp, by simp, fun _ _ => rfl, Or.inl ⟨_, rfl⟩⟩

theorem plTelemetry_iso (w : W) (c : Cli) : CliIso w c (ClientPf.plTelemetry w c) [] :=
  CliIso.record w c _ rfl rfl (fun h => h) rfl ⟨_, rfl⟩

theorem plExprange_iso (w : W) (c : Cli) : CliIso w c (ClientPf.plExprange w c) [] :=
  CliIso.record w c _ rfl rfl (fun h => h) rfl ⟨_, rfl⟩

theorem plQuit_iso (w : W) (c : Cli) : ∃ ext, CliIso w c (ClientPf.plQuit w c) ext := by
  unfold ClientPf.plQuit
  obtain ⟨ext, h⟩ := handleWrite_iso w (put { c with quit := true } (codeLine 101 ++ crlf))
  have h0 : CliIso w c (w, put { c with quit := true } (codeLine 101 ++ crlf)) [] :=
    CliIso.record w c _ rfl rfl (fun _ => rfl) rfl ⟨_, rfl⟩
  exact ⟨[] ++ ext, h0.trans h⟩

/-- `install` on an idle client -/
theorem install_iso (w : W) (c : Cli) (com : Com) (names : List Name) (hidle : c.cmd = none) :
    CliIso w c (install w c com names) [] := by
  rcases Enq.install_cases w c com names with h | ⟨_, hd, _, hc⟩
  · rw [h]; exact CliIso.record w c _ rfl rfl (fun h => h) rfl ⟨_, rfl⟩
  · obtain ⟨hk1, hk2⟩ : kept (install w c com names).1 = kept w ∧
        (((install w c com names).1.alNext = w.alNext + 1 ∧
         (install w c com names).1.store = (w.alNext, Reply.freshArgs (names.map ofChars)) :: w.store ∧
         (install w c com names).1.sys = w.sys ∧ (install w c com names).1.caps = w.caps) ∨
        install w c com names = Reply.refused w c) := by
      rw [Reply.install_eq]
      split
      · exact ⟨rfl, Or.inr rfl⟩
      · dsimp only
        split
        · exact ⟨rfl, Or.inr rfl⟩
        · exact ⟨rfl, Or.inl ⟨rfl, rfl, rfl, rfl⟩⟩
    rcases hk2 with ⟨h1, h2, h3, h4⟩ | href
    · refine ⟨hk1, by rw [hc], by rw [hc], fun hq => by rw [hc]; exact hq, ?_, by simpa using h3, by simp, ?_, Or.inl ⟨[], by rw [hc]; simp⟩⟩
      · exact Or.inr ⟨hidle, _, _, _, _, _, by rw [hc], rfl, h1, h2, hd⟩
      · intro fd _; unfold capOf; rw [h4]
    · rw [href]; exact CliIso.record w c _ rfl rfl (fun h => h) rfl ⟨_, rfl⟩

theorem plDevice_iso (w : W) (c : Cli) (str : Bytes) : CliIso w c (ClientPf.plDevice w c str) [] := by
  unfold ClientPf.plDevice
  split
  · exact plFin_iso ..
  · split
    · exact ⟨rfl, rfl, rfl, fun h => h, Enq.same rfl rfl rfl rfl, by simp, by simp, fun _ _ => rfl, Or.inl ⟨[], by simp⟩⟩
    · exact plFin_iso ..

theorem plCmd_iso (w : W) (c : Cli) (com : Com) (arg : Bytes) (hidle : c.cmd = none) : CliIso w c (ClientPf.plCmd w c com arg) [] := by
  unfold ClientPf.plCmd
  split
  · exact ⟨rfl, rfl, rfl, fun h => h, Enq.same rfl rfl rfl rfl, by simp, by simp, fun _ _ => rfl, Or.inl ⟨[], by simp⟩⟩
  · exact plFin_iso ..
  · dsimp only
    split
    · exact plFin_iso ..
    · exact install_iso w c com _ hidle

theorem plRest_iso (w : W) (c : Cli) (str : Bytes) (hidle : c.cmd = none) : CliIso w c (ClientPf.plRest w c str) [] := by
  unfold ClientPf.plRest
  split
  · split
    · exact install_iso w c _ _ hidle
    · split
      · exact install_iso w c _ _ hidle
      · split
        · exact install_iso w c _ _ hidle
        · exact plDevice_iso ..
  · exact plCmd_iso w c _ _ hidle

theorem plIdle_iso (w : W) (c : Cli) (str : Bytes) (hidle : c.cmd = none) : ∃ ext, CliIso w c (ClientPf.plIdle w c str) ext := by
  unfold ClientPf.plIdle
  split
  · exact ⟨_, plFin_iso ..⟩
  · split
    · exact ⟨_, plNodes_iso ..⟩
    · split
      · exact ⟨_, plTelemetry_iso ..⟩
      · split
        · exact ⟨_, plExprange_iso ..⟩
        · split
          · exact plQuit_iso ..
          · exact ⟨_, plRest_iso w c str hidle⟩

/-- **one request line** -/
theorem parseLine_iso (w : W) (c : Cli) (line : Bytes) : ∃ ext, CliIso w c (parseLine w c line) ext := by
  rw [ClientPf.parseLine_eq]; unfold ClientPf.parseLine'
  split
  · exact ⟨[], CliIso.record w c _ rfl rfl (fun h => h) rfl ⟨_, rfl⟩⟩
  · rename_i h
    exact plIdle_iso w c _ (by simpa using h)

/-- taking a line out of the input buffer -/
theorem dropFrom_iso (w : W) (c : Cli) (n : Nat) : CliIso w c (w, { c with fromBuf := c.fromBuf.drop n }) [] :=
  CliIso.record w c _ rfl rfl (fun h => h) rfl ⟨[], by simp⟩

theorem runLines_iso : ∀ (ls : List Bytes) (w : W) (c : Cli), ∃ ext, CliIso w c (ClientPf.runLines w c ls) ext := by
  intro ls
  induction ls with
  | nil => intro w c; exact ⟨[], CliIso.refl w c⟩
  | cons l ls ih =>
    intro w c
    unfold ClientPf.runLines
    split
    · exact ⟨[], CliIso.refl w c⟩
    · obtain ⟨e1, h1⟩ := parseLine_iso w { c with fromBuf := c.fromBuf.drop l.length } l
      obtain ⟨e2, h2⟩ := ih (parseLine w { c with fromBuf := c.fromBuf.drop l.length } l).1 (parseLine w { c with fromBuf := c.fromBuf.drop l.length } l).2
      exact ⟨[] ++ e1 ++ e2, ((dropFrom_iso w c l.length).trans h1).trans h2⟩

theorem handleInput_iso (w : W) (c : Cli) : ∃ ext, CliIso w c (handleInput w c) ext := by
  rw [ClientPf.handleInput_lines]; exact runLines_iso _ w c

/-! ### one client's whole share of `cli_post_poll` -/

/-- the frame of `clientPass w c e = r`, logging the system calls `ext`: whether the client survives (`alive`) or is
    destroyed (`gone`) -/
structure PassIso (w : W) (c : Cli) (r : W × Option Cli) (ext : List Sys) : Prop where
  kept : kept r.1 = kept w
  sys : r.1.sys = w.sys ++ ext
  sysfd : ∀ s ∈ ext, sysFd s = some c.fd
  caps : ∀ fd, fd ≠ c.fd → capOf r.1 fd = capOf w fd
  alive : ∀ c', r.2 = some c' → c'.id = c.id ∧ c'.fd = c.fd ∧ (c.quit = true → c'.quit = true) ∧
      Enq c.id w r.1 c.cmd c'.cmd ∧ ((∃ b, c'.toBuf = c.toBuf ++ b) ∨ ∃ s ∈ ext, isWrite s = true)
  gone : r.2 = none → r.1.devs = w.devs ∧ r.1.store = w.store ∧ r.1.alNext = w.alNext ∧
      (r.1.exited = w.exited ∨ r.1.exited = false)

theorem cpDead_iso (w : W) (c : Cli) : PassIso w c (ClientPf.cpDead w c) [Sys.close c.fd] :=
  ⟨rfl, rfl, by simp [sysFd], fun _ _ => rfl, fun c' h => by simp [ClientPf.cpDead] at h, fun _ => ⟨rfl, rfl, rfl, Or.inl rfl⟩⟩

theorem cpTail_iso (w : W) (c : Cli) (r : W × Cli) (ext : List Sys) (h : CliIso w c r ext) :
    ∃ ext', PassIso w c (ClientPf.cpTail r) ext' := by
  have hsome : PassIso w c (r.1, some r.2) ext :=
    ⟨h.kept, h.sys, h.sysfd, h.caps,
     fun c' hc' => by
       simp only [Option.some.injEq] at hc'
       subst hc'
       exact ⟨h.id, h.fd, h.quit, h.enq, h.buf⟩,
     fun hn => by simp at hn⟩
  unfold ClientPf.cpTail
  split
  · exact ⟨ext, hsome⟩
  · rename_i hex
    split
    · rename_i hq
      have hcmd : r.2.cmd = none := by
        simp only [Bool.and_eq_true, Option.isNone_iff_eq_none] at hq
        exact hq.2
      refine ⟨ext ++ [Sys.close r.2.fd], h.kept, ?_, ?_, h.caps, ?_, ?_⟩
      · simp [ClientPf.cpDead, h.sys]
      · intro s hs
        rcases List.mem_append.mp hs with hs | hs
        · exact h.sysfd s hs
        · simp only [List.mem_singleton] at hs; subst hs; simp [sysFd, h.fd]
      · intro c' hc'; simp [ClientPf.cpDead] at hc'
      · intro _
        have henq := h.enq
        rw [hcmd] at henq
        rcases henq with ⟨a1, a2, a3, _⟩ | ⟨_, k, _, _, _, _, hk, _⟩
        · exact ⟨a1, a2, a3, Or.inr (by simpa [ClientPf.cpDead] using hex)⟩
        · cases hk
    · exact ⟨ext, hsome⟩

/-- **the frame of `clientPass`** -/
theorem clientPass_iso (w : W) (c : Cli) (e : Option FdEnv) : ∃ ext, PassIso w c (clientPass w c e) ext := by
  rw [ClientPf.clientPass_eq]
  unfold ClientPf.clientPass'
  dsimp only
  split
  · exact ⟨_, cpDead_iso w c⟩
  · obtain ⟨e1, h1⟩ : ∃ ext, CliIso w c (if (ClientPf.cpRev c e &&& 1 != 0 || ClientPf.cpRev c e &&& 4 != 0) = true then ClientPf.cpRead w c e else (w, c)) ext := by
      split
      · exact cpRead_iso w c e
      · exact ⟨[], CliIso.refl w c⟩
    generalize (if (ClientPf.cpRev c e &&& 1 != 0 || ClientPf.cpRev c e &&& 4 != 0) = true then ClientPf.cpRead w c e else (w, c)) = r1 at h1 ⊢
    obtain ⟨e2, h2⟩ : ∃ ext, CliIso w c (if (ClientPf.cpRev c e &&& 2 != 0) = true then handleWrite r1.1 r1.2 else r1) ext := by
      split
      · obtain ⟨e2, h2⟩ := handleWrite_iso r1.1 r1.2
        exact ⟨_, h1.trans h2⟩
      · exact ⟨_, h1⟩
    generalize (if (ClientPf.cpRev c e &&& 2 != 0) = true then handleWrite r1.1 r1.2 else r1) = r2 at h2 ⊢
    obtain ⟨e3, h3⟩ := handleInput_iso r2.1 r2.2
    exact cpTail_iso w c _ _ (h2.trans h3)

end Pm.Daemon.Isolation
