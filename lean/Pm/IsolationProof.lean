import Pm.FrameEx
import Pm.ClientStream
import Pm.ReplyProof
import Pm.EnqProof
/-! Helper lemmas for C11 (clients are isolated from one another).

    1. routing, client half: `applyOuts` delivers a callback to the client whose id it carries and to nobody else, and what
       that client gets is a function of the callbacks carrying its id, its own record and its own arglist;
    2. the id discipline (`IdsFresh`);
    3. one command per client;
    4. the scope of a result (arglists);
    5. departure;
    6. the frame of one client's share of `cli_post_poll`. -/
namespace Pm.Daemon.Isolation
open Pm Pm.Client Pm.Daemon
open Pm.Dev2 (Dev Action ActErr Oracle outCid cell)
abbrev DOut := Pm.Dev2.Out

/-! ## 1. routing, client half -/

/-- the callback is addressed to client `g` -/
def mine (g : Nat) (o : DOut) : Bool := outCid o == some g

theorem mine_iff (g : Nat) (o : DOut) : mine g o = true ↔ outCid o = some g := by simp [mine]

/-- what `applyOuts` reads on behalf of client `g`: its record and, when it has a command, the arglist of that command -/
def OwnView (g : Nat) (w w' : W) : Prop :=
  cliRec w g = cliRec w' g ∧ ∀ c k, cliRec w g = some c → c.cmd = some k → storeArgs w k.al = storeArgs w' k.al

theorem OwnView.refl (g : Nat) (w : W) : OwnView g w w := ⟨rfl, fun _ _ _ _ => rfl⟩

theorem OwnView.symm {g : Nat} {w w' : W} (h : OwnView g w w') : OwnView g w' w :=
  ⟨h.1.symm, fun c k hc hk => (h.2 c k (h.1 ▸ hc) hk).symm⟩

theorem OwnView.trans {g : Nat} {a b c : W} (h1 : OwnView g a b) (h2 : OwnView g b c) : OwnView g a c :=
  ⟨h1.1.trans h2.1, fun x k hx hk => (h1.2 x k hx hk).trans (h2.2 x k (h1.1 ▸ hx) hk)⟩

/-- a world that differs only in the records of other clients and in other arglists looks the same to `g` -/
theorem OwnView.of_other {g : Nat} {w w' : W} (hc : cliRec w' g = cliRec w g) (hs : w'.store = w.store) : OwnView g w' w :=
  ⟨hc, fun _ _ _ _ => by simp [storeArgs, hs]⟩

/-- one callback addressed to somebody else: invisible to `g` -/
theorem applyOut_skip (name : Bytes) (acc : W × List String) (o : DOut) (g : Nat) (h : outCid o ≠ some g) :
    OwnView g (applyOut name acc o).1 acc.1 :=
  OwnView.of_other (applyOut_other name acc o g h) (applyOut_store name acc o)

theorem updCli_own (w w' : W) (g : Nat) (f : Cli → Cli) (hf : ∀ c, (f c).id = c.id) (hc : cliRec w g = cliRec w' g)
    (hcmd : ∀ c k', cliRec w g = some c → (f c).cmd = some k' → storeArgs w k'.al = storeArgs w' k'.al) :
    OwnView g (updCli w g f) (updCli w' g f) := by
  refine ⟨updCli_rel _ _ _ _ _ hf hc, ?_⟩
  intro c' k' hc' hk'
  rw [updCli_self _ _ _ hf] at hc'
  cases hq : cliRec w g with
  | none => rw [hq] at hc'; cases hc'
  | some c =>
    rw [hq] at hc'
    simp only [Option.map_some, Option.some.injEq] at hc'
    subst hc'
    exact hcmd c k' hq hk'

/-- `_act_finish` for client `g` itself reads `g`'s record and `g`'s arglist only -/
theorem actFinish_own (w w' : W) (g : Nat) (e : ActErr) (name : Bytes) (h : OwnView g w w') :
    OwnView g (actFinish w g e name).1 (actFinish w' g e name).1 := by
  obtain ⟨hc, hs⟩ := h
  have e1 : w.clients.find? (·.id == g) = cliRec w g := rfl
  have e2 : w'.clients.find? (·.id == g) = cliRec w' g := rfl
  unfold actFinish
  rw [e1, e2, ← hc]
  cases hq : cliRec w g with
  | none => exact ⟨hc, fun c k hcc => by rw [hq] at hcc; cases hcc⟩
  | some c =>
    have hid : c.id = g := by
      have : w.clients.find? (·.id == g) = some c := hq
      simpa using List.find?_some this
    dsimp only
    cases hk : c.cmd with
    | none => exact ⟨hc, fun c' k hcc hk' => hs c' k hcc hk'⟩
    | some k =>
      dsimp only
      have hst : storeArgs w k.al = storeArgs w' k.al := hs c k hq hk
      rw [← hst]
      split
      · split
        · rw [hid]
          refine updCli_own _ _ _ _ (fun _ => rfl) hc ?_
          intro c0 k' _ hk'
          simp [put] at hk'
        · exact ⟨hc, fun c' k' hcc hk' => hs c' k' hcc hk'⟩
      · rw [hid]
        refine updCli_own _ _ _ _ (fun _ => rfl) hc ?_
        intro c0 k' hc0 hk'
        rw [hq] at hc0
        cases hc0
        simp only [put, Option.some.injEq] at hk'
        subst hk'
        exact hst

/-- one callback, two worlds that look the same to `g`: they still do afterwards -/
theorem applyOut_same (name : Bytes) (acc acc' : W × List String) (o : DOut) (g : Nat) (h : OwnView g acc.1 acc'.1) :
    OwnView g (applyOut name acc o).1 (applyOut name acc' o).1 := by
  by_cases hm : outCid o = some g
  · obtain ⟨w, msgs⟩ := acc
    obtain ⟨w', msgs'⟩ := acc'
    cases o with
    | finish cid e =>
      have : cid = g := by simpa [outCid] using hm
      subst this
      exact actFinish_own w w' cid e name h
    | telemetry cid t =>
      have : cid = g := by simpa [outCid] using hm
      subst this
      exact updCli_own _ _ _ _ (fun _ => rfl) h.1 (fun c k' hc hk' => h.2 c k' hc hk')
    | diag cid t =>
      have : cid = g := by simpa [outCid] using hm
      subst this
      exact updCli_own _ _ _ _ (fun _ => rfl) h.1 (fun c k' hc hk' => h.2 c k' hc hk')
    | sent _ => exact h
    | rxMismatch _ _ => exact h
    | abortAssert _ => exact h
  · exact ((applyOut_skip name acc o g hm).trans h).trans (applyOut_skip name acc' o g hm).symm

/-- a run of callbacks against the run of only those addressed to `g` -/
theorem foldl_applyOut_filter (name : Bytes) (g : Nat) (outs : List DOut) (acc acc' : W × List String)
    (h : OwnView g acc.1 acc'.1) :
    OwnView g (outs.foldl (applyOut name) acc).1 ((outs.filter (mine g)).foldl (applyOut name) acc').1 := by
  induction outs generalizing acc acc' with
  | nil => exact h
  | cons o r ih =>
    rw [List.foldl_cons, List.filter_cons]
    by_cases hm : outCid o = some g
    · rw [if_pos ((mine_iff g o).mpr hm), List.foldl_cons]
      exact ih _ _ (applyOut_same name acc acc' o g h)
    · rw [if_neg (fun hh => hm ((mine_iff g o).mp hh))]
      exact ih _ _ ((applyOut_skip name acc o g hm).trans h)

/-- **client half of the routing invariant.**  Two runs of `applyOuts` for the same device: the worlds look the same to
    client `g` (same record of `g`, same arglist of `g`'s command) and the two callback lists contain the same callbacks
    addressed to `g`, in the same order — whatever else they contain, and whatever the other clients' records and
    arglists are.  Then `g`'s record is the same afterwards, and the worlds still look the same to `g`. -/
theorem applyOuts_own (w w' : W) (name : Bytes) (outs outs' : List DOut) (g : Nat) (hv : OwnView g w w')
    (hf : outs.filter (mine g) = outs'.filter (mine g)) :
    OwnView g (applyOuts w name outs).1 (applyOuts w' name outs').1 := by
  rw [Pm.Daemon.applyOuts_eq, Pm.Daemon.applyOuts_eq]
  have h1 := foldl_applyOut_filter name g outs (w, []) (w', []) hv
  have h2 := foldl_applyOut_filter name g outs' (w', []) (w', []) (OwnView.refl g w')
  rw [hf] at h1
  exact h1.trans h2.symm

/-- no callback carries `g`'s id: `g`'s record is not touched (and nothing but client records ever is) -/
theorem applyOuts_untouched (w : W) (name : Bytes) (outs : List DOut) (g : Nat) (h : ∀ x ∈ outs, outCid x ≠ some g) :
    cliRec (applyOuts w name outs).1 g = cliRec w g ∧ sansClients (applyOuts w name outs).1 = sansClients w :=
  ⟨applyOuts_other w name outs g h, applyOuts_sans w name outs⟩

/-! ### the same, position by position in the client table (so that it does not depend on ids being distinct) -/

theorem updCli_get (w : W) (id : Nat) (f : Cli → Cli) (i : Nat) :
    (updCli w id f).clients[i]? = (w.clients[i]?).map fun c => if c.id == id then f c else c := by
  simp [updCli]

theorem updCli_absent (w : W) (id : Nat) (f : Cli → Cli) (h : cliRec w id = none) : updCli w id f = w := by
  have hn : ∀ c ∈ w.clients, ¬ c.id = id := by
    intro c hc
    have := List.find?_eq_none.mp h c hc
    simpa using this
  unfold updCli
  have : (w.clients.map fun c => if c.id == id then f c else c) = w.clients := by
    conv => rhs; rw [← List.map_id w.clients]
    apply List.map_congr_left
    intro c hc
    simp [hn c hc]
  rw [this]

/-- `_act_finish` rewrites at most the records whose id it was called with, and keeps their id -/
theorem actFinish_upd (w : W) (id : Nat) (e : ActErr) (name : Bytes) :
    ∃ f : Cli → Cli, (∀ c, (f c).id = c.id) ∧ (actFinish w id e name).1 = updCli w id f := by
  have hidf : updCli w id (fun c => c) = w := by
    unfold updCli
    have : (w.clients.map fun c => if c.id == id then c else c) = w.clients := by
      conv => rhs; rw [← List.map_id w.clients]
      apply List.map_congr_left
      intro c _
      split <;> rfl
    rw [this]
  unfold actFinish
  split
  · exact ⟨fun c => c, fun _ => rfl, hidf.symm⟩
  · rename_i c hc
    have hid : c.id = id := by simpa using List.find?_some hc
    split
    · exact ⟨fun c => c, fun _ => rfl, hidf.symm⟩
    · dsimp only
      split
      · split
        · rw [hid]; refine ⟨_, ?_, rfl⟩; intro _; rfl
        · exact ⟨fun c => c, fun _ => rfl, hidf.symm⟩
      · rw [hid]; refine ⟨_, ?_, rfl⟩; intro _; rfl

theorem applyOut_upd (name : Bytes) (acc : W × List String) (o : DOut) :
    (applyOut name acc o).1 = acc.1 ∨
    ∃ id f, outCid o = some id ∧ (∀ c, (f c).id = c.id) ∧ (applyOut name acc o).1 = updCli acc.1 id f := by
  obtain ⟨w, msgs⟩ := acc
  cases o with
  | finish cid e =>
    obtain ⟨f, hf, h⟩ := actFinish_upd w cid e name
    exact Or.inr ⟨cid, f, rfl, hf, h⟩
  | telemetry cid t => refine Or.inr ⟨cid, _, rfl, ?_, rfl⟩; intro _; rfl
  | diag cid t => refine Or.inr ⟨cid, _, rfl, ?_, rfl⟩; intro _; rfl
  | sent _ => exact Or.inl rfl
  | rxMismatch _ _ => exact Or.inl rfl
  | abortAssert _ => exact Or.inl rfl

/-- the client table after a run of callbacks: same length, same ids position by position, and a record whose id no
    callback carries is exactly what it was -/
theorem foldl_applyOut_table (name : Bytes) (outs : List DOut) (acc : W × List String) (i : Nat) (c : Cli)
    (h : acc.1.clients[i]? = some c) :
    ∃ c', (outs.foldl (applyOut name) acc).1.clients[i]? = some c' ∧ c'.id = c.id ∧
      ((∀ x ∈ outs, outCid x ≠ some c.id) → c' = c) := by
  induction outs generalizing acc c with
  | nil => exact ⟨c, h, rfl, fun _ => rfl⟩
  | cons o r ih =>
    rw [List.foldl_cons]
    rcases applyOut_upd name acc o with e | ⟨id, f, ho, hf, e⟩
    · obtain ⟨c', h1, h2, h3⟩ := ih (applyOut name acc o) c (by rw [e]; exact h)
      exact ⟨c', h1, h2, fun hx => h3 (fun x hx' => hx x (by simp [hx']))⟩
    · have hget : (applyOut name acc o).1.clients[i]? = some (if c.id == id then f c else c) := by
        rw [e, updCli_get, h]; rfl
      obtain ⟨c', h1, h2, h3⟩ := ih (applyOut name acc o) _ hget
      have hid : (if c.id == id then f c else c).id = c.id := by split <;> simp [hf]
      refine ⟨c', h1, h2.trans hid, ?_⟩
      intro hx
      have hne : ¬ c.id = id := by
        intro hh
        exact hx o (by simp) (by rw [ho, hh])
      have hcc : (if c.id == id then f c else c) = c := by simp [hne]
      rw [hcc] at h3
      exact h3 (fun x hx' => hx x (by simp [hx']))

theorem applyOuts_table (w : W) (name : Bytes) (outs : List DOut) (i : Nat) (c : Cli) (h : w.clients[i]? = some c) :
    ∃ c', (applyOuts w name outs).1.clients[i]? = some c' ∧ c'.id = c.id ∧
      ((∀ x ∈ outs, outCid x ≠ some c.id) → c' = c) := by
  rw [Pm.Daemon.applyOuts_eq]
  exact foldl_applyOut_table name outs (w, []) i c h

theorem applyOuts_length (w : W) (name : Bytes) (outs : List DOut) :
    (applyOuts w name outs).1.clients.length = w.clients.length := by
  rw [Pm.Daemon.applyOuts_eq]
  have : ∀ (acc : W × List String), (outs.foldl (applyOut name) acc).1.clients.length = acc.1.clients.length := by
    induction outs with
    | nil => intro acc; rfl
    | cons o r ih =>
      intro acc
      rw [List.foldl_cons, ih]
      rcases applyOut_upd name acc o with e | ⟨id, f, _, _, e⟩
      · rw [e]
      · rw [e]; simp [updCli]
  exact this _

/-- callbacks for clients that are gone are dropped without touching anything -/
theorem applyOuts_absent (w : W) (name : Bytes) (outs : List DOut)
    (h : ∀ x ∈ outs, ∀ id, outCid x = some id → cliRec w id = none) : (applyOuts w name outs).1 = w := by
  rw [Pm.Daemon.applyOuts_eq]
  have : ∀ (acc : W × List String), acc.1 = w → (outs.foldl (applyOut name) acc).1 = w := by
    induction outs with
    | nil => intro acc ha; exact ha
    | cons o r ih =>
      intro acc ha
      rw [List.foldl_cons]
      apply ih (fun x hx => h x (by simp [hx]))
      rcases applyOut_upd name acc o with e | ⟨id, f, ho, _, e⟩
      · rw [e, ha]
      · rw [e, ha]; exact updCli_absent w id f (h o (by simp) id ho)
  exact this _ rfl

/-! ### routing through one device's share of the pass -/

theorem applyOuts_store (w : W) (name : Bytes) (outs : List DOut) : (applyOuts w name outs).1.store = w.store := by
  have := congrArg W.store (applyOuts_sans w name outs)
  simpa [sansClients] using this

/-- device half (all three callbacks): whatever `dev_post_poll` reports for device `nd` carries the client id of an action
    that was in `nd`'s queue when the pass began, or `0` (the internal login/ping actions, which belong to no client) -/
theorem devStep_addr (p : PassIn) (w : W) (o : Oracle) (nd : Bytes × Dev) :
    ∀ x ∈ (devStep p w o nd).2.2.1, ∀ cid, outCid x = some cid → cid = 0 ∨ ∃ a ∈ nd.2.acts, a.clientId = cid :=
  (devStep_frame (fun _ => false) (fun cid => cid = 0 ∨ ∃ a ∈ nd.2.acts, a.clientId = cid) (fun _ => True) p w o nd
    (fun _ _ _ _ => rfl) ⟨Or.inl rfl, trivial⟩ (fun a ha => ⟨Or.inr ⟨a, ha, rfl⟩, trivial⟩)).addr

theorem devPass_w (p : PassIn) (a : DevAcc) (nd : Bytes × Dev) (hd : a.dead = false) :
    (devPass p a nd).w =
      (applyOuts (afterStep a.w (devStep p a.w a.oracle nd).1) nd.1 (devStep p a.w a.oracle nd).2.2.1).1 := by
  rw [devPass_eq]; unfold devPass'; simp only [hd, Bool.false_eq_true, ↓reduceIte]

/-- both halves: after `devPass`, client `g`'s record is what `applyOuts` makes of the callbacks carrying `g`'s id alone -/
theorem devPass_routing (p : PassIn) (a : DevAcc) (nd : Bytes × Dev) (g : Nat) (hd : a.dead = false) :
    cliRec (devPass p a nd).w g =
      cliRec (applyOuts (afterStep a.w (devStep p a.w a.oracle nd).1) nd.1
        ((devStep p a.w a.oracle nd).2.2.1.filter (mine g))).1 g := by
  rw [devPass_w p a nd hd]
  exact (applyOuts_own _ _ nd.1 _ _ g (OwnView.refl g _) (by rw [List.filter_filter]; simp)).1

/-- two runs of one device's share of the pass from accumulators that differ in the *other* clients (their number, their
    records, their commands): client `g` ends with the same record -/
theorem devPass_own (p : PassIn) (a a' : DevAcc) (nd : Bytes × Dev) (g : Nat) (hd : a.dead = false) (hd' : a'.dead = false)
    (hc : cliRec a.w g = cliRec a'.w g) (hs : a.w.store = a'.w.store)
    (h1 : a.w.nsock = a'.w.nsock) (h2 : a.w.npair = a'.w.npair) (h3 : a.w.nfork = a'.w.nfork) (ho : a.oracle = a'.oracle) :
    cliRec (devPass p a nd).w g = cliRec (devPass p a' nd).w g ∧ (devPass p a nd).w.store = (devPass p a' nd).w.store := by
  rw [devPass_w p a nd hd, devPass_w p a' nd hd']
  have hstep : devStep p a.w a.oracle nd = devStep p a'.w a'.oracle nd := by
    rw [ho]; exact devStep_reads p p a.w a'.w a'.oracle nd hs h1 h2 h3 rfl rfl rfl (fun _ _ => rfl)
  rw [hstep]
  constructor
  · have hv : OwnView g (afterStep a.w (devStep p a'.w a'.oracle nd).1) (afterStep a'.w (devStep p a'.w a'.oracle nd).1) :=
      ⟨hc, fun _ _ _ _ => rfl⟩
    exact (applyOuts_own _ _ nd.1 _ _ g hv rfl).1
  · rw [applyOuts_store, applyOuts_store]; rfl

end Pm.Daemon.Isolation
